// C16 — untrusted bytes are decoded or rejected, never crash the node.
//
// Deterministic structure-aware mutation (mut.go, cborwalk.go) over valid
// seeds that the harness builds itself, fed to per-boundary executors
// (t_*.go, tx.go) in child processes. Oracle per input: no panic, no fatal
// error, no hang, allocation delta <= 256 MiB + 64*len(input); for the
// consensus transaction boundary additionally: the block completes, the
// following blocks execute and replicas agree.
package main

import (
	"bufio"
	"bytes"
	"encoding/hex"
	"encoding/json"
	"flag"
	"fmt"
	"os"
	"regexp"
	"runtime"
	"sort"
	"strings"
	"sync"
	"syscall"
	"time"

	"verif/engine/evid"
)

type job struct {
	Target string
	Batch  int
	From   int
	N      int
	// tx only
	Case *txCase
	// deterministic series
	Fixed         bool
	Shard, Shards int
}

type targetAgg struct {
	Inputs   int64  `json:"inputs"`
	OK       int64  `json:"decoded_or_accepted"`
	Rejected int64  `json:"rejected"`
	MaxAlloc uint64 `json:"max_alloc_bytes"`
	MaxNs    int64  `json:"max_time_ns"`
	SumNs    int64  `json:"sum_time_ns"`
	MaxLen   int    `json:"max_input_len"`
	Canaries int64  `json:"valid_seed_rechecks"`
	Errors   int    `json:"distinct_rejection_texts"`
	Ops      int    `json:"mutation_operators_used"`
	Triples  int    `json:"distinct_op_outcome_pairs"`
	Fatal    int    `json:"children_died"`
	Hangs    int    `json:"watchdog_firings"`
}

type parent struct {
	r       *evid.Run
	scratch string
	mu      sync.Mutex
	agg     map[string]*targetAgg
	errs    map[string]map[string]int64
	ops     map[string]map[string]struct{}
	trip    map[string]map[string]struct{}
	extra   map[string]int64
	samples int
}

func (p *parent) fold(st *batchStats) {
	if st == nil {
		return
	}
	p.mu.Lock()
	defer p.mu.Unlock()
	a := p.agg[st.Target]
	if a == nil {
		a = &targetAgg{}
		p.agg[st.Target] = a
		p.errs[st.Target] = map[string]int64{}
		p.ops[st.Target] = map[string]struct{}{}
		p.trip[st.Target] = map[string]struct{}{}
	}
	a.Inputs += st.Inputs
	a.OK += st.OK
	a.Rejected += st.Rejected
	a.SumNs += st.SumNs
	a.Canaries += st.Canaries
	if st.MaxAlloc > a.MaxAlloc {
		a.MaxAlloc = st.MaxAlloc
	}
	if st.MaxNs > a.MaxNs {
		a.MaxNs = st.MaxNs
	}
	if st.MaxLen > a.MaxLen {
		a.MaxLen = st.MaxLen
	}
	for e, n := range st.Errors {
		p.errs[st.Target][e] += n
	}
	for o := range st.Ops {
		p.ops[st.Target][o] = struct{}{}
	}
	for t := range st.Triples {
		p.trip[st.Target][t] = struct{}{}
		p.r.Nontrivial(st.Target + "|" + t)
	}
	for k, n := range st.Extra {
		p.extra[st.Target+"."+k] += n
	}
	p.r.Eval(int(st.Inputs))
	for _, s := range st.SampleHex {
		if p.samples < 12 {
			p.samples++
			p.r.Sample(s)
		}
	}
}

var fatalLine = regexp.MustCompile(`(?m)^(panic: .*|fatal error: .*|runtime: goroutine stack exceeds.*|unexpected fault address.*|SIGSEGV.*|signal: killed)$`)

// killedFromOutside: the child ended by SIGKILL and its output carries no fatal line of the Go
// runtime (which never kills itself with SIGKILL).
func killedFromOutside(res evid.ChildResult) bool {
	return !res.TimedOut && res.Signal == syscall.SIGKILL && fatalLine.Find(res.Out) == nil
}

func classifyDeath(out []byte, res evid.ChildResult) (kind, class string) {
	m := fatalLine.Find(out)
	switch {
	case m == nil && res.Signal != 0:
		return "fatal", fmt.Sprintf("signal-%d", int(res.Signal))
	case m == nil:
		return "fatal", fmt.Sprintf("exit-%d", res.ExitCode)
	}
	s := string(m)
	if strings.HasPrefix(s, "panic: ") {
		return "panic", panicClass(strings.TrimPrefix(s, "panic: "))
	}
	if strings.Contains(s, "stack exceeds") || strings.Contains(string(out), "fatal error: stack overflow") {
		return "fatal", "stack-overflow"
	}
	s = strings.TrimPrefix(s, "fatal error: ")
	if strings.HasPrefix(s, "checkptr") {
		return "fatal", "checkptr"
	}
	if strings.Contains(s, "out of memory") || strings.Contains(s, "cannot allocate") {
		return "fatal", "out-of-memory"
	}
	return "fatal", panicClass(s)
}

// deathStack extracts the stack of the dying goroutine from the child output.
func deathStack(out []byte) string {
	s := string(out)
	i := strings.LastIndex(s, "\npanic: ")
	if j := strings.LastIndex(s, "\nfatal error: "); j > i {
		i = j
	}
	if j := strings.Index(s, "runtime: goroutine stack exceeds"); j >= 0 && (i < 0 || j < i) {
		i = j
	}
	if i < 0 {
		if len(s) > 4000 {
			return s[len(s)-4000:]
		}
		return s
	}
	s = s[i:]
	// Only the first goroutine (the one that died).
	if k := strings.Index(s, "\ngoroutine "); k >= 0 {
		if k2 := strings.Index(s[k+1:], "\n\ngoroutine "); k2 >= 0 {
			s = s[:k+1+k2]
		}
	}
	return trimStack(s)
}

func parseRecs(out []byte) []childRec {
	var recs []childRec
	sc := bufio.NewScanner(bytes.NewReader(out))
	sc.Buffer(make([]byte, 1<<20), 256<<20)
	for sc.Scan() {
		line := sc.Text()
		i := strings.Index(line, recPrefix)
		if i < 0 {
			continue
		}
		var rec childRec
		if json.Unmarshal([]byte(line[i+len(recPrefix):]), &rec) == nil {
			recs = append(recs, rec)
		}
	}
	return recs
}

func (p *parent) childTimeout() time.Duration {
	if p.r.Quick() {
		return 25 * time.Minute
	}
	return 100 * time.Minute
}

// runBatch drives one batch of a decoder target through child processes,
// resuming after deaths and watchdog firings.
func (p *parent) runBatch(j job) {
	r := p.r
	from, end := j.From, j.From+j.N
	deaths := 0
	lastKillIdx, killsAtIdx, outsideKills := -1, 0, 0
	for from < end {
		// Enough witnesses: a tree that already produced ten violations is not explored further
		// (inputs that blow up memory or time make every further batch slower for no new verdict).
		if r.Violations() >= 10 {
			r.Count("batches_cut_short_after_10_violations", 1)
			return
		}
		args := []string{"-c16child", "-target", j.Target, "-seed", fmt.Sprint(r.Seed), "-batch", fmt.Sprint(j.Batch),
			"-from", fmt.Sprint(from), "-n", fmt.Sprint(end - from), "-scratch", p.scratch}
		args = append(args, fixedFlags(j)...)
		var res evid.ChildResult
		for attempt := 0; attempt < 3; attempt++ {
			res = evid.Child(args, nil, p.childTimeout())
			if !res.TimedOut {
				break
			}
		}
		if res.TimedOut {
			r.Inconclusive("%s batch %d from %d: child watchdog fired three times", j.Target, j.Batch, from)
			return
		}
		recs := parseRecs(res.Out)
		done := false
		next := from
		hangIdx := -1
		hangDump := ""
		for _, rec := range recs {
			switch rec.Kind {
			case "stats":
				p.fold(rec.Stats)
				if rec.Stats != nil {
					next = rec.Stats.Next
				}
			case "viol":
				r.Violation(rec.Sig, rec.What, rec.Witness)
			case "inconc":
				r.Inconclusive("%s batch %d: %s", j.Target, j.Batch, rec.Msg)
			case "hang":
				hangIdx, hangDump = rec.Index, rec.Msg
			case "done":
				done = true
			}
		}
		switch {
		case res.ExitCode == 3:
			return // set-up failure, already reported by the child's inconc record
		case done && res.ExitCode == 0:
			return
		case done && res.ExitCode == 66:
			return // race detector exit status; reports are collected from the logs
		case hangIdx >= 0:
			p.note(j.Target, func(a *targetAgg) { a.Hangs++ })
			_, in, ok := readProgress(progressPath(p.scratch, j.Target, j.Batch))
			hangs := 0
			for k := 0; k < 3; k++ {
				sres := evid.Child(append([]string{"-c16child", "-target", j.Target, "-seed", fmt.Sprint(r.Seed), "-batch", fmt.Sprint(j.Batch),
					"-from", fmt.Sprint(hangIdx), "-n", "1", "-scratch", p.scratch}, fixedFlags(j)...), nil, 10*time.Minute)
				fired := sres.TimedOut
				for _, rec := range parseRecs(sres.Out) {
					if rec.Kind == "hang" {
						fired = true
					}
					if rec.Kind == "viol" {
						r.Violation(rec.Sig, rec.What, rec.Witness)
					}
				}
				if fired {
					hangs++
				}
			}
			switch {
			case hangs == 3:
				w := map[string]any{"target": j.Target, "batch": j.Batch, "index": hangIdx, "goroutines": hangDump}
				if ok && in != nil {
					w = witnessOf(j.Target, j.Batch, hangIdx, in)
					w["goroutines"] = hangDump
				}
				w["limit_s"] = perInputLimit.Seconds()
				r.Violation(fmt.Sprintf("c16/%s/hang", j.Target), fmt.Sprintf("%s: input #%d of batch %d did not finish within %v (four times, three of them alone)", j.Target, hangIdx, j.Batch, perInputLimit), w)
			case hangs > 0:
				r.Inconclusive("%s batch %d input %d: per-input watchdog fired, and again in %d of 3 solo re-runs", j.Target, j.Batch, hangIdx, hangs)
			}
			from = hangIdx + 1
		default:
			// Killed from outside (see killedFromOutside): run the rest of the batch again, the
			// same input first; three such kills in a row at one input are reported.
			if killedFromOutside(res) {
				p.r.Count("children_killed_from_outside_and_rerun", 1)
				idx, _, ok := readProgress(progressPath(p.scratch, j.Target, j.Batch))
				if ok && idx >= from {
					if idx == lastKillIdx {
						killsAtIdx++
					} else {
						lastKillIdx, killsAtIdx = idx, 1
					}
					if killsAtIdx < 3 {
						from = idx
						continue
					}
				} else if outsideKills++; outsideKills < 3 {
					continue
				}
			}
			// The child died: attribute to the input it announced before dying.
			deaths++
			p.note(j.Target, func(a *targetAgg) { a.Fatal++ })
			idx, in, ok := readProgress(progressPath(p.scratch, j.Target, j.Batch))
			kind, class := classifyDeath(res.Out, res)
			stack := deathStack(res.Out)
			if !ok || idx < next-1 {
				r.Inconclusive("%s batch %d: child died (%s %s) without an announced input; output tail: %s", j.Target, j.Batch, kind, class, tail(res.Out, 600))
				return
			}
			w := witnessOf(j.Target, j.Batch, idx, in)
			w["death"] = kind + ": " + class
			w["stack"] = stack
			sig := fmt.Sprintf("c16/%s/%s/%s", j.Target, kind, class)
			if kind == "panic" {
				sig = fmt.Sprintf("c16/%s/panic/%s", j.Target, topFrame(stack))
			} else if class == "stack-overflow" {
				sig = fmt.Sprintf("c16/%s/fatal/stack-overflow/%s", j.Target, overflowFrame(res.Out))
			}
			r.Violation(sig, fmt.Sprintf("%s: input #%d (op %s, %d bytes) killed the process: %s %s", j.Target, idx, in.Op, len(in.Data), kind, class), w)
			// The dead child's statistics are lost: count its inputs without outcome details.
			if n := idx - next + 1; n > 0 {
				p.note(j.Target, func(a *targetAgg) { a.Inputs += int64(n) })
				r.Eval(n)
			}
			from = idx + 1
			if deaths >= 8 {
				r.Inconclusive("%s batch %d: gave up after %d child deaths (each reported)", j.Target, j.Batch, deaths)
				return
			}
		}
	}
}

func fixedFlags(j job) []string {
	if !j.Fixed {
		return nil
	}
	return []string{"-fixed", "-shard", fmt.Sprint(j.Shard), "-shards", fmt.Sprint(j.Shards)}
}

// overflowFrame names the function that recursed.
func overflowFrame(out []byte) string {
	s := string(out)
	i := strings.Index(s, "goroutine stack exceeds")
	if i < 0 {
		return "unknown"
	}
	s = s[i:]
	if k := strings.Index(s, "\ngoroutine "); k >= 0 {
		s = s[k:]
	}
	counts := map[string]int{}
	best, bestN := "unknown", 0
	for _, l := range strings.Split(s, "\n") {
		if l == "" || strings.HasPrefix(l, "\t") || strings.HasPrefix(l, "goroutine") || strings.HasPrefix(l, "...") {
			continue
		}
		fn := reFuncArgs.ReplaceAllString(strings.TrimSpace(l), "")
		if strings.HasPrefix(fn, "runtime.") {
			continue
		}
		fn = strings.TrimPrefix(fn, repoPrefix)
		counts[fn]++
		if counts[fn] > bestN {
			best, bestN = fn, counts[fn]
		}
	}
	return best
}

func tail(b []byte, n int) string {
	if len(b) > n {
		b = b[len(b)-n:]
	}
	return string(b)
}

func (p *parent) note(target string, f func(a *targetAgg)) {
	p.mu.Lock()
	defer p.mu.Unlock()
	a := p.agg[target]
	if a == nil {
		a = &targetAgg{}
		p.agg[target] = a
		p.errs[target] = map[string]int64{}
		p.ops[target] = map[string]struct{}{}
		p.trip[target] = map[string]struct{}{}
	}
	f(a)
}

func childEntry(args []string) {
	fs := flag.NewFlagSet("c16child", flag.ExitOnError)
	target := fs.String("target", "", "")
	seed := fs.Int64("seed", 1, "")
	batch := fs.Int("batch", 0, "")
	from := fs.Int("from", 0, "")
	n := fs.Int("n", 0, "")
	scratch := fs.String("scratch", os.TempDir(), "")
	solo := fs.String("solo", "", "file with one input (replay)")
	fixed := fs.Bool("fixed", false, "deterministic series")
	shard := fs.Int("shard", 0, "")
	shards := fs.Int("shards", 1, "")
	txcase := fs.String("txcase", "", "tx case json")
	_ = fs.Parse(args)
	// A decoder that needs more than this much stack for an input of at most
	// 256 KiB recurses without bound (legitimate recursion is bounded by the
	// decoders' own depth limits: 32 CBOR levels, 128 proof levels).
	setStackLimit()
	if *target == "tx" {
		txChildMain(*txcase, *scratch)
		return
	}
	var soloIn *Input
	if *solo != "" {
		b, err := os.ReadFile(*solo)
		if err != nil {
			fmt.Fprintln(os.Stderr, err)
			os.Exit(3)
		}
		var w struct {
			Hex string `json:"input_hex"`
			Aux string `json:"aux"`
			Op  string `json:"op"`
		}
		if err := json.Unmarshal(b, &w); err != nil {
			fmt.Fprintln(os.Stderr, err)
			os.Exit(3)
		}
		data, _ := hex.DecodeString(w.Hex)
		soloIn = &Input{Data: data, Aux: w.Aux, Op: w.Op}
		*n = 1
	}
	childMain(*target, *seed, *batch, *from, *n, *scratch, soloIn, fixedArgs{on: *fixed && soloIn == nil, shard: *shard, shards: *shards})
	os.Exit(0)
}

func main() {
	if len(os.Args) > 1 && os.Args[1] == "-c16child" {
		childEntry(os.Args[2:])
		return
	}
	r := evid.Start("C16", "exploration")
	p := &parent{r: r, scratch: r.Scratch(), agg: map[string]*targetAgg{}, errs: map[string]map[string]int64{}, ops: map[string]map[string]struct{}{},
		trip: map[string]map[string]struct{}{}, extra: map[string]int64{}}
	r.Rule = "inputs are mutants of valid encodings the harness builds itself (signed transactions of a live chain, MKVS nodes/proofs/checkpoint chunks/write logs, commitments, descriptors, attestation vectors, host-protocol frames); " +
		"each mutant is derived by 1-3 stacked operators (bit flip, byte set/insert/delete, truncate, extend, chunk duplicate/swap, crossover, integer overwrite, binary length-field rewrite, CBOR length rewrite, huge declared size, depth bomb, duplicate map key, indefinite length, tag, list duplicate/delete/reorder/splice, map delete/add, null/empty/type/integer/float substitution, key rename, recursion into embedded byte strings) from a PRNG keyed by (seed, target, batch, index); " +
		"oracle per input: no panic, no fatal error, no hang, allocation <= 256 MiB + 64*len; every 256 inputs the valid seeds are re-run and must be processed as before; " +
		"non-trivial distinct = distinct (target, first operator, outcome class) triples observed, outcome class = ok or the normalised rejection text"
	r.Assume("allocation is measured as the runtime.MemStats.TotalAlloc delta around the call in a child that runs one input at a time; background goroutines of badger add noise far below the limit")
	r.Assume("a fatal error that kills a child is attributed to the input the child wrote to its progress file immediately before the call")
	r.Assume(fmt.Sprintf("children run with debug.SetMaxStack(%d MiB), more than 100 times what the deepest legitimate recursion was measured to need (128 proof levels: 64 KiB); recursion that needs more for an input of at most 256 KiB is not bounded by the decoders' depth limits and is reported as stack-overflow (a scaled-down stand-in for the 1 GiB default limit and network-sized inputs)", stackLimitMiB))
	r.Assume("only the listed entry points are driven; nothing is claimed about other decoders or about inputs larger than the per-target size bound")

	if r.ReplayFile != "" {
		p.replay(r.ReplayFile)
		return
	}

	perTarget := r.Pick(20000, 2000000)
	batchSize := r.Pick(1250, 12500)
	var jobs []job
	for _, c := range txCases(r) {
		c := c
		jobs = append(jobs, job{Target: "tx", Batch: c.Index, Case: &c})
	}
	for _, t := range targetOrder {
		n := perTarget
		if f, ok := targetScale[t]; ok && !r.Quick() {
			n = int(float64(n) * f)
		}
		for b, from := 0, 0; from < n; b, from = b+1, from+batchSize {
			jobs = append(jobs, job{Target: t, Batch: b, From: 0, N: min(batchSize, n-from)})
		}
	}
	// The deterministic boundary series of the decoder targets (same in both tiers).
	for _, t := range targetOrder {
		k := fixedShards[t]
		for sh := 0; sh < k; sh++ {
			jobs = append(jobs, job{Target: t, Batch: 100000 + sh, From: 0, N: 1 << 30, Fixed: true, Shard: sh, Shards: k})
		}
	}
	if only := os.Getenv("C16_ONLY"); only != "" {
		// Development aid (not used by run.sh): restrict the run to some targets.
		var keep []job
		for _, j := range jobs {
			if strings.Contains(","+only+",", ","+j.Target+",") {
				keep = append(keep, j)
			}
		}
		jobs = keep
	}
	// Slow targets first.
	sort.SliceStable(jobs, func(i, j int) bool { return targetWeight(jobs[i].Target) > targetWeight(jobs[j].Target) })
	evid.Parallel(len(jobs), runtime.NumCPU(), func(i int) {
		if jobs[i].Target == "tx" {
			p.runTxCase(jobs[i])
			return
		}
		p.runBatch(jobs[i])
	})
	p.finish()
}

// targetScale scales the thorough-tier size of slow targets (quick tier is 20 000 for all).
var targetScale = map[string]float64{"writelog": 0.25, "hostproto": 0.25, "descriptor": 0.5, "chunk": 0.5, "sgx": 0.5}

// fixedShards is the number of child processes the deterministic series of a target is split over.
var fixedShards = map[string]int{"node": 4, "proof": 4, "writelog": 4, "commitment": 2, "descriptor": 8, "sgx": 16, "hostproto": 8}

func targetWeight(t string) int {
	switch t {
	case "tx":
		return 10
	case "chunk", "writelog", "sgx", "hostproto":
		return 5
	}
	return 1
}

func (p *parent) finish() {
	r := p.r
	for _, rr := range evid.RaceReports(raceLogPrefix()) {
		key := rr.Key
		if parts := strings.Split(key, "|"); len(parts) > 2 {
			key = strings.Join(parts[:2], "~")
		}
		key = strings.ReplaceAll(key, repoPrefix, "")
		r.Violation("c16/race/"+key, "data race reported by the Go race detector while feeding mutants", map[string]any{"report": rr.Text, "count": rr.Count})
	}
	p.mu.Lock()
	names := []string{"tx"}
	names = append(names, targetOrder...)
	per := map[string]*targetAgg{}
	topErrs := map[string][]string{}
	for _, t := range names {
		a := p.agg[t]
		if a == nil {
			a = &targetAgg{}
		}
		a.Errors = len(p.errs[t])
		a.Ops = len(p.ops[t])
		a.Triples = len(p.trip[t])
		per[t] = a
		r.Count(t+".inputs", a.Inputs)
		r.Count(t+".decoded_or_accepted", a.OK)
		r.Count(t+".rejected", a.Rejected)
		type kv struct {
			k string
			n int64
		}
		var es []kv
		for k, n := range p.errs[t] {
			es = append(es, kv{k, n})
		}
		sort.Slice(es, func(i, j int) bool { return es[i].n > es[j].n || (es[i].n == es[j].n && es[i].k < es[j].k) })
		for i := 0; i < len(es) && i < 12; i++ {
			topErrs[t] = append(topErrs[t], fmt.Sprintf("%d x %s", es[i].n, es[i].k))
		}
	}
	for k, n := range p.extra {
		r.Count(k, n)
	}
	p.mu.Unlock()
	r.Set("per_target", per)
	r.Set("most_frequent_rejections", topErrs)
	r.Set("operators", OpNames())
	floor := 0
	for _, t := range names {
		a := per[t]
		switch {
		case a.Inputs < 1000:
			r.Inconclusive("target %s executed only %d inputs (floor 1000)", t, a.Inputs)
		case a.OK == 0 || a.Rejected == 0:
			r.Inconclusive("target %s: inputs=%d accepted=%d rejected=%d: both outcomes must be observed", t, a.Inputs, a.OK, a.Rejected)
		}
		floor += 20
	}
	r.Finish(floor)
}

func raceLogPrefix() string {
	// run.sh sets GORACE="halt_on_error=0 log_path=<scratch>/race"; children inherit it.
	for _, f := range strings.Fields(os.Getenv("GORACE")) {
		if strings.HasPrefix(f, "log_path=") {
			return strings.TrimPrefix(f, "log_path=")
		}
	}
	return "/nonexistent-race-log"
}

// replay re-runs the input(s) of a witness file on its target.
func (p *parent) replay(path string) {
	r := p.r
	b, err := os.ReadFile(path)
	if err != nil {
		fmt.Fprintln(os.Stderr, "replay:", err)
		os.Exit(2)
	}
	var doc struct {
		Signature string          `json:"signature"`
		Seed      int64           `json:"seed"`
		Witness   json.RawMessage `json:"witness"`
	}
	if err := json.Unmarshal(b, &doc); err != nil {
		fmt.Fprintln(os.Stderr, "replay:", err)
		os.Exit(2)
	}
	var w struct {
		Target string            `json:"target"`
		Batch  int               `json:"batch"`
		Index  int               `json:"index"`
		Hex    string            `json:"input_hex"`
		Aux    string            `json:"aux"`
		Case   *txCase           `json:"case"`
		Window []json.RawMessage `json:"window"`
	}
	_ = json.Unmarshal(doc.Witness, &w)
	r.Seed = doc.Seed
	fmt.Printf("REPLAY %s target=%s signature=%s\n", path, w.Target, doc.Signature)
	switch {
	case w.Target == "tx" && w.Case != nil:
		// The history is re-executed with the same generated inputs; the recorded bytes are
		// injected at the recorded index.
		if w.Hex != "" {
			w.Case.Override = map[int]string{w.Index: w.Hex}
		}
		p.runTxCase(job{Target: "tx", Batch: w.Case.Index, Case: w.Case})
	case len(w.Window) > 0:
		// Re-run the whole batch prefix up to the end of the window (deterministic).
		var last struct {
			To int `json:"to"`
		}
		_ = json.Unmarshal(doc.Witness, &last)
		p.runBatch(job{Target: w.Target, Batch: w.Batch, From: 0, N: last.To + 1})
	case w.Hex != "" || strings.Contains(w.Aux, "script="):
		// (peer scripts are described by aux alone)
		f := p.scratch + "/solo.json"
		_ = os.WriteFile(f, doc.Witness, 0o644)
		res := evid.Child([]string{"-c16child", "-target", w.Target, "-seed", fmt.Sprint(doc.Seed), "-batch", fmt.Sprint(w.Batch), "-from", fmt.Sprint(w.Index),
			"-n", "1", "-scratch", p.scratch, "-solo", f}, nil, 15*time.Minute)
		done := false
		for _, rec := range parseRecs(res.Out) {
			switch rec.Kind {
			case "stats":
				p.fold(rec.Stats)
			case "viol":
				r.Violation(rec.Sig, rec.What, rec.Witness)
			case "hang":
				r.Violation(fmt.Sprintf("c16/%s/hang", w.Target), "replayed input did not finish within the per-input limit", map[string]any{"goroutines": rec.Msg})
			case "done":
				done = true
			}
		}
		if !done && r.Violations() == 0 {
			kind, class := classifyDeath(res.Out, res)
			stack := deathStack(res.Out)
			sig := fmt.Sprintf("c16/%s/%s/%s", w.Target, kind, class)
			if kind == "panic" {
				sig = fmt.Sprintf("c16/%s/panic/%s", w.Target, topFrame(stack))
			} else if class == "stack-overflow" {
				sig = fmt.Sprintf("c16/%s/fatal/stack-overflow/%s", w.Target, overflowFrame(res.Out))
			}
			r.Violation(sig, "replayed input killed the process: "+kind+" "+class, map[string]any{"stack": stack})
		}
	default:
		fmt.Fprintln(os.Stderr, "replay: witness has no input")
		os.Exit(2)
	}
	r.Nontrivial("replay-1")
	r.Nontrivial("replay-2")
	r.Finish(2)
}
