package main

import (
	"encoding/binary"
	"math/rand/v2"
)

// Deterministic structure-aware mutation engine (DESIGN.md E3 "mutlab").
// All randomness comes from the *rand.Rand handed in, which the caller derives
// from (run seed, target, batch, input index).

// LenField marks a length/count field of a hand-written binary format.
type LenField struct {
	Off, Width int
	BE         bool
}

// Seed is one valid encoding produced by the harness.
type Seed struct {
	Name      string
	Data      []byte
	CBOR      bool       // structure-aware CBOR operators apply
	LenFields []LenField // known length fields of binary formats
	Aux       string     // target-specific hint handed back to the executor
}

var interesting64 = []uint64{0, 1, 2, 0x17, 0x18, 0x7f, 0x80, 0xff, 0x100, 0x7fff, 0x8000, 0xffff, 0x10000, 0x7fffffff, 0x80000000, 0xffffffff,
	0x100000000, 0x7fffffffffffffff, 0x8000000000000000, 0xffffffffffffffff}

func splice(b []byte, off, end int, repl []byte) []byte {
	out := make([]byte, 0, len(b)-(end-off)+len(repl))
	out = append(out, b[:off]...)
	out = append(out, repl...)
	out = append(out, b[end:]...)
	return out
}

func randBytes(rng *rand.Rand, n int) []byte {
	o := make([]byte, n)
	for i := range o {
		o[i] = byte(rng.Uint32())
	}
	return o
}

// --- byte-level operators ---------------------------------------------------

type byteOp struct {
	name string
	f    func(rng *rand.Rand, b []byte, s *Seed, corpus []*Seed) []byte
}

var byteOps = []byteOp{
	{"bitflip", func(rng *rand.Rand, b []byte, _ *Seed, _ []*Seed) []byte {
		if len(b) == 0 {
			return []byte{byte(rng.Uint32())}
		}
		o := append([]byte(nil), b...)
		n := 1 + rng.IntN(3)
		for i := 0; i < n; i++ {
			o[rng.IntN(len(o))] ^= 1 << uint(rng.IntN(8))
		}
		return o
	}},
	{"byteset", func(rng *rand.Rand, b []byte, _ *Seed, _ []*Seed) []byte {
		if len(b) == 0 {
			return []byte{0xff}
		}
		o := append([]byte(nil), b...)
		vals := []byte{0x00, 0xff, 0x7f, 0x80, 0x01, 0x1f, 0x3f, 0x5f, 0x7b, 0x9f, 0xbf, 0xdf, 0xf6, 0xf7, 0xfb, 0x18, 0x19, 0x1a, 0x1b}
		v := vals[rng.IntN(len(vals))]
		if rng.IntN(3) == 0 {
			v = byte(rng.Uint32())
		}
		o[rng.IntN(len(o))] = v
		return o
	}},
	{"byteinsert", func(rng *rand.Rand, b []byte, _ *Seed, _ []*Seed) []byte {
		off := rng.IntN(len(b) + 1)
		n := 1 + rng.IntN(8)
		ins := randBytes(rng, n)
		if rng.IntN(2) == 0 {
			for i := range ins {
				ins[i] = []byte{0x00, 0xff, 0x80}[rng.IntN(3)]
			}
		}
		return splice(b, off, off, ins)
	}},
	{"bytedelete", func(rng *rand.Rand, b []byte, _ *Seed, _ []*Seed) []byte {
		if len(b) == 0 {
			return b
		}
		off := rng.IntN(len(b))
		n := 1 + rng.IntN(min(16, len(b)-off))
		return splice(b, off, off+n, nil)
	}},
	{"truncate", func(rng *rand.Rand, b []byte, _ *Seed, _ []*Seed) []byte {
		if len(b) == 0 {
			return b
		}
		switch rng.IntN(4) {
		case 0:
			return append([]byte(nil), b[:len(b)-1]...)
		case 1:
			return append([]byte(nil), b[:rng.IntN(min(len(b), 8)+1)]...)
		default:
			return append([]byte(nil), b[:rng.IntN(len(b))]...)
		}
	}},
	{"extend", func(rng *rand.Rand, b []byte, _ *Seed, _ []*Seed) []byte {
		n := 1 + rng.IntN(64)
		if rng.IntN(6) == 0 {
			n = 1 + rng.IntN(4096)
		}
		var ext []byte
		switch rng.IntN(4) {
		case 0:
			ext = make([]byte, n)
		case 1:
			ext = randBytes(rng, n)
		case 2:
			ext = make([]byte, n)
			for i := range ext {
				ext[i] = 0xff
			}
		default:
			if len(b) > 0 {
				t := b[len(b)-min(len(b), n):]
				ext = append([]byte(nil), t...)
			} else {
				ext = []byte{0}
			}
		}
		return append(append([]byte(nil), b...), ext...)
	}},
	{"chunkdup", func(rng *rand.Rand, b []byte, _ *Seed, _ []*Seed) []byte {
		if len(b) < 2 {
			return append(append([]byte(nil), b...), b...)
		}
		off := rng.IntN(len(b) - 1)
		n := 1 + rng.IntN(min(64, len(b)-off))
		times := 1 + rng.IntN(3)
		var rep []byte
		for i := 0; i < times; i++ {
			rep = append(rep, b[off:off+n]...)
		}
		return splice(b, off, off, rep)
	}},
	{"chunkswap", func(rng *rand.Rand, b []byte, _ *Seed, _ []*Seed) []byte {
		if len(b) < 4 {
			return b
		}
		n := 1 + rng.IntN(min(32, len(b)/2))
		i := rng.IntN(len(b) - 2*n + 1)
		j := i + n + rng.IntN(len(b)-i-2*n+1)
		o := append([]byte(nil), b...)
		copy(o[i:i+n], b[j:j+n])
		copy(o[j:j+n], b[i:i+n])
		return o
	}},
	{"crossover", func(rng *rand.Rand, b []byte, _ *Seed, corpus []*Seed) []byte {
		if len(corpus) == 0 {
			return b
		}
		o := corpus[rng.IntN(len(corpus))].Data
		if len(o) == 0 || len(b) == 0 {
			return b
		}
		cut := rng.IntN(len(b))
		cut2 := rng.IntN(len(o))
		if rng.IntN(2) == 0 {
			// overwrite a window with bytes from the other seed
			n := 1 + rng.IntN(min(64, len(o)-cut2))
			r := append([]byte(nil), b...)
			copy(r[cut:], o[cut2:cut2+n])
			return r
		}
		return append(append([]byte(nil), b[:cut]...), o[cut2:]...)
	}},
	{"intwrite", func(rng *rand.Rand, b []byte, _ *Seed, _ []*Seed) []byte {
		w := []int{1, 2, 4, 8}[rng.IntN(4)]
		if len(b) < w {
			return b
		}
		o := append([]byte(nil), b...)
		off := rng.IntN(len(b) - w + 1)
		v := interesting64[rng.IntN(len(interesting64))]
		if rng.IntN(4) == 0 {
			v = uint64(len(b)) + uint64(rng.IntN(5)) - 2
		}
		writeInt(o[off:], w, rng.IntN(2) == 0, v)
		return o
	}},
	{"lenfield", func(rng *rand.Rand, b []byte, s *Seed, _ []*Seed) []byte {
		if s == nil || len(s.LenFields) == 0 {
			return nil
		}
		lf := s.LenFields[rng.IntN(len(s.LenFields))]
		if lf.Off+lf.Width > len(b) {
			return nil
		}
		o := append([]byte(nil), b...)
		cur := readInt(b[lf.Off:], lf.Width, lf.BE)
		var v uint64
		switch rng.IntN(8) {
		case 0:
			v = cur + 1
		case 1:
			v = cur - 1
		case 2:
			v = 0
		case 3:
			v = ^uint64(0)
		case 4:
			v = uint64(len(b))
		case 5:
			v = cur + uint64(1+rng.IntN(64))
		case 6:
			v = uint64(1) << uint(rng.IntN(8*lf.Width))
		default:
			v = interesting64[rng.IntN(len(interesting64))]
		}
		writeInt(o[lf.Off:], lf.Width, lf.BE, v)
		return o
	}},
}

func writeInt(b []byte, w int, be bool, v uint64) {
	switch w {
	case 1:
		b[0] = byte(v)
	case 2:
		if be {
			binary.BigEndian.PutUint16(b, uint16(v))
		} else {
			binary.LittleEndian.PutUint16(b, uint16(v))
		}
	case 4:
		if be {
			binary.BigEndian.PutUint32(b, uint32(v))
		} else {
			binary.LittleEndian.PutUint32(b, uint32(v))
		}
	case 8:
		if be {
			binary.BigEndian.PutUint64(b, v)
		} else {
			binary.LittleEndian.PutUint64(b, v)
		}
	}
}

func readInt(b []byte, w int, be bool) uint64 {
	switch w {
	case 1:
		return uint64(b[0])
	case 2:
		if be {
			return uint64(binary.BigEndian.Uint16(b))
		}
		return uint64(binary.LittleEndian.Uint16(b))
	case 4:
		if be {
			return uint64(binary.BigEndian.Uint32(b))
		}
		return uint64(binary.LittleEndian.Uint32(b))
	case 8:
		if be {
			return binary.BigEndian.Uint64(b)
		}
		return binary.LittleEndian.Uint64(b)
	}
	return 0
}

// --- CBOR-aware operators -----------------------------------------------------

type cborOp struct {
	name string
	// f returns nil if the operator is not applicable to this input.
	f func(m *Mutator, rng *rand.Rand, b []byte, items []cborItem, corpus []*Seed) []byte
}

func pickItem(rng *rand.Rand, items []cborItem, pred func(*cborItem) bool) int {
	n := 0
	sel := -1
	for i := range items {
		if pred(&items[i]) {
			n++
			if rng.IntN(n) == 0 {
				sel = i
			}
		}
	}
	return sel
}

func hasLen(it *cborItem) bool { return it.major >= 2 && it.major <= 5 && !it.indef }

// randomItemBytes returns the bytes of a random item of a random corpus seed (or of b itself).
func randomItemBytes(rng *rand.Rand, b []byte, items []cborItem, corpus []*Seed) []byte {
	if len(corpus) > 0 && rng.IntN(2) == 0 {
		o := corpus[rng.IntN(len(corpus))]
		if o.CBOR {
			if its, ok := cborParseExact(o.Data); ok {
				it := its[rng.IntN(len(its))]
				return o.Data[it.off:it.end]
			}
		}
	}
	it := items[rng.IntN(len(items))]
	return b[it.off:it.end]
}

var cborOps []cborOp

func init() {
	cborOps = []cborOp{
		{"len-rewrite", func(_ *Mutator, rng *rand.Rand, b []byte, items []cborItem, _ []*Seed) []byte {
			i := pickItem(rng, items, hasLen)
			if i < 0 {
				return nil
			}
			it := items[i]
			var v uint64
			switch rng.IntN(7) {
			case 0:
				v = it.arg + 1
			case 1:
				v = it.arg - 1
			case 2:
				v = 0
			case 3:
				v = it.arg * 2
			case 4:
				v = it.arg + uint64(1+rng.IntN(300))
			case 5:
				v = uint64(rng.IntN(0x10000))
			default:
				v = it.arg // same value, non-minimal head
			}
			w := []int{0, 0, 1, 2, 4, 8}[rng.IntN(6)]
			return splice(b, it.off, it.off+it.headLen, cborHead(it.major, v, w))
		}},
		{"huge-size", func(_ *Mutator, rng *rand.Rand, b []byte, items []cborItem, _ []*Seed) []byte {
			i := pickItem(rng, items, hasLen)
			if i < 0 {
				return nil
			}
			it := items[i]
			huge := []uint64{1 << 16, 1 << 20, 9_999_999, 10_000_000, 10_000_001, 1 << 24, 1<<31 - 1, 1 << 31, 1<<32 - 1, 1 << 32, 1 << 40, 1<<62 - 1, 1<<63 - 1, 1 << 63, ^uint64(0)}
			v := huge[rng.IntN(len(huge))]
			out := splice(b, it.off, it.off+it.headLen, cborHead(it.major, v, 0))
			if rng.IntN(3) == 0 {
				// drop everything after the head: a bare head declaring a huge size
				out = out[:it.off+len(cborHead(it.major, v, 0))]
			}
			return out
		}},
		{"depth-bomb", func(m *Mutator, rng *rand.Rand, b []byte, items []cborItem, _ []*Seed) []byte {
			i := rng.IntN(len(items))
			it := items[i]
			depths := []int{4, 15, 16, 17, 31, 32, 33, 64, 65, 128, 129, 256, 1000, 5000}
			d := depths[rng.IntN(len(depths))]
			if rng.IntN(8) == 0 {
				d = max(1, (m.MaxLen-len(b))/2)
			}
			room := m.MaxLen - (len(b) - (it.end - it.off))
			var wrap []byte
			kind := rng.IntN(5)
			unit := 1
			if kind == 2 {
				unit = 2
			}
			if d*unit > room-1 {
				d = max(1, (room-1)/unit)
			}
			for j := 0; j < d; j++ {
				switch kind {
				case 0:
					wrap = append(wrap, 0x81) // array(1)
				case 1:
					wrap = append(wrap, 0xc1) // tag(1)
				case 2:
					wrap = append(wrap, 0xa1, 0x00) // map{0: ...}
				case 3:
					wrap = append(wrap, 0x9f) // indefinite array (no breaks: malformed tail)
				default:
					wrap = append(wrap, []byte{0x81, 0xa1, 0xc1, 0x82, 0x9f, 0xbf, 0xd8}[rng.IntN(7)])
				}
			}
			inner := b[it.off:it.end]
			if rng.IntN(2) == 0 {
				inner = []byte{0x00}
			}
			return splice(b, it.off, it.end, append(wrap, inner...))
		}},
		{"dup-map-key", func(_ *Mutator, rng *rand.Rand, b []byte, items []cborItem, _ []*Seed) []byte {
			i := pickItem(rng, items, func(it *cborItem) bool { return it.major == 5 && !it.indef && len(it.children) >= 2 })
			if i < 0 {
				return nil
			}
			it := items[i]
			p := rng.IntN(len(it.children) / 2)
			k, v := items[it.children[2*p]], items[it.children[2*p+1]]
			pair := append([]byte(nil), b[k.off:v.end]...)
			if rng.IntN(2) == 0 {
				// same key, different value
				pair = append(append([]byte(nil), b[k.off:k.end]...), 0xf6)
			}
			at := v.end
			if rng.IntN(2) == 0 {
				at = items[it.children[len(it.children)-1]].end
			}
			out := splice(b, at, at, pair)
			return splice(out, it.off, it.off+it.headLen, cborHead(5, it.arg+1, 0))
		}},
		{"indefinite", func(_ *Mutator, rng *rand.Rand, b []byte, items []cborItem, _ []*Seed) []byte {
			i := pickItem(rng, items, hasLen)
			if i < 0 {
				return nil
			}
			it := items[i]
			body := b[it.off+it.headLen : it.end]
			var rep []byte
			rep = append(rep, it.major<<5|31)
			if it.major == 2 || it.major == 3 {
				// one definite chunk (or two)
				if len(body) > 1 && rng.IntN(2) == 0 {
					h := len(body) / 2
					rep = append(rep, cborHead(it.major, uint64(h), 0)...)
					rep = append(rep, body[:h]...)
					rep = append(rep, cborHead(it.major, uint64(len(body)-h), 0)...)
					rep = append(rep, body[h:]...)
				} else {
					rep = append(rep, cborHead(it.major, uint64(len(body)), 0)...)
					rep = append(rep, body...)
				}
			} else {
				rep = append(rep, body...)
			}
			if rng.IntN(5) != 0 {
				rep = append(rep, 0xff)
			}
			return splice(b, it.off, it.end, rep)
		}},
		{"tag-insert", func(_ *Mutator, rng *rand.Rand, b []byte, items []cborItem, _ []*Seed) []byte {
			it := items[rng.IntN(len(items))]
			tags := []uint64{0, 1, 2, 3, 4, 5, 21, 24, 32, 55799, 1 << 32, ^uint64(0)}
			t := tags[rng.IntN(len(tags))]
			if rng.IntN(4) == 0 {
				t = uint64(rng.IntN(300))
			}
			return splice(b, it.off, it.off, cborHead(6, t, 0))
		}},
		{"list-dup", func(_ *Mutator, rng *rand.Rand, b []byte, items []cborItem, _ []*Seed) []byte {
			i := pickItem(rng, items, func(it *cborItem) bool { return it.major == 4 && !it.indef && len(it.children) >= 1 })
			if i < 0 {
				return nil
			}
			it := items[i]
			c := items[it.children[rng.IntN(len(it.children))]]
			times := 1
			if rng.IntN(4) == 0 {
				times = 2 + rng.IntN(40)
			}
			var rep []byte
			for j := 0; j < times; j++ {
				rep = append(rep, b[c.off:c.end]...)
			}
			at := []int{c.end, items[it.children[len(it.children)-1]].end, items[it.children[0]].off}[rng.IntN(3)]
			out := splice(b, at, at, rep)
			return splice(out, it.off, it.off+it.headLen, cborHead(4, it.arg+uint64(times), 0))
		}},
		{"list-del", func(_ *Mutator, rng *rand.Rand, b []byte, items []cborItem, _ []*Seed) []byte {
			i := pickItem(rng, items, func(it *cborItem) bool { return it.major == 4 && !it.indef && len(it.children) >= 1 })
			if i < 0 {
				return nil
			}
			it := items[i]
			c := items[it.children[rng.IntN(len(it.children))]]
			out := splice(b, c.off, c.end, nil)
			return splice(out, it.off, it.off+it.headLen, cborHead(4, it.arg-1, 0))
		}},
		{"list-reorder", func(_ *Mutator, rng *rand.Rand, b []byte, items []cborItem, _ []*Seed) []byte {
			i := pickItem(rng, items, func(it *cborItem) bool {
				return (it.major == 4 && len(it.children) >= 2) || (it.major == 5 && len(it.children) >= 4)
			})
			if i < 0 {
				return nil
			}
			it := items[i]
			step := 1
			if it.major == 5 {
				step = 2 // swap whole pairs (non-canonical key order)
			}
			n := len(it.children) / step
			x, y := rng.IntN(n), rng.IntN(n)
			if x == y {
				y = (x + 1) % n
			}
			if x > y {
				x, y = y, x
			}
			xs, xe := items[it.children[x*step]].off, items[it.children[x*step+step-1]].end
			ys, ye := items[it.children[y*step]].off, items[it.children[y*step+step-1]].end
			var out []byte
			out = append(out, b[:xs]...)
			out = append(out, b[ys:ye]...)
			out = append(out, b[xe:ys]...)
			out = append(out, b[xs:xe]...)
			out = append(out, b[ye:]...)
			return out
		}},
		{"list-splice", func(_ *Mutator, rng *rand.Rand, b []byte, items []cborItem, corpus []*Seed) []byte {
			i := pickItem(rng, items, func(it *cborItem) bool { return it.major == 4 && !it.indef })
			if i < 0 {
				return nil
			}
			it := items[i]
			n := 1 + rng.IntN(3)
			var rep []byte
			for j := 0; j < n; j++ {
				rep = append(rep, randomItemBytes(rng, b, items, corpus)...)
			}
			at := it.off + it.headLen
			if len(it.children) > 0 {
				at = items[it.children[rng.IntN(len(it.children))]].end
			}
			out := splice(b, at, at, rep)
			return splice(out, it.off, it.off+it.headLen, cborHead(4, it.arg+uint64(n), 0))
		}},
		{"map-del", func(_ *Mutator, rng *rand.Rand, b []byte, items []cborItem, _ []*Seed) []byte {
			i := pickItem(rng, items, func(it *cborItem) bool { return it.major == 5 && !it.indef && len(it.children) >= 2 })
			if i < 0 {
				return nil
			}
			it := items[i]
			p := rng.IntN(len(it.children) / 2)
			k, v := items[it.children[2*p]], items[it.children[2*p+1]]
			out := splice(b, k.off, v.end, nil)
			return splice(out, it.off, it.off+it.headLen, cborHead(5, it.arg-1, 0))
		}},
		{"map-add", func(_ *Mutator, rng *rand.Rand, b []byte, items []cborItem, corpus []*Seed) []byte {
			i := pickItem(rng, items, func(it *cborItem) bool { return it.major == 5 && !it.indef })
			if i < 0 {
				return nil
			}
			it := items[i]
			keys := [][]byte{{0x61, 'x'}, {0x61, 'v'}, {0x60}, {0x00}, {0x40}, {0xf6}, {0x64, 'n', 'o', 'd', 'e'}, {0x62, 'i', 'd'}}
			pair := append(append([]byte(nil), keys[rng.IntN(len(keys))]...), randomItemBytes(rng, b, items, corpus)...)
			at := it.off + it.headLen
			out := splice(b, at, at, pair)
			return splice(out, it.off, it.off+it.headLen, cborHead(5, it.arg+1, 0))
		}},
		{"null-sub", func(_ *Mutator, rng *rand.Rand, b []byte, items []cborItem, _ []*Seed) []byte {
			i := -1
			if rng.IntN(2) == 0 {
				// Prefer structural positions: list entries and nested structures (pointer-typed
				// fields and slices of pointers on the Go side).
				i = pickItem(rng, items, func(it *cborItem) bool {
					return it.parent >= 0 && (it.major == 4 || it.major == 5 || items[it.parent].major == 4)
				})
			}
			if i < 0 {
				i = pickItem(rng, items, func(it *cborItem) bool { return it.parent >= 0 })
			}
			if i < 0 {
				i = 0
			}
			it := items[i]
			rep := [][]byte{{0xf6}, {0xf6}, {0xf6}, {0xf7}, {0xf4}, {0xf5}}[rng.IntN(6)]
			return splice(b, it.off, it.end, rep)
		}},
		{"empty-sub", func(_ *Mutator, rng *rand.Rand, b []byte, items []cborItem, _ []*Seed) []byte {
			it := items[rng.IntN(len(items))]
			rep := [][]byte{{0x40}, {0x60}, {0x80}, {0xa0}, {0x00}, {0x20}, {0x41, 0x00}, {0x81, 0xf6}, {0xa1, 0x60, 0xf6}}[rng.IntN(9)]
			return splice(b, it.off, it.end, rep)
		}},
		{"type-sub", func(_ *Mutator, rng *rand.Rand, b []byte, items []cborItem, corpus []*Seed) []byte {
			it := items[rng.IntN(len(items))]
			return splice(b, it.off, it.end, randomItemBytes(rng, b, items, corpus))
		}},
		{"int-extreme", func(_ *Mutator, rng *rand.Rand, b []byte, items []cborItem, _ []*Seed) []byte {
			i := pickItem(rng, items, func(it *cborItem) bool { return it.major <= 1 })
			if i < 0 {
				return nil
			}
			it := items[i]
			v := interesting64[rng.IntN(len(interesting64))]
			if rng.IntN(4) == 0 {
				v = it.arg + uint64(rng.IntN(3)) - 1
			}
			mj := it.major
			if rng.IntN(4) == 0 {
				mj ^= 1
			}
			return splice(b, it.off, it.end, cborHead(mj, v, []int{0, 0, 0, 8}[rng.IntN(4)]))
		}},
		{"float-simple-sub", func(_ *Mutator, rng *rand.Rand, b []byte, items []cborItem, _ []*Seed) []byte {
			it := items[rng.IntN(len(items))]
			reps := [][]byte{
				{0xf9, 0x7e, 0x00}, {0xf9, 0x7c, 0x00}, {0xf9, 0xfc, 0x00}, {0xfa, 0x7f, 0xc0, 0, 0}, {0xfb, 0x7f, 0xf8, 0, 0, 0, 0, 0, 0},
				{0xfb, 0x43, 0xf0, 0, 0, 0, 0, 0, 0}, {0xf8, 0x00}, {0xf8, 0x18}, {0xf8, 0xff}, {0xe0}, {0xf3}, {0xff},
				{0xc2, 0x49, 1, 0, 0, 0, 0, 0, 0, 0, 0}, {0xc3, 0x41, 0x00}, {0xc2, 0x40},
			}
			return splice(b, it.off, it.end, reps[rng.IntN(len(reps))])
		}},
		{"key-rename", func(_ *Mutator, rng *rand.Rand, b []byte, items []cborItem, _ []*Seed) []byte {
			i := pickItem(rng, items, func(it *cborItem) bool { return it.major == 3 && !it.indef && it.arg > 0 })
			if i < 0 {
				return nil
			}
			it := items[i]
			o := append([]byte(nil), b...)
			pos := it.off + it.headLen + rng.IntN(int(it.arg))
			switch rng.IntN(3) {
			case 0:
				o[pos] ^= 0x20 // case flip
			case 1:
				o[pos] = 0xff // invalid UTF-8
			default:
				o[pos]++
			}
			return o
		}},
		{"nested", func(m *Mutator, rng *rand.Rand, b []byte, items []cborItem, corpus []*Seed) []byte {
			i := pickItem(rng, items, func(it *cborItem) bool { return it.major == 2 && !it.indef && it.arg >= 2 })
			if i < 0 {
				return nil
			}
			it := items[i]
			payload := b[it.off+it.headLen : it.end]
			sub := &Seed{Data: payload}
			if _, ok := cborParseExact(payload); ok {
				sub.CBOR = true
			}
			mm := *m
			mm.nest = m.nest + 1
			mm.MaxLen = m.MaxLen - (len(b) - len(payload)) - 9
			if mm.MaxLen < 1 {
				return nil
			}
			inner, _ := mm.mutateOnce(rng, sub, corpus)
			rep := append(cborHead(2, uint64(len(inner)), 0), inner...)
			return splice(b, it.off, it.end, rep)
		}},
	}
}

// Mutator applies operators.
type Mutator struct {
	MaxLen int
	nest   int
}

// OpNames lists all operator names (for the evidence).
func OpNames() []string {
	var out []string
	for _, o := range byteOps {
		out = append(out, o.name)
	}
	for _, o := range cborOps {
		out = append(out, o.name)
	}
	return out
}

func (m *Mutator) mutateOnce(rng *rand.Rand, s *Seed, corpus []*Seed) ([]byte, string) {
	b := s.Data
	if s.CBOR && rng.IntN(10) < 7 {
		if items, ok := cborParseExact(b); ok && len(items) > 0 {
			for try := 0; try < 6; try++ {
				op := cborOps[rng.IntN(len(cborOps))]
				if op.name == "nested" && m.nest > 3 {
					continue
				}
				if out := op.f(m, rng, b, items, corpus); out != nil {
					return m.clamp(out), op.name
				}
			}
		}
	}
	for {
		op := byteOps[rng.IntN(len(byteOps))]
		if out := op.f(rng, b, s, corpus); out != nil {
			return m.clamp(out), op.name
		}
	}
}

func (m *Mutator) clamp(b []byte) []byte {
	if m.MaxLen > 0 && len(b) > m.MaxLen {
		return b[:m.MaxLen]
	}
	return b
}

// Mutate derives one mutant from seed. The returned operator name is the first
// operator applied (further stacked operators are applied with probability 0.4
// and 0.1).
func (m *Mutator) Mutate(rng *rand.Rand, s *Seed, corpus []*Seed) ([]byte, string) {
	out, op := m.mutateOnce(rng, s, corpus)
	stack := 0
	switch x := rng.IntN(10); {
	case x < 6:
	case x < 9:
		stack = 1
	default:
		stack = 2
	}
	for i := 0; i < stack; i++ {
		cur := &Seed{Data: out, CBOR: s.CBOR, LenFields: s.LenFields}
		out, _ = m.mutateOnce(rng, cur, corpus)
	}
	return out, op
}
