package main

import "encoding/binary"

// A minimal CBOR structure walker (RFC 8949 heads only; no semantic checks).
// It is written independently of the decoder under test and is only used to
// find item boundaries so that mutations can be structure-aware.

type cborItem struct {
	off     int  // offset of the head
	headLen int  // number of head bytes
	major   byte // major type 0..7
	info    byte // additional information (low 5 bits)
	arg     uint64
	end     int // end offset of the whole item (exclusive)
	depth   int
	parent  int // index of the parent item, -1 for the top-level item
	indef   bool
	// children are the indices of the direct child items (array elements; map
	// keys and values alternating; the tagged item).
	children []int
}

const (
	cborMaxItems = 200000
	cborMaxDepth = 256
)

// cborParse parses one complete data item starting at b[0]. It returns the
// items in pre-order and the end offset, or ok=false if the bytes are not one
// well-formed item (by head structure).
func cborParse(b []byte) (items []cborItem, end int, ok bool) {
	p := &cborParser{b: b}
	e, good := p.item(0, 0, -1)
	if !good {
		return nil, 0, false
	}
	return p.items, e, true
}

// cborParseExact requires that the item spans the whole buffer.
func cborParseExact(b []byte) ([]cborItem, bool) {
	it, end, ok := cborParse(b)
	if !ok || end != len(b) {
		return nil, false
	}
	return it, true
}

type cborParser struct {
	b     []byte
	items []cborItem
}

func (p *cborParser) head(off int) (major, info byte, arg uint64, hl int, ok bool) {
	if off >= len(p.b) {
		return
	}
	ib := p.b[off]
	major, info = ib>>5, ib&0x1f
	switch {
	case info < 24:
		return major, info, uint64(info), 1, true
	case info == 24:
		if off+2 > len(p.b) {
			return
		}
		return major, info, uint64(p.b[off+1]), 2, true
	case info == 25:
		if off+3 > len(p.b) {
			return
		}
		return major, info, uint64(binary.BigEndian.Uint16(p.b[off+1:])), 3, true
	case info == 26:
		if off+5 > len(p.b) {
			return
		}
		return major, info, uint64(binary.BigEndian.Uint32(p.b[off+1:])), 5, true
	case info == 27:
		if off+9 > len(p.b) {
			return
		}
		return major, info, binary.BigEndian.Uint64(p.b[off+1:]), 9, true
	case info == 31:
		return major, info, 0, 1, true
	}
	return // 28..30 reserved
}

func (p *cborParser) item(off, depth, parent int) (end int, ok bool) {
	if depth > cborMaxDepth || len(p.items) >= cborMaxItems {
		return 0, false
	}
	major, info, arg, hl, good := p.head(off)
	if !good {
		return 0, false
	}
	idx := len(p.items)
	p.items = append(p.items, cborItem{off: off, headLen: hl, major: major, info: info, arg: arg, depth: depth, parent: parent})
	pos := off + hl
	indef := info == 31
	switch major {
	case 0, 1:
		if indef {
			return 0, false
		}
	case 2, 3:
		if indef {
			// chunks until break
			for {
				if pos >= len(p.b) {
					return 0, false
				}
				if p.b[pos] == 0xff {
					pos++
					break
				}
				m2, i2, a2, h2, g2 := p.head(pos)
				if !g2 || m2 != major || i2 == 31 || a2 > uint64(len(p.b)-pos-h2) {
					return 0, false
				}
				pos += h2 + int(a2)
			}
		} else {
			if arg > uint64(len(p.b)-pos) {
				return 0, false
			}
			pos += int(arg)
		}
	case 4, 5:
		n := arg
		if major == 5 {
			if !indef && n > uint64(len(p.b)) {
				return 0, false
			}
			n *= 2
		}
		if !indef && n > uint64(len(p.b)-pos) {
			return 0, false
		}
		var kids []int
		for i := uint64(0); indef || i < n; i++ {
			if indef {
				if pos >= len(p.b) {
					return 0, false
				}
				if p.b[pos] == 0xff {
					pos++
					break
				}
			}
			kids = append(kids, len(p.items))
			e, g := p.item(pos, depth+1, idx)
			if !g {
				return 0, false
			}
			pos = e
		}
		if major == 5 && len(kids)%2 != 0 {
			return 0, false
		}
		p.items[idx].children = kids
	case 6:
		if indef {
			return 0, false
		}
		kid := len(p.items)
		e, g := p.item(pos, depth+1, idx)
		if !g {
			return 0, false
		}
		pos = e
		p.items[idx].children = []int{kid}
	case 7:
		if indef {
			return 0, false // a stray break
		}
		// simple values / floats: the argument bytes are the payload, already in the head.
	}
	p.items[idx].end = pos
	p.items[idx].indef = indef
	return pos, true
}

// cborHead encodes a head with the given major type and argument using at
// least minWidth argument bytes (0 = shortest; 1, 2, 4, 8).
func cborHead(major byte, arg uint64, minWidth int) []byte {
	m := major << 5
	switch {
	case arg < 24 && minWidth == 0:
		return []byte{m | byte(arg)}
	case arg <= 0xff && minWidth <= 1:
		return []byte{m | 24, byte(arg)}
	case arg <= 0xffff && minWidth <= 2:
		return []byte{m | 25, byte(arg >> 8), byte(arg)}
	case arg <= 0xffffffff && minWidth <= 4:
		o := make([]byte, 5)
		o[0] = m | 26
		binary.BigEndian.PutUint32(o[1:], uint32(arg))
		return o
	default:
		o := make([]byte, 9)
		o[0] = m | 27
		binary.BigEndian.PutUint64(o[1:], arg)
		return o
	}
}
