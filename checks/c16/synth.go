package main

import (
	"math/rand/v2"
	"reflect"

	"github.com/oasisprotocol/oasis-core/go/common/cbor"
	"github.com/oasisprotocol/oasis-core/go/common/crypto/signature"
	"github.com/oasisprotocol/oasis-core/go/common/quantity"
)

// filler populates arbitrary exported Go structures with plausible values so
// that their canonical CBOR encoding can serve as a well-formed seed for
// boundaries whose valid traffic the chain simulator does not generate.
type filler struct {
	rng  *rand.Rand
	keys []signature.PublicKey // real public keys to draw from
}

var (
	tQuantity  = reflect.TypeOf(quantity.Quantity{})
	tPublicKey = reflect.TypeOf(signature.PublicKey{})
	tRawMsg    = reflect.TypeOf(cbor.RawMessage{})
)

func (f *filler) fill(v reflect.Value, depth int) {
	if !v.CanSet() {
		return
	}
	t := v.Type()
	switch t {
	case tQuantity:
		q := quantity.NewFromUint64(uint64(f.rng.IntN(1000)))
		v.Set(reflect.ValueOf(*q))
		return
	case tPublicKey:
		if len(f.keys) > 0 && f.rng.IntN(4) != 0 {
			v.Set(reflect.ValueOf(f.keys[f.rng.IntN(len(f.keys))]))
			return
		}
	case tRawMsg:
		v.Set(reflect.ValueOf(cbor.RawMessage{0xa0}))
		return
	}
	if depth > 8 {
		return
	}
	switch t.Kind() {
	case reflect.Bool:
		v.SetBool(f.rng.IntN(2) == 0)
	case reflect.Int, reflect.Int8, reflect.Int16, reflect.Int32, reflect.Int64:
		v.SetInt(int64(f.rng.IntN(4)))
	case reflect.Uint, reflect.Uint8, reflect.Uint16, reflect.Uint32, reflect.Uint64:
		v.SetUint(uint64(f.rng.IntN(4)))
	case reflect.String:
		v.SetString([]string{"", "a", "verif", "127.0.0.1:9000"}[f.rng.IntN(4)])
	case reflect.Array:
		if t.Elem().Kind() == reflect.Uint8 {
			for i := 0; i < v.Len(); i++ {
				v.Index(i).SetUint(uint64(f.rng.Uint32() & 0xff))
			}
			return
		}
		for i := 0; i < v.Len(); i++ {
			f.fill(v.Index(i), depth+1)
		}
	case reflect.Slice:
		if t.Elem().Kind() == reflect.Uint8 {
			b := randBytes(f.rng, f.rng.IntN(40))
			if b == nil {
				b = []byte{}
			}
			v.Set(reflect.ValueOf(b).Convert(t))
			return
		}
		n := 1 + f.rng.IntN(2)
		s := reflect.MakeSlice(t, n, n)
		for i := 0; i < n; i++ {
			f.fill(s.Index(i), depth+1)
		}
		v.Set(s)
	case reflect.Map:
		m := reflect.MakeMap(t)
		k := reflect.New(t.Key()).Elem()
		f.fill(k, depth+1)
		e := reflect.New(t.Elem()).Elem()
		f.fill(e, depth+1)
		func() {
			defer func() { _ = recover() }()
			m.SetMapIndex(k, e)
		}()
		v.Set(m)
	case reflect.Ptr:
		if f.rng.IntN(5) == 0 {
			return // leave nil
		}
		p := reflect.New(t.Elem())
		f.fill(p.Elem(), depth+1)
		v.Set(p)
	case reflect.Struct:
		for i := 0; i < v.NumField(); i++ {
			if t.Field(i).PkgPath != "" {
				continue // unexported
			}
			f.fill(v.Field(i), depth+1)
		}
	case reflect.Interface:
		// left nil
	}
}

// synth returns the canonical CBOR encoding of a filled value of the type of
// proto (nil if the value cannot be marshalled).
func (f *filler) synth(proto any) (out []byte) {
	defer func() {
		if recover() != nil {
			out = nil
		}
	}()
	if proto == nil {
		return nil
	}
	v := reflect.New(reflect.TypeOf(proto))
	f.fill(v.Elem(), 0)
	return cbor.Marshal(v.Interface())
}

// cborTstr encodes a text string.
func cborTstr(s string) []byte { return append(cborHead(3, uint64(len(s)), 0), s...) }
