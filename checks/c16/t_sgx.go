package main

import (
	"encoding/json"
	"fmt"
	"math/rand/v2"
	"os"
	"path/filepath"
	"strings"
	"time"

	"github.com/oasisprotocol/oasis-core/go/common/cbor"
	"github.com/oasisprotocol/oasis-core/go/common/crypto/signature"
	"github.com/oasisprotocol/oasis-core/go/common/node"
	"github.com/oasisprotocol/oasis-core/go/common/sgx"
	"github.com/oasisprotocol/oasis-core/go/common/sgx/ias"
	"github.com/oasisprotocol/oasis-core/go/common/sgx/pcs"
	"github.com/oasisprotocol/oasis-core/go/common/sgx/quote"
)

func init() {
	registerTarget("sgx", func() Target { return &sgxTarget{} })
}

const (
	pcsTestdata = "/repo/go/common/sgx/pcs/testdata"
	iasTestdata = "/repo/go/common/sgx/ias/testdata"
)

type sgxVector struct {
	name   string
	quote  []byte
	tcb    pcs.TCBBundle
	policy *pcs.QuotePolicy
	now    time.Time
	valid  bool
}

func loadTCB(info, qe string) (pcs.TCBBundle, error) {
	var b pcs.TCBBundle
	rawInfo, err := os.ReadFile(filepath.Join(pcsTestdata, info))
	if err != nil {
		return b, err
	}
	rawQE, err := os.ReadFile(filepath.Join(pcsTestdata, qe))
	if err != nil {
		return b, err
	}
	certs, err := os.ReadFile(filepath.Join(pcsTestdata, "tcb_info_v3_fmspc_00606A000000_certs.pem"))
	if err != nil {
		return b, err
	}
	if err = json.Unmarshal(rawInfo, &b.TCBInfo); err != nil {
		return b, err
	}
	if err = json.Unmarshal(rawQE, &b.QEIdentity); err != nil {
		return b, err
	}
	b.Certificates = certs
	return b, nil
}

func loadVectors() ([]*sgxVector, error) {
	tdxPolicy := &pcs.QuotePolicy{TCBValidityPeriod: 30, MinTCBEvaluationDataNumber: 12, TDX: &pcs.TdxQuotePolicy{}}
	specs := []struct {
		name, quote, info, qe string
		policy                *pcs.QuotePolicy
		now                   int64
		valid                 bool
	}{
		{"v3 pck chain", "quote_v3_ecdsa_p256_pck_chain.bin", "tcb_info_v3_fmspc_00606A000000.json", "qe_identity_v2.json", nil, 1671497404, true},
		{"v3 eppid", "quote_v3_ecdsa_p256_eppid.bin", "tcb_info_v3_fmspc_00606A000000.json", "qe_identity_v2.json", nil, 1671497404, false},
		{"v4 tdx", "quote_v4_tdx_ecdsa_p256.bin", "tcb_info_v3_tdx_fmspc_C0806F000000.json", "qe_identity_v2_tdx2.json", tdxPolicy, 1725263032, true},
		{"v4 tdx out of date", "quote_v4_tdx_ecdsa_p256_out_of_date.bin", "tcb_info_v3_tdx_fmspc_50806F000000.json", "qe_identity_v2_tdx.json", tdxPolicy, 1687091776, false},
		{"v4 tdx trailing", "quote_v4_tdx_ecdsa_p256_trailing.bin", "tcb_info_v3_tdx_fmspc_C0806F000000.json", "qe_identity_v2_tdx2.json", tdxPolicy, 1725263032, false},
	}
	var out []*sgxVector
	for _, s := range specs {
		q, err := os.ReadFile(filepath.Join(pcsTestdata, s.quote))
		if err != nil {
			return nil, err
		}
		tcb, err := loadTCB(s.info, s.qe)
		if err != nil {
			return nil, err
		}
		out = append(out, &sgxVector{name: s.name, quote: q, tcb: tcb, policy: s.policy, now: time.Unix(s.now, 0), valid: s.valid})
	}
	return out, nil
}

// sgxAttestationSeed returns a well-formed CBOR SGX attestation (PCS quote bundle, version 1).
func sgxAttestationSeed() []byte {
	vs, err := loadVectors()
	if err != nil || len(vs) == 0 {
		return cbor.Marshal(node.SGXAttestation{Versioned: cbor.NewVersioned(1)})
	}
	return cbor.Marshal(node.SGXAttestation{
		Versioned: cbor.NewVersioned(1),
		Quote:     quote.Quote{PCS: &pcs.QuoteBundle{Quote: vs[0].quote, TCB: vs[0].tcb}},
		Height:    90,
	})
}

type sgxTarget struct {
	mut     Mutator
	vectors []*sgxVector
	seeds   []*Seed
	avrs    []ias.AVRBundle
	teeCfg  *node.TEEFeatures
	nodeID  signature.PublicKey
	base    []string
}

func (t *sgxTarget) Name() string { return "sgx" }
func (t *sgxTarget) MaxLen() int  { return 128 << 10 }
func (t *sgxTarget) Close()       {}

func (t *sgxTarget) Init(rng *rand.Rand, _ string) error {
	t.mut = Mutator{MaxLen: t.MaxLen()}
	var err error
	if t.vectors, err = loadVectors(); err != nil {
		return err
	}
	t.teeCfg = &node.TEEFeatures{SGX: node.TEEFeaturesSGX{PCS: true, SignedAttestations: true, DefaultMaxAttestationAge: 1200, TDX: true}, FreshnessProofs: true}
	copy(t.nodeID[:], randBytes(rng, 32))
	add := func(name, kind string, data []byte, isCBOR bool, lf []LenField) {
		t.seeds = append(t.seeds, &Seed{Name: name, Data: data, CBOR: isCBOR, LenFields: lf, Aux: kind})
	}
	for i, v := range t.vectors {
		// Known length fields of the quote format: signature length after header+report body.
		var lf []LenField
		off := 48 + 384
		if len(v.quote) > 8 && v.quote[4] == 0x81 { // TDX tee type
			off = 48 + 584
		}
		lf = append(lf, LenField{Off: off, Width: 4})
		sig := off + 4
		if v.quote[0] == 4 {
			lf = append(lf, LenField{Off: sig + 128, Width: 2}, LenField{Off: sig + 130, Width: 4})
			sig += 6
		}
		// QE report (384) + signature (64) follow the two 64-byte fields.
		ad := sig + 128 + 384 + 64
		lf = append(lf, LenField{Off: ad, Width: 2})
		if ad+2 <= len(v.quote) {
			adLen := int(v.quote[ad]) | int(v.quote[ad+1])<<8
			lf = append(lf, LenField{Off: ad + 2 + adLen, Width: 2}, LenField{Off: ad + 2 + adLen + 2, Width: 4})
		}
		lf = append(lf, LenField{Off: 0, Width: 2}, LenField{Off: 2, Width: 2}, LenField{Off: 4, Width: 4})
		add("quote "+v.name, fmt.Sprintf("quote;v=%d", i), v.quote, false, lf)
		add("bundle "+v.name, fmt.Sprintf("bundle;v=%d", i), cbor.Marshal(pcs.QuoteBundle{Quote: v.quote, TCB: v.tcb}), true, nil)
		att := node.SGXAttestation{Versioned: cbor.NewVersioned(1), Quote: quote.Quote{PCS: &pcs.QuoteBundle{Quote: v.quote, TCB: v.tcb}}, Height: 90}
		ct := node.CapabilityTEE{Hardware: node.TEEHardwareIntelSGX, RAK: t.nodeID, Attestation: cbor.Marshal(att)}
		add("capability-tee "+v.name, fmt.Sprintf("captee;v=%d", i), cbor.Marshal(ct), true, nil)
		tj, _ := json.Marshal(v.tcb)
		add("tcb json "+v.name, fmt.Sprintf("tcbjson;v=%d", i), tj, false, nil)
	}
	for _, ver := range []int{4, 5} {
		body, err := os.ReadFile(filepath.Join(iasTestdata, fmt.Sprintf("avr_v%d_body_sw_hardening_needed.json", ver)))
		if err != nil {
			return err
		}
		sig, err := os.ReadFile(filepath.Join(iasTestdata, fmt.Sprintf("avr_v%d_body_sw_hardening_needed.sig", ver)))
		if err != nil {
			return err
		}
		certs, err := os.ReadFile(filepath.Join(iasTestdata, "avr_certificates_urlencoded.pem"))
		if err != nil {
			return err
		}
		b := ias.AVRBundle{Body: body, Signature: sig, CertificateChain: certs}
		t.avrs = append(t.avrs, b)
		add(fmt.Sprintf("avr bundle v%d", ver), "avr", cbor.Marshal(b), true, nil)
		add(fmt.Sprintf("avr body v%d", ver), "avrbody", body, false, nil)
		att := node.SGXAttestation{Versioned: cbor.NewVersioned(0), Quote: quote.Quote{IAS: &b}}
		ct := node.CapabilityTEE{Hardware: node.TEEHardwareIntelSGX, RAK: t.nodeID, Attestation: cbor.Marshal(b)}
		_ = att
		add(fmt.Sprintf("capability-tee ias v%d", ver), "captee;v=0", cbor.Marshal(ct), true, nil)
		var avr struct {
			Body []byte `json:"isvEnclaveQuoteBody"`
		}
		if json.Unmarshal(body, &avr) == nil && len(avr.Body) > 0 {
			add(fmt.Sprintf("ias quote body v%d", ver), "iasquote", avr.Body, false, nil)
		}
	}
	// Baseline: how the untouched seeds are processed now.
	for _, sd := range t.seeds {
		t.base = append(t.base, t.Exec(&Input{Data: sd.Data, Aux: sd.Aux}))
	}
	for i, v := range t.vectors {
		if r := t.Exec(&Input{Data: v.quote, Aux: fmt.Sprintf("quote;v=%d", i)}); v.valid && r != "" {
			return fmt.Errorf("vector %q does not verify: %s", v.name, r)
		}
	}
	return nil
}

func (t *sgxTarget) Gen(rng *rand.Rand) *Input {
	s := t.seeds[rng.IntN(len(t.seeds))]
	data, op := t.mut.Mutate(rng, s, t.seeds)
	return &Input{Data: data, Aux: s.Aux, Op: op}
}

func useVerified(v *sgx.VerifiedQuote) {
	if v == nil {
		return
	}
	_ = v.Identity.String()
	_ = len(v.ReportData)
}

func (t *sgxTarget) Exec(in *Input) string {
	kind := in.Aux
	vi := 0
	if i := indexByte(kind, ';'); i >= 0 {
		vi = auxInt(kind[i+1:], "v")
		kind = kind[:i]
	}
	if vi < 0 || vi >= len(t.vectors) {
		vi = 0
	}
	vec := t.vectors[vi]
	switch kind {
	case "quote":
		var q pcs.Quote
		var q2 pcs.Quote
		_, _ = q2.UnmarshalBinaryWithTrailing(in.Data, true)
		if err := q.UnmarshalBinary(in.Data); err != nil {
			return "decode: " + err.Error()
		}
		_ = q.Header().Version()
		_ = q.Header().TeeType()
		_ = q.Header().AttestationKeyType().String()
		_ = q.Header().Raw()
		if s := q.Signature(); s != nil {
			_ = s.AttestationKeyType()
			if e, ok := s.(*pcs.QuoteSignatureECDSA_P256); ok {
				_, _ = e.VerifyPCK(vec.now)
				_ = e.CertificationData()
			}
		}
		// Every vector's collateral and policy, not only the matching one.
		var firstErr error
		for j, o := range t.vectors {
			v, err := q.Verify(o.policy, o.now, &o.tcb)
			if j == vi {
				firstErr = err
			}
			useVerified(v)
		}
		if firstErr != nil {
			return firstErr.Error()
		}
		return ""
	case "bundle":
		var b pcs.QuoteBundle
		if err := cbor.Unmarshal(in.Data, &b); err != nil {
			return "decode: " + err.Error()
		}
		v, err := b.Verify(vec.policy, vec.now)
		useVerified(v)
		qq := quote.Quote{PCS: &b}
		v2, _ := qq.Verify(&quote.Policy{PCS: vec.policy}, vec.now)
		useVerified(v2)
		_ = cbor.Marshal(&b)
		if err != nil {
			return err.Error()
		}
		return ""
	case "tcbjson":
		var tb pcs.TCBBundle
		if err := json.Unmarshal(in.Data, &tb); err != nil {
			return "decode: " + err.Error()
		}
		var q pcs.Quote
		if err := q.UnmarshalBinary(vec.quote); err != nil {
			return "HARNESS-NOTE seed quote: " + err.Error()
		}
		v, err := q.Verify(vec.policy, vec.now, &tb)
		useVerified(v)
		if err != nil {
			return err.Error()
		}
		return ""
	case "captee":
		var c node.CapabilityTEE
		if err := cbor.Unmarshal(in.Data, &c); err != nil {
			return "decode: " + err.Error()
		}
		constraints := cbor.Marshal(node.SGXConstraints{Versioned: cbor.NewVersioned(1), Policy: &quote.Policy{PCS: vec.policy, IAS: &ias.QuotePolicy{}}, MaxAttestationAge: 100})
		err := c.Verify(t.teeCfg, vec.now, 100, constraints, t.nodeID, true)
		_ = c.Verify(t.teeCfg, vec.now, 100, constraints, t.nodeID, false)
		_ = c.Verify(&node.TEEFeatures{}, vec.now, 100, cbor.Marshal(map[string]any{}), t.nodeID, false)
		_ = c.Verify(t.teeCfg, vec.now, 100, in.Data, t.nodeID, true) // the input as constraints, too
		if err != nil {
			return err.Error()
		}
		return ""
	case "avr":
		var b ias.AVRBundle
		if err := cbor.Unmarshal(in.Data, &b); err != nil {
			return "decode: " + err.Error()
		}
		ts := time.Unix(1696000000, 0)
		avr, err := b.Open(&ias.QuotePolicy{}, ias.IntelTrustRoots, ts)
		if avr != nil {
			_, _ = avr.Quote()
		}
		_, _ = b.Open(nil, ias.IntelTrustRoots, ts)
		qq := quote.Quote{IAS: &b}
		v, _ := qq.Verify(&quote.Policy{IAS: &ias.QuotePolicy{}}, ts)
		useVerified(v)
		// The parser behind the signature check.
		if a, e := ias.UnsafeDecodeAVR(b.Body); e == nil {
			_, _ = a.Quote()
		}
		if err != nil {
			return err.Error()
		}
		return ""
	case "avrbody":
		a, err := ias.UnsafeDecodeAVR(in.Data)
		if err != nil {
			return err.Error()
		}
		q, err := a.Quote()
		if err != nil {
			return err.Error()
		}
		_ = q.Verify()
		return ""
	case "iasquote":
		var q ias.Quote
		if err := q.UnmarshalBinary(in.Data); err != nil {
			return "decode: " + err.Error()
		}
		if err := q.Verify(); err != nil {
			return err.Error()
		}
		_, _ = q.MarshalBinary()
		return ""
	}
	return "HARNESS-NOTE unknown kind " + kind
}

func indexByte(s string, c byte) int {
	for i := 0; i < len(s); i++ {
		if s[i] == c {
			return i
		}
	}
	return -1
}

func (t *sgxTarget) Canary() string {
	for i, sd := range t.seeds {
		if r := t.Exec(&Input{Data: sd.Data, Aux: sd.Aux}); r != t.base[i] {
			return fmt.Sprintf("seed %q: outcome changed from %q to %q", sd.Name, t.base[i], r)
		}
	}
	return ""
}

// FixedPlans: every prefix / deletion / length-field delta of every vector and bundle.
func (t *sgxTarget) FixedPlans(rng *rand.Rand) []fixedPlan {
	var out []fixedPlan
	for _, s := range t.seeds {
		if s.CBOR || strings.HasPrefix(s.Aux, "tcbjson") {
			// Bundles repeat the same collateral (JSON, PEM) five times: beyond 4 KiB the first
			// 2 KiB, the CBOR item boundaries and a sample.
			out = append(out, newFixedPlanLimits(rng, s, s.Aux, "", nil, 4096, 2048))
			continue
		}
		out = append(out, newFixedPlan(rng, s, s.Aux, "", nil)) // binary quotes, AVR bodies: every position
	}
	return out
}
