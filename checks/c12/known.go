package main

import (
	"bytes"
	"context"
	"fmt"
	"path/filepath"
	"strings"

	"github.com/oasisprotocol/oasis-core/go/storage/mkvs/checkpoint"
	"github.com/oasisprotocol/oasis-core/go/storage/mkvs/node"

	"verif/engine/evid"
)

// replayAbortedMultipartWitness replays the minimal deterministic witness of the finding
// sigAbortedMultipart on both backends: a multipart insert of version 1 is started and aborted
// (nothing was inserted), then the same version is restored honestly from a three-key checkpoint
// and finalized. The restored root must read back as the three keys. The line is printed while
// the defect exists and disappears when it is repaired.
func replayAbortedMultipartWitness(r *evid.Run) {
	ctx := context.Background()
	m := model{"a": []byte("1"), "ab": []byte("2"), "b": []byte("3")}
	want := m.sorted()
	for _, backend := range backends {
		ops := []string{}
		what, sig := func() (what, sig string) {
			defer func() {
				if rec := recover(); rec != nil {
					what, sig = fmt.Sprint(rec), "panic/known-witness/aborted-multipart/"+backend
				}
			}()
			src, err := openDB(backend, "")
			if err != nil {
				return err.Error(), "c12/harness/open-db/" + backend
			}
			defer src.Close()
			root, err := buildSource(ctx, src, m, want, 1, node.RootTypeState)
			if err != nil {
				return err.Error(), "c12/harness/build-source/" + backend
			}
			ops = append(ops, fmt.Sprintf("source(%s): Insert a=1, ab=2, b=3; Commit v1; Finalize -> root %s", backend, root.Hash))
			meta, chunks, err := checkpointOf(ctx, src, filepath.Join(r.Scratch(), "known-"+backend), root, 1, 0)
			if err != nil {
				return err.Error(), "c12/create-checkpoint-failed/" + backend + "/known-witness"
			}
			ops = append(ops, fmt.Sprintf("CreateCheckpoint(chunkSize=1, threads=0) -> %d chunks", len(chunks)))
			dst, err := openDB(backend, "")
			if err != nil {
				return err.Error(), "c12/harness/open-db/" + backend
			}
			defer dst.Close()
			for _, step := range []struct {
				name string
				f    func() error
			}{
				{"target(" + backend + ", empty): StartMultipartInsert(1)", func() error { return dst.StartMultipartInsert(1) }},
				{"AbortMultipartInsert()", func() error { return dst.AbortMultipartInsert() }},
				{"StartMultipartInsert(1)", func() error { return dst.StartMultipartInsert(1) }},
			} {
				ops = append(ops, step.name)
				if err := step.f(); err != nil {
					return step.name + ": " + err.Error(), "c12/restore-error/known-witness/" + backend + "/" + errClass(err)
				}
			}
			rs, _ := checkpoint.NewRestorer(dst)
			if err := rs.StartRestore(ctx, meta); err != nil {
				return err.Error(), "c12/restore-error/start-restore/" + errClass(err)
			}
			ops = append(ops, "StartRestore(meta)")
			for i := range chunks {
				ops = append(ops, fmt.Sprintf("RestoreChunk(%d)", i))
				if _, err := rs.RestoreChunk(ctx, uint64(i), bytes.NewReader(chunks[i])); err != nil {
					return fmt.Sprintf("RestoreChunk(%d): %v", i, err), "c12/honest-chunk-rejected/" + backend + "/" + errClass(err)
				}
			}
			ops = append(ops, "Finalize([root])")
			if err := dst.Finalize([]node.Root{root}); err != nil {
				return "Finalize: " + err.Error(), "c12/finalize-failed/" + backend + "/" + errClass(err)
			}
			ops = append(ops, "iterate restored root")
			got, err := readAll(ctx, dst, root)
			if err != nil {
				p := classify(&problem{"c12/restore-mismatch/" + backend + "/known-witness/unreadable", fmt.Sprintf("iterating the restored root failed after %d entries: %v", len(got), err)}, backend, &facts{AbortedMultipartBefore: true})
				return p.What, p.Sig
			}
			if d := diffContents(got, want); d != "" {
				p := classify(&problem{"c12/restore-mismatch/" + backend + "/known-witness/contents", d}, backend, &facts{AbortedMultipartBefore: true})
				return p.What, p.Sig
			}
			return "", ""
		}()
		r.Eval(1)
		r.Count("known_witness_replayed/aborted-multipart/"+backend, 1)
		if sig != "" {
			r.Violation(sig, "restore that follows an aborted multipart insert of the same version: "+what, map[string]any{
				"backend": backend, "operations": ops, "model": want, "minimal_witness": true,
			})
		}
	}
}

// replayRootListedAfterAbortWitness replays the minimal deterministic witness of
// sigRootListedAfterAbort on both backends (on-disk databases, so that the state after a reopen is
// recorded too): a three-chunk checkpoint of {a:1, ab:2, b:3}; StartMultipartInsert(1),
// StartRestore, RestoreChunk(0), AbortRestore, AbortMultipartInsert; HasRoot(root) is asked
// directly and after close + reopen.
func replayRootListedAfterAbortWitness(r *evid.Run) {
	ctx := context.Background()
	m := model{"a": []byte("1"), "ab": []byte("2"), "b": []byte("3")}
	want := m.sorted()
	observation := map[string]any{}
	defer func() { r.Set("observation_root_listed_after_abort", observation) }()
	for _, backend := range backends {
		var ops []string
		var listedAfterAbort, listedAfterReopen, readable, finalizedVisible bool
		var listing []string
		what, sig := func() (what, sig string) {
			defer func() {
				if rec := recover(); rec != nil {
					what, sig = fmt.Sprint(rec), "panic/known-witness/root-listed-after-abort/"+backend
				}
			}()
			src, err := openDB(backend, "")
			if err != nil {
				return err.Error(), "c12/harness/open-db/" + backend
			}
			defer src.Close()
			root, err := buildSource(ctx, src, m, want, 1, node.RootTypeState)
			if err != nil {
				return err.Error(), "c12/harness/build-source/" + backend
			}
			meta, chunks, err := checkpointOf(ctx, src, filepath.Join(r.Scratch(), "known2-"+backend), root, 1, 0)
			if err != nil || len(chunks) < 2 {
				return fmt.Sprintf("%v (%d chunks)", err, len(chunks)), "c12/create-checkpoint-failed/" + backend + "/known-witness"
			}
			ops = append(ops, fmt.Sprintf("source(%s): a=1, ab=2, b=3 at v1; CreateCheckpoint(chunkSize=1, threads=0) -> %d chunks", backend, len(chunks)))
			dir := filepath.Join(r.Scratch(), "known2-db-"+backend)
			dst, err := openDB(backend, dir)
			if err != nil {
				return err.Error(), "c12/harness/open-db/" + backend
			}
			closed := false
			defer func() {
				if !closed {
					dst.Close()
				}
			}()
			rs, _ := checkpoint.NewRestorer(dst)
			for _, step := range []struct {
				name string
				f    func() error
			}{
				{"target(" + backend + ", empty): StartMultipartInsert(1)", func() error { return dst.StartMultipartInsert(1) }},
				{"StartRestore(meta)", func() error { return rs.StartRestore(ctx, meta) }},
				{"RestoreChunk(0)", func() error { _, err := rs.RestoreChunk(ctx, 0, bytes.NewReader(chunks[0])); return err }},
				{"AbortRestore()", func() error { return rs.AbortRestore(ctx) }},
				{"AbortMultipartInsert()", func() error { return dst.AbortMultipartInsert() }},
			} {
				ops = append(ops, step.name)
				if err := step.f(); err != nil {
					return step.name + ": " + err.Error(), "c12/restore-error/known-witness/" + backend + "/" + errClass(err)
				}
			}
			listedAfterAbort = dst.HasRoot(root)
			rootsNow, _ := dst.GetRootsForVersion(1)
			latestNow, latestNowOk := dst.GetLatestVersion()
			listing = append(listing, fmt.Sprintf("after abort: HasRoot=%v GetRootsForVersion(1)=%d roots GetLatestVersion=(%d,%v)", listedAfterAbort, len(rootsNow), latestNow, latestNowOk))
			ops = append(ops, listing[len(listing)-1])
			dst.Close()
			closed = true
			dst, err = openDB(backend, dir)
			if err != nil {
				return err.Error(), "c12/reopen-failed/known-witness/" + backend
			}
			closed = false
			listedAfterReopen = dst.HasRoot(root)
			got, rerr := readAll(ctx, dst, root)
			readable = rerr == nil && diffContents(got, want) == ""
			rootsRe, _ := dst.GetRootsForVersion(1)
			latestRe, latestReOk := dst.GetLatestVersion()
			listing = append(listing, fmt.Sprintf("after close and reopen: HasRoot=%v GetRootsForVersion(1)=%d roots GetLatestVersion=(%d,%v) root fully readable=%v", listedAfterReopen, len(rootsRe), latestRe, latestReOk, readable))
			ops = append(ops, listing[len(listing)-1])
			finalizedVisible = latestNowOk || latestReOk
			if finalizedVisible {
				// Within the property: a partially restored checkpoint visible as a finalized version.
				return fmt.Sprintf("after 1 of %d honest chunks, AbortRestore and AbortMultipartInsert: %s", len(chunks), strings.Join(listing, "; ")), sigRootListedAfterAbort(backend)
			}
			return "", ""
		}()
		r.Eval(1)
		r.Count("known_witness_replayed/root-listed-after-abort/"+backend, 1)
		observation[backend] = map[string]any{
			"operations": ops, "has_root_after_abort": listedAfterAbort, "has_root_after_reopen": listedAfterReopen,
			"root_readable_after_reopen": readable, "visible_as_finalized_version": finalizedVisible,
		}
		if sig != "" {
			r.Violation(sig, what, map[string]any{
				"backend": backend, "operations": ops, "model": want, "minimal_witness": true,
				"has_root_after_abort": listedAfterAbort, "has_root_after_reopen": listedAfterReopen, "root_readable_after_reopen": readable,
				"listing": listing, "visible_as_finalized_version": finalizedVisible,
			})
		}
	}
}
