// Check C12: checkpoints restore to exactly the checkpointed state.
//
// See DESIGN.md "C12". The real checkpoint creator / restorer of
// go/storage/mkvs/checkpoint is driven against both node database backends; a
// reference map decides. Built with -race (file RACE).
package main

import (
	"context"
	"encoding/json"
	"fmt"
	"os"
	"path/filepath"
	"runtime"
	"runtime/debug"
	"strings"
	"sync"
	"time"

	"github.com/oasisprotocol/oasis-core/go/common/crypto/hash"
	"github.com/oasisprotocol/oasis-core/go/common/logging"
	"github.com/oasisprotocol/oasis-core/go/storage/mkvs/db/api"
	"github.com/oasisprotocol/oasis-core/go/storage/mkvs/node"

	"verif/engine/evid"
)

// witness identifies one (tree, parameter set) case; everything else is a function of the seed.
type witness struct {
	Seed       int64    `json:"seed"`
	Tier       string   `json:"tier"`
	Tree       int      `json:"tree"`
	Param      int      `json:"param"`
	Shape      string   `json:"shape"`
	Keys       int      `json:"keys"`
	SrcBackend string   `json:"source_backend"`
	RootType   string   `json:"root_type"`
	Version    uint64   `json:"version"`
	Root       string   `json:"root_hash"`
	ChunkSize  uint64   `json:"chunk_size"`
	Threads    uint16   `json:"threads"`
	Chunks     int      `json:"chunks"`
	Step       string   `json:"step"`
	Facts      *facts   `json:"facts,omitempty"`
	Ops        []string `json:"operations"`
	Model      []kv     `json:"model,omitempty"`
	Replay     string   `json:"replay_hint"`
}

type runner struct {
	r       *evid.Run
	nParams int
	nDeep   int // parameter sets per tree that get both restores and the corruption series
	maxKeys int
	limit   int // corrupted chunk indices per series

	mu    sync.Mutex
	stats stats
}

// prof accumulates wall time per phase for tuning only (printed to stderr with VERIF_PROFILE=1,
// never part of the evidence or the verdict).
var prof = struct {
	sync.Mutex
	t map[string]time.Duration
}{t: map[string]time.Duration{}}

func timed(name string) func() {
	t0 := time.Now()
	return func() {
		prof.Lock()
		prof.t[name] += time.Since(t0)
		prof.Unlock()
	}
}

func (rn *runner) merge(st stats) {
	rn.mu.Lock()
	for k, v := range st {
		rn.stats[k] += v
	}
	rn.mu.Unlock()
}

func main() {
	_ = logging.Initialize(nil, logging.FmtLogfmt, logging.LevelError, nil)
	r := evid.Start("C12", "exploration")
	r.Rule = "PRNG trees of 8 shape classes (empty, single leaf, deep prefix chain, adversarial alphabet {00,01,7f,80,ff,a,b} small/medium, dense 1-2 byte keys, big values, large random up to 1200 (quick) / 5000 (thorough) keys) " +
		"are committed and finalized in a source NodeDB (badger or pathbadger, state or IO root, version 1..4); per tree 6 (quick) / 20 (thorough) parameter sets (chunk size class 1/tiny/small/mid/larger-than-tree x chunker threads 0,1,2,3-8,9-32): " +
		"CreateCheckpoint twice in separate directories (Metadata must be equal), restore into an empty DB of EACH backend (thorough: the first 4 parameter sets of a tree; the other 16 restore into one backend) with a PRNG order class " +
		"(sequential, reverse, shuffled, shuffled with duplicates, 4 concurrent callers with duplicates, abort-and-restart, GATED = forced interleaving: 1-3 PRNG-chosen chunks are submitted by callers whose readers block inside Read, all other callers return, then they are released one by one in PRNG order; " +
		"as the production callers do, the harness finalizes and reads back as soon as ANY call reports done=true, while stragglers are still blocked), Finalize, full read-back against the reference map, GetRootsForVersion/GetLatestVersion, " +
		"checkpoint of the restored DB must reproduce the Metadata; plus (same parameter sets) a corruption series on one backend (each selected chunk x {bitflip, truncate, append, swapped, chunk of other checkpoint of same/other root, wrong metadata digest, metadata digest of a foreign proof}: " +
		"must be rejected; a fresh-DB restore mixing rejected and honest submissions must end identical; after only rejected submissions abort+reopen must show no root and a subsequent honest restore must end identical). " +
		"Minimal witnesses of the known findings are replayed first. A case is NON-TRIVIAL when the checkpoint has >= 2 chunks; distinct key = (shape class, chunk size class, thread class, target backend, order class)."
	r.Assume("the reference map (Go map, sorted) and the harness itself are correct")
	r.Assume("race detector reports only races on executed interleavings; 4 concurrent RestoreChunk callers are scheduled by the Go runtime, not enumerated")
	r.Assume("'nothing visible' (no root after abort and reopen) is asserted after submissions that were all rejected. After an aborted restore of HONEST chunks both backends keep answering HasRoot=true and list the root in GetRootsForVersion as a pending (never as a finalized) root, GetLatestVersion stays empty: this is outside the property (nothing of a rejected chunk, nothing visible as finalized) and is recorded as an observation only (coverage.observation_root_listed_after_abort, counters observed/...)")

	rn := &runner{r: r, nParams: r.Pick(6, 20), nDeep: r.Pick(6, 4), maxKeys: r.Pick(1200, 5000), limit: r.Pick(12, 32), stats: stats{}}
	nTrees := r.Pick(60, 500)

	if r.ReplayFile != "" {
		var doc struct {
			Seed    int64  `json:"seed"`
			Tier    string `json:"tier"`
			Witness struct {
				witness
				Minimal bool `json:"minimal_witness"`
			} `json:"witness"`
		}
		b, err := os.ReadFile(r.ReplayFile)
		if err != nil || json.Unmarshal(b, &doc) != nil {
			fmt.Println("INCONCLUSIVE property=C12 cannot read replay file")
			os.Exit(2)
		}
		r.Seed, r.Tier = doc.Seed, doc.Tier
		rn.nParams, rn.nDeep, rn.maxKeys, rn.limit = r.Pick(6, 20), r.Pick(6, 4), r.Pick(1200, 5000), r.Pick(12, 32)
		replayAbortedMultipartWitness(r)
		replayRootListedAfterAbortWitness(r)
		if !doc.Witness.Minimal {
			rn.runTree(doc.Witness.Tree, doc.Witness.Param)
		}
		rn.finish(1)
		return
	}

	replayAbortedMultipartWitness(r)
	replayRootListedAfterAbortWitness(r)
	// Every worker holds two or three open badger instances (64 MB memtable arenas, times the race
	// detector's shadow memory), so the number of workers is capped to keep the peak RSS near 5 GB.
	workers := runtime.NumCPU()
	if workers > 12 {
		workers = 12
	}
	evid.Parallel(nTrees, workers, func(i int) { rn.runTree(i, -1) })
	rn.finish(r.Pick(40, 150))
}

func (rn *runner) finish(floor int) {
	r := rn.r
	if os.Getenv("VERIF_PROFILE") != "" {
		for k, v := range prof.t {
			fmt.Fprintf(os.Stderr, "PROFILE %-28s %8.1fs\n", k, v.Seconds())
		}
	}
	for _, k := range sortedKeys(rn.stats) {
		r.Count(k, rn.stats[k])
	}
	// Race reports (GORACE log_path is set by run.sh).
	if sc := os.Getenv("VERIF_SCRATCH"); sc != "" {
		reps := evid.RaceReports(sc + "/race")
		r.Count("race_reports_distinct", int64(len(reps)))
		for _, rep := range reps {
			frames := strings.Split(rep.Key, "|")
			short := rep.Key
			if len(frames) > 2 {
				short = frames[0] + "|" + frames[len(frames)/2]
			}
			r.Violation("race/"+short, fmt.Sprintf("data race reported %d times", rep.Count), map[string]any{"report": rep.Text, "count": rep.Count})
		}
	} else {
		r.Assume("VERIF_SCRATCH not set: race detector log not parsed in this run")
	}
	r.Finish(floor)
}

// runTree runs all parameter sets (or only onlyParam >= 0) of tree index ti.
func (rn *runner) runTree(ti int, onlyParam int) {
	r := rn.r
	ctx := context.Background()
	st := stats{}
	defer rn.merge(st)

	rng := r.Rand(12, uint64(ti))
	// Shape classes rotate so that every class is reached in every run; large classes are rarer.
	shape := shapes[ti%len(shapes)]
	if shape == "random-large" && ti%(2*len(shapes)) >= len(shapes) {
		shape = "adv-medium"
	}
	m := genTree(rng, shape, rn.maxKeys)
	want := m.sorted()
	srcBackend := backends[(ti/len(shapes))%2]
	if rng.IntN(4) == 0 {
		srcBackend = backends[rng.IntN(2)]
	}
	rootType := node.RootTypeState
	if rng.IntN(4) == 0 {
		rootType = node.RootTypeIO
	}
	version := uint64(1 + rng.IntN(4))

	w := witness{
		Seed: r.Seed, Tier: r.Tier, Tree: ti, Shape: shape, Keys: len(m), SrcBackend: srcBackend,
		RootType: rootType.String(), Version: version,
	}
	if len(want) <= 120 {
		w.Model = want
	}
	fail := func(p *problem, w witness) {
		if strings.HasPrefix(p.Sig, "inconclusive/") {
			r.Inconclusive("%s: %s (tree %d param %d step %s)", p.Sig, p.What, w.Tree, w.Param, w.Step)
			return
		}
		w.Replay = fmt.Sprintf("./run.sh C12 replay <this file>  (re-runs tree %d param %d of seed %d tier %s)", w.Tree, w.Param, w.Seed, w.Tier)
		r.Violation(p.Sig, p.What, w)
	}
	guard := func(where string, w *witness) {
		if rec := recover(); rec != nil {
			fail(&problem{"panic/" + where, fmt.Sprintf("%v\n%s", rec, debug.Stack())}, *w)
		}
	}

	scratch := filepath.Join(r.Scratch(), fmt.Sprintf("t%d", ti))
	defer os.RemoveAll(scratch)

	var (
		src  = mustOpen(srcBackend, "")
		root node.Root
	)
	defer src.Close()
	func() {
		w.Step = "build-source"
		defer timed("build-source")()
		defer guard("build-source", &w)
		order := append([]kv{}, want...)
		rng.Shuffle(len(order), func(a, b int) { order[a], order[b] = order[b], order[a] })
		var err error
		root, err = buildSource(ctx, src, m, order, version, rootType)
		if err != nil {
			fail(&problem{"c12/harness/build-source/" + srcBackend, err.Error()}, w)
			root = node.Root{}
			return
		}
		got, err := readAll(ctx, src, root)
		if err != nil || diffContents(got, want) != "" {
			fail(&problem{"c12/harness/source-readback/" + srcBackend, fmt.Sprintf("source tree does not read back as the model: %v %s", err, diffContents(got, want))}, w)
			root = node.Root{}
		}
	}()
	if root.Namespace != testNs {
		return
	}
	w.Root = root.Hash.String()
	st.add("trees_built/"+shape, 1)
	st.add("keys_in_trees", int64(len(m)))

	// A checkpoint of a different root (foreign chunks for the corruption series).
	var fgOther [][]byte
	func() {
		w.Step = "build-foreign"
		defer guard("build-foreign", &w)
		fm := model{}
		for k, v := range m {
			fm[k] = v
		}
		for k := 0; k < 1+rng.IntN(3); k++ {
			fm[string(append(advKey(rng, 5), 'z'))] = []byte{byte(k), 'f'}
		}
		fdb := mustOpen(srcBackend, "")
		defer fdb.Close()
		froot, err := buildSource(ctx, fdb, fm, fm.sorted(), version, rootType)
		if err != nil || froot.Hash.Equal(&root.Hash) {
			return
		}
		_, fgOther, _ = checkpointOf(ctx, fdb, filepath.Join(scratch, "foreign"), froot, uint64(64+rng.IntN(512)), uint16(rng.IntN(3)))
	}()

	type paramSet struct {
		sizeClass, thrClass string
		chunkSize           uint64
		threads             uint16
	}
	params := make([]paramSet, rn.nParams)
	for p := range params {
		prng := r.Rand(12, uint64(ti), uint64(p), 1)
		sc := sizeClasses[(ti+p)%len(sizeClasses)]
		if prng.IntN(3) == 0 {
			sc = sizeClasses[prng.IntN(len(sizeClasses))]
		}
		// Keep the number of chunks (each restored chunk is one database batch, several times per
		// parameter set) of the largest trees bounded.
		bound := r.Pick(700, 1500)
		if len(m) > bound && (sc == "1" || sc == "tiny") {
			sc = "small"
		}
		if len(m) > 2*bound && sc == "small" {
			sc = "mid"
		}
		tc := threadClasses[(ti/3+p*2)%len(threadClasses)]
		if prng.IntN(3) == 0 {
			tc = threadClasses[prng.IntN(len(threadClasses))]
		}
		params[p] = paramSet{sc, tc, pickChunkSize(prng, sc), pickThreads(prng, tc)}
	}

	var prevChunks [][]byte // chunks of the previous parameter set (same root, other parameters)
	for p, ps := range params {
		prng := r.Rand(12, uint64(ti), uint64(p), 2)
		if onlyParam >= 0 && p != onlyParam && p != onlyParam-1 {
			continue
		}
		pw := w
		pw.Param, pw.ChunkSize, pw.Threads = p, ps.chunkSize, ps.threads
		pdir := filepath.Join(scratch, fmt.Sprintf("p%d", p))

		func() {
			defer os.RemoveAll(pdir)
			pw.Step = "create-checkpoint"
			defer guard("create-checkpoint", &pw)
			stopCk := timed("create-checkpoints")
			meta, chunks, err := checkpointOf(ctx, src, filepath.Join(pdir, "cpA"), root, ps.chunkSize, ps.threads)
			if err != nil {
				fail(&problem{"c12/create-checkpoint-failed/" + srcBackend + "/" + shape, fmt.Sprintf("CreateCheckpoint(chunkSize=%d, threads=%d) failed: %v", ps.chunkSize, ps.threads, err)}, pw)
				return
			}
			pw.Chunks = len(chunks)
			r.Eval(1)
			if len(chunks) == 0 {
				fail(&problem{"c12/checkpoint-without-chunks", "CreateCheckpoint returned Metadata with zero chunks (Metadata.Validate rejects that)"}, pw)
				return
			}
			st.add("checkpoints_created", 1)
			st.add("chunks_created", int64(len(chunks)))
			if !meta.Root.Equal(&root) || meta.Version != 1 {
				fail(&problem{"c12/metadata-wrong-root", fmt.Sprintf("Metadata.Root %v version %d for root %v", meta.Root, meta.Version, root)}, pw)
				return
			}
			for i := range chunks {
				if d := hash.NewFromBytes(chunks[i]); !d.Equal(&meta.Chunks[i]) {
					fail(&problem{"c12/chunk-file-digest-mismatch", fmt.Sprintf("chunk %d served by GetCheckpointChunk hashes to %s, metadata says %s", i, d, meta.Chunks[i])}, pw)
					return
				}
			}
			defer func() { prevChunks = chunks }()
			if onlyParam >= 0 && p != onlyParam {
				return
			}

			// Determinism: a second creator in another directory.
			pw.Step = "create-checkpoint-again"
			meta2, chunks2, err := checkpointOf(ctx, src, filepath.Join(pdir, "cpB"), root, ps.chunkSize, ps.threads)
			if err != nil {
				fail(&problem{"c12/create-checkpoint-failed/" + srcBackend + "/" + shape + "/second", err.Error()}, pw)
				return
			}
			st.add("metadata_pairs_compared", 1)
			if !metaEqual(meta, meta2) {
				fail(&problem{"c12/metadata-nondeterministic", fmt.Sprintf("two CreateCheckpoint calls (chunkSize=%d, threads=%d, %s) returned different Metadata: %d vs %d chunks", ps.chunkSize, ps.threads, srcBackend, len(meta.Chunks), len(meta2.Chunks))}, pw)
				return
			}
			_ = chunks2
			stopCk()

			nontrivial := len(chunks) >= 2
			if len(chunks) >= 2 {
				st.add("checkpoints_with_2plus_chunks", 1)
			}

			// Honest restores into an empty DB of each backend ("deep" parameter sets) or of one
			// backend ("light" parameter sets of the thorough tier).
			deep := p < rn.nDeep
			for bi, backend := range backends {
				if !deep && bi != (ti+p)%2 {
					continue
				}
				order := orderClasses[(ti+p+bi*3)%len(orderClasses)]
				if prng.IntN(3) == 0 {
					order = orderClasses[prng.IntN(len(orderClasses))]
				}
				pw.Step = "restore/" + backend + "/" + order
				pw.Ops = []string{"StartMultipartInsert", "StartRestore", "RestoreChunk* order=" + order, "Finalize", "read-back", "CreateCheckpoint on restored DB"}
				func() {
					defer guard("restore/"+backend+"/"+order, &pw)
					defer timed("restore/" + backend + "/" + order)()
					dst := mustOpen(backend, "")
					defer dst.Close()
					orng := r.Rand(12, uint64(ti), uint64(p), 3, uint64(bi))
					r.Eval(1)
					st.add("restores/"+backend+"/"+order, 1)
					fc := &facts{want: want}
					pw.Facts = fc
					pr := honestRestore(ctx, dst, backend, meta, chunks, order, orng, st, fc)
					for _, x := range fc.extra {
						fail(x, pw)
					}
					if pr != nil {
						fail(pr, pw)
						return
					}
					if pr := verifyRestored(ctx, dst, backend, shape, root, want, m, orng, st); pr != nil {
						fail(classify(pr, backend, fc), pw)
						return
					}
					if nontrivial {
						r.Nontrivial(strings.Join([]string{shape, ps.sizeClass, ps.thrClass, backend, order}, "|"))
						r.Distinct("restore_classes", strings.Join([]string{shape, ps.sizeClass, ps.thrClass, backend, order}, "|"))
						r.Sample(map[string]any{
							"tree": ti, "param": p, "shape": shape, "keys": len(m), "source": srcBackend, "target": backend, "root_type": rootType.String(),
							"version": version, "chunk_size": ps.chunkSize, "threads": ps.threads, "chunks": len(chunks), "order": order,
						})
					}
					r.Distinct("order_x_backend", backend+"|"+order)
					if !deep || bi != (ti+p+1)%2 {
						return
					}
					// The restored database must reproduce the checkpoint.
					meta3, _, err := checkpointOf(ctx, dst, filepath.Join(pdir, "cpR"+backend), root, ps.chunkSize, ps.threads)
					if err != nil {
						fail(&problem{"c12/create-checkpoint-failed/" + backend + "/" + shape + "/on-restored-db", err.Error()}, pw)
						return
					}
					st.add("metadata_pairs_compared", 1)
					if !metaEqual(meta, meta3) {
						fail(&problem{"c12/metadata-differs-after-restore/" + srcBackend + "-to-" + backend, fmt.Sprintf("checkpoint of the restored root differs: %d vs %d chunks", len(meta.Chunks), len(meta3.Chunks))}, pw)
						return
					}
				}()
			}

			if !deep {
				return
			}
			// Corruption series on an on-disk DB of one backend.
			backend := backends[(ti+p)%2]
			pw.Step = "corruption-series/" + backend
			pw.Ops = []string{"phase A: corrupted submissions only, abort, reopen, no root", "phase C: honest restore into the reopened DB", "phase B (fresh DB): corrupted then honest submission per chunk, Finalize, read-back"}
			func() {
				defer guard("corruption-series/"+backend, &pw)
				defer timed("corruption-series/" + backend)()
				crng := r.Rand(12, uint64(ti), uint64(p), 4)
				fg := &foreign{sameRoot: prevChunks, otherRoot: fgOther}
				r.Eval(1)
				st.add("corruption_series/"+backend, 1)
				pw.Facts = nil
				pr, fc := corruptionSeries(ctx, backend, filepath.Join(pdir, "dbC"), shape, meta, chunks, fg, want, m, rn.limit, crng, st)
				if pr != nil {
					pw.Facts = fc
					fail(pr, pw)
					return
				}
				if nontrivial {
					r.Distinct("corruption_classes", strings.Join([]string{shape, ps.sizeClass, backend}, "|"))
				}
				st.add("corruption_series_completed/"+backend, 1)
			}()
		}()
	}
}

func mustOpen(backend, dir string) api.NodeDB {
	db, err := openDB(backend, dir)
	if err != nil {
		panic(fmt.Sprintf("open %s db: %v", backend, err))
	}
	return db
}
