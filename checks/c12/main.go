// Check C12: checkpoints restore to exactly the checkpointed state.
//
// See DESIGN.md "C12". The real checkpoint creator / restorer of
// go/storage/mkvs/checkpoint is driven against both node database backends; a
// reference map decides. Built with -race (file RACE).
package main

import (
	"bytes"
	"context"
	"encoding/json"
	"errors"
	"fmt"
	"os"
	"path/filepath"
	"runtime"
	"runtime/debug"
	"strings"
	"sync"
	"time"

	"github.com/oasisprotocol/oasis-core/go/common/crypto/hash"
	"github.com/oasisprotocol/oasis-core/go/common/logging"
	"github.com/oasisprotocol/oasis-core/go/storage/mkvs/checkpoint"
	"github.com/oasisprotocol/oasis-core/go/storage/mkvs/db/api"
	"github.com/oasisprotocol/oasis-core/go/storage/mkvs/node"

	"verif/engine/evid"
)

// witness identifies one (tree, parameter set) case; everything else is a function of the seed.
type witness struct {
	Seed       int64  `json:"seed"`
	Tier       string `json:"tier"`
	Tree       int    `json:"tree"`
	Param      int    `json:"param"`
	Shape      string `json:"shape"`
	Keys       int    `json:"keys"`
	SrcBackend string `json:"source_backend"`
	RootType   string `json:"root_type"`
	Version    uint64 `json:"version"`
	Root       string `json:"root_hash"`
	// MaxNodeDepth / ProofDepth are measured by walking the source tree (root = depth 0); the proof
	// verifier rejects a proof that is entered with a depth above 128.
	MaxNodeDepth int      `json:"max_node_depth"`
	ProofDepth   int      `json:"max_depth_the_proof_verifier_is_entered_with"`
	ChunkSize    uint64   `json:"chunk_size"`
	Threads      uint16   `json:"threads"`
	Chunks       int      `json:"chunks"`
	Step         string   `json:"step"`
	Facts        *facts   `json:"facts,omitempty"`
	Ops          []string `json:"operations"`
	Model        []kv     `json:"model,omitempty"`
	Replay       string   `json:"replay_hint"`
}

type runner struct {
	r       *evid.Run
	nParams int
	nDeep   int // parameter sets per tree that get both restores and the corruption series
	maxKeys int
	limit   int // corrupted chunk indices per series

	mu    sync.Mutex
	stats stats
}

// prof accumulates wall time per phase for tuning only (printed to stderr with VERIF_PROFILE=1,
// never part of the evidence or the verdict).
var prof = struct {
	sync.Mutex
	t map[string]time.Duration
}{t: map[string]time.Duration{}}

func timed(name string) func() {
	t0 := time.Now()
	return func() {
		prof.Lock()
		prof.t[name] += time.Since(t0)
		prof.Unlock()
	}
}

func (rn *runner) merge(st stats) {
	rn.mu.Lock()
	for k, v := range st {
		rn.stats[k] += v
	}
	rn.mu.Unlock()
}

func main() {
	_ = logging.Initialize(nil, logging.FmtLogfmt, logging.LevelError, nil)
	r := evid.Start("C12", "exploration")
	r.Rule = "PRNG trees of 8 shape classes (empty, single leaf, deep prefix chain, adversarial alphabet {00,01,7f,80,ff,a,b} small/medium, dense 1-2 byte keys, big values, large random up to 1200 (quick) / 5000 (thorough) keys) " +
		"are committed and finalized in a source NodeDB (badger or pathbadger, state or IO root, version 1..4); per tree 6 (quick) / 20 (thorough) parameter sets (chunk size class 1/tiny/small/mid/larger-than-tree x chunker threads 0,1,2,3-8,9-32): " +
		"CreateCheckpoint twice in separate directories (Metadata must be equal), restore into an empty DB of EACH backend (thorough: the first 4 parameter sets of a tree; the other 16 restore into one backend) with a PRNG order class " +
		"(sequential, reverse, shuffled, shuffled with duplicates, 4 concurrent callers with duplicates [a stall of the callers is judged from two goroutine dumps: all callers blocked in node database mutexes = deadlock violation, the database is abandoned], abort-and-restart, GATED = forced interleaving: 1-3 PRNG-chosen chunks are submitted by callers whose readers block inside Read, all other callers return, then they are released one by one in PRNG order; " +
		"as the production callers do, the harness finalizes and reads back as soon as ANY call reports done=true, while stragglers are still blocked), Finalize, full read-back against the reference map, GetRootsForVersion/GetLatestVersion, " +
		"checkpoint of the restored DB must reproduce the Metadata; plus (same parameter sets) a corruption series on one backend (each selected chunk x {bitflip, truncate, append, swapped, chunk of other checkpoint of same/other root, wrong metadata digest, metadata digest of a foreign proof}: " +
		"must be rejected; a fresh-DB restore mixing rejected and honest submissions must end identical; after only rejected submissions abort+reopen must show no root and a subsequent honest restore must end identical). " +
		"RECREATION: per tree the checkpoint is created with parameters P1, then three times the leftover of an unfinished CreateCheckpoint/DeleteCheckpoint run is simulated (meta removed; plus some chunk files removed / one truncated / one extended / further stale chunk files) " +
		"and the checkpoint of the same root is created again in the same directory with smaller chunks, larger chunks and another thread count: the Metadata must equal that of a creation with the same parameters in a fresh directory, every served chunk must hash to its digest, and the restore oracle must pass on the served chunks. " +
		"Minimal witnesses of the known findings are replayed first. A case is NON-TRIVIAL when the checkpoint has >= 2 chunks; distinct key = (shape class, chunk size class, thread class, target backend, order class)."
	r.Assume("the reference map (Go map, sorted) and the harness itself are correct")
	r.Assume("race detector reports only races on executed interleavings; 4 concurrent RestoreChunk callers are scheduled by the Go runtime, not enumerated")
	r.Assume("'nothing visible' (no root after abort and reopen) is asserted after submissions that were all rejected. After an aborted restore of HONEST chunks both backends keep answering HasRoot=true and list the root in GetRootsForVersion as a pending (never as a finalized) root, GetLatestVersion stays empty: this is outside the property (nothing of a rejected chunk, nothing visible as finalized) and is recorded as an observation only (coverage.observation_root_listed_after_abort, counters observed/...)")

	rn := &runner{r: r, nParams: r.Pick(6, 20), nDeep: r.Pick(6, 4), maxKeys: r.Pick(1200, 5000), limit: r.Pick(12, 32), stats: stats{}}
	nTrees := r.Pick(60, 500)

	if r.ReplayFile != "" {
		var doc struct {
			Seed    int64  `json:"seed"`
			Tier    string `json:"tier"`
			Witness struct {
				witness
				Minimal bool `json:"minimal_witness"`
			} `json:"witness"`
		}
		b, err := os.ReadFile(r.ReplayFile)
		if err != nil || json.Unmarshal(b, &doc) != nil {
			fmt.Println("INCONCLUSIVE property=C12 cannot read replay file")
			os.Exit(2)
		}
		r.Seed, r.Tier = doc.Seed, doc.Tier
		rn.nParams, rn.nDeep, rn.maxKeys, rn.limit = r.Pick(6, 20), r.Pick(6, 4), r.Pick(1200, 5000), r.Pick(12, 32)
		replayAbortedMultipartWitness(r)
		replayRootListedAfterAbortWitness(r)
		if !doc.Witness.Minimal {
			rn.runTree(doc.Witness.Tree, doc.Witness.Param)
		}
		rn.finish(1)
		return
	}

	replayAbortedMultipartWitness(r)
	replayRootListedAfterAbortWitness(r)
	// Every worker holds two or three open badger instances (64 MB memtable arenas, times the race
	// detector's shadow memory), so the number of workers is capped to keep the peak RSS near 5 GB.
	workers := runtime.NumCPU()
	if workers > 12 {
		workers = 12
	}
	evid.Parallel(nTrees, workers, func(i int) { rn.runTree(i, -1) })
	// Fallback cases (fallback.go): aborted restore of a newer checkpoint, restore of an older one,
	// forward sync with write logs through the aborted version.
	nFallback := r.Pick(24, 600)
	evid.Parallel(nFallback, workers, func(i int) {
		st := stats{}
		for _, b := range []string{"badger", "pathbadger"} {
			rn.fallbackCase(i, b, st)
			r.Eval(1)
		}
		rn.merge(st)
	})
	// Abort-while-in-flight cases (inflight.go).
	nInflight := r.Pick(24, 600)
	evid.Parallel(nInflight, workers, func(i int) {
		st := stats{}
		for _, b := range []string{"badger", "pathbadger"} {
			rn.inflightCase(i, b, st)
			r.Eval(1)
			if i%2 == 0 {
				rn.inflightDupCase(i, b, st)
				r.Eval(1)
			}
		}
		rn.merge(st)
	})
	rn.finish(r.Pick(40, 150))
}

func (rn *runner) finish(floor int) {
	r := rn.r
	if os.Getenv("VERIF_PROFILE") != "" {
		for k, v := range prof.t {
			fmt.Fprintf(os.Stderr, "PROFILE %-28s %8.1fs\n", k, v.Seconds())
		}
	}
	for _, k := range sortedKeys(rn.stats) {
		r.Count(k, rn.stats[k])
	}
	// Race reports (GORACE log_path is set by run.sh).
	if sc := os.Getenv("VERIF_SCRATCH"); sc != "" {
		reps := evid.RaceReports(sc + "/race")
		r.Count("race_reports_distinct", int64(len(reps)))
		for _, rep := range reps {
			frames := strings.Split(rep.Key, "|")
			short := rep.Key
			if len(frames) > 2 {
				short = frames[0] + "|" + frames[len(frames)/2]
			}
			r.Violation("race/"+short, fmt.Sprintf("data race reported %d times", rep.Count), map[string]any{"report": rep.Text, "count": rep.Count})
		}
	} else {
		r.Assume("VERIF_SCRATCH not set: race detector log not parsed in this run")
	}
	r.Finish(floor)
}

// runTree runs all parameter sets (or only onlyParam >= 0) of tree index ti.
func (rn *runner) runTree(ti int, onlyParam int) {
	r := rn.r
	ctx := context.Background()
	st := stats{}
	defer rn.merge(st)

	rng := r.Rand(12, uint64(ti))
	// Shape classes rotate so that every class is reached in every run; large classes are rarer.
	shape := shapes[ti%len(shapes)]
	if shape == "random-large" && ti%(2*len(shapes)) >= len(shapes) {
		shape = "adv-medium"
	}
	// Exactly one tree of the quick tier (index 2, a nested-prefix chain of 140 keys) is deeper than
	// the proof verifier's limit; the other quick chains are bounded well below it.
	deepTree := ti == 2
	m := genTree(rng, shape, rn.maxKeys, r.Pick(50, 120), deepTree)
	want := m.sorted()
	srcBackend := backends[(ti/len(shapes))%2]
	if rng.IntN(4) == 0 {
		srcBackend = backends[rng.IntN(2)]
	}
	rootType := node.RootTypeState
	if rng.IntN(4) == 0 {
		rootType = node.RootTypeIO
	}
	version := uint64(1 + rng.IntN(4))

	w := witness{
		Seed: r.Seed, Tier: r.Tier, Tree: ti, Shape: shape, Keys: len(m), SrcBackend: srcBackend,
		RootType: rootType.String(), Version: version,
	}
	if len(want) <= 120 {
		w.Model = want
	}
	fail := func(p *problem, w witness) {
		if strings.HasPrefix(p.Sig, "inconclusive/") {
			r.Inconclusive("%s: %s (tree %d param %d step %s)", p.Sig, p.What, w.Tree, w.Param, w.Step)
			return
		}
		w.Replay = fmt.Sprintf("./run.sh C12 replay <this file>  (re-runs tree %d param %d of seed %d tier %s)", w.Tree, w.Param, w.Seed, w.Tier)
		r.Violation(p.Sig, p.What, w)
	}
	guard := func(where string, w *witness) {
		if rec := recover(); rec != nil {
			fail(&problem{"panic/" + where, fmt.Sprintf("%v\n%s", rec, debug.Stack())}, *w)
		}
	}

	scratch := filepath.Join(r.Scratch(), fmt.Sprintf("t%d", ti))
	defer os.RemoveAll(scratch)

	var (
		src  = mustOpen(srcBackend, "")
		root node.Root
	)
	defer src.Close()
	func() {
		w.Step = "build-source"
		defer timed("build-source")()
		defer guard("build-source", &w)
		order := append([]kv{}, want...)
		rng.Shuffle(len(order), func(a, b int) { order[a], order[b] = order[b], order[a] })
		var err error
		root, err = buildSource(ctx, src, m, order, version, rootType)
		if err != nil {
			fail(&problem{"c12/harness/build-source/" + srcBackend, err.Error()}, w)
			root = node.Root{}
			return
		}
		got, err := readAll(ctx, src, root)
		if err != nil || diffContents(got, want) != "" {
			fail(&problem{"c12/harness/source-readback/" + srcBackend, fmt.Sprintf("source tree does not read back as the model: %v %s", err, diffContents(got, want))}, w)
			root = node.Root{}
		}
	}()
	if root.Namespace != testNs {
		return
	}
	w.Root = root.Hash.String()
	st.add("trees_built/"+shape, 1)
	st.add("keys_in_trees", int64(len(m)))
	if mn, pd, err := measureDepth(src, root); err != nil {
		fail(&problem{"c12/harness/measure-depth/" + srcBackend, err.Error()}, w)
		return
	} else {
		w.MaxNodeDepth, w.ProofDepth = mn, pd
	}
	r.Distinct("tree_depths", fmt.Sprint(w.MaxNodeDepth))
	if w.ProofDepth > maxProofDepth {
		st.add("trees_with_proof_depth_over_128", 1)
		if rn.probeDeepTree(ctx, ti, src, root, w, want, m, st, fail) {
			st.add("trees_skipped_after_proof_depth_rejection", 1)
			return
		}
	}

	// A checkpoint of a different root (foreign chunks for the corruption series).
	var fgOther [][]byte
	func() {
		w.Step = "build-foreign"
		defer guard("build-foreign", &w)
		fm := model{}
		for k, v := range m {
			fm[k] = v
		}
		for k := 0; k < 1+rng.IntN(3); k++ {
			fm[string(append(advKey(rng, 5), 'z'))] = []byte{byte(k), 'f'}
		}
		fdb := mustOpen(srcBackend, "")
		defer fdb.Close()
		froot, err := buildSource(ctx, fdb, fm, fm.sorted(), version, rootType)
		if err != nil || froot.Hash.Equal(&root.Hash) {
			return
		}
		_, fgOther, _ = checkpointOf(ctx, fdb, filepath.Join(scratch, "foreign"), froot, uint64(64+rng.IntN(512)), uint16(rng.IntN(3)))
	}()

	type paramSet struct {
		sizeClass, thrClass string
		chunkSize           uint64
		threads             uint16
	}
	params := make([]paramSet, rn.nParams)
	for p := range params {
		prng := r.Rand(12, uint64(ti), uint64(p), 1)
		sc := sizeClasses[(ti+p)%len(sizeClasses)]
		if prng.IntN(3) == 0 {
			sc = sizeClasses[prng.IntN(len(sizeClasses))]
		}
		// Keep the number of chunks (each restored chunk is one database batch, several times per
		// parameter set) of the largest trees bounded.
		bound := r.Pick(700, 1500)
		if len(m) > bound && (sc == "1" || sc == "tiny") {
			sc = "small"
		}
		if len(m) > 2*bound && sc == "small" {
			sc = "mid"
		}
		tc := threadClasses[(ti/3+p*2)%len(threadClasses)]
		if prng.IntN(3) == 0 {
			tc = threadClasses[prng.IntN(len(threadClasses))]
		}
		params[p] = paramSet{sc, tc, pickChunkSize(prng, sc), pickThreads(prng, tc)}
	}

	var prevChunks [][]byte // chunks of the previous parameter set (same root, other parameters)
	for p, ps := range params {
		prng := r.Rand(12, uint64(ti), uint64(p), 2)
		if onlyParam >= 0 && p != onlyParam && p != onlyParam-1 {
			continue
		}
		pw := w
		pw.Param, pw.ChunkSize, pw.Threads = p, ps.chunkSize, ps.threads
		pdir := filepath.Join(scratch, fmt.Sprintf("p%d", p))

		func() {
			defer os.RemoveAll(pdir)
			pw.Step = "create-checkpoint"
			defer guard("create-checkpoint", &pw)
			stopCk := timed("create-checkpoints")
			meta, chunks, err := checkpointOf(ctx, src, filepath.Join(pdir, "cpA"), root, ps.chunkSize, ps.threads)
			if err != nil {
				fail(&problem{"c12/create-checkpoint-failed/" + srcBackend + "/" + shape, fmt.Sprintf("CreateCheckpoint(chunkSize=%d, threads=%d) failed: %v", ps.chunkSize, ps.threads, err)}, pw)
				return
			}
			pw.Chunks = len(chunks)
			r.Eval(1)
			if len(chunks) == 0 {
				fail(&problem{"c12/checkpoint-without-chunks", "CreateCheckpoint returned Metadata with zero chunks (Metadata.Validate rejects that)"}, pw)
				return
			}
			st.add("checkpoints_created", 1)
			st.add("chunks_created", int64(len(chunks)))
			if !meta.Root.Equal(&root) || meta.Version != 1 {
				fail(&problem{"c12/metadata-wrong-root", fmt.Sprintf("Metadata.Root %v version %d for root %v", meta.Root, meta.Version, root)}, pw)
				return
			}
			for i := range chunks {
				if d := hash.NewFromBytes(chunks[i]); !d.Equal(&meta.Chunks[i]) {
					fail(&problem{"c12/chunk-file-digest-mismatch", fmt.Sprintf("chunk %d served by GetCheckpointChunk hashes to %s, metadata says %s", i, d, meta.Chunks[i])}, pw)
					return
				}
			}
			defer func() { prevChunks = chunks }()
			if onlyParam >= 0 && p != onlyParam {
				return
			}

			// Determinism: a second creator in another directory.
			pw.Step = "create-checkpoint-again"
			meta2, chunks2, err := checkpointOf(ctx, src, filepath.Join(pdir, "cpB"), root, ps.chunkSize, ps.threads)
			if err != nil {
				fail(&problem{"c12/create-checkpoint-failed/" + srcBackend + "/" + shape + "/second", err.Error()}, pw)
				return
			}
			st.add("metadata_pairs_compared", 1)
			if !metaEqual(meta, meta2) {
				fail(&problem{"c12/metadata-nondeterministic", fmt.Sprintf("two CreateCheckpoint calls (chunkSize=%d, threads=%d, %s) returned different Metadata: %d vs %d chunks", ps.chunkSize, ps.threads, srcBackend, len(meta.Chunks), len(meta2.Chunks))}, pw)
				return
			}
			_ = chunks2
			stopCk()

			nontrivial := len(chunks) >= 2
			if len(chunks) >= 2 {
				st.add("checkpoints_with_2plus_chunks", 1)
			}

			// Honest restores into an empty DB of each backend ("deep" parameter sets) or of one
			// backend ("light" parameter sets of the thorough tier).
			deep := p < rn.nDeep
			for bi, backend := range backends {
				if !deep && bi != (ti+p)%2 {
					continue
				}
				order := orderClasses[(ti+p+bi*3)%len(orderClasses)]
				if prng.IntN(3) == 0 {
					order = orderClasses[prng.IntN(len(orderClasses))]
				}
				pw.Step = "restore/" + backend + "/" + order
				pw.Ops = []string{"StartMultipartInsert", "StartRestore", "RestoreChunk* order=" + order, "Finalize", "read-back", "CreateCheckpoint on restored DB"}
				func() {
					defer guard("restore/"+backend+"/"+order, &pw)
					defer timed("restore/" + backend + "/" + order)()
					if order == "concurrent4" && concurrentRestoreDisabled(backend) {
						// Concurrent restores of this backend deadlock (already reported): do not
						// pile up abandoned databases.
						st.add("concurrent_restores_replaced_after_deadlocks/"+backend, 1)
						order = "shuffled"
						pw.Step = "restore/" + backend + "/" + order
					}
					fc := &facts{want: want}
					dst := mustOpen(backend, "")
					defer func() {
						if !fc.abandonDB {
							dst.Close()
						}
					}()
					orng := r.Rand(12, uint64(ti), uint64(p), 3, uint64(bi))
					r.Eval(1)
					st.add("restores/"+backend+"/"+order, 1)
					pw.Facts = fc
					pr := honestRestore(ctx, dst, backend, meta, chunks, order, orng, st, fc)
					for _, x := range fc.extra {
						fail(x, pw)
					}
					if pr != nil {
						fail(pr, pw)
						return
					}
					if pr := verifyRestored(ctx, dst, backend, shape, root, want, m, orng, st); pr != nil {
						fail(classify(pr, backend, fc), pw)
						return
					}
					if nontrivial {
						r.Nontrivial(strings.Join([]string{shape, ps.sizeClass, ps.thrClass, backend, order}, "|"))
						r.Distinct("restore_classes", strings.Join([]string{shape, ps.sizeClass, ps.thrClass, backend, order}, "|"))
						r.Sample(map[string]any{
							"tree": ti, "param": p, "shape": shape, "keys": len(m), "source": srcBackend, "target": backend, "root_type": rootType.String(),
							"version": version, "chunk_size": ps.chunkSize, "threads": ps.threads, "chunks": len(chunks), "order": order,
						})
					}
					r.Distinct("order_x_backend", backend+"|"+order)
					if !deep || bi != (ti+p+1)%2 {
						return
					}
					// The restored database must reproduce the checkpoint.
					meta3, _, err := checkpointOf(ctx, dst, filepath.Join(pdir, "cpR"+backend), root, ps.chunkSize, ps.threads)
					if err != nil {
						fail(&problem{"c12/create-checkpoint-failed/" + backend + "/" + shape + "/on-restored-db", err.Error()}, pw)
						return
					}
					st.add("metadata_pairs_compared", 1)
					if !metaEqual(meta, meta3) {
						fail(&problem{"c12/metadata-differs-after-restore/" + srcBackend + "-to-" + backend, fmt.Sprintf("checkpoint of the restored root differs: %d vs %d chunks", len(meta.Chunks), len(meta3.Chunks))}, pw)
						return
					}
				}()
			}

			if !deep {
				return
			}
			// Corruption series on an on-disk DB of one backend.
			backend := backends[(ti+p)%2]
			pw.Step = "corruption-series/" + backend
			pw.Ops = []string{"phase A: corrupted submissions only, abort, reopen, no root", "phase C: honest restore into the reopened DB", "phase B (fresh DB): corrupted then honest submission per chunk, Finalize, read-back"}
			func() {
				defer guard("corruption-series/"+backend, &pw)
				defer timed("corruption-series/" + backend)()
				crng := r.Rand(12, uint64(ti), uint64(p), 4)
				fg := &foreign{sameRoot: prevChunks, otherRoot: fgOther}
				r.Eval(1)
				st.add("corruption_series/"+backend, 1)
				pw.Facts = nil
				pr, fc := corruptionSeries(ctx, backend, filepath.Join(pdir, "dbC"), shape, meta, chunks, fg, want, m, rn.limit, crng, st)
				if pr != nil {
					pw.Facts = fc
					fail(pr, pw)
					return
				}
				if nontrivial {
					r.Distinct("corruption_classes", strings.Join([]string{shape, ps.sizeClass, backend}, "|"))
				}
				st.add("corruption_series_completed/"+backend, 1)
			}()
		}()
	}

	// Re-creation of the checkpoint after an interrupted creation / deletion.
	if onlyParam < 0 || onlyParam == 1000 {
		func() {
			fw := w
			fw.Param = 1000
			defer guard("recreate-after-interruption", &fw)
			defer timed("recreate-family")()
			rn.recreateFamily(ctx, ti, src, root, fw, shape, want, m, scratch, st, fail)
		}()
	}
}

func mustOpen(backend, dir string) api.NodeDB {
	db, err := openDB(backend, dir)
	if err != nil {
		panic(fmt.Sprintf("open %s db: %v", backend, err))
	}
	return db
}

// Signatures of the finding "honest checkpoint chunks of a tree with more than 128 node levels
// are rejected by the proof verifier's depth limit" (one per step kind).
const (
	sigDepthRejected     = "c12/honest-chunk-rejected/proof-depth-over-128"
	sigDepthRetryRefused = "c12/honest-retry-refused/proof-depth-over-128"
)

// probeDeepTree is run for a source tree whose measured proof depth exceeds the verifier's limit:
// one checkpoint (created twice, Metadata compared) is restored sequentially into an empty DB of
// each backend. If an honest chunk is rejected with exactly "max proof depth exceeded" the finding
// is reported under its stable signature, as is the refusal of the immediate honest retry (the
// restorer gave up on the checkpoint), and the rest of the tree's oracle, which cannot complete,
// is skipped (true). Any other outcome is judged as usual; if every chunk is accepted the normal
// oracle runs (false).
func (rn *runner) probeDeepTree(ctx context.Context, ti int, src api.NodeDB, root node.Root, w witness, want []kv, m model, st stats, fail func(*problem, witness)) (skip bool) {
	r := rn.r
	w.Step = "probe-deep-tree"
	defer func() {
		if rec := recover(); rec != nil {
			fail(&problem{"panic/probe-deep-tree", fmt.Sprintf("%v\n%s", rec, debug.Stack())}, w)
			skip = true
		}
	}()
	dir := filepath.Join(r.Scratch(), fmt.Sprintf("t%d-deep", ti))
	defer os.RemoveAll(dir)
	prng := r.Rand(12, uint64(ti), 99)
	w.ChunkSize, w.Threads = uint64(64+prng.IntN(2000)), uint16(prng.IntN(4))
	meta, chunks, err := checkpointOf(ctx, src, filepath.Join(dir, "cpA"), root, w.ChunkSize, w.Threads)
	if err != nil {
		fail(&problem{"c12/create-checkpoint-failed/" + w.SrcBackend + "/" + w.Shape, err.Error()}, w)
		return true
	}
	w.Chunks = len(chunks)
	r.Eval(1)
	st.add("checkpoints_created", 1)
	st.add("chunks_created", int64(len(chunks)))
	meta2, _, err := checkpointOf(ctx, src, filepath.Join(dir, "cpB"), root, w.ChunkSize, w.Threads)
	if err != nil || !metaEqual(meta, meta2) {
		fail(&problem{"c12/metadata-nondeterministic", fmt.Sprintf("two CreateCheckpoint calls on a tree of depth %d differ (err %v)", w.MaxNodeDepth, err)}, w)
		return true
	}
	st.add("metadata_pairs_compared", 1)

	rejectedEverywhere := true
	for _, backend := range backends {
		r.Eval(1)
		st.add("deep_tree_probes/"+backend, 1)
		accepted := func() bool {
			dst := mustOpen(backend, "")
			defer dst.Close()
			rs, _ := checkpoint.NewRestorer(dst)
			if err := dst.StartMultipartInsert(root.Version); err != nil {
				fail(&problem{"c12/restore-error/start-multipart/" + backend + "/" + errClass(err), err.Error()}, w)
				return false
			}
			if err := rs.StartRestore(ctx, meta); err != nil {
				fail(&problem{"c12/restore-error/start-restore/" + errClass(err), err.Error()}, w)
				return false
			}
			w.Ops = []string{"StartMultipartInsert", "StartRestore", "RestoreChunk 0.. sequentially"}
			for i := range chunks {
				done, err := rs.RestoreChunk(ctx, uint64(i), bytes.NewReader(chunks[i]))
				st.add("restorechunk_calls", 1)
				if err == nil {
					if done != (i == len(chunks)-1) {
						fail(&problem{"c12/restore-done-flag-wrong/" + backend, fmt.Sprintf("done=%v after chunk %d of %d", done, i, len(chunks))}, w)
						return false
					}
					continue
				}
				if errors.Is(err, checkpoint.ErrChunkProofVerificationFailed) && strings.Contains(err.Error(), "max proof depth exceeded") {
					// Exactly the documented limit, and the measured depth is above it.
					st.add("honest_chunks_rejected_for_proof_depth/"+backend, 1)
					fail(&problem{sigDepthRejected, fmt.Sprintf("%s: RestoreChunk(%d of %d) of an honest checkpoint of a tree with %d node levels (verifier entered with depth %d > %d) failed: %v", backend, i, len(chunks), w.MaxNodeDepth+1, w.ProofDepth, maxProofDepth, err)}, w)
					// The immediate honest retry, as a caller that treats the failure as transient would do.
					if _, err2 := rs.RestoreChunk(ctx, uint64(i), bytes.NewReader(chunks[i])); err2 != nil {
						st.add("honest_retries_refused_after_proof_depth_rejection/"+backend+"/"+errClass(err2), 1)
						fail(&problem{sigDepthRetryRefused, fmt.Sprintf("%s: the honest retry of chunk %d right after the proof-depth rejection is refused (the restorer gave up on the checkpoint): %v", backend, i, err2)}, w)
					}
					return false
				}
				fail(&problem{"c12/honest-chunk-rejected/" + backend + "/" + errClass(err), fmt.Sprintf("RestoreChunk(%d) of an honest, not yet restored chunk failed: %v", i, err)}, w)
				return false
			}
			return true
		}()
		if accepted {
			rejectedEverywhere = false
		}
	}
	_ = want
	_ = m
	// If every backend accepted all chunks the limit no longer applies: run the normal oracle.
	return rejectedEverywhere
}
