package main

import (
	"bytes"
	"fmt"
	"math/rand/v2"
	"sort"
)

// alphabet is the adversarial key alphabet of DESIGN.md E2.
var alphabet = []byte{0x00, 0x01, 0x7f, 0x80, 0xff, 'a', 'b'}

// kv is one key/value pair of the reference model.
type kv struct {
	K []byte `json:"k"`
	V []byte `json:"v"`
}

// model is the reference ordered map (Go map + sorted slice on demand).
type model map[string][]byte

func (m model) sorted() []kv {
	out := make([]kv, 0, len(m))
	for k, v := range m {
		out = append(out, kv{K: []byte(k), V: v})
	}
	sort.Slice(out, func(i, j int) bool { return bytes.Compare(out[i].K, out[j].K) < 0 })
	return out
}

func advKey(rng *rand.Rand, maxLen int) []byte {
	n := rng.IntN(maxLen + 1)
	k := make([]byte, n)
	for i := range k {
		k[i] = alphabet[rng.IntN(len(alphabet))]
	}
	return k
}

func smallValue(rng *rand.Rand) []byte {
	switch rng.IntN(12) {
	case 0:
		// Occasional large value (crosses chunk-size and value-cache limits).
		v := make([]byte, 200+rng.IntN(3000))
		for i := range v {
			v[i] = byte(rng.IntN(256))
		}
		return v
	default:
		v := make([]byte, rng.IntN(4))
		for i := range v {
			v[i] = alphabet[rng.IntN(len(alphabet))]
		}
		return v
	}
}

// shapes are the tree shape classes.
var shapes = []string{"empty", "single", "chain", "adv-small", "adv-medium", "dense", "bigvalues", "random-large"}

// genTree generates the contents of one tree of the given shape class.
// maxKeys bounds the largest classes.
// chainDepthBound bounds the number of chain steps of ordinary "chain" trees; genTree with
// deep=true produces a nested-prefix chain of 140 keys, i.e. more than 128 node levels.
func genTree(rng *rand.Rand, shape string, maxKeys int, chainDepthBound int, deep bool) model {
	m := model{}
	switch shape {
	case "empty":
	case "single":
		var k []byte
		if rng.IntN(4) == 0 {
			k = []byte{} // the empty key
		} else {
			k = advKey(rng, 6)
		}
		m[string(k)] = smallValue(rng)
	case "chain":
		// Deep prefix chains: every key is a proper prefix of the next one, so every leaf but the
		// last hangs off an internal node; a few siblings branch off at random depths.
		depth := 8 + rng.IntN(chainDepthBound)
		if deep {
			depth = 140
		}
		cur := []byte{}
		if rng.IntN(2) == 0 {
			m[""] = smallValue(rng)
		}
		for i := 0; i < depth; i++ {
			step := 1
			if rng.IntN(5) == 0 && !deep {
				step = 1 + rng.IntN(3)
			}
			for j := 0; j < step; j++ {
				cur = append(cur, alphabet[rng.IntN(len(alphabet))])
			}
			if deep || rng.IntN(8) != 0 {
				m[string(cur)] = smallValue(rng)
			}
			if rng.IntN(4) == 0 {
				sib := append(append([]byte{}, cur[:len(cur)-1]...), alphabet[rng.IntN(len(alphabet))])
				sib = append(sib, advKey(rng, 2)...)
				m[string(sib)] = smallValue(rng)
			}
		}
	case "adv-small":
		n := 2 + rng.IntN(40)
		for i := 0; i < n; i++ {
			m[string(advKey(rng, 6))] = smallValue(rng)
		}
	case "adv-medium":
		n := 80 + rng.IntN(min(520, maxKeys))
		for i := 0; i < n; i++ {
			m[string(advKey(rng, 8))] = smallValue(rng)
		}
	case "dense":
		// All one- and two-byte keys over a byte subset: a bushy tree with many embedded leaves.
		sub := make([]byte, 3+rng.IntN(14))
		for i := range sub {
			sub[i] = byte(rng.IntN(256))
		}
		for _, a := range sub {
			if rng.IntN(3) != 0 {
				m[string([]byte{a})] = smallValue(rng)
			}
			for _, b := range sub {
				if rng.IntN(5) != 0 {
					m[string([]byte{a, b})] = []byte{a ^ b}
				}
			}
		}
	case "bigvalues":
		n := 2 + rng.IntN(12)
		for i := 0; i < n; i++ {
			v := make([]byte, 500+rng.IntN(8000))
			for j := range v {
				v[j] = byte(rng.IntN(256))
			}
			k := advKey(rng, 5)
			if rng.IntN(3) == 0 {
				k = append(k, bytes.Repeat([]byte{'a'}, 40+rng.IntN(200))...)
			}
			m[string(k)] = v
		}
	case "random-large":
		n := maxKeys/3 + rng.IntN(maxKeys-maxKeys/3+1)
		for i := 0; i < n; i++ {
			k := make([]byte, 1+rng.IntN(24))
			for j := range k {
				k[j] = byte(rng.IntN(256))
			}
			v := make([]byte, rng.IntN(60))
			for j := range v {
				v[j] = byte(rng.IntN(256))
			}
			m[string(k)] = v
		}
	default:
		panic("unknown shape " + shape)
	}
	return m
}

// sizeClasses are the chunk size classes.
var sizeClasses = []string{"1", "tiny", "small", "mid", "huge"}

func pickChunkSize(rng *rand.Rand, class string) uint64 {
	switch class {
	case "1":
		return 1
	case "tiny":
		return uint64(2 + rng.IntN(60))
	case "small":
		return uint64(62 + rng.IntN(450))
	case "mid":
		return uint64(512 + rng.IntN(6000))
	case "huge":
		return uint64(1<<22 + rng.IntN(1<<20))
	}
	panic("unknown size class " + class)
}

// threadClasses are the chunker thread classes.
var threadClasses = []string{"t0", "t1", "t2", "t3-8", "t9-32"}

func pickThreads(rng *rand.Rand, class string) uint16 {
	switch class {
	case "t0":
		return 0
	case "t1":
		return 1
	case "t2":
		return 2
	case "t3-8":
		return uint16(3 + rng.IntN(6))
	case "t9-32":
		return uint16(9 + rng.IntN(24))
	}
	panic("unknown thread class " + class)
}

// orderClasses are the restore order classes.
var orderClasses = []string{"sequential", "reverse", "shuffled", "shuffled-dup", "concurrent4", "abort-restart", "gated"}

func hexs(b []byte) string { return fmt.Sprintf("%x", b) }
