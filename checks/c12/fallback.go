package main

// Fallback cases of check C12 (also a C06 matter): what the storage worker does when the
// restore of the newest checkpoint fails half way - abort it, restore an OLDER checkpoint
// instead, then sync forward with write logs through and beyond the version of the aborted
// restore. Every version finalized on the way must read back completely; the leftovers of
// the aborted restore must not surface.

import (
	"bytes"
	"context"
	"fmt"
	"os"
	"path/filepath"

	"github.com/oasisprotocol/oasis-core/go/storage/mkvs"
	"github.com/oasisprotocol/oasis-core/go/storage/mkvs/checkpoint"
	"github.com/oasisprotocol/oasis-core/go/storage/mkvs/node"
)

type fallbackWitness struct {
	Seed           int64    `json:"seed"`
	Case           int      `json:"fallback_case"`
	Backend        string   `json:"backend"`
	Keys           int      `json:"keys_in_first_version"`
	OlderVersion   uint64   `json:"older_checkpoint_version"`
	AbortedVersion uint64   `json:"aborted_restore_version"`
	LastVersion    uint64   `json:"synced_up_to_version"`
	ChunksRestored int      `json:"chunks_of_the_newer_checkpoint_restored_before_abort"`
	ChunksTotal    int      `json:"chunks_of_the_newer_checkpoint"`
	Steps          []string `json:"steps"`
}

func (rn *runner) fallbackCase(idx int, backend string, st stats) {
	r := rn.r
	ctx := context.Background()
	rng := r.Rand(900, uint64(idx))
	older := uint64(1 + rng.IntN(3))
	aborted := older + uint64(1+rng.IntN(3))
	last := aborted + uint64(rng.IntN(3))
	nKeys := 20 + rng.IntN(120)
	w := fallbackWitness{Seed: r.Seed, Case: idx, Backend: backend, Keys: nKeys, OlderVersion: older, AbortedVersion: aborted, LastVersion: last}
	step := func(f string, a ...any) { w.Steps = append(w.Steps, fmt.Sprintf(f, a...)) }
	harness := func(what string, err error) {
		r.Inconclusive("fallback case %d (%s): harness step %s failed: %v", idx, backend, what, err)
	}

	// Source chain: versions 1..last, each finalized; a few keys change per version.
	src, err := openDB(backend, "")
	if err != nil {
		harness("open source", err)
		return
	}
	defer src.Close()
	tree := mkvs.New(nil, src, node.RootTypeState)
	defer tree.Close()
	roots := map[uint64]node.Root{}
	models := map[uint64]model{}
	cur := model{}
	for v := uint64(1); v <= last; v++ {
		n := 1 + rng.IntN(4)
		if v == 1 {
			n = nKeys
		}
		for i := 0; i < n; i++ {
			k := []byte(fmt.Sprintf("k%04d", rng.IntN(nKeys*2)))
			if v > 1 && rng.IntN(4) == 0 {
				if err = tree.Remove(ctx, k); err != nil {
					harness("remove", err)
					return
				}
				delete(cur, string(k))
				continue
			}
			val := []byte(fmt.Sprintf("v%d-%d", v, rng.IntN(1000)))
			if err = tree.Insert(ctx, k, val); err != nil {
				harness("insert", err)
				return
			}
			cur[string(k)] = val
		}
		_, h, cerr := tree.Commit(ctx, testNs, v)
		if cerr != nil {
			harness("source commit", cerr)
			return
		}
		roots[v] = node.Root{Namespace: testNs, Version: v, Type: node.RootTypeState, Hash: h}
		if err = src.Finalize([]node.Root{roots[v]}); err != nil {
			harness("source finalize", err)
			return
		}
		m := model{}
		for k, val := range cur {
			m[k] = val
		}
		models[v] = m
	}
	dir, err := os.MkdirTemp(r.Scratch(), "fallback")
	if err != nil {
		harness("tempdir", err)
		return
	}
	defer os.RemoveAll(dir)
	chunkSize := uint64([]int{64, 200, 1000}[rng.IntN(3)])
	metaOld, chOld, err := checkpointOf(ctx, src, filepath.Join(dir, "old"), roots[older], chunkSize, 1)
	if err != nil {
		harness("checkpoint older", err)
		return
	}
	metaNew, chNew, err := checkpointOf(ctx, src, filepath.Join(dir, "new"), roots[aborted], chunkSize, 1)
	if err != nil {
		harness("checkpoint newer", err)
		return
	}
	w.ChunksTotal = len(chNew)

	dst, err := openDB(backend, "")
	if err != nil {
		harness("open target", err)
		return
	}
	defer dst.Close()
	rs, err := checkpoint.NewRestorer(dst)
	if err != nil {
		harness("restorer", err)
		return
	}
	viol := func(sig, what string) {
		r.Violation(sig, fmt.Sprintf("fallback case %d (%s): %s", idx, backend, what), w)
	}
	// 1. the newer checkpoint: some chunks, then abort (as the storage worker does after a failure)
	if err = dst.StartMultipartInsert(aborted); err != nil {
		viol("c12/fallback/"+backend+"/start-multipart-failed", err.Error())
		return
	}
	if err = rs.StartRestore(ctx, metaNew); err != nil {
		viol("c12/fallback/"+backend+"/start-restore-failed", err.Error())
		return
	}
	k := 1
	if len(chNew) > 1 {
		k = 1 + rng.IntN(len(chNew)-1)
	}
	order := rng.Perm(len(chNew))[:k]
	for _, i := range order {
		if _, err = rs.RestoreChunk(ctx, uint64(i), bytes.NewReader(chNew[i])); err != nil {
			viol("c12/honest-chunk-rejected/"+backend+"/"+errClass(err), fmt.Sprintf("RestoreChunk(%d) of the newer checkpoint: %v", i, err))
			return
		}
	}
	w.ChunksRestored = k
	step("restore of checkpoint v%d started, %d of %d chunks restored", aborted, k, len(chNew))
	if err = rs.AbortRestore(ctx); err != nil {
		viol("c12/fallback/"+backend+"/abort-restore-failed", err.Error())
		return
	}
	if err = dst.AbortMultipartInsert(); err != nil {
		viol("c12/fallback/"+backend+"/abort-multipart-failed", err.Error())
		return
	}
	step("AbortRestore + AbortMultipartInsert")
	// 2. the older checkpoint, completely
	if err = dst.StartMultipartInsert(older); err != nil {
		viol("c12/fallback/"+backend+"/start-multipart-failed", "older checkpoint: "+err.Error())
		return
	}
	if err = rs.StartRestore(ctx, metaOld); err != nil {
		viol("c12/fallback/"+backend+"/start-restore-failed", "older checkpoint: "+err.Error())
		return
	}
	for i := range chOld {
		if _, err = rs.RestoreChunk(ctx, uint64(i), bytes.NewReader(chOld[i])); err != nil {
			viol("c12/honest-chunk-rejected/"+backend+"/"+errClass(err), fmt.Sprintf("RestoreChunk(%d) of the older checkpoint after the aborted newer restore: %v", i, err))
			return
		}
	}
	if err = dst.Finalize([]node.Root{roots[older]}); err != nil {
		viol("c12/fallback/"+backend+"/finalize-of-older-checkpoint-failed", err.Error())
		return
	}
	step("checkpoint v%d restored (%d chunks) and finalized", older, len(chOld))
	st.add("fallback/cases/"+backend, 1)
	readBack := func(v uint64) string {
		got, rerr := readAll(ctx, dst, roots[v])
		if rerr != nil {
			return "read error: " + rerr.Error()
		}
		return diffContents(got, models[v].sorted())
	}
	where := func(v uint64) string {
		if v >= aborted {
			return "at-or-after-the-aborted-version"
		}
		return "below-the-aborted-version"
	}
	if d := readBack(older); d != "" {
		viol("c12/fallback/"+backend+"/restored-older-checkpoint-unreadable", fmt.Sprintf("the restored and finalized root v%d does not read back: %s", older, d))
		return
	}
	// 3. forward sync with the source's write logs
	for v := older + 1; v <= last; v++ {
		t := mkvs.NewWithRoot(nil, dst, roots[v-1])
		var aerr error
		// An unchanged root has no stored write log (nothing to apply).
		if roots[v-1].Hash != roots[v].Hash {
			it, gerr := src.GetWriteLog(ctx, roots[v-1], roots[v])
			if gerr != nil {
				t.Close()
				harness("source GetWriteLog", gerr)
				return
			}
			aerr = t.ApplyWriteLog(ctx, it)
		}
		var cerr error
		if aerr == nil {
			_, cerr = t.CommitKnown(ctx, roots[v])
		}
		t.Close()
		if aerr != nil || cerr != nil {
			viol("c12/fallback/"+backend+"/forward-sync-failed/"+where(v), fmt.Sprintf("applying the write log v%d->v%d on the restored database failed (apply: %v, commit: %v); steps: %v", v-1, v, aerr, cerr, w.Steps))
			return
		}
		if err = dst.Finalize([]node.Root{roots[v]}); err != nil {
			viol("c12/fallback/"+backend+"/forward-sync-finalize-failed/"+where(v), fmt.Sprintf("Finalize(v%d) after applying the write log failed: %v", v, err))
			return
		}
		step("write log v%d->v%d applied, committed, finalized", v-1, v)
		st.add("fallback/versions_synced_forward", 1)
		for u := older; u <= v; u++ {
			if d := readBack(u); d != "" {
				viol("c12/fallback/"+backend+"/finalized-root-unreadable-after-forward-sync/"+where(u),
					fmt.Sprintf("after an aborted restore at v%d, a restore of the older checkpoint v%d and forward sync to v%d, the finalized root v%d does not read back: %s", aborted, older, v, u, d))
				return
			}
			st.add("fallback/readbacks", 1)
		}
	}
	r.Nontrivial(fmt.Sprintf("fallback/%s/%d", backend, idx))
}
