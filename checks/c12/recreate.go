package main

import (
	"context"
	"fmt"
	"math/rand/v2"
	"os"
	"path/filepath"
	"sort"
	"strconv"

	"github.com/oasisprotocol/oasis-core/go/common/crypto/hash"
	"github.com/oasisprotocol/oasis-core/go/storage/mkvs/db/api"
	"github.com/oasisprotocol/oasis-core/go/storage/mkvs/node"
)

// interruption variants: what an earlier CreateCheckpoint / DeleteCheckpoint run that did not
// finish left behind in the checkpoint directory of the root. All of them remove `meta` (written
// last by CreateCheckpoint, removed first by DeleteCheckpoint).
var interruptions = []string{"meta-removed", "meta-and-some-chunks-removed", "meta-removed-chunk-truncated", "meta-removed-chunk-extended", "meta-removed-extra-stale-chunks"}

// recreateStep is one re-creation of the checkpoint of the same root over leftovers.
type recreateStep struct {
	Interruption string `json:"interruption"`
	Detail       string `json:"detail"`
	ChunkSize    uint64 `json:"chunk_size"`
	Threads      uint16 `json:"threads"`
	Relation     string `json:"chunk_size_relative_to_leftover"`
}

// interrupt simulates the leftover of an unfinished run in dir/<version>/<root hash>.
func interrupt(rng *rand.Rand, cpDir string, variant string) (string, error) {
	if err := os.Remove(filepath.Join(cpDir, "meta")); err != nil {
		return "", fmt.Errorf("remove meta: %w", err)
	}
	chunksDir := filepath.Join(cpDir, "chunks")
	ents, err := os.ReadDir(chunksDir)
	if err != nil {
		return "", err
	}
	var idx []int
	for _, e := range ents {
		if i, err := strconv.Atoi(e.Name()); err == nil {
			idx = append(idx, i)
		}
	}
	sort.Ints(idx)
	if len(idx) == 0 {
		return "meta removed (no chunk files)", nil
	}
	pick := func() string { return filepath.Join(chunksDir, strconv.Itoa(idx[rng.IntN(len(idx))])) }
	switch variant {
	case "meta-removed":
		return fmt.Sprintf("meta removed, %d chunk files left", len(idx)), nil
	case "meta-and-some-chunks-removed":
		removed := 0
		for _, i := range idx {
			if rng.IntN(2) == 0 {
				if err := os.Remove(filepath.Join(chunksDir, strconv.Itoa(i))); err != nil {
					return "", err
				}
				removed++
			}
		}
		return fmt.Sprintf("meta and %d of %d chunk files removed", removed, len(idx)), nil
	case "meta-removed-chunk-truncated":
		f := pick()
		fi, err := os.Stat(f)
		if err != nil {
			return "", err
		}
		n := int64(0)
		if fi.Size() > 0 {
			n = rng.Int64N(fi.Size())
		}
		return fmt.Sprintf("meta removed, chunk file %s truncated from %d to %d bytes", filepath.Base(f), fi.Size(), n), os.Truncate(f, n)
	case "meta-removed-chunk-extended":
		f := pick()
		extra := make([]byte, 1+rng.IntN(4096))
		for i := range extra {
			extra[i] = byte(rng.IntN(256))
		}
		fh, err := os.OpenFile(f, os.O_WRONLY|os.O_APPEND, 0o600)
		if err != nil {
			return "", err
		}
		_, err = fh.Write(extra)
		fh.Close()
		return fmt.Sprintf("meta removed, %d bytes appended to chunk file %s", len(extra), filepath.Base(f)), err
	case "meta-removed-extra-stale-chunks":
		// Half-written files of a run with more chunks.
		last := idx[len(idx)-1]
		k := 1 + rng.IntN(3)
		for j := 1; j <= k; j++ {
			junk := make([]byte, rng.IntN(2000))
			for i := range junk {
				junk[i] = byte(rng.IntN(256))
			}
			if err := os.WriteFile(filepath.Join(chunksDir, strconv.Itoa(last+j)), junk, 0o600); err != nil {
				return "", err
			}
		}
		return fmt.Sprintf("meta removed, %d further stale chunk files written after index %d", k, last), nil
	}
	panic("unknown interruption " + variant)
}

// staleSizes returns the sizes of the chunk files present in the directory.
func staleSizes(cpDir string) map[int]int64 {
	out := map[int]int64{}
	ents, _ := os.ReadDir(filepath.Join(cpDir, "chunks"))
	for _, e := range ents {
		if i, err := strconv.Atoi(e.Name()); err == nil {
			if fi, err := e.Info(); err == nil {
				out[i] = fi.Size()
			}
		}
	}
	return out
}

// recreateFamily: the checkpoint of the root is created with parameters P1; then, three times,
// an interruption of a creation/deletion run is simulated and the checkpoint of the SAME root is
// created again in the same directory with other parameters (smaller chunks, larger chunks, other
// thread count). Every re-creation must return the Metadata that a creation with the same
// parameters in a fresh directory returns, every served chunk must hash to its digest, and the
// full restore oracle must pass on the served chunks.
func (rn *runner) recreateFamily(ctx context.Context, ti int, src api.NodeDB, root node.Root, w witness, shape string, want []kv, m model, scratch string, st stats, fail func(*problem, witness)) {
	r := rn.r
	rng := r.Rand(12, uint64(ti), 77)
	dir := filepath.Join(scratch, "recreate")
	defer os.RemoveAll(dir)
	cpDir := filepath.Join(dir, "cp", strconv.FormatUint(root.Version, 10), root.Hash.String())

	base := uint64(256 + rng.IntN(3000))
	thr := uint16(rng.IntN(5))
	w.Param, w.Step = 1000, "recreate/initial-creation"
	w.ChunkSize, w.Threads = base, thr
	meta1, chunks1, err := checkpointOf(ctx, src, filepath.Join(dir, "cp"), root, base, thr)
	if err != nil {
		fail(&problem{"c12/create-checkpoint-failed/" + w.SrcBackend + "/" + shape, err.Error()}, w)
		return
	}
	r.Eval(1)
	st.add("checkpoints_created", 1)
	_ = meta1
	prevSize, prevChunks := base, len(chunks1)
	var history []recreateStep

	for step := 0; step < 3; step++ {
		variant := interruptions[(ti+step)%len(interruptions)]
		if rng.IntN(3) == 0 {
			variant = interruptions[rng.IntN(len(interruptions))]
		}
		var cs uint64
		relation := ""
		switch step {
		case 0: // smaller chunks: new chunk i is shorter than the leftover file i
			cs, relation = 1+prevSize/uint64(2+rng.IntN(8)), "smaller"
		case 1: // larger chunks
			cs, relation = prevSize*uint64(2+rng.IntN(6))+uint64(rng.IntN(100)), "larger"
		default: // other thread count, PRNG size
			cs = uint64(1 + rng.IntN(int(2*base)))
			relation = "smaller"
			if cs > prevSize {
				relation = "larger"
			}
		}
		nthr := uint16(rng.IntN(9))
		if step == 2 && nthr == thr {
			nthr = thr + 1
		}
		w.Step = fmt.Sprintf("recreate/%d/%s", step, variant)
		w.ChunkSize, w.Threads = cs, nthr

		detail, err := interrupt(rng, cpDir, variant)
		if err != nil {
			fail(&problem{"c12/harness/recreate/interrupt", err.Error()}, w)
			return
		}
		stale := staleSizes(cpDir)
		history = append(history, recreateStep{variant, detail, cs, nthr, relation})
		w.Ops = nil
		for _, hs := range history {
			w.Ops = append(w.Ops, fmt.Sprintf("%s; CreateCheckpoint(same root, chunkSize=%d, threads=%d) [%s chunks than leftover]", hs.Detail, hs.ChunkSize, hs.Threads, hs.Relation))
		}

		// Re-creation over the leftovers, and the reference creation in a fresh directory.
		meta2, served, err := checkpointOf(ctx, src, filepath.Join(dir, "cp"), root, cs, nthr)
		if err != nil {
			fail(&problem{"c12/recreate-after-interruption/create-failed/" + variant, fmt.Sprintf("CreateCheckpoint over the leftovers of an unfinished run failed: %v", err)}, w)
			return
		}
		refDir := filepath.Join(dir, fmt.Sprintf("ref%d", step))
		metaRef, refChunks, err := checkpointOf(ctx, src, refDir, root, cs, nthr)
		os.RemoveAll(refDir)
		if err != nil {
			fail(&problem{"c12/create-checkpoint-failed/" + w.SrcBackend + "/" + shape + "/reference", err.Error()}, w)
			return
		}
		r.Eval(1)
		w.Chunks = len(served)
		st.add("checkpoints_created", 2)
		st.add("recreations_after_interruption/"+variant, 1)
		st.add("recreations_chunk_size_"+relation, 1)
		shorter := 0
		for i, c := range refChunks {
			if sz, ok := stale[i]; ok && int64(len(c)) < sz {
				shorter++
			}
		}
		st.add("recreated_chunks_shorter_than_leftover_file", int64(shorter))
		if len(served) >= 2 || prevChunks >= 2 {
			r.Distinct("recreate_classes", shape+"|"+variant+"|"+relation)
		}

		if !metaEqual(meta2, metaRef) {
			fail(&problem{"c12/recreate-after-interruption/metadata-differs/" + variant, fmt.Sprintf("CreateCheckpoint(chunkSize=%d, threads=%d) over leftovers returned Metadata with %d chunks that differs from the Metadata of the same root and parameters in a fresh directory (%d chunks)", cs, nthr, len(meta2.Chunks), len(metaRef.Chunks))}, w)
			return
		}
		for i := range served {
			if d := hash.NewFromBytes(served[i]); !d.Equal(&meta2.Chunks[i]) {
				staleNote := "no leftover file of that index"
				if sz, ok := stale[i]; ok {
					staleNote = fmt.Sprintf("leftover file of that index had %d bytes", sz)
				}
				fail(&problem{"c12/recreate-after-interruption/served-chunk-digest-mismatch/" + variant, fmt.Sprintf("after re-creating the checkpoint over leftovers (%s), chunk %d served by GetCheckpointChunk has %d bytes and hashes to %s, the returned Metadata says %s (fresh-directory chunk: %d bytes; %s)", detail, i, len(served[i]), d, meta2.Chunks[i], len(refChunks[i]), staleNote)}, w)
				return
			}
		}
		// Full restore oracle on the served chunks.
		backend := backends[(ti+step)%2]
		order := []string{"sequential", "shuffled", "reverse"}[rng.IntN(3)]
		problemFound := func() bool {
			dst := mustOpen(backend, "")
			defer dst.Close()
			fc := &facts{want: want}
			w.Facts = fc
			st.add("restores_after_recreation/"+backend, 1)
			if pr := honestRestore(ctx, dst, backend, meta2, served, order, rng, st, fc); pr != nil {
				pr.Sig += "/after-recreation"
				fail(pr, w)
				return true
			}
			if pr := verifyRestored(ctx, dst, backend, shape, root, want, m, rng, st); pr != nil {
				pr.Sig += "/after-recreation"
				fail(pr, w)
				return true
			}
			return false
		}()
		if problemFound {
			return
		}
		prevSize, prevChunks = cs, len(served)
	}
}
