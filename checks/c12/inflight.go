package main

// Abort-while-in-flight cases of check C12: a RestoreChunk call is blocked inside Read
// (its reader is gated) while the restore is aborted - what the restorer itself does when
// another chunk fails its proof, and what the callers do on any failure - and, in the second
// variant, the restore of ANOTHER checkpoint is started before the blocked call goes on.
// A call may only report done=true when every chunk of the checkpoint that is being restored
// NOW has been imported; the callers finalize on done=true, so the harness does the same and
// reads the root back.

import (
	"bytes"
	"context"
	"fmt"
	"os"
	"path/filepath"
	"time"

	"github.com/oasisprotocol/oasis-core/go/storage/mkvs"
	"github.com/oasisprotocol/oasis-core/go/storage/mkvs/checkpoint"
	"github.com/oasisprotocol/oasis-core/go/storage/mkvs/node"
)

type inflightWitness struct {
	Seed     int64    `json:"seed"`
	Case     int      `json:"inflight_case"`
	Backend  string   `json:"backend"`
	Variant  string   `json:"variant"`
	ChunksA  int      `json:"chunks_of_checkpoint_a"`
	ChunksB  int      `json:"chunks_of_checkpoint_b,omitempty"`
	InFlight int      `json:"chunk_in_flight"`
	Steps    []string `json:"steps"`
}

func (rn *runner) inflightCase(idx int, backend string, st stats) {
	r := rn.r
	ctx := context.Background()
	rng := r.Rand(950, uint64(idx))
	variant := []string{"abort", "abort-then-other-checkpoint"}[idx%2]
	w := inflightWitness{Seed: r.Seed, Case: idx, Backend: backend, Variant: variant}
	step := func(f string, a ...any) { w.Steps = append(w.Steps, fmt.Sprintf(f, a...)) }
	harness := func(what string, err error) {
		r.Inconclusive("in-flight case %d (%s): harness step %s failed: %v", idx, backend, what, err)
	}
	mk := func(tag string, n int) (model, []kv) {
		m := model{}
		for i := 0; i < n; i++ {
			m[fmt.Sprintf("%s-%04d", tag, rng.IntN(4*n))] = []byte(fmt.Sprintf("%s-value-%d", tag, rng.IntN(1000)))
		}
		return m, m.sorted()
	}
	src, err := openDB(backend, "")
	if err != nil {
		harness("open source", err)
		return
	}
	defer src.Close()
	mA, oA := mk("a", 60+rng.IntN(60))
	rootA, err := buildSource(ctx, src, mA, oA, 1, node.RootTypeState)
	if err != nil {
		harness("build source A", err)
		return
	}
	dir, err := os.MkdirTemp(r.Scratch(), "inflight")
	if err != nil {
		harness("tempdir", err)
		return
	}
	defer os.RemoveAll(dir)
	metaA, chA, err := checkpointOf(ctx, src, filepath.Join(dir, "a"), rootA, 200, 1)
	if err != nil {
		harness("checkpoint A", err)
		return
	}
	w.ChunksA = len(chA)
	if len(chA) < 3 {
		st.add("inflight/skipped_too_few_chunks", 1)
		return
	}
	var (
		metaB *checkpoint.Metadata
		chB   [][]byte
		mB    model
	)
	if variant == "abort-then-other-checkpoint" {
		srcB, oerr := openDB(backend, "")
		if oerr != nil {
			harness("open source B", oerr)
			return
		}
		defer srcB.Close()
		var oB []kv
		mB, oB = mk("b", 60+rng.IntN(60))
		rootB, berr := buildSource(ctx, srcB, mB, oB, 1, node.RootTypeState)
		if berr != nil {
			harness("build source B", berr)
			return
		}
		metaB, chB, err = checkpointOf(ctx, srcB, filepath.Join(dir, "b"), rootB, 200, 1)
		if err != nil {
			harness("checkpoint B", err)
			return
		}
		w.ChunksB = len(chB)
		if len(chB) < 3 {
			st.add("inflight/skipped_too_few_chunks", 1)
			return
		}
	}

	dst, err := openDB(backend, "")
	if err != nil {
		harness("open target", err)
		return
	}
	defer dst.Close()
	rs, err := checkpoint.NewRestorer(dst)
	if err != nil {
		harness("restorer", err)
		return
	}
	viol := func(sig, what string) {
		r.Violation(sig, fmt.Sprintf("in-flight case %d (%s, %s): %s", idx, backend, variant, what), w)
	}
	if err = dst.StartMultipartInsert(1); err != nil {
		viol("c12/inflight/"+backend+"/start-multipart-failed", err.Error())
		return
	}
	if err = rs.StartRestore(ctx, metaA); err != nil {
		viol("c12/inflight/"+backend+"/start-restore-failed", err.Error())
		return
	}
	// The chunk in flight: an index that exists in both checkpoints.
	fl := rng.IntN(min(len(chA), max(len(chB), len(chA))))
	if variant == "abort-then-other-checkpoint" {
		fl = rng.IntN(min(len(chA), len(chB)))
	}
	w.InFlight = fl
	// Some other chunks of A first.
	for _, i := range rng.Perm(len(chA)) {
		if i == fl || rng.IntN(2) == 0 {
			continue
		}
		if _, err = rs.RestoreChunk(ctx, uint64(i), bytes.NewReader(chA[i])); err != nil {
			viol("c12/honest-chunk-rejected/"+backend+"/"+errClass(err), fmt.Sprintf("RestoreChunk(%d): %v", i, err))
			return
		}
	}
	gr := newGatedReader(chA[fl])
	type res struct {
		done bool
		err  error
		pan  any
	}
	resCh := make(chan res, 1)
	go func() {
		var x res
		defer func() {
			if p := recover(); p != nil {
				x.pan = p
			}
			resCh <- x
		}()
		x.done, x.err = rs.RestoreChunk(ctx, uint64(fl), gr)
	}()
	select {
	case <-gr.entered:
	case x := <-resCh:
		viol("c12/honest-chunk-rejected/"+backend+"/gated/"+errClass(x.err), fmt.Sprintf("RestoreChunk(%d) returned without reading the chunk: done=%v err=%v panic=%v", fl, x.done, x.err, x.pan))
		return
	case <-time.After(gatedWatchdog):
		r.Inconclusive("in-flight case %d (%s): gated reader not entered", idx, backend)
		return
	}
	step("RestoreChunk(%d) of checkpoint A blocked inside Read", fl)
	if err = rs.AbortRestore(ctx); err != nil {
		viol("c12/inflight/"+backend+"/abort-restore-failed", err.Error())
		return
	}
	step("AbortRestore")
	st.add("inflight/cases/"+backend+"/"+variant, 1)

	release := func() (res, bool) {
		close(gr.release)
		select {
		case x := <-resCh:
			return x, true
		case <-time.After(gatedWatchdog):
			r.Inconclusive("in-flight case %d (%s): blocked RestoreChunk did not return after release", idx, backend)
			return res{}, false
		}
	}

	if variant == "abort" {
		x, ok := release()
		if !ok {
			return
		}
		st.add("inflight/straggler_result/"+errClass(x.err), 1)
		step("blocked call released: done=%v err=%v", x.done, x.err)
		if x.pan != nil {
			viol("panic/restore-chunk-after-abort/"+backend, fmt.Sprint(x.pan))
			return
		}
		if x.done {
			what := fmt.Sprintf("the RestoreChunk(%d) call that was in flight when the restore was aborted returned done=true although the restore was aborted and not all %d chunks were imported", fl, len(chA))
			if ferr := dst.Finalize([]node.Root{metaA.Root}); ferr == nil {
				got, rerr := readAll(ctx, dst, metaA.Root)
				what += fmt.Sprintf("; the caller's Finalize succeeded, read-back: %d of %d entries, err %v", len(got), len(mA), rerr)
			} else {
				what += fmt.Sprintf("; Finalize: %v", ferr)
			}
			viol("c12/restorer/done-reported-after-abort/"+backend, what)
			return
		}
		_ = dst.AbortMultipartInsert()
		r.Nontrivial(fmt.Sprintf("inflight/%s/%s/%d", backend, variant, idx))
		return
	}

	// abort-then-other-checkpoint: the caller cleans up and starts restoring checkpoint B.
	if err = dst.AbortMultipartInsert(); err != nil {
		viol("c12/inflight/"+backend+"/abort-multipart-failed", err.Error())
		return
	}
	if err = dst.StartMultipartInsert(1); err != nil {
		viol("c12/inflight/"+backend+"/start-multipart-failed", "checkpoint B: "+err.Error())
		return
	}
	if err = rs.StartRestore(ctx, metaB); err != nil {
		viol("c12/inflight/"+backend+"/start-restore-failed", "checkpoint B: "+err.Error())
		return
	}
	step("AbortMultipartInsert; restore of checkpoint B started")
	x, ok := release()
	if !ok {
		return
	}
	st.add("inflight/straggler_result/"+errClass(x.err), 1)
	step("blocked call (chunk %d of checkpoint A) released: done=%v err=%v", fl, x.done, x.err)
	if x.pan != nil {
		viol("panic/restore-chunk-after-abort/"+backend, fmt.Sprint(x.pan))
		return
	}
	// All chunks of B except the one with the straggler's index.
	doneEarly := x.done
	for _, i := range rng.Perm(len(chB)) {
		if i == fl || doneEarly {
			continue
		}
		d, cerr := rs.RestoreChunk(ctx, uint64(i), bytes.NewReader(chB[i]))
		if cerr != nil {
			// The straggler imported a chunk of checkpoint A into B's multipart session before it
			// learned that its restore was gone; a backend may then refuse B's chunks. That is a
			// failed attempt, not a wrong state: a clean retry of B must succeed.
			st.add("inflight/b_chunk_refused_after_straggler/"+backend+"/"+errClass(cerr), 1)
			step("RestoreChunk(%d) of checkpoint B refused after the straggler returned: %v; retrying B from scratch", i, cerr)
			_ = rs.AbortRestore(ctx)
			if err = dst.AbortMultipartInsert(); err != nil {
				viol("c12/inflight/"+backend+"/abort-multipart-failed", "before the retry of B: "+err.Error())
				return
			}
			if err = dst.StartMultipartInsert(1); err != nil {
				viol("c12/inflight/"+backend+"/start-multipart-failed", "retry of B: "+err.Error())
				return
			}
			if err = rs.StartRestore(ctx, metaB); err != nil {
				viol("c12/inflight/"+backend+"/start-restore-failed", "retry of B: "+err.Error())
				return
			}
			for j := range chB {
				if _, rerr := rs.RestoreChunk(ctx, uint64(j), bytes.NewReader(chB[j])); rerr != nil {
					viol("c12/inflight/"+backend+"/clean-retry-after-straggler-refused/"+errClass(rerr), fmt.Sprintf("clean retry of checkpoint B: RestoreChunk(%d): %v", j, rerr))
					return
				}
			}
			if err = dst.Finalize([]node.Root{metaB.Root}); err != nil {
				viol("c12/inflight/"+backend+"/finalize-of-b-failed", "after the clean retry: "+err.Error())
				return
			}
			got, rerr := readAll(ctx, dst, metaB.Root)
			if rerr != nil || diffContents(got, mB.sorted()) != "" {
				viol("c12/restore-mismatch/"+backend+"/after-straggler-of-aborted-restore", fmt.Sprintf("checkpoint B restored by a clean retry after a straggler of A does not read back: %d of %d entries, err %v %s", len(got), len(mB), rerr, diffContents(got, mB.sorted())))
				return
			}
			r.Nontrivial(fmt.Sprintf("inflight/%s/%s/%d", backend, variant, idx))
			return
		}
		if d {
			doneEarly = true
			step("RestoreChunk(%d) of checkpoint B returned done=true; chunk %d of B was never submitted", i, fl)
		}
	}
	if doneEarly {
		what := fmt.Sprintf("done=true was reported for checkpoint B although its chunk %d was never submitted (the call that was in flight for chunk %d of the aborted checkpoint A was counted for B)", fl, fl)
		if ferr := dst.Finalize([]node.Root{metaB.Root}); ferr == nil {
			got, rerr := readAll(ctx, dst, metaB.Root)
			what += fmt.Sprintf("; the caller's Finalize succeeded, read-back: %d of %d entries, err %v %s", len(got), len(mB), rerr, diffContents(got, mB.sorted()))
		} else {
			what += fmt.Sprintf("; Finalize: %v", ferr)
		}
		viol("c12/restorer/done-reported-with-chunk-never-submitted/"+backend, what)
		return
	}
	// The missing chunk of B completes the restore.
	d, cerr := rs.RestoreChunk(ctx, uint64(fl), bytes.NewReader(chB[fl]))
	if cerr != nil || !d {
		viol("c12/inflight/"+backend+"/last-chunk-of-b-not-accepted", fmt.Sprintf("RestoreChunk(%d) of checkpoint B (the last one): done=%v err=%v", fl, d, cerr))
		return
	}
	if err = dst.Finalize([]node.Root{metaB.Root}); err != nil {
		viol("c12/inflight/"+backend+"/finalize-of-b-failed", err.Error())
		return
	}
	got, rerr := readAll(ctx, dst, metaB.Root)
	if rerr != nil || diffContents(got, mB.sorted()) != "" {
		viol("c12/restore-mismatch/"+backend+"/after-straggler-of-aborted-restore", fmt.Sprintf("checkpoint B restored after an aborted restore of A with a straggler does not read back: %d of %d entries, err %v %s", len(got), len(mB), rerr, diffContents(got, mB.sorted())))
		return
	}
	r.Nontrivial(fmt.Sprintf("inflight/%s/%s/%d", backend, variant, idx))
}

// inflightDupCase: the state root and the I/O root of one version are restored one after the
// other with the same restorer (as the runtime checkpoint sync does). A DUPLICATE submission of
// chunk k of the first checkpoint is blocked in Read while another caller restores chunk k and
// the first checkpoint completes; the second checkpoint's restore is started; then the duplicate
// goes on. It must not be counted for the second checkpoint.
func (rn *runner) inflightDupCase(idx int, backend string, st stats) {
	r := rn.r
	ctx := context.Background()
	rng := r.Rand(960, uint64(idx))
	w := inflightWitness{Seed: r.Seed, Case: idx, Backend: backend, Variant: "duplicate-in-flight-across-completion-and-next-restore"}
	step := func(f string, a ...any) { w.Steps = append(w.Steps, fmt.Sprintf(f, a...)) }
	harness := func(what string, err error) {
		r.Inconclusive("in-flight duplicate case %d (%s): harness step %s failed: %v", idx, backend, what, err)
	}
	mk := func(tag string, n int) (model, []kv) {
		m := model{}
		for i := 0; i < n; i++ {
			m[fmt.Sprintf("%s-%04d", tag, rng.IntN(4*n))] = []byte(fmt.Sprintf("%s-value-%d", tag, rng.IntN(1000)))
		}
		return m, m.sorted()
	}
	src, err := openDB(backend, "")
	if err != nil {
		harness("open source", err)
		return
	}
	defer src.Close()
	mA, oA := mk("s", 60+rng.IntN(60))
	mB, oB := mk("i", 60+rng.IntN(60))
	// Both roots of version 1 in one source database: commit both, finalize together.
	var roots []node.Root
	for _, x := range []struct {
		m  model
		o  []kv
		ty node.RootType
	}{{mA, oA, node.RootTypeState}, {mB, oB, node.RootTypeIO}} {
		tr := mkvs.New(nil, src, x.ty)
		for _, e := range x.o {
			if err = tr.Insert(ctx, e.K, e.V); err != nil {
				harness("insert", err)
				return
			}
		}
		_, h, cerr := tr.Commit(ctx, testNs, 1)
		tr.Close()
		if cerr != nil {
			harness("commit", cerr)
			return
		}
		roots = append(roots, node.Root{Namespace: testNs, Version: 1, Type: x.ty, Hash: h})
	}
	if err = src.Finalize(roots); err != nil {
		harness("source finalize", err)
		return
	}
	dir, err := os.MkdirTemp(r.Scratch(), "inflightdup")
	if err != nil {
		harness("tempdir", err)
		return
	}
	defer os.RemoveAll(dir)
	metaA, chA, err := checkpointOf(ctx, src, filepath.Join(dir, "a"), roots[0], 200, 1)
	if err != nil {
		harness("checkpoint A", err)
		return
	}
	metaB, chB, err := checkpointOf(ctx, src, filepath.Join(dir, "b"), roots[1], 200, 1)
	if err != nil {
		harness("checkpoint B", err)
		return
	}
	w.ChunksA, w.ChunksB = len(chA), len(chB)
	if len(chA) < 3 || len(chB) < 3 {
		st.add("inflight/skipped_too_few_chunks", 1)
		return
	}
	dst, err := openDB(backend, "")
	if err != nil {
		harness("open target", err)
		return
	}
	defer dst.Close()
	rs, err := checkpoint.NewRestorer(dst)
	if err != nil {
		harness("restorer", err)
		return
	}
	viol := func(sig, what string) {
		r.Violation(sig, fmt.Sprintf("in-flight duplicate case %d (%s): %s", idx, backend, what), w)
	}
	if err = dst.StartMultipartInsert(1); err != nil {
		viol("c12/inflight/"+backend+"/start-multipart-failed", err.Error())
		return
	}
	if err = rs.StartRestore(ctx, metaA); err != nil {
		viol("c12/inflight/"+backend+"/start-restore-failed", err.Error())
		return
	}
	fl := rng.IntN(min(len(chA), len(chB)))
	w.InFlight = fl
	gr := newGatedReader(chA[fl])
	type res struct {
		done bool
		err  error
		pan  any
	}
	resCh := make(chan res, 1)
	go func() {
		var x res
		defer func() {
			if p := recover(); p != nil {
				x.pan = p
			}
			resCh <- x
		}()
		x.done, x.err = rs.RestoreChunk(ctx, uint64(fl), gr)
	}()
	select {
	case <-gr.entered:
	case x := <-resCh:
		viol("c12/honest-chunk-rejected/"+backend+"/gated/"+errClass(x.err), fmt.Sprintf("RestoreChunk(%d) returned without reading the chunk: done=%v err=%v panic=%v", fl, x.done, x.err, x.pan))
		return
	case <-time.After(gatedWatchdog):
		r.Inconclusive("in-flight duplicate case %d (%s): gated reader not entered", idx, backend)
		return
	}
	step("duplicate RestoreChunk(%d) of the state checkpoint blocked inside Read", fl)
	// All chunks of A (including fl, by another caller): A completes.
	doneA := false
	for _, i := range rng.Perm(len(chA)) {
		d, cerr := rs.RestoreChunk(ctx, uint64(i), bytes.NewReader(chA[i]))
		if cerr != nil {
			close(gr.release)
			<-resCh
			viol("c12/honest-chunk-rejected/"+backend+"/"+errClass(cerr), fmt.Sprintf("RestoreChunk(%d) of the state checkpoint while a duplicate of chunk %d is in flight: %v", i, fl, cerr))
			return
		}
		doneA = doneA || d
	}
	if !doneA {
		close(gr.release)
		<-resCh
		viol("c12/restore-done-flag-wrong/"+backend, "all chunks of the state checkpoint restored (one of them also pending as a duplicate), done never reported")
		return
	}
	step("state checkpoint complete (%d chunks)", len(chA))
	if err = rs.StartRestore(ctx, metaB); err != nil {
		close(gr.release)
		<-resCh
		viol("c12/inflight/"+backend+"/start-restore-failed", "I/O checkpoint: "+err.Error())
		return
	}
	step("restore of the I/O checkpoint started")
	close(gr.release)
	var x res
	select {
	case x = <-resCh:
	case <-time.After(gatedWatchdog):
		r.Inconclusive("in-flight duplicate case %d (%s): blocked RestoreChunk did not return after release", idx, backend)
		return
	}
	st.add("inflight/cases/"+backend+"/"+w.Variant, 1)
	st.add("inflight/straggler_result/"+errClass(x.err), 1)
	step("duplicate released: done=%v err=%v", x.done, x.err)
	if x.pan != nil {
		viol("panic/restore-chunk-after-abort/"+backend, fmt.Sprint(x.pan))
		return
	}
	doneEarly := x.done
	for _, i := range rng.Perm(len(chB)) {
		if i == fl || doneEarly {
			continue
		}
		d, cerr := rs.RestoreChunk(ctx, uint64(i), bytes.NewReader(chB[i]))
		if cerr != nil {
			viol("c12/honest-chunk-rejected/"+backend+"/"+errClass(cerr), fmt.Sprintf("RestoreChunk(%d) of the I/O checkpoint after the late duplicate returned: %v", i, cerr))
			return
		}
		if d {
			doneEarly = true
			step("RestoreChunk(%d) of the I/O checkpoint returned done=true; its chunk %d was never submitted", i, fl)
		}
	}
	if doneEarly {
		what := fmt.Sprintf("done=true was reported for the I/O checkpoint although its chunk %d was never submitted (the late duplicate of chunk %d of the finished state checkpoint was counted for it)", fl, fl)
		if ferr := dst.Finalize(roots); ferr == nil {
			got, rerr := readAll(ctx, dst, roots[1])
			what += fmt.Sprintf("; the caller's Finalize succeeded, read-back of the I/O root: %d of %d entries, err %v", len(got), len(mB), rerr)
		} else {
			what += fmt.Sprintf("; Finalize: %v", ferr)
		}
		viol("c12/restorer/done-reported-with-chunk-never-submitted/"+backend, what)
		return
	}
	d, cerr := rs.RestoreChunk(ctx, uint64(fl), bytes.NewReader(chB[fl]))
	if cerr != nil || !d {
		viol("c12/inflight/"+backend+"/last-chunk-of-b-not-accepted", fmt.Sprintf("RestoreChunk(%d) of the I/O checkpoint (the last one): done=%v err=%v", fl, d, cerr))
		return
	}
	if err = dst.Finalize(roots); err != nil {
		viol("c12/inflight/"+backend+"/finalize-of-b-failed", err.Error())
		return
	}
	for k, m := range []model{mA, mB} {
		got, rerr := readAll(ctx, dst, roots[k])
		if rerr != nil || diffContents(got, m.sorted()) != "" {
			viol("c12/restore-mismatch/"+backend+"/after-late-duplicate", fmt.Sprintf("root %d of the version restored with a late duplicate in flight does not read back: %d of %d entries, err %v %s", k, len(got), len(m), rerr, diffContents(got, m.sorted())))
			return
		}
	}
	r.Nontrivial(fmt.Sprintf("inflight/%s/%s/%d", backend, w.Variant, idx))
}
