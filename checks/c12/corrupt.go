package main

import (
	"bytes"
	"context"
	"fmt"
	"math/rand/v2"

	"github.com/golang/snappy"

	"github.com/oasisprotocol/oasis-core/go/common/cbor"
	"github.com/oasisprotocol/oasis-core/go/common/crypto/hash"
	"github.com/oasisprotocol/oasis-core/go/storage/mkvs/checkpoint"
	"github.com/oasisprotocol/oasis-core/go/storage/mkvs/db/api"
	"github.com/oasisprotocol/oasis-core/go/storage/mkvs/node"
)

// corruption kinds. The first group corrupts the chunk bytes under the honest metadata, the
// "meta-" group hands the restorer a metadata whose digest list was tampered with.
var dataCorruptions = []string{"bitflip", "truncate", "append", "swapped", "other-checkpoint-same-root", "other-checkpoint-other-root"}
var metaCorruptions = []string{"meta-wrong-digest", "meta-digest-of-foreign-chunk", "meta-digest-of-fabricated-chunk"}

// foreign holds chunks of other checkpoints used as corruptions.
type foreign struct {
	sameRoot  [][]byte // chunks of another checkpoint (other parameters) of the same root
	otherRoot [][]byte // chunks of a checkpoint of a different root
}

// corruptChunk builds one corrupted submission for chunk index i. ok=false means the corruption
// is not constructible here (e.g. no other chunk with different bytes).
func corruptChunk(rng *rand.Rand, kind string, i int, meta *checkpoint.Metadata, chunks [][]byte, fg *foreign) (useMeta *checkpoint.Metadata, data []byte, detail string, ok bool) {
	orig := chunks[i]
	digestOf := func(b []byte) hash.Hash { return hash.NewFromBytes(b) }
	differs := func(b []byte) bool {
		d := digestOf(b)
		return !d.Equal(&meta.Chunks[i])
	}
	pickDifferent := func(pool [][]byte) ([]byte, int, bool) {
		if len(pool) == 0 {
			return nil, 0, false
		}
		startAt := rng.IntN(len(pool))
		for k := 0; k < len(pool); k++ {
			j := (startAt + k) % len(pool)
			if differs(pool[j]) {
				return pool[j], j, true
			}
		}
		return nil, 0, false
	}
	switch kind {
	case "bitflip":
		if len(orig) == 0 {
			return nil, nil, "", false
		}
		data = append([]byte{}, orig...)
		pos := rng.IntN(len(data))
		bit := rng.IntN(8)
		data[pos] ^= 1 << bit
		return meta, data, fmt.Sprintf("byte %d bit %d of %d bytes", pos, bit, len(orig)), true
	case "truncate":
		if len(orig) == 0 {
			return nil, nil, "", false
		}
		n := rng.IntN(len(orig))
		if rng.IntN(3) == 0 {
			n = len(orig) - 1 - rng.IntN(min(4, len(orig)))
		}
		return meta, append([]byte{}, orig[:n]...), fmt.Sprintf("cut to %d of %d bytes", n, len(orig)), true
	case "append":
		extra := make([]byte, 1+rng.IntN(8))
		for k := range extra {
			extra[k] = byte(rng.IntN(256))
		}
		return meta, append(append([]byte{}, orig...), extra...), fmt.Sprintf("%d bytes appended", len(extra)), true
	case "swapped":
		others := make([][]byte, 0, len(chunks))
		for j := range chunks {
			if j != i {
				others = append(others, chunks[j])
			}
		}
		b, _, found := pickDifferent(others)
		if !found {
			return nil, nil, "", false
		}
		return meta, b, "bytes of another chunk of the same checkpoint", true
	case "other-checkpoint-same-root":
		b, j, found := pickDifferent(fg.sameRoot)
		if !found {
			return nil, nil, "", false
		}
		return meta, b, fmt.Sprintf("chunk %d of a checkpoint of the same root with other parameters", j), true
	case "other-checkpoint-other-root":
		b, j, found := pickDifferent(fg.otherRoot)
		if !found {
			return nil, nil, "", false
		}
		return meta, b, fmt.Sprintf("chunk %d of a checkpoint of a different root", j), true
	case "meta-wrong-digest":
		mm := cloneMeta(meta)
		pos := rng.IntN(hash.Size)
		mm.Chunks[i][pos] ^= 1 << rng.IntN(8)
		return mm, orig, fmt.Sprintf("metadata digest %d altered in byte %d, honest chunk bytes", i, pos), true
	case "meta-digest-of-foreign-chunk":
		// The digest matches the submitted bytes, but the bytes are a proof of another root.
		if len(fg.otherRoot) == 0 {
			return nil, nil, "", false
		}
		j := rng.IntN(len(fg.otherRoot))
		mm := cloneMeta(meta)
		mm.Chunks[i] = digestOf(fg.otherRoot[j])
		return mm, fg.otherRoot[j], fmt.Sprintf("metadata digest %d replaced by the digest of chunk %d of a checkpoint of a different root, which is submitted", i, j), true
	case "meta-digest-of-fabricated-chunk":
		// The digest matches the submitted bytes, which are a well-formed chunk stream that proves
		// nothing about the root: no entry at all, one nil entry (the proof of an empty tree), one
		// empty byte string, or a lone hash entry of the trusted root / of zeroes.
		if meta.Root.Hash.IsEmpty() {
			return nil, nil, "", false // for the empty root the proof of nothing IS the honest proof
		}
		mm := cloneMeta(meta)
		var entries [][]byte
		var what string
		switch rng.IntN(6) {
		case 0:
			what = "no entries"
		case 1:
			entries, what = [][]byte{nil}, "one nil entry"
		case 2:
			entries, what = [][]byte{nil, nil}, "two nil entries"
		case 3:
			entries, what = [][]byte{{}}, "one empty byte string"
		case 4:
			entries, what = [][]byte{append([]byte{0x02}, meta.Root.Hash[:]...)}, "one hash entry naming the root itself"
		default:
			entries, what = [][]byte{append([]byte{0x02}, make([]byte, hash.Size)...)}, "one hash entry of zeroes"
		}
		var buf bytes.Buffer
		sw := snappy.NewBufferedWriter(&buf)
		enc := cbor.NewEncoder(sw)
		for _, e := range entries {
			_ = enc.Encode(e)
		}
		_ = sw.Close()
		data = buf.Bytes()
		mm.Chunks[i] = digestOf(data)
		return mm, data, "metadata digest " + fmt.Sprint(i) + " replaced by the digest of a fabricated chunk (" + what + "), which is submitted", true
	}
	panic("unknown corruption " + kind)
}

func cloneMeta(m *checkpoint.Metadata) *checkpoint.Metadata {
	c := *m
	c.Chunks = append([]hash.Hash{}, m.Chunks...)
	return &c
}

// selectChunks returns the chunk indices that are corrupted in turn: all of them when there are
// few, otherwise the first, the last and a PRNG sample.
func selectChunks(rng *rand.Rand, n, limit int) []int {
	if n <= limit {
		out := make([]int, n)
		for i := range out {
			out[i] = i
		}
		return out
	}
	seen := map[int]bool{0: true, n - 1: true}
	out := []int{0, n - 1}
	for len(out) < limit {
		i := rng.IntN(n)
		if !seen[i] {
			seen[i] = true
			out = append(out, i)
		}
	}
	return out
}

// rejecter submits corrupted chunks to a restorer and demands an error for each.
type rejecter struct {
	ctx     context.Context
	backend string
	rs      checkpoint.Restorer
	meta    *checkpoint.Metadata
	chunks  [][]byte
	fg      *foreign
	rng     *rand.Rand
	st      stats
}

func (rj *rejecter) reject(kind string, i int) *problem {
	useMeta, data, detail, ok := corruptChunk(rj.rng, kind, i, rj.meta, rj.chunks, rj.fg)
	if !ok {
		rj.st.add("corruption_not_constructible/"+kind, 1)
		return nil
	}
	cur := rj.rs.GetCurrentCheckpoint()
	if cur == nil || !metaEqual(cur, useMeta) {
		_ = rj.rs.AbortRestore(rj.ctx)
		if err := rj.rs.StartRestore(rj.ctx, useMeta); err != nil {
			return &problem{"c12/restore-error/start-restore/" + errClass(err), err.Error()}
		}
	}
	done, err := rj.rs.RestoreChunk(rj.ctx, uint64(i), bytes.NewReader(data))
	rj.st.add("restorechunk_calls", 1)
	rj.st.add("corrupted_submissions", 1)
	rj.st.add("corrupted_result/"+kind+"/"+errClass(err), 1)
	if err == nil {
		return &problem{
			"c12/corrupt-chunk-accepted/" + kind,
			fmt.Sprintf("%s: RestoreChunk(%d) accepted a corrupted chunk (%s), done=%v", rj.backend, i, detail, done),
		}
	}
	return nil
}

// corruptionSeries runs for one backend:
//
//	phase A (on-disk DB): only corrupted submissions (every selected chunk x every corruption
//	         kind), each must be rejected; then abort, close, reopen: no root may exist;
//	phase C: a subsequent honest restore into that reopened database must end identical;
//	phase B (fresh DB): an honest restore in which selected chunks are preceded by a corrupted
//	         submission of the same index; after Finalize the contents must equal the model.
func corruptionSeries(ctx context.Context, backend, dir, shape string, meta *checkpoint.Metadata, chunks [][]byte, fg *foreign, want []kv, m model, limit int, rng *rand.Rand, st stats) (*problem, *facts) {
	version := meta.Root.Version
	n := len(chunks)
	sel := selectChunks(rng, n, limit)

	// Phase B on a fresh (memory-only) database.
	if p, fc := func() (*problem, *facts) {
		ndb2, err := openDB(backend, "")
		if err != nil {
			return &problem{"c12/harness/open-db/" + backend, err.Error()}, nil
		}
		defer ndb2.Close()
		rs2, _ := checkpoint.NewRestorer(ndb2)
		if err := ndb2.StartMultipartInsert(version); err != nil {
			return &problem{"c12/restore-error/start-multipart/" + backend + "/" + errClass(err), err.Error()}, nil
		}
		if err := rs2.StartRestore(ctx, meta); err != nil {
			return &problem{"c12/restore-error/start-restore/" + errClass(err), err.Error()}, nil
		}
		rj2 := &rejecter{ctx, backend, rs2, meta, chunks, fg, rng, st}
		selSet := map[int]bool{}
		for _, i := range sel {
			selSet[i] = true
		}
		nDone := 0
		for _, i := range rng.Perm(n) {
			if selSet[i] {
				kind := dataCorruptions[rng.IntN(len(dataCorruptions))]
				if p := rj2.reject(kind, i); p != nil {
					return p, nil
				}
				if rs2.GetCurrentCheckpoint() == nil {
					// The restorer gave up on the checkpoint (documented for proof failures). Data
					// corruptions under honest metadata are digest failures, which keep the restore
					// going, so this is only counted and the series stops here.
					st.add("restorer_aborted_by_data_corruption/"+kind, 1)
					return nil, nil
				}
			}
			done, err := rs2.RestoreChunk(ctx, uint64(i), bytes.NewReader(chunks[i]))
			st.add("restorechunk_calls", 1)
			if err != nil {
				return &problem{
					"c12/honest-retry-refused/" + backend + "/" + errClass(err),
					fmt.Sprintf("honest chunk %d refused (after a rejected corrupted submission of the same index: %v): %v", i, selSet[i], err),
				}, nil
			}
			nDone++
			if done != (nDone == n) {
				return &problem{"c12/restore-done-flag-wrong/" + backend, fmt.Sprintf("done=%v after %d of %d chunks", done, nDone, n)}, nil
			}
		}
		if err := ndb2.Finalize([]node.Root{meta.Root}); err != nil {
			return &problem{"c12/finalize-failed/" + backend + "/" + errClass(err), fmt.Sprintf("Finalize after a restore with rejected chunks failed: %v", err)}, nil
		}
		st.add("mixed_rejected_honest_restores/"+backend, 1)
		if p := verifyRestored(ctx, ndb2, backend, shape, meta.Root, want, m, rng, st); p != nil {
			p.Sig += "/after-rejected-chunks"
			return p, nil
		}
		return nil, nil
	}(); p != nil {
		return p, fc
	}

	// Phase A.
	ndb, err := openDB(backend, dir)
	if err != nil {
		return &problem{"c12/harness/open-db/" + backend, err.Error()}, nil
	}
	closed := false
	defer func() {
		if !closed {
			ndb.Close()
		}
	}()
	rs, _ := checkpoint.NewRestorer(ndb)
	if err := ndb.StartMultipartInsert(version); err != nil {
		return &problem{"c12/restore-error/start-multipart/" + backend + "/" + errClass(err), err.Error()}, nil
	}
	rj := &rejecter{ctx, backend, rs, meta, chunks, fg, rng, st}
	for _, i := range sel {
		for _, kind := range append(append([]string{}, dataCorruptions...), metaCorruptions...) {
			if p := rj.reject(kind, i); p != nil {
				return p, nil
			}
		}
	}
	if err := rs.AbortRestore(ctx); err != nil {
		return &problem{"c12/restore-error/abort-restore", err.Error()}, nil
	}
	if err := ndb.AbortMultipartInsert(); err != nil {
		return &problem{"c12/restore-error/abort-multipart/" + backend + "/" + errClass(err), err.Error()}, nil
	}
	ndb.Close()
	closed = true
	ndb, err = openDB(backend, dir)
	if err != nil {
		return &problem{"c12/reopen-failed-after-rejected-chunks/" + backend, err.Error()}, nil
	}
	closed = false
	st.add("reopens_after_rejected_chunks", 1)
	if p := nothingVisible(ctx, ndb, backend, meta.Root); p != nil {
		return p, nil
	}

	// Phase C: subsequent honest restore into the reopened database.
	fcC := &facts{AbortedMultipartBefore: true, Reopened: true}
	orderC := []string{"sequential", "shuffled", "shuffled-dup"}[rng.IntN(3)]
	st.add("honest_restores_after_rejected_series/"+backend, 1)
	if p := honestRestore(ctx, ndb, backend, meta, chunks, orderC, rng, st, &facts{}); p != nil {
		p.Sig += "/after-rejected-series"
		return p, fcC
	}
	if p := verifyRestored(ctx, ndb, backend, shape, meta.Root, want, m, rng, st); p != nil {
		return classify(p, backend, fcC), fcC
	}
	ndb.Close()
	closed = true

	return nil, nil
}

// nothingVisible checks that a reopened database into which only rejected chunks were submitted
// has no root at all.
func nothingVisible(ctx context.Context, ndb api.NodeDB, backend string, root node.Root) *problem {
	roots, err := ndb.GetRootsForVersion(root.Version)
	if err != nil {
		return &problem{"c12/corrupt-chunk-visible/" + backend + "/roots-for-version-error", err.Error()}
	}
	if len(roots) != 0 {
		return &problem{"c12/corrupt-chunk-visible/" + backend, fmt.Sprintf("after only rejected chunks, abort and reopen GetRootsForVersion(%d) = %v", root.Version, roots)}
	}
	if !root.Hash.IsEmpty() && ndb.HasRoot(root) {
		return &problem{"c12/corrupt-chunk-visible/" + backend, "after only rejected chunks, abort and reopen HasRoot(checkpoint root) is true"}
	}
	if v, ok := ndb.GetLatestVersion(); ok {
		return &problem{"c12/corrupt-chunk-visible/" + backend, fmt.Sprintf("after only rejected chunks, abort and reopen GetLatestVersion() = %d, true", v)}
	}
	if !root.Hash.IsEmpty() {
		if got, err := readAll(ctx, ndb, root); err == nil || len(got) > 0 {
			return &problem{"c12/corrupt-chunk-visible/" + backend, fmt.Sprintf("after only rejected chunks, abort and reopen the root is readable (%d entries, err %v)", len(got), err)}
		}
	}
	return nil
}
