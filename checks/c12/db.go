package main

import (
	"bytes"
	"context"
	"fmt"
	"os"
	"sort"

	"github.com/oasisprotocol/oasis-core/go/common"
	"github.com/oasisprotocol/oasis-core/go/storage/mkvs"
	"github.com/oasisprotocol/oasis-core/go/storage/mkvs/checkpoint"
	"github.com/oasisprotocol/oasis-core/go/storage/mkvs/db/api"
	"github.com/oasisprotocol/oasis-core/go/storage/mkvs/db/badger"
	"github.com/oasisprotocol/oasis-core/go/storage/mkvs/db/pathbadger"
	"github.com/oasisprotocol/oasis-core/go/storage/mkvs/node"
)

var testNs = common.NewTestNamespaceFromSeed([]byte("verif c12 checkpoint restore ns"), 0)

var backends = []string{"badger", "pathbadger"}

// openDB opens a node database of the given backend; dir == "" means memory-only.
func openDB(backend, dir string) (api.NodeDB, error) {
	cfg := &api.Config{
		DB:           dir,
		Namespace:    testNs,
		MaxCacheSize: 4 * 1024 * 1024,
		NoFsync:      true,
		MemoryOnly:   dir == "",
	}
	switch backend {
	case "badger":
		return badger.New(cfg)
	case "pathbadger":
		return pathbadger.New(cfg)
	}
	return nil, fmt.Errorf("unknown backend %q", backend)
}

// buildSource writes the model into a fresh database as one finalized root.
func buildSource(ctx context.Context, ndb api.NodeDB, m model, order []kv, version uint64, rootType node.RootType) (node.Root, error) {
	tree := mkvs.New(nil, ndb, rootType)
	defer tree.Close()
	for _, e := range order {
		if err := tree.Insert(ctx, e.K, e.V); err != nil {
			return node.Root{}, fmt.Errorf("insert %x: %w", e.K, err)
		}
	}
	_, h, err := tree.Commit(ctx, testNs, version)
	if err != nil {
		return node.Root{}, fmt.Errorf("commit: %w", err)
	}
	root := node.Root{Namespace: testNs, Version: version, Type: rootType, Hash: h}
	if err = ndb.Finalize([]node.Root{root}); err != nil {
		return node.Root{}, fmt.Errorf("finalize: %w", err)
	}
	return root, nil
}

// readAll iterates the whole tree at root.
func readAll(ctx context.Context, ndb api.NodeDB, root node.Root) ([]kv, error) {
	tree := mkvs.NewWithRoot(nil, ndb, root)
	defer tree.Close()
	it := tree.NewIterator(ctx)
	defer it.Close()
	var out []kv
	for it.Rewind(); it.Valid(); it.Next() {
		out = append(out, kv{K: append([]byte{}, it.Key()...), V: append([]byte{}, it.Value()...)})
	}
	if err := it.Err(); err != nil {
		return out, err
	}
	return out, nil
}

// diffContents describes the first difference between what was read and the model ("" if equal).
func diffContents(got, want []kv) string {
	for i := 0; i < len(got) && i < len(want); i++ {
		if !bytes.Equal(got[i].K, want[i].K) {
			return fmt.Sprintf("entry %d: key %x, model has key %x", i, got[i].K, want[i].K)
		}
		if !bytes.Equal(got[i].V, want[i].V) {
			return fmt.Sprintf("entry %d key %x: value %x (len %d), model has %x (len %d)", i, got[i].K, trunc(got[i].V), len(got[i].V), trunc(want[i].V), len(want[i].V))
		}
	}
	if len(got) != len(want) {
		return fmt.Sprintf("%d entries read, model has %d", len(got), len(want))
	}
	return ""
}

func trunc(b []byte) []byte {
	if len(b) > 16 {
		return b[:16]
	}
	return b
}

// checkpointOf creates a checkpoint in a fresh directory and loads all its chunks.
func checkpointOf(ctx context.Context, ndb api.NodeDB, dir string, root node.Root, chunkSize uint64, threads uint16) (*checkpoint.Metadata, [][]byte, error) {
	if err := os.MkdirAll(dir, 0o755); err != nil {
		return nil, nil, err
	}
	fc, err := checkpoint.NewFileCreator(dir, ndb)
	if err != nil {
		return nil, nil, err
	}
	meta, err := fc.CreateCheckpoint(ctx, root, chunkSize, threads)
	if err != nil {
		return nil, nil, err
	}
	chunks := make([][]byte, len(meta.Chunks))
	for i := range meta.Chunks {
		cm, err := meta.GetChunkMetadata(uint64(i))
		if err != nil {
			return nil, nil, err
		}
		var buf bytes.Buffer
		if err = fc.GetCheckpointChunk(ctx, cm, &buf); err != nil {
			return nil, nil, fmt.Errorf("chunk %d: %w", i, err)
		}
		chunks[i] = buf.Bytes()
	}
	return meta, chunks, nil
}

func metaEqual(a, b *checkpoint.Metadata) bool {
	if a.Version != b.Version || !a.Root.Equal(&b.Root) || len(a.Chunks) != len(b.Chunks) {
		return false
	}
	for i := range a.Chunks {
		if !a.Chunks[i].Equal(&b.Chunks[i]) {
			return false
		}
	}
	return true
}

func sortedKeys(m map[string]int64) []string {
	var ks []string
	for k := range m {
		ks = append(ks, k)
	}
	sort.Strings(ks)
	return ks
}

// maxProofDepth is the limit of go/storage/mkvs/syncer/proof.go (verifyProof is entered with the
// depth of a node slot, the root at depth 0, and fails when depth > 128).
const maxProofDepth = 128

// measureDepth walks the stored tree and returns the maximum depth of a node (root = 0) and the
// maximum depth with which the proof verifier would be entered for the tree: every child slot of
// an internal node, present or nil, is verified at the node's depth + 1.
func measureDepth(ndb api.NodeDB, root node.Root) (maxNode, proofDepth int, err error) {
	if root.Hash.IsEmpty() {
		return 0, 0, nil
	}
	var walk func(ptr *node.Pointer, depth int) error
	walk = func(ptr *node.Pointer, depth int) error {
		if ptr == nil {
			return nil
		}
		nd := ptr.Node
		if nd == nil {
			var err error
			if nd, err = ndb.GetNode(root, ptr); err != nil {
				return err
			}
		}
		if depth > maxNode {
			maxNode = depth
		}
		if depth > proofDepth {
			proofDepth = depth
		}
		if n, ok := nd.(*node.InternalNode); ok {
			if depth+1 > proofDepth {
				proofDepth = depth + 1
			}
			if err := walk(n.Left, depth+1); err != nil {
				return err
			}
			if err := walk(n.Right, depth+1); err != nil {
				return err
			}
		}
		return nil
	}
	err = walk(&node.Pointer{Clean: true, Hash: root.Hash}, 0)
	return
}
