package main

import (
	"bytes"
	"context"
	"errors"
	"fmt"
	"math/rand/v2"
	"strings"
	"sync"
	"sync/atomic"
	"time"

	"github.com/oasisprotocol/oasis-core/go/storage/mkvs"
	"github.com/oasisprotocol/oasis-core/go/storage/mkvs/checkpoint"
	"github.com/oasisprotocol/oasis-core/go/storage/mkvs/db/api"
	"github.com/oasisprotocol/oasis-core/go/storage/mkvs/node"
)

// facts are recorded facts about the history of the target database, used by the classifier.
type facts struct {
	// AbortedMultipartBefore: a multipart insert at the same version was started and aborted in
	// this database before the multipart insert whose result is being judged.
	AbortedMultipartBefore bool `json:"aborted_multipart_before"`
	// Reopened: the database was closed and reopened between the two.
	Reopened bool `json:"reopened"`
	// RootListedAfterAbort: after ChunksRestoredBeforeAbort (>0) honest chunks, AbortRestore and
	// AbortMultipartInsert, HasRoot(checkpoint root) answered true.
	RootListedAfterAbort      bool `json:"root_listed_after_abort"`
	ChunksRestoredBeforeAbort int  `json:"chunks_restored_before_abort,omitempty"`
	// Gated describes the forced interleaving of the "gated" order class.
	Gated []string `json:"gated_interleaving,omitempty"`

	// BlockedCallers are the goroutine dump entries of the callers of a stalled concurrent restore.
	BlockedCallers []gState `json:"blocked_callers,omitempty"`

	// abandonDB: goroutines of the code under test are stuck inside the database; it must not be
	// closed (Close could hang too) and is left behind.
	abandonDB bool
	// want is the reference contents (for the read-back right after an early done=true).
	want []kv
	// extra collects further oracle failures of the same run (reported by the caller).
	extra []*problem
}

// sigAbortedMultipart is the signature of the finding "pathbadger loses the nodes of a restore
// that follows an aborted multipart insert of the same version".
const sigAbortedMultipart = "pathbadger/restore/restarted-at-same-version/restored-root-not-readable-after-finalize"

// sigRootListedAfterAbort names the OBSERVATION (not a violation of C12, see main.go) "after
// some honest chunks were restored and the restore and the multipart insert were aborted, HasRoot
// still answers true for the partially restored (unreadable) root". It would become a violation
// only if the root were visible as finalized (GetLatestVersion).
func sigRootListedAfterAbort(backend string) string {
	return backend + "/restore/aborted/partially-restored-root-visible-as-finalized"
}

// classify derives the signature of a read-back failure from the recorded facts: only the exact
// shape (pathbadger, earlier aborted multipart insert at that version, Finalize succeeded, the
// root is listed but its nodes/contents are missing) gets the specific signature.
func classify(p *problem, backend string, fc *facts) *problem {
	if p == nil || fc == nil {
		return p
	}
	if backend == "pathbadger" && fc.AbortedMultipartBefore &&
		strings.HasPrefix(p.Sig, "c12/restore-mismatch/pathbadger/") &&
		(strings.Contains(p.Sig, "/unreadable") || strings.Contains(p.Sig, "/contents") || strings.HasSuffix(p.Sig, "/get")) {
		return &problem{sigAbortedMultipart, p.What + " [" + p.Sig + "]"}
	}
	return p
}

// problem is one oracle failure found by a driver.
type problem struct {
	Sig  string
	What string
}

// stats are measured counters of one driver run (merged into the evidence).
type stats map[string]int64

func (s stats) add(k string, n int64) { s[k] += n }

func errClass(err error) string {
	switch {
	case err == nil:
		return "nil"
	case errors.Is(err, checkpoint.ErrChunkCorrupted):
		return "ErrChunkCorrupted"
	case errors.Is(err, checkpoint.ErrChunkProofVerificationFailed):
		return "ErrChunkProofVerificationFailed"
	case errors.Is(err, checkpoint.ErrChunkAlreadyRestored):
		return "ErrChunkAlreadyRestored"
	case errors.Is(err, checkpoint.ErrNoRestoreInProgress):
		return "ErrNoRestoreInProgress"
	case errors.Is(err, checkpoint.ErrChunkNotFound):
		return "ErrChunkNotFound"
	case errors.Is(err, checkpoint.ErrRestoreAlreadyInProgress):
		return "ErrRestoreAlreadyInProgress"
	case errors.Is(err, api.ErrMultipartInProgress):
		return "ErrMultipartInProgress"
	case errors.Is(err, api.ErrInvalidMultipartVersion):
		return "ErrInvalidMultipartVersion"
	case errors.Is(err, api.ErrAlreadyFinalized):
		return "ErrAlreadyFinalized"
	default:
		return "other"
	}
}

// documentedDupErr reports whether err is what restorer.go documents for a chunk index that was
// submitted before: already restored, or the whole restore has completed in the meantime.
func documentedDupErr(err error) bool {
	return errors.Is(err, checkpoint.ErrChunkAlreadyRestored) || errors.Is(err, checkpoint.ErrNoRestoreInProgress)
}

// honestRestore restores all chunks of the checkpoint into ndb (which must be empty) with the
// given order class and finalizes the root. It returns the first oracle failure, if any.
func honestRestore(ctx context.Context, ndb api.NodeDB, backend string, meta *checkpoint.Metadata, chunks [][]byte, order string, rng *rand.Rand, st stats, fc *facts) *problem {
	n := len(chunks)
	rs, err := checkpoint.NewRestorer(ndb)
	if err != nil {
		return &problem{"c12/restore-error/new-restorer", err.Error()}
	}
	start := func() *problem {
		if err := ndb.StartMultipartInsert(meta.Root.Version); err != nil {
			return &problem{"c12/restore-error/start-multipart/" + backend + "/" + errClass(err), err.Error()}
		}
		if err := rs.StartRestore(ctx, meta); err != nil {
			return &problem{"c12/restore-error/start-restore/" + errClass(err), err.Error()}
		}
		return nil
	}
	if p := start(); p != nil {
		return p
	}

	restored := make([]bool, n)
	nRestored := 0
	// submit submits chunk i once from a single caller and checks the documented result.
	submit := func(i int) *problem {
		done, err := rs.RestoreChunk(ctx, uint64(i), bytes.NewReader(chunks[i]))
		st.add("restorechunk_calls", 1)
		if restored[i] {
			st.add("duplicate_submissions", 1)
			st.add("duplicate_result/"+errClass(err), 1)
			if err == nil || !documentedDupErr(err) {
				// A repeated chunk is documented to fail with ErrChunkAlreadyRestored (or
				// ErrNoRestoreInProgress once everything is restored). Anything else is only
				// counted: the property is about the final state.
				st.add("duplicate_undocumented_result", 1)
			}
			return nil
		}
		if err != nil {
			return &problem{
				"c12/honest-chunk-rejected/" + backend + "/" + errClass(err),
				fmt.Sprintf("RestoreChunk(%d) of an honest, not yet restored chunk failed: %v", i, err),
			}
		}
		restored[i] = true
		nRestored++
		if done != (nRestored == n) {
			return &problem{
				"c12/restore-done-flag-wrong/" + backend,
				fmt.Sprintf("RestoreChunk(%d) returned done=%v with %d of %d chunks restored", i, done, nRestored, n),
			}
		}
		return nil
	}

	switch order {
	case "sequential":
		for i := 0; i < n; i++ {
			if p := submit(i); p != nil {
				return p
			}
		}
	case "reverse":
		for i := n - 1; i >= 0; i-- {
			if p := submit(i); p != nil {
				return p
			}
		}
	case "shuffled":
		for _, i := range rng.Perm(n) {
			if p := submit(i); p != nil {
				return p
			}
		}
	case "shuffled-dup":
		seq := rng.Perm(n)
		extra := 1 + n/3
		for k := 0; k < extra; k++ {
			seq = append(seq, rng.IntN(n))
		}
		rng.Shuffle(len(seq), func(a, b int) { seq[a], seq[b] = seq[b], seq[a] })
		for _, i := range seq {
			if p := submit(i); p != nil {
				return p
			}
		}
	case "abort-restart":
		// Restore a proper prefix of a random order, abort, start again from scratch.
		perm := rng.Perm(n)
		k := 0
		if n > 1 {
			k = 1 + rng.IntN(n-1)
		}
		for _, i := range perm[:k] {
			if p := submit(i); p != nil {
				return p
			}
		}
		if err := rs.AbortRestore(ctx); err != nil {
			return &problem{"c12/restore-error/abort-restore", err.Error()}
		}
		variant := rng.IntN(2)
		if variant == 0 {
			// Abort the multipart insert of the database as well (what a node does when it gives
			// up on a checkpoint).
			if err := ndb.AbortMultipartInsert(); err != nil {
				return &problem{"c12/restore-error/abort-multipart/" + backend + "/" + errClass(err), err.Error()}
			}
			st.add("abort_restart/with-multipart-abort", 1)
			fc.AbortedMultipartBefore = true
			if k > 0 && !meta.Root.Hash.IsEmpty() {
				// Is the root of the aborted, partially restored checkpoint still listed?
				if ndb.HasRoot(meta.Root) {
					st.add("observed/root-listed-after-aborted-partial-restore/"+backend, 1)
					fc.RootListedAfterAbort = true
					fc.ChunksRestoredBeforeAbort = k
				} else {
					st.add("observed/root-gone-after-aborted-partial-restore/"+backend, 1)
				}
			}
		} else {
			st.add("abort_restart/restorer-only", 1)
		}
		for i := range restored {
			restored[i] = false
		}
		nRestored = 0
		if p := start(); p != nil {
			return p
		}
		for _, i := range rng.Perm(n) {
			if p := submit(i); p != nil {
				return p
			}
		}
	case "concurrent4":
		// Four callers pull from one submission list that contains every chunk once plus
		// duplicates, in PRNG order.
		seq := rng.Perm(n)
		extra := 1 + n/4
		for k := 0; k < extra; k++ {
			seq = append(seq, rng.IntN(n))
		}
		rng.Shuffle(len(seq), func(a, b int) { seq[a], seq[b] = seq[b], seq[a] })
		var (
			next      atomic.Int64
			progress  atomic.Int64
			abandoned atomic.Bool
			mu        sync.Mutex
			okCount   = make([]int, n)
			doneSeen  int
			bad       *problem
			wg        sync.WaitGroup
			ids       = map[int64]bool{}
		)
		for g := 0; g < 4; g++ {
			wg.Add(1)
			idCh := make(chan int64, 1)
			go func() {
				defer wg.Done()
				idCh <- goid()
				defer func() {
					if rec := recover(); rec != nil {
						mu.Lock()
						if bad == nil {
							bad = &problem{"panic/restore-chunk-concurrent/" + backend, fmt.Sprint(rec)}
						}
						mu.Unlock()
					}
				}()
				for {
					k := int(next.Add(1)) - 1
					if k >= len(seq) {
						return
					}
					i := seq[k]
					done, err := rs.RestoreChunk(ctx, uint64(i), bytes.NewReader(chunks[i]))
					if abandoned.Load() {
						return // the harness gave this restore up; its bookkeeping is no longer ours
					}
					progress.Add(1)
					mu.Lock()
					st.add("restorechunk_calls", 1)
					st.add("concurrent_result/"+errClass(err), 1)
					switch {
					case err == nil:
						okCount[i]++
						if done {
							doneSeen++
						}
					case documentedDupErr(err):
						// Documented for an index another caller has restored (or is past).
					default:
						if bad == nil {
							bad = &problem{
								"c12/honest-chunk-rejected/" + backend + "/concurrent/" + errClass(err),
								fmt.Sprintf("concurrent RestoreChunk(%d) of an honest chunk failed: %v", i, err),
							}
						}
					}
					mu.Unlock()
				}
			}()
			ids[<-idCh] = true
		}
		// Wait for the callers; a stall is judged from goroutine dumps (stall.go).
		finished := make(chan struct{})
		go func() { wg.Wait(); close(finished) }()
		started := time.Now()
		lastProgress, lastChange := progress.Load(), time.Now()
	waitLoop:
		for {
			select {
			case <-finished:
				break waitLoop
			case <-time.After(500 * time.Millisecond):
			}
			if p := progress.Load(); p != lastProgress {
				lastProgress, lastChange = p, time.Now()
				continue
			}
			if time.Since(lastChange) < stallGrace {
				continue
			}
			deadlock, blocked, other := judgeStall(ids, &progress)
			select {
			case <-finished:
				break waitLoop
			default:
			}
			if deadlock {
				abandoned.Store(true)
				fc.abandonDB = true
				fc.BlockedCallers = blocked
				noteDeadlock(backend)
				mu.Lock()
				st.add("concurrent_restores_deadlocked/"+backend, 1)
				mu.Unlock()
				return &problem{
					"c12/concurrent-restore-deadlock/" + backend,
					fmt.Sprintf("4 concurrent RestoreChunk callers: no call returned for %s after %d of %d submissions; in two goroutine dumps %s apart the same %d callers are blocked in mutex locks of the node database and no caller is runnable: %s",
						stallGrace, lastProgress, len(seq), stallDumpGap, len(blocked), describeBlocked(blocked)),
				}
			}
			if time.Since(started) > stallWatchdog {
				abandoned.Store(true)
				fc.abandonDB = true
				fc.BlockedCallers = append(blocked, other...)
				return &problem{"inconclusive/concurrent-restore-stalled", fmt.Sprintf("4 concurrent RestoreChunk callers on %s made no progress for %s but are not all blocked in node database locks (%d blocked, %d in other states)", backend, time.Since(lastChange).Round(time.Second), len(blocked), len(other))}
			}
			lastChange = time.Now().Add(-stallGrace + 5*time.Second) // look again in 5 s
		}
		if bad != nil {
			return bad
		}
		for i, c := range okCount {
			if c == 0 {
				return &problem{
					"c12/honest-chunk-rejected/" + backend + "/concurrent/never-accepted",
					fmt.Sprintf("chunk %d was submitted but no RestoreChunk call accepted it", i),
				}
			}
			if c > 1 {
				st.add("concurrent_same_chunk_restored_twice", int64(c-1))
			}
		}
		if doneSeen == 0 {
			return &problem{"c12/restore-done-flag-wrong/" + backend + "/concurrent", "all chunks accepted but no RestoreChunk call reported completion"}
		}
		if cur := rs.GetCurrentCheckpoint(); cur != nil {
			return &problem{"c12/restore-done-flag-wrong/" + backend + "/concurrent", "all chunks accepted but a restore is still reported in progress"}
		}
	case "gated":
		finalized, p := gatedRestore(ctx, ndb, rs, backend, meta, chunks, rng, st, fc, submit)
		if p != nil || finalized {
			return p
		}
	default:
		panic("unknown order class " + order)
	}

	if err := ndb.Finalize([]node.Root{meta.Root}); err != nil {
		return &problem{
			"c12/finalize-failed/" + backend + "/" + errClass(err),
			fmt.Sprintf("Finalize of the fully restored root failed: %v", err),
		}
	}
	return nil
}

// verifyRestored checks the finalized restored database against the model.
func verifyRestored(ctx context.Context, ndb api.NodeDB, backend, shape string, root node.Root, want []kv, m model, rng *rand.Rand, st stats) *problem {
	if !ndb.HasRoot(root) {
		return &problem{"c12/restore-mismatch/" + backend + "/" + shape + "/root-missing", "HasRoot(restored root) is false after Finalize"}
	}
	roots, err := ndb.GetRootsForVersion(root.Version)
	if err != nil {
		return &problem{"c12/restore-mismatch/" + backend + "/" + shape + "/roots-for-version-error", err.Error()}
	}
	cnt := 0
	for _, x := range roots {
		if x.Equal(&root) {
			cnt++
		}
	}
	if cnt != 1 || len(roots) != 1 {
		return &problem{
			"c12/restore-mismatch/" + backend + "/" + shape + "/roots-for-version",
			fmt.Sprintf("GetRootsForVersion(%d) lists %d roots, the restored root %d times: %v", root.Version, len(roots), cnt, roots),
		}
	}
	if v, ok := ndb.GetLatestVersion(); !ok || v != root.Version {
		return &problem{
			"c12/restore-mismatch/" + backend + "/" + shape + "/latest-version",
			fmt.Sprintf("GetLatestVersion() = (%d,%v), restored version %d", v, ok, root.Version),
		}
	}
	got, err := readAll(ctx, ndb, root)
	if err != nil {
		return &problem{
			"c12/restore-mismatch/" + backend + "/" + shape + "/unreadable",
			fmt.Sprintf("iterating the restored root failed after %d entries: %v", len(got), err),
		}
	}
	st.add("entries_read_back", int64(len(got)))
	if d := diffContents(got, want); d != "" {
		return &problem{"c12/restore-mismatch/" + backend + "/" + shape + "/contents", d}
	}
	// Point lookups (present and absent keys) through a fresh tree.
	tree := mkvs.NewWithRoot(nil, ndb, root)
	defer tree.Close()
	for k := 0; k < 8 && len(want) > 0; k++ {
		e := want[rng.IntN(len(want))]
		v, err := tree.Get(ctx, e.K)
		if err != nil || !bytes.Equal(v, e.V) || v == nil {
			return &problem{
				"c12/restore-mismatch/" + backend + "/" + shape + "/get",
				fmt.Sprintf("Get(%x) = %x, %v; model has %x", e.K, trunc(v), err, trunc(e.V)),
			}
		}
	}
	for k := 0; k < 4; k++ {
		key := append(advKey(rng, 6), 0x33)
		if _, present := m[string(key)]; present {
			continue
		}
		v, err := tree.Get(ctx, key)
		if err != nil || v != nil {
			return &problem{
				"c12/restore-mismatch/" + backend + "/" + shape + "/get-absent",
				fmt.Sprintf("Get(%x) of an absent key = %x, %v", key, trunc(v), err),
			}
		}
	}
	return nil
}

// gatedReader serves a chunk but blocks in its first Read until released, i.e. after the restorer
// has accepted the submission and before anything of the chunk is imported.
type gatedReader struct {
	inner   *bytes.Reader
	once    sync.Once
	entered chan struct{}
	release chan struct{}
}

func newGatedReader(b []byte) *gatedReader {
	return &gatedReader{inner: bytes.NewReader(b), entered: make(chan struct{}), release: make(chan struct{})}
}

func (g *gatedReader) Read(p []byte) (int, error) {
	g.once.Do(func() { close(g.entered) })
	<-g.release
	return g.inner.Read(p)
}

type gatedResult struct {
	idx  int
	done bool
	err  error
	pan  any
}

// gatedWatchdog bounds the waits of the forced interleavings; its firing is inconclusive.
const gatedWatchdog = 5 * time.Minute

// gatedRestore forces the interleaving "the last chunks are in flight together": one to three
// PRNG-chosen chunks are submitted by callers of their own whose readers block inside Read; all
// other chunks are restored (before and after the gated callers entered) and their callers
// return; then the gated chunks are released one by one in PRNG order, each after the previous
// caller returned. Like the production callers (storage worker, ABCI state sync) the harness acts
// on done=true at once: it finalizes and reads the root back while the remaining chunks are still
// blocked. done=true with a chunk that is not imported yet is a violation.
func gatedRestore(ctx context.Context, ndb api.NodeDB, rs checkpoint.Restorer, backend string, meta *checkpoint.Metadata, chunks [][]byte, rng *rand.Rand, st stats, fc *facts, submit func(int) *problem) (bool, *problem) {
	n := len(chunks)
	if n < 2 {
		for i := 0; i < n; i++ {
			if p := submit(i); p != nil {
				return false, p
			}
		}
		return false, nil
	}
	g := 1 + rng.IntN(min(3, n-1))
	if g < 2 && n >= 3 && rng.IntN(3) != 0 {
		g = 2 // mostly at least two chunks in flight together
	}
	perm := rng.Perm(n)
	gatedIdx, rest := perm[:g], perm[g:]
	pre := rng.IntN(len(rest) + 1)
	note := func(format string, a ...any) { fc.Gated = append(fc.Gated, fmt.Sprintf(format, a...)) }
	st.add("gated_restores/"+backend, 1)
	st.add("gated_chunks_in_flight", int64(g))

	for _, i := range rest[:pre] {
		if p := submit(i); p != nil {
			return false, p
		}
	}
	note("%d of %d chunks restored first: %v", pre, n, rest[:pre])

	// Start the gated callers and wait until each of them is blocked inside Read.
	results := make(chan gatedResult, g)
	readers := map[int]*gatedReader{}
	for _, i := range gatedIdx {
		gr := newGatedReader(chunks[i])
		readers[i] = gr
		go func() {
			res := gatedResult{idx: i}
			defer func() {
				if rec := recover(); rec != nil {
					res.pan = rec
				}
				results <- res
			}()
			res.done, res.err = rs.RestoreChunk(ctx, uint64(i), gr)
		}()
		select {
		case <-gr.entered:
		case res := <-results:
			// The call returned without reading the chunk.
			return false, &problem{
				"c12/honest-chunk-rejected/" + backend + "/gated/" + errClass(res.err),
				fmt.Sprintf("RestoreChunk(%d) of an honest, not yet restored chunk returned without reading it: done=%v err=%v panic=%v", i, res.done, res.err, res.pan),
			}
		case <-time.After(gatedWatchdog):
			return false, &problem{"inconclusive/gated-reader-not-entered", fmt.Sprintf("RestoreChunk(%d) neither read the chunk nor returned", i)}
		}
		st.add("restorechunk_calls", 1)
	}
	note("callers of chunks %v blocked inside Read", gatedIdx)

	inFlight := map[int]bool{}
	for _, i := range gatedIdx {
		inFlight[i] = true
	}
	imported := pre
	// earlyDone handles done=true while chunks are still in flight.
	earlyDone := func(by int) *problem {
		var fl []int
		for _, i := range gatedIdx {
			if inFlight[i] {
				fl = append(fl, i)
			}
		}
		note("RestoreChunk(%d) returned done=true with chunks %v still blocked before import", by, fl)
		what := fmt.Sprintf("RestoreChunk(%d) returned done=true after %d of %d chunks were imported; the callers of chunks %v were still blocked inside Read (nothing of them imported)", by, imported, n, fl)
		// What the production callers do on done=true: finalize at once, then use the root.
		if ferr := ndb.Finalize([]node.Root{meta.Root}); ferr != nil {
			what += fmt.Sprintf("; Finalize: %v", ferr)
		} else {
			got, rerr := readAll(ctx, ndb, meta.Root)
			d := diffContents(got, fc.want)
			what += fmt.Sprintf("; Finalize succeeded; read-back: %d entries, err %v %s", len(got), rerr, d)
			if rerr != nil || d != "" {
				fc.extra = append(fc.extra, &problem{
					"c12/restore-mismatch/" + backend + "/after-early-done",
					fmt.Sprintf("root finalized on done=true is not fully readable: %d of %d entries, err %v %s", len(got), len(fc.want), rerr, d),
				})
			}
		}
		// Release the stragglers; they must fail or succeed harmlessly.
		for _, i := range fl {
			close(readers[i].release)
			select {
			case res := <-results:
				inFlight[res.idx] = false
				st.add("straggler_after_early_done/"+errClass(res.err), 1)
				if res.pan != nil {
					fc.extra = append(fc.extra, &problem{"panic/restore-chunk-after-early-done/" + backend, fmt.Sprint(res.pan)})
				}
			case <-time.After(gatedWatchdog):
				return &problem{"inconclusive/gated-straggler-did-not-return", what}
			}
		}
		return &problem{"c12/restorer/done-reported-with-chunk-in-flight/" + backend, what}
	}

	// The other callers go on and return while the gated ones are blocked.
	for _, i := range rest[pre:] {
		done, err := rs.RestoreChunk(ctx, uint64(i), bytes.NewReader(chunks[i]))
		st.add("restorechunk_calls", 1)
		if err != nil {
			for _, j := range gatedIdx {
				close(readers[j].release)
			}
			return false, &problem{
				"c12/honest-chunk-rejected/" + backend + "/gated/" + errClass(err),
				fmt.Sprintf("RestoreChunk(%d) of an honest, not yet restored chunk failed while other chunks were in flight: %v", i, err),
			}
		}
		imported++
		if done {
			return true, earlyDone(i)
		}
	}
	note("%d further chunks restored while they were blocked: %v", len(rest)-pre, rest[pre:])

	// Release the gated chunks one by one.
	order := rng.Perm(g)
	for k, oi := range order {
		i := gatedIdx[oi]
		close(readers[i].release)
		var res gatedResult
		select {
		case res = <-results:
		case <-time.After(gatedWatchdog):
			return false, &problem{"inconclusive/gated-caller-did-not-return", fmt.Sprintf("RestoreChunk(%d) did not return after its reader was released", i)}
		}
		inFlight[res.idx] = false
		note("released chunk %d: caller of chunk %d returned done=%v err=%v", i, res.idx, res.done, res.err)
		if res.pan != nil {
			for _, oj := range order[k+1:] {
				close(readers[gatedIdx[oj]].release)
			}
			return false, &problem{"panic/restore-chunk-gated/" + backend, fmt.Sprint(res.pan)}
		}
		if res.err != nil {
			for _, oj := range order[k+1:] {
				close(readers[gatedIdx[oj]].release)
			}
			return false, &problem{
				"c12/honest-chunk-rejected/" + backend + "/gated/" + errClass(res.err),
				fmt.Sprintf("RestoreChunk(%d) of an honest, not yet restored chunk failed after its reader was released: %v", res.idx, res.err),
			}
		}
		imported++
		last := k == len(order)-1
		if res.done && !last {
			return true, earlyDone(res.idx)
		}
		if !res.done && last {
			return false, &problem{"c12/restore-done-flag-wrong/" + backend + "/gated", fmt.Sprintf("all %d chunks imported but the last RestoreChunk call returned done=false", n)}
		}
	}
	return false, nil
}
