package main

import (
	"fmt"
	"regexp"
	"runtime"
	"sort"
	"strconv"
	"strings"
	"sync"
	"sync/atomic"
	"time"
)

// Stall handling of the concurrent restores. A restore whose callers make no progress is judged
// from goroutine dumps, not from the clock: the clock only decides WHEN dumps are taken.
const (
	stallGrace    = 15 * time.Second // no RestoreChunk call returned for this long -> take dumps
	stallDumpGap  = 3 * time.Second  // distance between the two dumps that must agree
	stallWatchdog = 10 * time.Minute // a stall that is not a deadlock is given up as inconclusive
	// After this many deadlocked restores of a backend the concurrent order class is replaced by
	// "shuffled" for it, so that abandoned databases and grace periods stay bounded.
	maxDeadlocksPerBackend = 3
)

var (
	deadlocksMu   sync.Mutex
	deadlocksSeen = map[string]int{}
)

func concurrentRestoreDisabled(backend string) bool {
	deadlocksMu.Lock()
	defer deadlocksMu.Unlock()
	return deadlocksSeen[backend] >= maxDeadlocksPerBackend
}

func noteDeadlock(backend string) {
	deadlocksMu.Lock()
	deadlocksSeen[backend]++
	deadlocksMu.Unlock()
}

// goid returns the id of the calling goroutine (parsed from its own stack header).
func goid() int64 {
	var b [64]byte
	n := runtime.Stack(b[:], false)
	f := strings.Fields(string(b[:n]))
	if len(f) < 2 {
		return -1
	}
	id, err := strconv.ParseInt(f[1], 10, 64)
	if err != nil {
		return -1
	}
	return id
}

// gState is what a dump says about one goroutine.
type gState struct {
	ID     int64    `json:"goroutine"`
	State  string   `json:"state"`
	Frames []string `json:"frames"` // "function (file:line)", innermost first
}

var gHeader = regexp.MustCompile(`^goroutine (\d+) \[([^\]]+)\]:`)

// dumpGoroutines takes a dump of all goroutines and returns the entries of the given ids.
func dumpGoroutines(ids map[int64]bool) map[int64]gState {
	buf := make([]byte, 8<<20)
	for {
		n := runtime.Stack(buf, true)
		if n < len(buf) {
			buf = buf[:n]
			break
		}
		buf = make([]byte, 2*len(buf))
	}
	out := map[int64]gState{}
	for _, blk := range strings.Split(string(buf), "\n\n") {
		lines := strings.Split(strings.TrimSpace(blk), "\n")
		m := gHeader.FindStringSubmatch(lines[0])
		if m == nil {
			continue
		}
		id, _ := strconv.ParseInt(m[1], 10, 64)
		if !ids[id] {
			continue
		}
		state := m[2]
		if i := strings.Index(state, ","); i >= 0 {
			state = state[:i]
		}
		g := gState{ID: id, State: state}
		for i := 1; i+1 < len(lines) && len(g.Frames) < 24; i += 2 {
			fn := strings.TrimSpace(lines[i])
			if strings.HasPrefix(fn, "created by") {
				break
			}
			if j := strings.LastIndex(fn, "("); j > 0 {
				fn = fn[:j] // drop the argument words
			}
			loc := strings.TrimSpace(lines[i+1])
			if j := strings.Index(loc, " +0x"); j > 0 {
				loc = loc[:j]
			}
			g.Frames = append(g.Frames, fn+" ("+loc+")")
		}
		out[id] = g
	}
	return out
}

// blockedOnNodeDBLock reports whether the goroutine sits in sync.(*Mutex).Lock / RWMutex locking
// called from the node database or checkpoint code while running RestoreChunk, and where.
func (g gState) blockedOnNodeDBLock() (site string, ok bool) {
	switch {
	case strings.HasPrefix(g.State, "sync.Mutex.Lock"), strings.HasPrefix(g.State, "sync.RWMutex."), g.State == "semacquire":
	default:
		return "", false
	}
	inSync, inRestore := false, false
	for _, f := range g.Frames {
		switch {
		case strings.HasPrefix(f, "sync.(*Mutex).Lock"), strings.HasPrefix(f, "sync.(*RWMutex)."):
			inSync = true
		case site == "" && inSync && !strings.HasPrefix(f, "sync.") && !strings.HasPrefix(f, "internal/sync.") && !strings.HasPrefix(f, "runtime."):
			if strings.Contains(f, "/storage/mkvs/db/") || strings.Contains(f, "/storage/mkvs/checkpoint/") {
				site = f
			}
		}
		if strings.Contains(f, "checkpoint.(*restorer).RestoreChunk") {
			inRestore = true
		}
	}
	return site, inSync && inRestore && site != ""
}

// judgeStall takes two dumps stallDumpGap apart and decides whether the callers (ids) are
// deadlocked: in both dumps the same >= 2 callers are blocked at the same lock sites of the node
// database / checkpoint code, no caller is in any other state, and no call returned in between.
func judgeStall(ids map[int64]bool, progress *atomic.Int64) (deadlock bool, blocked []gState, other []gState) {
	p0 := progress.Load()
	d1 := dumpGoroutines(ids)
	time.Sleep(stallDumpGap)
	d2 := dumpGoroutines(ids)
	if progress.Load() != p0 || len(d1) != len(d2) {
		return false, nil, nil
	}
	same := true
	for id, g2 := range d2 {
		g1, ok := d1[id]
		s1, b1 := g1.blockedOnNodeDBLock()
		s2, b2 := g2.blockedOnNodeDBLock()
		switch {
		case !ok:
			same = false
		case b2:
			if !b1 || s1 != s2 {
				same = false
			}
			blocked = append(blocked, g2)
		default:
			other = append(other, g2)
		}
	}
	sort.Slice(blocked, func(i, j int) bool { return blocked[i].ID < blocked[j].ID })
	return same && len(other) == 0 && len(blocked) >= 2, blocked, other
}

func describeBlocked(blocked []gState) string {
	var parts []string
	for _, g := range blocked {
		site, _ := g.blockedOnNodeDBLock()
		parts = append(parts, fmt.Sprintf("goroutine %d [%s] at %s", g.ID, g.State, site))
	}
	return strings.Join(parts, "; ")
}
