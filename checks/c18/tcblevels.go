package main

// TCB level / QE identity enumeration through the exported
// pcs.TCBBundle.Verify: the repository's Intel-signed TCB infos contain
// OutOfDate / ConfigurationAndSWHardeningNeeded levels that the quotes'
// platforms do not reach, so the platform SVNs, the FMSPC and the QE report
// are varied directly (they are exactly the values Quote.Verify extracts from
// the PCK certificate / TD report / QE report and hands to this function).

import (
	"encoding/hex"
	"encoding/json"
	"fmt"
	"time"

	"github.com/oasisprotocol/oasis-core/go/common/sgx/pcs"

	"verif/engine/evid"
)

type tcbCase struct {
	Vector     string           `json:"vector"`
	Kind       string           `json:"kind"`
	Index      int              `json:"index"`
	TCBInfoSrc string           `json:"tcbinfo_src,omitempty"` // other document than the vector's own
	QEIDSrc    string           `json:"qeid_src,omitempty"`
	TSNsec     int64            `json:"ts_nsec,omitempty"`
	TeeType    uint32           `json:"tee_type"`
	FMSPC      string           `json:"fmspc"`
	Comp       [16]int32        `json:"sgx_comp_svn"`
	PCESVN     uint16           `json:"pcesvn"`
	TDXSvn     *[16]byte        `json:"tdx_comp_svn,omitempty"`
	QEReport   string           `json:"qe_report"`
	TSSec      int64            `json:"ts_sec"`
	Policy     *pcs.QuotePolicy `json:"policy"`
}

func (k *checker) evalTCBCase(tc *tcbCase) {
	r := k.r
	v := k.c.vectors[tc.Vector]
	r.Eval(1)
	r.Count("cases/tcblevel", 1)
	ti := k.c.tcbInfo[v.TCBInfo]
	if tc.TCBInfoSrc != "" {
		ti = k.c.tcbInfo[tc.TCBInfoSrc]
	}
	qe := k.c.qeID[v.QEID]
	if tc.QEIDSrc != "" {
		qe = k.c.qeID[tc.QEIDSrc]
	}
	fmspc, _ := hex.DecodeString(tc.FMSPC)
	qeRep, _ := hex.DecodeString(tc.QEReport)
	ts := time.Unix(tc.TSSec, tc.TSNsec)

	var (
		err      error
		panicked string
	)
	func() {
		defer func() {
			if p := recover(); p != nil {
				panicked = fmt.Sprint(p)
			}
		}()
		var rep pcs.SgxReport
		if e := rep.UnmarshalBinary(qeRep); e != nil {
			err = e
			return
		}
		bnd := pcs.TCBBundle{
			TCBInfo:      pcs.SignedTCBInfo{TCBInfo: json.RawMessage(ti.Body), Signature: ti.Sig},
			QEIdentity:   pcs.SignedQEIdentity{EnclaveIdentity: json.RawMessage(qe.Body), Signature: qe.Sig},
			Certificates: k.c.certs[v.Certs],
		}
		pol := *tc.Policy
		var tdx *[16]byte
		if tc.TDXSvn != nil {
			cp := *tc.TDXSvn
			tdx = &cp
		}
		err = bnd.Verify(pcs.TeeType(tc.TeeType), ts, &pol, fmspc, tc.Comp, tdx, tc.PCESVN, &rep)
	}()
	if panicked != "" {
		r.Violation("panic/pcs.TCBBundle.Verify/"+tc.Vector,
			fmt.Sprintf("TCBBundle.Verify panicked (%s): %s", tc.Kind, panicked),
			map[string]any{"tcb_case": tc, "panic": panicked, "seed": r.Seed, "tier": r.Tier})
		return
	}
	r.Nontrivial("tcblevel|" + tc.Vector + "|" + tc.Kind)
	if err != nil {
		cls := errClass(err.Error())
		r.Count("tcblevel_rejected", 1)
		r.Count("tcblevel_reject/"+cls, 1)
		r.Distinct("reject_classes", cls)
		return
	}
	r.Count("tcblevel_accepted", 1)
	if len(qeRep) < 384 {
		r.Violation("c18/"+tc.Vector+"/tcblevel/short-qe-report-accepted", "short QE report accepted", map[string]any{"tcb_case": tc})
		return
	}
	in := &refInput{TCBInfo: ti.Body, TCBSig: ti.Sig, QEID: qe.Body, QESig: qe.Sig, Certs: k.c.certs[v.Certs], Policy: tc.Policy, TS: ts}
	var f *refFail
	switch tc.TeeType {
	case 0:
		f = refCollateral(in, false, fmspc, tc.Comp, int32(tc.PCESVN), tc.TDXSvn, qeRep[:384])
	case 0x81:
		f = refCollateral(in, true, fmspc, tc.Comp, int32(tc.PCESVN), tc.TDXSvn, qeRep[:384])
	default:
		f = fail("platform", "unknown-tee-type")
	}
	if f != nil {
		r.Violation(fmt.Sprintf("c18/%s/tcblevel/%s/%s", tc.Vector, sigFamily(f), sanitize(f.Detail)),
			fmt.Sprintf("TCBBundle.Verify ACCEPTED platform values (%s) for the collateral of vector %s although the independent predicate fails: %s", tc.Kind, tc.Vector, f),
			map[string]any{"tcb_case": tc, "reference_failure": f.String(), "seed": r.Seed, "tier": r.Tier})
		return
	}
	// Which status was accepted (evidence only).
	var rti refTCBInfo
	if json.Unmarshal(ti.Body, &rti) == nil {
		if st, f := refPlatformLevel(&rti, tc.Comp, int32(tc.PCESVN), tc.TDXSvn); f == nil {
			r.Distinct("tcb_status_accepted", st)
		}
	}
}

func (k *checker) tcbLevels(v *vector, nRandom int) {
	vi := vecIndex(k, v.Name)
	p := partsOf(v.Quote)
	if p == nil {
		return
	}
	chain, _ := parsePEMCerts(p.cert)
	if len(chain) < 1 {
		return
	}
	info, f := parsePCK(chain[0])
	if f != nil {
		k.r.Inconclusive("vector %s: PCK extension not parsable by the reference: %s", v.Name, f)
		return
	}
	var rti refTCBInfo
	_ = json.Unmarshal(k.c.tcbInfo[v.TCBInfo].Body, &rti)
	var rqe refQEIdentity
	_ = json.Unmarshal(k.c.qeID[v.QEID].Body, &rqe)

	tee := uint32(0)
	var baseTDX *[16]byte
	if p.l.TDX {
		tee = 0x81
		var s [16]byte
		copy(s[:], v.Quote[48:64])
		baseTDX = &s
	}
	pol := v.Policy
	mk := func(kind string) tcbCase {
		tc := tcbCase{
			Vector: v.Name, Kind: kind, TeeType: tee, FMSPC: hex.EncodeToString(info.FMSPC), Comp: info.Comp,
			PCESVN: uint16(info.PCESVN), QEReport: hex.EncodeToString(p.qeRep), TSSec: v.TS.Unix(), Policy: &pol,
		}
		if baseTDX != nil {
			cp := *baseTDX
			tc.TDXSvn = &cp
		}
		return tc
	}
	var cases []tcbCase
	cases = append(cases, mk("platform-values-of-the-quote"))

	// Status of every level, recorded so the evidence shows which statuses the enumeration reaches.
	for i, lv := range rti.Levels {
		k.r.Distinct("tcb_levels_in_collateral", fmt.Sprintf("%s#%d:%s", v.TCBInfo, i, lv.Status))
		var comp [16]int32
		var tdx [16]byte
		for j := 0; j < 16; j++ {
			comp[j] = lv.TCB.SGX[j].SVN
			tdx[j] = byte(lv.TCB.TDX[j].SVN)
		}
		exact := func(kind string, mod func(tc *tcbCase)) {
			tc := mk(fmt.Sprintf("level%d(%s)/%s", i, lv.Status, kind))
			tc.Comp = comp
			tc.PCESVN = lv.TCB.PCESVN
			if baseTDX != nil {
				// Keep the module version/SVN of the quote (indices 0,1), take the rest from the level.
				t := tdx
				t[0], t[1] = baseTDX[0], baseTDX[1]
				tc.TDXSvn = &t
			}
			if mod != nil {
				mod(&tc)
			}
			cases = append(cases, tc)
		}
		exact("exact", nil)
		for j := 0; j < 16; j++ {
			j := j
			if comp[j] > 0 {
				exact(fmt.Sprintf("sgx-comp-minus-1"), func(tc *tcbCase) { tc.Comp[j]-- })
			}
			exact("sgx-comp-plus-1", func(tc *tcbCase) { tc.Comp[j]++ })
			if baseTDX != nil {
				if tdx[j] > 0 {
					exact("tdx-comp-minus-1", func(tc *tcbCase) { tc.TDXSvn[j] = tdx[j] - 1 })
				}
				exact("tdx-comp-plus-1", func(tc *tcbCase) { tc.TDXSvn[j] = tdx[j] + 1 })
			}
		}
		if lv.TCB.PCESVN > 0 {
			exact("pcesvn-minus-1", func(tc *tcbCase) { tc.PCESVN-- })
		}
		exact("pcesvn-plus-1", func(tc *tcbCase) { tc.PCESVN++ })
		if baseTDX != nil {
			exact("tdx-module-version-0", func(tc *tcbCase) { t := tdx; tc.TDXSvn = &t; tc.TDXSvn[1] = 0 })
			exact("tdx-svn-nil", func(tc *tcbCase) { tc.TDXSvn = nil })
			for mv := 0; mv <= 5; mv++ {
				for ms := 0; ms <= 6; ms++ {
					mv, ms := mv, ms
					exact(fmt.Sprintf("tdx-module-v%d", mv), func(tc *tcbCase) { tc.TDXSvn[1] = byte(mv); tc.TDXSvn[0] = byte(ms) })
				}
			}
		}
	}
	for _, fill := range []int32{0, 1, 255} {
		tc := mk(fmt.Sprintf("all-svn=%d", fill))
		for j := range tc.Comp {
			tc.Comp[j] = fill
		}
		tc.PCESVN = uint16(fill)
		if tc.TDXSvn != nil {
			for j := 2; j < 16; j++ {
				tc.TDXSvn[j] = byte(fill)
			}
		}
		cases = append(cases, tc)
	}
	tcn := mk("negative-sgx-comp")
	tcn.Comp[0] = -1
	cases = append(cases, tcn)

	// FMSPC.
	for bit := 0; bit < 48; bit++ {
		tc := mk("fmspc-bitflip")
		b := append([]byte{}, info.FMSPC...)
		b[bit/8] ^= 1 << (bit % 8)
		tc.FMSPC = hex.EncodeToString(b)
		cases = append(cases, tc)
	}
	for _, o := range []string{"", "00", "00606a000000", "c0806f000000", "50806f000000", "00906ed50000", hex.EncodeToString(info.FMSPC) + "00", hex.EncodeToString(info.FMSPC[:5])} {
		if o == hex.EncodeToString(info.FMSPC) {
			continue
		}
		tc := mk("fmspc-other")
		tc.FMSPC = o
		cases = append(cases, tc)
	}

	// QE report against the QE identity.
	qeMod := func(kind string, mod func(rep []byte)) {
		tc := mk(kind)
		rep := append([]byte{}, p.qeRep...)
		mod(rep)
		tc.QEReport = hex.EncodeToString(rep)
		cases = append(cases, tc)
	}
	for s := 0; s <= 12; s++ {
		s := s
		qeMod("qe-isvsvn", func(rep []byte) { rep[258], rep[259] = byte(s), 0 })
	}
	qeMod("qe-isvsvn", func(rep []byte) { rep[258], rep[259] = 0xff, 0xff })
	for s := 0; s <= 4; s++ {
		s := s
		qeMod("qe-isvprodid", func(rep []byte) { rep[256], rep[257] = byte(s), 0 })
	}
	for bit := 0; bit < 256; bit++ {
		bit := bit
		qeMod("qe-mrsigner-bitflip", func(rep []byte) { rep[128+bit/8] ^= 1 << (bit % 8) })
	}
	for bit := 0; bit < 128; bit++ {
		bit := bit
		qeMod("qe-attributes-bitflip", func(rep []byte) { rep[48+bit/8] ^= 1 << (bit % 8) })
	}
	for bit := 0; bit < 32; bit++ {
		bit := bit
		qeMod("qe-miscselect-bitflip", func(rep []byte) { rep[16+bit/8] ^= 1 << (bit % 8) })
	}
	for _, dn := range k.donorNames(v) {
		if d := partsOf(k.c.quotes[dn]); d != nil {
			tc := mk("qe-report-from:" + dn)
			tc.QEReport = hex.EncodeToString(d.qeRep)
			cases = append(cases, tc)
		}
	}

	// TEE type.
	for _, t := range []uint32{0, 0x81, 1, 0x80, 0xffffffff} {
		if t == tee {
			continue
		}
		tc := mk(fmt.Sprintf("tee-type=%#x", t))
		tc.TeeType = t
		cases = append(cases, tc)
		tc2 := tc
		tc2.Kind += "/tdx-svn-toggled"
		if tc2.TDXSvn == nil {
			tc2.TDXSvn = &[16]byte{}
		} else {
			tc2.TDXSvn = nil
		}
		cases = append(cases, tc2)
	}

	evid.Parallel(len(cases), 0, func(i int) {
		tc := cases[i]
		tc.Index = i
		k.evalTCBCase(&tc)
	})

	// Random platform values around the levels.
	evid.Parallel(nRandom, 0, func(i int) {
		rng := k.r.Rand(stTCBLevels, vi, uint64(i))
		tc := mk("random-svn")
		tc.Index = i
		if len(rti.Levels) > 0 {
			lv := rti.Levels[rng.IntN(len(rti.Levels))]
			for j := 0; j < 16; j++ {
				tc.Comp[j] = lv.TCB.SGX[j].SVN + int32(rng.IntN(3)) - 1
				if tc.Comp[j] < 0 {
					tc.Comp[j] = 0
				}
				if tc.TDXSvn != nil && j >= 2 {
					x := int(lv.TCB.TDX[j].SVN) + rng.IntN(3) - 1
					if x < 0 {
						x = 0
					}
					tc.TDXSvn[j] = byte(x)
				}
			}
			tc.PCESVN = uint16(int(lv.TCB.PCESVN) + rng.IntN(3) - 1)
			if tc.TDXSvn != nil {
				tc.TDXSvn[1] = byte(rng.IntN(5))
				tc.TDXSvn[0] = byte(rng.IntN(6))
			}
		}
		if rng.IntN(4) == 0 {
			rep := append([]byte{}, p.qeRep...)
			rep[258] = byte(rng.IntN(10))
			tc.QEReport = hex.EncodeToString(rep)
		}
		k.evalTCBCase(&tc)
	})
	_ = rqe
	k.tcbTimeCombos(v, mk)
}

// tcbTimeCombos walks the time boundaries of every (TCB info, QE identity) pair of the vector's TEE
// type with platform values that reach an acceptable level of that TCB info, so that the validity
// window of EACH document is the only barrier at some instant (with the vectors' own collateral the QE
// identity is always the older document and masks the TCB info's expiry).
func (k *checker) tcbTimeCombos(v *vector, mk func(kind string) tcbCase) {
	wantTI, wantQE := "SGX", "QE"
	if v.TDX {
		wantTI, wantQE = "TDX", "TD_QE"
	}
	var cases []tcbCase
	for _, tn := range sortedKeys(k.c.tcbInfo) {
		var rti refTCBInfo
		if json.Unmarshal(k.c.tcbInfo[tn].Body, &rti) != nil || rti.ID != wantTI {
			continue
		}
		// Platform values: exactly those of the first acceptable level.
		var lvl *refTCBLevel
		for i := range rti.Levels {
			if rti.Levels[i].Status == "UpToDate" || rti.Levels[i].Status == "SWHardeningNeeded" {
				lvl = &rti.Levels[i]
				break
			}
		}
		if lvl == nil {
			continue
		}
		for _, qn := range sortedKeys(k.c.qeID) {
			var rqe refQEIdentity
			if json.Unmarshal(k.c.qeID[qn].Body, &rqe) != nil || rqe.ID != wantQE {
				continue
			}
			tIssue, _ := time.Parse(pcs.TimestampFormat, rti.IssueDate)
			qIssue, _ := time.Parse(pcs.TimestampFormat, rqe.IssueDate)
			fill := func(tc *tcbCase) {
				tc.TCBInfoSrc, tc.QEIDSrc = tn, qn
				tc.FMSPC = rti.FMSPC
				for j := 0; j < 16; j++ {
					tc.Comp[j] = lvl.TCB.SGX[j].SVN
					if tc.TDXSvn != nil {
						// All 16 from the level (index 1 = module version 0 in the vectors: no module check).
						tc.TDXSvn[j] = byte(lvl.TCB.TDX[j].SVN)
					}
				}
				tc.PCESVN = lvl.TCB.PCESVN
			}
			// Minimum evaluation data number against each document separately (the vectors' own pairs
			// carry equal numbers, so only mixed pairs show which document's number is checked).
			later := tIssue
			if qIssue.After(later) {
				later = qIssue
			}
			for _, m := range []uint32{0, rti.EvalNum - 1, rti.EvalNum, rti.EvalNum + 1, rqe.EvalNum - 1, rqe.EvalNum, rqe.EvalNum + 1, 1<<32 - 1} {
				tc := mk(fmt.Sprintf("min-eval/%s/min=%d,tcbinfo=%s(%d),qeid=%s(%d)", wantTI, m, tn, rti.EvalNum, qn, rqe.EvalNum))
				fill(&tc)
				pol := *tc.Policy
				pol.TCBValidityPeriod = 65535
				pol.MinTCBEvaluationDataNumber = m
				tc.Policy = &pol
				tc.TSSec = later.Unix() + 3600
				cases = append(cases, tc)
			}
			for _, val := range []uint16{0, 30, 90, 365, 1000} {
				bs := []boundary{
					{"tcb-info-issue", tIssue}, {"qe-identity-issue", qIssue},
					{"tcb-info-issue+Vd", time.Unix(tIssue.Unix()+int64(val)*86400, 0)},
					{"qe-identity-issue+Vd", time.Unix(qIssue.Unix()+int64(val)*86400, 0)},
				}
				for _, b := range bs {
					for _, d := range []time.Duration{-time.Second, -1, 0, 1, time.Second} {
						tc := mk(fmt.Sprintf("time/%s/%s%+dns@V=%d/tcbinfo=%s,qeid=%s", wantTI, b.Name, int64(d), val, tn, qn))
						fill(&tc)
						pol := *tc.Policy
						pol.TCBValidityPeriod = val
						tc.Policy = &pol
						ts := b.At.Add(d)
						tc.TSSec, tc.TSNsec = ts.Unix(), int64(ts.Nanosecond())
						cases = append(cases, tc)
					}
				}
			}
		}
	}
	// Pairs of any document types under either TEE type: acceptable platform values of the TCB info,
	// both documents inside their (maximal) validity; must be rejected unless both ids fit the TEE type.
	for _, tn := range sortedKeys(k.c.tcbInfo) {
		var rti refTCBInfo
		if json.Unmarshal(k.c.tcbInfo[tn].Body, &rti) != nil {
			continue
		}
		var lvl *refTCBLevel
		for i := range rti.Levels {
			if rti.Levels[i].Status == "UpToDate" || rti.Levels[i].Status == "SWHardeningNeeded" {
				lvl = &rti.Levels[i]
				break
			}
		}
		if lvl == nil {
			continue
		}
		for _, qn := range sortedKeys(k.c.qeID) {
			var rqe refQEIdentity
			if json.Unmarshal(k.c.qeID[qn].Body, &rqe) != nil {
				continue
			}
			tIssue, _ := time.Parse(pcs.TimestampFormat, rti.IssueDate)
			qIssue, _ := time.Parse(pcs.TimestampFormat, rqe.IssueDate)
			later := tIssue
			if qIssue.After(later) {
				later = qIssue
			}
			for _, tee := range []uint32{0, 0x81} {
				for _, withTDX := range []bool{false, true} {
					tc := mk(fmt.Sprintf("doc-types/tee=%#x,tdxsvn=%v,tcbinfo=%s(%s),qeid=%s(%s)", tee, withTDX, tn, rti.ID, qn, rqe.ID))
					tc.TeeType = tee
					tc.TCBInfoSrc, tc.QEIDSrc = tn, qn
					tc.FMSPC = rti.FMSPC
					tc.TDXSvn = nil
					if withTDX {
						tc.TDXSvn = &[16]byte{}
					}
					for j := 0; j < 16; j++ {
						tc.Comp[j] = lvl.TCB.SGX[j].SVN
						if tc.TDXSvn != nil {
							tc.TDXSvn[j] = byte(lvl.TCB.TDX[j].SVN)
						}
					}
					tc.PCESVN = lvl.TCB.PCESVN
					pol := *tc.Policy
					pol.TCBValidityPeriod = 65535
					pol.MinTCBEvaluationDataNumber = 0
					tc.Policy = &pol
					tc.TSSec = later.Unix() + 3600
					cases = append(cases, tc)
				}
			}
		}
	}
	evid.Parallel(len(cases), 0, func(i int) {
		tc := cases[i]
		tc.Index = i
		k.evalTCBCase(&tc)
	})
}

// pckCase is a direct call of the exported QuoteSignatureECDSA_P256.VerifyPCK (the PCK chain
// verification step of Quote.Verify) at a given time. With the repository's vectors the PCK
// certificates' validity boundaries are always masked by the collateral's (the leaf's NotBefore is
// earlier than the collateral issue dates, its NotAfter later than the TCB signing certificate's), so
// only this entry point shows whether the PCK chain's validity is checked against ts.
type pckCase struct {
	Vector string `json:"vector"`
	Kind   string `json:"kind"`
	TSSec  int64  `json:"ts_sec"`
	TSNsec int64  `json:"ts_nsec"`
}

func (k *checker) evalPCKCase(pc *pckCase) {
	r := k.r
	v := k.c.vectors[pc.Vector]
	r.Eval(1)
	r.Count("cases/pck-time", 1)
	ts := time.Unix(pc.TSSec, pc.TSNsec)
	var (
		info     *pcs.PCKInfo
		err      error
		panicked string
	)
	func() {
		defer func() {
			if p := recover(); p != nil {
				panicked = fmt.Sprint(p)
			}
		}()
		var q pcs.Quote
		if err = q.UnmarshalBinary(v.Quote); err != nil {
			return
		}
		sig, ok := q.Signature().(*pcs.QuoteSignatureECDSA_P256)
		if !ok {
			err = fmt.Errorf("not an ECDSA quote signature")
			return
		}
		info, err = sig.VerifyPCK(ts)
	}()
	if panicked != "" {
		r.Violation("panic/pcs.VerifyPCK/"+pc.Vector, "VerifyPCK panicked: "+panicked, map[string]any{"pck_case": pc})
		return
	}
	r.Nontrivial("pck-time|" + pc.Vector + "|" + pc.Kind)
	if err != nil {
		r.Count("pck_time_rejected", 1)
		r.Distinct("pck_time_cases", pc.Vector+"|"+pc.Kind+"|rejected")
		return
	}
	r.Count("pck_time_accepted", 1)
	r.Distinct("pck_time_cases", pc.Vector+"|"+pc.Kind+"|accepted")
	p := partsOf(v.Quote)
	chain, _ := parsePEMCerts(p.cert)
	for i, c := range chain {
		if f := inWindow(ts, c, []string{"pck-leaf-cert", "pck-intermediate-cert", "pck-root-cert"}[i%3]); f != nil {
			r.Violation(fmt.Sprintf("c18/%s/pck/expired-collateral-accepted/%s", pc.Vector, sanitize(f.Detail)),
				fmt.Sprintf("VerifyPCK accepted the PCK chain of vector %s at ts=%d.%09d outside a certificate's validity: %s", pc.Vector, pc.TSSec, pc.TSNsec, f),
				map[string]any{"pck_case": pc, "reference_failure": f.String(), "seed": r.Seed, "tier": r.Tier})
			return
		}
	}
	if ref, f := parsePCK(chain[0]); f == nil && info != nil {
		if hex.EncodeToString(ref.FMSPC) != hex.EncodeToString(info.FMSPC) || ref.Comp != info.TCBCompSVN || ref.PCESVN != int32(info.PCESVN) {
			r.Violation(fmt.Sprintf("c18/%s/pck/extracted-platform-values-differ", pc.Vector),
				"VerifyPCK returned FMSPC / TCB component SVNs / PCESVN that differ from the PCK certificate's SGX extension as parsed by the reference",
				map[string]any{"pck_case": pc, "returned_fmspc": hex.EncodeToString(info.FMSPC), "reference_fmspc": hex.EncodeToString(ref.FMSPC),
					"returned_comp": info.TCBCompSVN, "reference_comp": ref.Comp, "returned_pcesvn": info.PCESVN, "reference_pcesvn": ref.PCESVN})
		}
	}
}

func (k *checker) pckTime(v *vector) {
	p := partsOf(v.Quote)
	if p == nil {
		return
	}
	chain, _ := parsePEMCerts(p.cert)
	var cases []pckCase
	for i, c := range chain {
		n := []string{"pck-leaf-cert", "pck-intermediate-cert", "pck-root-cert"}[i%3]
		for _, b := range []boundary{{n + "-notbefore", c.NotBefore}, {n + "-notafter", c.NotAfter}} {
			for _, d := range []time.Duration{-time.Second, -1, 0, 1, time.Second} {
				ts := b.At.Add(d)
				cases = append(cases, pckCase{Vector: v.Name, Kind: fmt.Sprintf("%s%+dns", b.Name, int64(d)), TSSec: ts.Unix(), TSNsec: int64(ts.Nanosecond())})
			}
		}
	}
	cases = append(cases, pckCase{Vector: v.Name, Kind: "vector-time", TSSec: v.TS.Unix()})
	// The zero time.Time is not used here: crypto/x509 documents it as "use the current time", so the
	// outcome would depend on the wall clock (in Quote.Verify a zero ts is rejected by the collateral's
	// issue date check; that is covered by the "extreme" cases of the time grid).
	for i, ts := range []time.Time{time.Unix(0, 0), time.Unix(1, 0), time.Unix(1<<40, 0)} {
		cases = append(cases, pckCase{Vector: v.Name, Kind: fmt.Sprintf("extreme-%d", i), TSSec: ts.Unix(), TSNsec: int64(ts.Nanosecond())})
	}
	evid.Parallel(len(cases), 0, func(i int) { pc := cases[i]; k.evalPCKCase(&pc) })
}
