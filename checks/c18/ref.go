package main

// Independent reference predicate for C18.
//
// Nothing in this file calls the verification logic of
// go/common/sgx/pcs. It re-derives, with the Go standard library only, what
// has to hold for an accepted (quote, collateral, policy, time) tuple:
//
//   - the signature chain: PCK chain -> Intel root, QE report signed by the
//     PCK key, QE report data = SHA-256(attestation key || auth data) || 0^32,
//     quote signature over header || report body under the attestation key;
//   - collateral authenticity: TCB info and QE identity signed by the TCB
//     signing certificate that chains to the Intel root;
//   - time: every certificate's [NotBefore, NotAfter] and, for TCB info and QE
//     identity, [issueDate, issueDate + TCBValidityPeriod days] (the window
//     the package's own tests define; nextUpdate is not enforced by the code
//     and quote_test.go expects acceptance after nextUpdate with a 90 day
//     validity period, so it is only observed, not demanded);
//   - platform: TCB info id / QE identity id match the TEE type, the TCB info
//     FMSPC equals the FMSPC of the PCK certificate;
//   - policy: disabled, minimum evaluation data number, FMSPC black/whitelist
//     (FMSPCs compared as the byte strings they encode), TDX module policy,
//     no debug enclaves/TDs;
//   - TCB status: first matching platform TCB level has status UpToDate or
//     SWHardeningNeeded, TDX module level and QE identity level UpToDate.
//
// The oracle is one-directional: code accepts => reference accepts.

import (
	"bytes"
	"crypto/ecdsa"
	"crypto/elliptic"
	"crypto/sha256"
	"crypto/x509"
	"encoding/asn1"
	"encoding/binary"
	"encoding/hex"
	"encoding/json"
	"encoding/pem"
	"fmt"
	"math/big"
	"strings"
	"time"

	"github.com/oasisprotocol/oasis-core/go/common/crypto/tuplehash"
	"github.com/oasisprotocol/oasis-core/go/common/sgx/pcs"
)

// Intel SGX Root CA (public constant, independent copy).
const intelRootPEM = `-----BEGIN CERTIFICATE-----
MIICjzCCAjSgAwIBAgIUImUM1lqdNInzg7SVUr9QGzknBqwwCgYIKoZIzj0EAwIw
aDEaMBgGA1UEAwwRSW50ZWwgU0dYIFJvb3QgQ0ExGjAYBgNVBAoMEUludGVsIENv
cnBvcmF0aW9uMRQwEgYDVQQHDAtTYW50YSBDbGFyYTELMAkGA1UECAwCQ0ExCzAJ
BgNVBAYTAlVTMB4XDTE4MDUyMTEwNDUxMFoXDTQ5MTIzMTIzNTk1OVowaDEaMBgG
A1UEAwwRSW50ZWwgU0dYIFJvb3QgQ0ExGjAYBgNVBAoMEUludGVsIENvcnBvcmF0
aW9uMRQwEgYDVQQHDAtTYW50YSBDbGFyYTELMAkGA1UECAwCQ0ExCzAJBgNVBAYT
AlVTMFkwEwYHKoZIzj0CAQYIKoZIzj0DAQcDQgAEC6nEwMDIYZOj/iPWsCzaEKi7
1OiOSLRFhWGjbnBVJfVnkY4u3IjkDYYL0MxO4mqsyYjlBalTVYxFP2sJBK5zlKOB
uzCBuDAfBgNVHSMEGDAWgBQiZQzWWp00ifODtJVSv1AbOScGrDBSBgNVHR8ESzBJ
MEegRaBDhkFodHRwczovL2NlcnRpZmljYXRlcy50cnVzdGVkc2VydmljZXMuaW50
ZWwuY29tL0ludGVsU0dYUm9vdENBLmRlcjAdBgNVHQ4EFgQUImUM1lqdNInzg7SV
Ur9QGzknBqwwDgYDVR0PAQH/BAQDAgEGMBIGA1UdEwEB/wQIMAYBAf8CAQEwCgYI
KoZIzj0EAwIDSQAwRgIhAOW/5QkR+S9CiSDcNoowLuPRLsWGf/Yi7GSX94BgwTwg
AiEA4J0lrHoMs+Xo5o/sX6O9QWxHRAvZUGOdRQ7cvqRXaqI=
-----END CERTIFICATE-----`

var intelRoot = func() *x509.Certificate {
	blk, _ := pem.Decode([]byte(intelRootPEM))
	c, err := x509.ParseCertificate(blk.Bytes)
	if err != nil {
		panic(err)
	}
	return c
}()

var intelVendorID = []byte{0x93, 0x9a, 0x72, 0x33, 0xf7, 0x9c, 0x4c, 0xa9, 0x94, 0x0a, 0x0d, 0xb3, 0x95, 0x7f, 0x06, 0x07}

// refFail is a reason why the reference predicate does not hold.
type refFail struct {
	Cat    string // parse | sig | collateral-auth | time | platform | policy | tcb-status
	Detail string
}

func (f *refFail) String() string { return f.Cat + "/" + f.Detail }

func fail(cat, format string, a ...any) *refFail {
	return &refFail{Cat: cat, Detail: fmt.Sprintf(format, a...)}
}

// span is a named byte range [Start, End).
type span struct {
	Start, End int
	Name       string
}

// qLayout is the byte layout of a quote, computed from the bytes alone.
type qLayout struct {
	Version  int
	TDX      bool
	BodyOff  int
	BodyLen  int
	SigLenAt int
	SigOff   int // start of the signature data
	QuoteSig int
	AttKey   int
	V4Hdr    int // offset of the v4 certification data type/size envelope, -1 for v3
	QERep    int
	QESig    int
	AuthSzAt int
	Auth     int
	AuthLen  int
	CertTyAt int
	CertSzAt int
	Cert     int
	CertLen  int
	Total    int
}

func parseLayout(q []byte) (*qLayout, *refFail) {
	if len(q) < 48+384+4 {
		return nil, fail("parse", "short")
	}
	l := &qLayout{V4Hdr: -1, Total: len(q)}
	l.Version = int(binary.LittleEndian.Uint16(q[0:]))
	if binary.LittleEndian.Uint16(q[2:]) != 2 {
		return nil, fail("parse", "attestation-key-type")
	}
	switch l.Version {
	case 3:
		if binary.LittleEndian.Uint32(q[4:]) != 0 {
			return nil, fail("parse", "reserved")
		}
	case 4:
		switch binary.LittleEndian.Uint32(q[4:]) {
		case 0:
		case 0x81:
			l.TDX = true
		default:
			return nil, fail("parse", "tee-type")
		}
		if binary.LittleEndian.Uint32(q[8:]) != 0 {
			return nil, fail("parse", "reserved")
		}
	default:
		return nil, fail("parse", "version")
	}
	if !bytes.Equal(q[12:28], intelVendorID) {
		return nil, fail("parse", "vendor")
	}
	l.BodyOff = 48
	l.BodyLen = 384
	if l.TDX {
		l.BodyLen = 584
	}
	l.SigLenAt = l.BodyOff + l.BodyLen
	if len(q) < l.SigLenAt+4 {
		return nil, fail("parse", "short-body")
	}
	sigLen := int(binary.LittleEndian.Uint32(q[l.SigLenAt:]))
	l.SigOff = l.SigLenAt + 4
	if sigLen < 0 || len(q) != l.SigOff+sigLen {
		return nil, fail("parse", "signature-length")
	}
	o := l.SigOff
	l.QuoteSig = o
	o += 64
	l.AttKey = o
	o += 64
	if l.Version == 4 {
		if len(q) < o+6 {
			return nil, fail("parse", "short-v4-envelope")
		}
		l.V4Hdr = o
		if binary.LittleEndian.Uint16(q[o:]) != 6 {
			return nil, fail("parse", "v4-certification-data-type")
		}
		if int(binary.LittleEndian.Uint32(q[o+2:])) != len(q)-(o+6) {
			return nil, fail("parse", "v4-certification-data-size")
		}
		o += 6
	}
	if len(q) < o+384+64+2 {
		return nil, fail("parse", "short-qe-report")
	}
	l.QERep = o
	o += 384
	l.QESig = o
	o += 64
	l.AuthSzAt = o
	l.AuthLen = int(binary.LittleEndian.Uint16(q[o:]))
	o += 2
	l.Auth = o
	if len(q) < o+l.AuthLen+6 {
		return nil, fail("parse", "short-auth-data")
	}
	o += l.AuthLen
	l.CertTyAt = o
	if binary.LittleEndian.Uint16(q[o:]) != 5 {
		return nil, fail("sig", "no-pck-chain-certification-data")
	}
	o += 2
	l.CertSzAt = o
	l.CertLen = int(binary.LittleEndian.Uint32(q[o:]))
	o += 4
	l.Cert = o
	if l.CertLen < 0 || len(q) < o+l.CertLen {
		return nil, fail("parse", "certification-data-size")
	}
	return l, nil
}

var sgxReportFields = []span{
	{0, 16, "cpusvn"}, {16, 20, "miscselect"}, {20, 48, "reserved1"}, {48, 64, "attributes"},
	{64, 96, "mrenclave"}, {96, 128, "reserved2"}, {128, 160, "mrsigner"}, {160, 256, "reserved3"},
	{256, 258, "isvprodid"}, {258, 260, "isvsvn"}, {260, 320, "reserved4"}, {320, 384, "reportdata"},
}

var tdReportFields = []span{
	{0, 16, "teetcbsvn"}, {16, 64, "mrseam"}, {64, 112, "mrsignerseam"}, {112, 120, "seamattributes"},
	{120, 128, "tdattributes"}, {128, 136, "xfam"}, {136, 184, "mrtd"}, {184, 232, "mrconfigid"},
	{232, 280, "mrowner"}, {280, 328, "mrownerconfig"}, {328, 376, "rtmr0"}, {376, 424, "rtmr1"},
	{424, 472, "rtmr2"}, {472, 520, "rtmr3"}, {520, 584, "reportdata"},
}

// pemSpans splits PEM data into per-block spans plus gaps.
func pemSpans(data []byte, base int, prefix string) []span {
	var out []span
	pos := 0
	idx := 0
	for {
		b := bytes.Index(data[pos:], []byte("-----BEGIN"))
		if b < 0 {
			break
		}
		b += pos
		e := bytes.Index(data[b:], []byte("-----END"))
		if e < 0 {
			break
		}
		e += b
		nl := bytes.IndexByte(data[e:], '\n')
		end := len(data)
		if nl >= 0 {
			end = e + nl + 1
		}
		if b > pos {
			out = append(out, span{base + pos, base + b, prefix + "gap"})
		}
		out = append(out, span{base + b, base + end, fmt.Sprintf("%scert%d", prefix, idx)})
		idx++
		pos = end
	}
	if pos < len(data) {
		out = append(out, span{base + pos, base + len(data), prefix + "tail"})
	}
	return out
}

// quoteSpans names every byte of a (well-formed) quote.
func quoteSpans(q []byte) []span {
	l, f := parseLayout(q)
	if f != nil {
		return []span{{0, len(q), "quote"}}
	}
	out := []span{
		{0, 2, "hdr.version"}, {2, 4, "hdr.attkeytype"}, {4, 8, "hdr.teetype"}, {8, 12, "hdr.svn-or-reserved"},
		{12, 28, "hdr.vendorid"}, {28, 48, "hdr.userdata"},
	}
	fields := sgxReportFields
	if l.TDX {
		fields = tdReportFields
	}
	for _, s := range fields {
		out = append(out, span{l.BodyOff + s.Start, l.BodyOff + s.End, "body." + s.Name})
	}
	out = append(out, span{l.SigLenAt, l.SigLenAt + 4, "siglen"})
	out = append(out, span{l.QuoteSig, l.QuoteSig + 64, "quotesig"})
	out = append(out, span{l.AttKey, l.AttKey + 64, "attkey"})
	if l.V4Hdr >= 0 {
		out = append(out, span{l.V4Hdr, l.V4Hdr + 6, "v4certhdr"})
	}
	for _, s := range sgxReportFields {
		out = append(out, span{l.QERep + s.Start, l.QERep + s.End, "qe." + s.Name})
	}
	out = append(out, span{l.QESig, l.QESig + 64, "qesig"})
	out = append(out, span{l.AuthSzAt, l.AuthSzAt + 2, "authsize"})
	if l.AuthLen > 0 {
		out = append(out, span{l.Auth, l.Auth + l.AuthLen, "authdata"})
	}
	out = append(out, span{l.CertTyAt, l.CertTyAt + 2, "certtype"})
	out = append(out, span{l.CertSzAt, l.CertSzAt + 4, "certsize"})
	out = append(out, pemSpans(q[l.Cert:l.Cert+l.CertLen], l.Cert, "pck.")...)
	if l.Cert+l.CertLen < len(q) {
		out = append(out, span{l.Cert + l.CertLen, len(q), "after-certdata"})
	}
	return out
}

func spanOf(spans []span, off int) string {
	for _, s := range spans {
		if off >= s.Start && off < s.End {
			return s.Name
		}
	}
	return "outside"
}

// jsonSpans names the byte ranges of the top-level members of a JSON object.
func jsonSpans(raw []byte, prefix string) []span {
	dec := json.NewDecoder(bytes.NewReader(raw))
	tok, err := dec.Token()
	if err != nil || tok != json.Delim('{') {
		return []span{{0, len(raw), prefix + "json"}}
	}
	var out []span
	prev := int(dec.InputOffset())
	out = append(out, span{0, prev, prefix + "structure"})
	for dec.More() {
		kt, err := dec.Token()
		if err != nil {
			break
		}
		key, _ := kt.(string)
		kend := int(dec.InputOffset())
		var v json.RawMessage
		if err := dec.Decode(&v); err != nil {
			break
		}
		vend := int(dec.InputOffset())
		vstart := vend - len(v)
		out = append(out, span{prev, kend, prefix + key + "#key"})
		if vstart > kend {
			out = append(out, span{kend, vstart, prefix + "structure"})
		}
		out = append(out, span{vstart, vend, prefix + key})
		prev = vend
	}
	if prev < len(raw) {
		out = append(out, span{prev, len(raw), prefix + "structure"})
	}
	return out
}

type refTCBComponent struct {
	SVN int32 `json:"svn"`
}

type refTCBLevel struct {
	TCB struct {
		PCESVN uint16              `json:"pcesvn"`
		SGX    [16]refTCBComponent `json:"sgxtcbcomponents"`
		TDX    [16]refTCBComponent `json:"tdxtcbcomponents"`
	} `json:"tcb"`
	Status string `json:"tcbStatus"`
}

type refEnclaveLevel struct {
	TCB struct {
		ISVSVN uint16 `json:"isvsvn"`
	} `json:"tcb"`
	Status string `json:"tcbStatus"`
}

type refTCBInfo struct {
	ID         string `json:"id"`
	Version    int    `json:"version"`
	IssueDate  string `json:"issueDate"`
	NextUpdate string `json:"nextUpdate"`
	FMSPC      string `json:"fmspc"`
	EvalNum    uint32 `json:"tcbEvaluationDataNumber"`
	ModuleIDs  []struct {
		ID     string            `json:"id"`
		Levels []refEnclaveLevel `json:"tcbLevels"`
	} `json:"tdxModuleIdentities"`
	Levels []refTCBLevel `json:"tcbLevels"`
}

type refQEIdentity struct {
	ID             string            `json:"id"`
	Version        int               `json:"version"`
	IssueDate      string            `json:"issueDate"`
	NextUpdate     string            `json:"nextUpdate"`
	EvalNum        uint32            `json:"tcbEvaluationDataNumber"`
	MiscSelect     string            `json:"miscselect"`
	MiscSelectMask string            `json:"miscselectMask"`
	Attributes     string            `json:"attributes"`
	AttributesMask string            `json:"attributesMask"`
	MRSIGNER       string            `json:"mrsigner"`
	ISVProdID      uint16            `json:"isvprodid"`
	Levels         []refEnclaveLevel `json:"tcbLevels"`
}

// refInput is everything a verification depends on.
type refInput struct {
	Quote   []byte
	TCBInfo []byte
	TCBSig  string
	QEID    []byte
	QESig   string
	Certs   []byte
	Policy  *pcs.QuotePolicy // nil = package default (30 days, evaluation number 12, no TDX)
	TS      time.Time
}

type refResult struct {
	MrEnclave  [32]byte
	MrSigner   [32]byte
	ReportData []byte
}

func parsePEMCerts(data []byte) ([]*x509.Certificate, *refFail) {
	var out []*x509.Certificate
	for len(data) > 0 {
		blk, rest := pem.Decode(data)
		if blk == nil {
			break
		}
		if blk.Type != "CERTIFICATE" {
			return nil, fail("parse", "pem-type")
		}
		c, err := x509.ParseCertificate(blk.Bytes)
		if err != nil {
			return nil, fail("parse", "certificate")
		}
		out = append(out, c)
		data = rest
	}
	return out, nil
}

func inWindow(ts time.Time, c *x509.Certificate, name string) *refFail {
	if ts.Before(c.NotBefore) {
		return fail("time", "%s-notbefore", name)
	}
	if ts.After(c.NotAfter) {
		return fail("time", "%s-notafter", name)
	}
	return nil
}

func ecdsaVerifyRS(pk *ecdsa.PublicKey, digest []byte, rs []byte) bool {
	if len(rs) != 64 {
		return false
	}
	var r, s big.Int
	r.SetBytes(rs[:32])
	s.SetBytes(rs[32:])
	return ecdsa.Verify(pk, digest, &r, &s)
}

type pckInfo struct {
	FMSPC  []byte
	Comp   [16]int32
	PCESVN int32
}

type asn1Ext struct {
	ID    asn1.ObjectIdentifier
	Value asn1.RawValue
}

var (
	oidSGXExt   = asn1.ObjectIdentifier{1, 2, 840, 113741, 1, 13, 1}
	oidSGXFMSPC = asn1.ObjectIdentifier{1, 2, 840, 113741, 1, 13, 1, 4}
	oidSGXTCB   = asn1.ObjectIdentifier{1, 2, 840, 113741, 1, 13, 1, 2}
)

func parsePCK(leaf *x509.Certificate) (*pckInfo, *refFail) {
	var info pckInfo
	for _, ext := range leaf.Extensions {
		if !ext.Id.Equal(oidSGXExt) {
			continue
		}
		var exts []asn1Ext
		if _, err := asn1.Unmarshal(ext.Value, &exts); err != nil {
			return nil, fail("parse", "pck-sgx-extension")
		}
		for _, e := range exts {
			switch {
			case e.ID.Equal(oidSGXFMSPC):
				if _, err := asn1.Unmarshal(e.Value.FullBytes, &info.FMSPC); err != nil {
					return nil, fail("parse", "pck-fmspc")
				}
			case e.ID.Equal(oidSGXTCB):
				var tcbs []asn1Ext
				if _, err := asn1.Unmarshal(e.Value.FullBytes, &tcbs); err != nil {
					return nil, fail("parse", "pck-tcb")
				}
				for _, t := range tcbs {
					if len(t.ID) == 0 {
						continue
					}
					id := t.ID[len(t.ID)-1]
					var v int32
					switch {
					case id >= 1 && id <= 16:
						if _, err := asn1.Unmarshal(t.Value.FullBytes, &v); err != nil {
							return nil, fail("parse", "pck-tcb-comp")
						}
						info.Comp[id-1] = v
					case id == 17:
						if _, err := asn1.Unmarshal(t.Value.FullBytes, &v); err != nil {
							return nil, fail("parse", "pck-pcesvn")
						}
						info.PCESVN = v
					}
				}
			}
		}
		break
	}
	if len(info.FMSPC) != 6 {
		return nil, fail("parse", "pck-fmspc-missing")
	}
	return &info, nil
}

func effectivePolicy(p *pcs.QuotePolicy) *pcs.QuotePolicy {
	if p == nil {
		// Documented default of Quote.Verify.
		return &pcs.QuotePolicy{TCBValidityPeriod: 30, MinTCBEvaluationDataNumber: 12}
	}
	return p
}

func decodeFMSPCList(list []string) [][]byte {
	var out [][]byte
	for _, s := range list {
		if b, err := hex.DecodeString(s); err == nil {
			out = append(out, b)
		}
	}
	return out
}

func containsBytes(list [][]byte, b []byte) bool {
	for _, x := range list {
		if bytes.Equal(x, b) {
			return true
		}
	}
	return false
}

func collateralWindow(ts time.Time, issue string, validityDays uint16, name string) *refFail {
	t, err := time.Parse(pcs.TimestampFormat, issue)
	if err != nil {
		return fail("parse", "%s-issue-date", name)
	}
	if ts.Before(t) {
		return fail("time", "%s-issue", name)
	}
	// issue + validity days; time.Duration cannot hold 65535 days, use seconds.
	end := time.Unix(t.Unix()+int64(validityDays)*86400, int64(t.Nanosecond()))
	if ts.After(end) {
		return fail("time", "%s-validity", name)
	}
	return nil
}

// refTDXModule says whether the TDX policy admits the TD report.
func refTDXModule(p *pcs.TdxQuotePolicy, body []byte) bool {
	mrSeam := body[16:64]
	mrSignerSeam := body[64:112]
	for _, m := range p.AllowedTdxModules {
		if m.MrSeam != nil && !bytes.Equal(m.MrSeam[:], mrSeam) {
			continue
		}
		if !bytes.Equal(m.MrSignerSeam[:], mrSignerSeam) {
			continue
		}
		return true
	}
	if len(p.AllowedTdxModules) == 0 && bytes.Equal(mrSignerSeam, make([]byte, 48)) {
		return true
	}
	return false
}

// refPlatformLevel implements Intel's documented TCB level selection.
func refPlatformLevel(ti *refTCBInfo, comp [16]int32, pcesvn int32, tdx *[16]byte) (string, *refFail) {
	status := ""
	found := false
	for _, lv := range ti.Levels {
		ok := true
		for i := 0; i < 16; i++ {
			if comp[i] < lv.TCB.SGX[i].SVN {
				ok = false
			}
		}
		if pcesvn < int32(lv.TCB.PCESVN) {
			ok = false
		}
		if tdx != nil {
			from := 0
			if tdx[1] != 0 {
				from = 2
			}
			for i := from; i < 16; i++ {
				if int32(tdx[i]) < lv.TCB.TDX[i].SVN {
					ok = false
				}
			}
		}
		if ok {
			status = lv.Status
			found = true
			break
		}
	}
	if !found {
		return "", fail("tcb-status", "platform-level-unsupported")
	}
	if ti.ID == "TDX" {
		if tdx == nil {
			return "", fail("tcb-status", "tdx-svn-missing")
		}
		if tdx[1] >= 1 {
			want := fmt.Sprintf("TDX_%02d", tdx[1])
			var mod []refEnclaveLevel
			ok := false
			for _, m := range ti.ModuleIDs {
				if m.ID == want {
					mod = m.Levels
					ok = true
					break
				}
			}
			if !ok {
				return "", fail("tcb-status", "tdx-module-unsupported")
			}
			st := ""
			for _, lv := range mod {
				if lv.TCB.ISVSVN <= uint16(tdx[0]) {
					st = lv.Status
					break
				}
			}
			if st != "UpToDate" {
				return "", fail("tcb-status", "tdx-module-%s", orNone(st))
			}
		}
	}
	if status != "UpToDate" && status != "SWHardeningNeeded" {
		return status, fail("tcb-status", "platform-%s", orNone(status))
	}
	return status, nil
}

func orNone(s string) string {
	if s == "" {
		return "none"
	}
	return s
}

// refQEIdentity checks a QE report (384 raw bytes) against a QE identity.
func refQEIdentityCheck(qe *refQEIdentity, rep []byte) *refFail {
	ms, err := hex.DecodeString(qe.MRSIGNER)
	if err != nil || len(ms) != 32 || !bytes.Equal(ms, rep[128:160]) {
		return fail("tcb-status", "qe-mrsigner")
	}
	if binary.LittleEndian.Uint16(rep[256:]) != qe.ISVProdID {
		return fail("tcb-status", "qe-isvprodid")
	}
	masked := func(val, mask string, got []byte, n int) bool {
		v, e1 := hex.DecodeString(val)
		m, e2 := hex.DecodeString(mask)
		if e1 != nil || e2 != nil || len(v) != n || len(m) != n {
			return false
		}
		for i := 0; i < n; i++ {
			if got[i]&m[i] != v[i] {
				return false
			}
		}
		return true
	}
	if !masked(qe.MiscSelect, qe.MiscSelectMask, rep[16:20], 4) {
		return fail("tcb-status", "qe-miscselect")
	}
	if !masked(qe.Attributes, qe.AttributesMask, rep[48:64], 16) {
		return fail("tcb-status", "qe-attributes")
	}
	isvsvn := binary.LittleEndian.Uint16(rep[258:])
	st := ""
	for _, lv := range qe.Levels {
		if lv.TCB.ISVSVN <= isvsvn {
			st = lv.Status
			break
		}
	}
	if st != "UpToDate" {
		return fail("tcb-status", "qe-level-%s", orNone(st))
	}
	return nil
}

// refCollateral checks authenticity, time, platform and policy of the
// collateral for the given platform values.
func refCollateral(in *refInput, tdxTee bool, fmspc []byte, comp [16]int32, pcesvn int32, tdxSvn *[16]byte, qeReport []byte) *refFail {
	pol := effectivePolicy(in.Policy)
	ts := in.TS

	// TCB signing chain.
	certs, f := parsePEMCerts(in.Certs)
	if f != nil {
		return &refFail{"collateral-auth", "tcb-certs-" + f.Detail}
	}
	if len(certs) != 2 {
		return fail("collateral-auth", "tcb-certs-count-%d", len(certs))
	}
	signing, root := certs[0], certs[1]
	if !root.Equal(intelRoot) {
		return fail("collateral-auth", "tcb-root-not-intel")
	}
	if err := signing.CheckSignatureFrom(intelRoot); err != nil {
		return fail("collateral-auth", "tcb-signing-cert-signature")
	}
	if f := inWindow(ts, signing, "tcb-signing-cert"); f != nil {
		return f
	}
	if f := inWindow(ts, root, "tcb-root-cert"); f != nil {
		return f
	}
	pk, ok := signing.PublicKey.(*ecdsa.PublicKey)
	if !ok {
		return fail("collateral-auth", "tcb-signing-key-type")
	}

	// Signatures.
	check := func(raw []byte, sigHex, name string) *refFail {
		sig, err := hex.DecodeString(sigHex)
		if err != nil || len(sig) != 64 {
			return fail("collateral-auth", "%s-signature-format", name)
		}
		d := sha256.Sum256(raw)
		if !ecdsaVerifyRS(pk, d[:], sig) {
			return fail("collateral-auth", "%s-signature", name)
		}
		return nil
	}
	if f := check(in.QEID, in.QESig, "qe-identity"); f != nil {
		return f
	}
	if f := check(in.TCBInfo, in.TCBSig, "tcb-info"); f != nil {
		return f
	}

	// Bodies.
	var qe refQEIdentity
	if err := json.Unmarshal(in.QEID, &qe); err != nil {
		return fail("parse", "qe-identity-json")
	}
	var ti refTCBInfo
	if err := json.Unmarshal(in.TCBInfo, &ti); err != nil {
		return fail("parse", "tcb-info-json")
	}

	// Platform.
	wantQE, wantTI := "QE", "SGX"
	if tdxTee {
		wantQE, wantTI = "TD_QE", "TDX"
	}
	if qe.ID != wantQE {
		return fail("platform", "qe-identity-id-%s-for-%s", qe.ID, wantTI)
	}
	if ti.ID != wantTI {
		return fail("platform", "tcb-info-id-%s-for-%s", ti.ID, wantTI)
	}
	if qe.Version != 2 {
		return fail("platform", "qe-identity-version")
	}
	if ti.Version != 3 {
		return fail("platform", "tcb-info-version")
	}
	tiFMSPC, err := hex.DecodeString(ti.FMSPC)
	if err != nil || !bytes.Equal(tiFMSPC, fmspc) {
		return fail("platform", "fmspc-mismatch")
	}

	// Time.
	if f := collateralWindow(ts, qe.IssueDate, pol.TCBValidityPeriod, "qe-identity"); f != nil {
		return f
	}
	if f := collateralWindow(ts, ti.IssueDate, pol.TCBValidityPeriod, "tcb-info"); f != nil {
		return f
	}

	// Policy.
	if qe.EvalNum < pol.MinTCBEvaluationDataNumber {
		return fail("policy", "min-eval-number-qe-identity")
	}
	if ti.EvalNum < pol.MinTCBEvaluationDataNumber {
		return fail("policy", "min-eval-number-tcb-info")
	}
	if len(pol.FMSPCWhitelist) > 0 && !containsBytes(decodeFMSPCList(pol.FMSPCWhitelist), fmspc) {
		return fail("policy", "fmspc-not-whitelisted")
	}
	if containsBytes(decodeFMSPCList(pol.FMSPCBlacklist), fmspc) {
		exact := false
		for _, s := range pol.FMSPCBlacklist {
			if s == ti.FMSPC {
				exact = true
			}
		}
		if exact {
			return fail("policy", "fmspc-blacklisted")
		}
		return fail("policy", "fmspc-blacklisted-case-variant")
	}

	// TCB status.
	if f := refQEIdentityCheck(&qe, qeReport); f != nil {
		return f
	}
	if _, f := refPlatformLevel(&ti, comp, pcesvn, tdxSvn); f != nil {
		return f
	}
	return nil
}

// refVerify is the complete reference predicate for a quote bundle.
func refVerify(in *refInput) (*refResult, *refFail) {
	pol := effectivePolicy(in.Policy)
	if pol.Disabled {
		return nil, fail("policy", "disabled")
	}
	q := in.Quote
	l, f := parseLayout(q)
	if f != nil {
		return nil, f
	}
	body := q[l.BodyOff : l.BodyOff+l.BodyLen]
	res := &refResult{}
	if l.TDX {
		if body[120]&1 != 0 {
			return nil, fail("policy", "debug-td")
		}
		if pol.TDX == nil {
			return nil, fail("policy", "tdx-not-allowed")
		}
		if !refTDXModule(pol.TDX, body) {
			return nil, fail("policy", "tdx-module-not-allowed")
		}
		h := tuplehash.New256(32, []byte("oasis-core/tdx: TD enclave identity"))
		_, _ = h.Write(body[136:184])
		_, _ = h.Write(body[328:376])
		_, _ = h.Write(body[376:424])
		_, _ = h.Write(body[424:472])
		_, _ = h.Write(body[472:520])
		copy(res.MrEnclave[:], h.Sum(nil))
		res.ReportData = append([]byte{}, body[520:584]...)
	} else {
		if body[48]&2 != 0 {
			return nil, fail("policy", "debug-enclave")
		}
		copy(res.MrEnclave[:], body[64:96])
		copy(res.MrSigner[:], body[128:160])
		res.ReportData = append([]byte{}, body[320:384]...)
	}

	// PCK chain.
	chain, f := parsePEMCerts(q[l.Cert : l.Cert+l.CertLen])
	if f != nil {
		return nil, &refFail{"sig", "pck-chain-" + f.Detail}
	}
	if len(chain) != 3 {
		return nil, fail("sig", "pck-chain-length-%d", len(chain))
	}
	leaf, inter, root := chain[0], chain[1], chain[2]
	if !root.Equal(intelRoot) {
		return nil, fail("sig", "pck-root-not-intel")
	}
	if err := inter.CheckSignatureFrom(intelRoot); err != nil {
		return nil, fail("sig", "pck-intermediate-signature")
	}
	if err := leaf.CheckSignatureFrom(inter); err != nil {
		return nil, fail("sig", "pck-leaf-signature")
	}
	for i, c := range chain {
		if f := inWindow(in.TS, c, []string{"pck-leaf-cert", "pck-intermediate-cert", "pck-root-cert"}[i]); f != nil {
			return nil, f
		}
	}
	pck, ok := leaf.PublicKey.(*ecdsa.PublicKey)
	if !ok {
		return nil, fail("sig", "pck-key-type")
	}
	info, f := parsePCK(leaf)
	if f != nil {
		return nil, f
	}

	// QE report signature and attestation key binding.
	qeRep := q[l.QERep : l.QERep+384]
	d := sha256.Sum256(qeRep)
	if !ecdsaVerifyRS(pck, d[:], q[l.QESig:l.QESig+64]) {
		return nil, fail("sig", "qe-report-signature")
	}
	hh := sha256.New()
	hh.Write(q[l.AttKey : l.AttKey+64])
	hh.Write(q[l.Auth : l.Auth+l.AuthLen])
	if !bytes.Equal(hh.Sum(nil), qeRep[320:352]) || !bytes.Equal(qeRep[352:384], make([]byte, 32)) {
		return nil, fail("sig", "qe-report-data-binding")
	}

	// Collateral.
	var tdxSvn *[16]byte
	if l.TDX {
		var s [16]byte
		copy(s[:], body[0:16])
		tdxSvn = &s
	}
	if f := refCollateral(in, l.TDX, info.FMSPC, info.Comp, info.PCESVN, tdxSvn, qeRep); f != nil {
		return nil, f
	}

	// Quote signature.
	x := new(big.Int).SetBytes(q[l.AttKey : l.AttKey+32])
	y := new(big.Int).SetBytes(q[l.AttKey+32 : l.AttKey+64])
	if !elliptic.P256().IsOnCurve(x, y) { //nolint:staticcheck
		return nil, fail("sig", "attestation-key-not-on-curve")
	}
	att := &ecdsa.PublicKey{Curve: elliptic.P256(), X: x, Y: y}
	d2 := sha256.New()
	d2.Write(q[0:48])
	d2.Write(body)
	if !ecdsaVerifyRS(att, d2.Sum(nil), q[l.QuoteSig:l.QuoteSig+64]) {
		return nil, fail("sig", "quote-signature")
	}
	return res, nil
}

// sigFamily maps a reference failure to the violation signature family.
func sigFamily(f *refFail) string {
	switch f.Cat {
	case "time":
		return "expired-collateral-accepted"
	case "policy":
		return "policy-violation-accepted"
	case "platform":
		return "foreign-collateral-accepted"
	case "tcb-status":
		return "disallowed-tcb-status-accepted"
	default:
		return "unauthentic-accepted"
	}
}

func sanitize(s string) string {
	return strings.Map(func(r rune) rune {
		switch {
		case r >= 'a' && r <= 'z', r >= 'A' && r <= 'Z', r >= '0' && r <= '9', r == '-', r == '_', r == '.', r == '#', r == '+':
			return r
		}
		return '_'
	}, s)
}
