package main

import (
	"bytes"
	"encoding/hex"
	"encoding/json"
	"fmt"
	"os"
	"regexp"
	"sort"
	"strings"
	"sync"
	"time"

	"github.com/oasisprotocol/oasis-core/go/common/sgx/pcs"

	"verif/engine/evid"
)

const pcsTestdata = "/repo/go/common/sgx/pcs/testdata/"

// collateral is one signed collateral document of the repository's vectors.
type signedDoc struct {
	Name string
	File []byte // the file as stored ({"tcbInfo":...,"signature":...})
	Body []byte // the signed body (json.RawMessage)
	Sig  string // hex signature
}

// vector is one quote vector with the collateral, policy and time at which
// the package's own tests verify it.
type vector struct {
	Name      string
	Quote     []byte
	TCBInfo   string // name of the TCB info document
	QEID      string // name of the QE identity document
	Certs     string // name of the TCB signing chain
	TS        time.Time
	Policy    pcs.QuotePolicy
	TDX       bool
	Accepting bool // the package's tests expect acceptance at TS

	spans    []span
	baseline *refResult
}

type corpus struct {
	vectors map[string]*vector
	order   []string
	tcbInfo map[string]*signedDoc
	qeID    map[string]*signedDoc
	certs   map[string][]byte
	quotes  map[string][]byte // further quotes usable as splice donors
}

func mustRead(path string) []byte {
	b, err := os.ReadFile(path)
	if err != nil {
		fmt.Fprintf(os.Stderr, "c18: cannot read vector %s: %v\n", path, err)
		fmt.Printf("INCONCLUSIVE property=C18 cannot read vector %s\n", path)
		os.Exit(2)
	}
	return b
}

func loadSignedTCBInfo(name, file string) *signedDoc {
	raw := mustRead(pcsTestdata + file)
	var s pcs.SignedTCBInfo
	if err := json.Unmarshal(raw, &s); err != nil {
		fmt.Printf("INCONCLUSIVE property=C18 cannot parse %s: %v\n", file, err)
		os.Exit(2)
	}
	return &signedDoc{Name: name, File: raw, Body: s.TCBInfo, Sig: s.Signature}
}

func loadSignedQEID(name, file string) *signedDoc {
	raw := mustRead(pcsTestdata + file)
	var s pcs.SignedQEIdentity
	if err := json.Unmarshal(raw, &s); err != nil {
		fmt.Printf("INCONCLUSIVE property=C18 cannot parse %s: %v\n", file, err)
		os.Exit(2)
	}
	return &signedDoc{Name: name, File: raw, Body: s.EnclaveIdentity, Sig: s.Signature}
}

func loadCorpus() *corpus {
	c := &corpus{
		vectors: map[string]*vector{},
		tcbInfo: map[string]*signedDoc{},
		qeID:    map[string]*signedDoc{},
		certs:   map[string][]byte{},
		quotes:  map[string][]byte{},
	}
	c.tcbInfo["sgx-00606A"] = loadSignedTCBInfo("sgx-00606A", "tcb_info_v3_fmspc_00606A000000.json")
	c.tcbInfo["tdx-C0806F"] = loadSignedTCBInfo("tdx-C0806F", "tcb_info_v3_tdx_fmspc_C0806F000000.json")
	c.tcbInfo["tdx-50806F"] = loadSignedTCBInfo("tdx-50806F", "tcb_info_v3_tdx_fmspc_50806F000000.json")
	c.qeID["qe-sgx"] = loadSignedQEID("qe-sgx", "qe_identity_v2.json")
	c.qeID["qe-tdx-2023"] = loadSignedQEID("qe-tdx-2023", "qe_identity_v2_tdx.json")
	c.qeID["qe-tdx-2024"] = loadSignedQEID("qe-tdx-2024", "qe_identity_v2_tdx2.json")
	c.certs["tcb-signing"] = mustRead(pcsTestdata + "tcb_info_v3_fmspc_00606A000000_certs.pem")
	c.certs["pck-platform-ca"] = mustRead(pcsTestdata + "tcb_info_v3_fmspc_00606A000000_certs_bad.pem")
	c.quotes["sgx-v3-eppid"] = mustRead(pcsTestdata + "quote_v3_ecdsa_p256_eppid.bin")
	c.quotes["tdx-v4-trailing"] = mustRead(pcsTestdata + "quote_v4_tdx_ecdsa_p256_trailing.bin")

	add := func(v *vector) {
		v.spans = quoteSpans(v.Quote)
		c.vectors[v.Name] = v
		c.order = append(c.order, v.Name)
		c.quotes[v.Name] = v.Quote
	}
	// quote_test.go TestQuoteV3_ECDSA_P256_PCK_CertificateChain: verifies at 1671497404 with the nil
	// (default: 30 days / evaluation number 12) policy.
	add(&vector{
		Name: "sgx-v3", Quote: mustRead(pcsTestdata + "quote_v3_ecdsa_p256_pck_chain.bin"),
		TCBInfo: "sgx-00606A", QEID: "qe-sgx", Certs: "tcb-signing",
		TS:        time.Unix(1671497404, 0),
		Policy:    pcs.QuotePolicy{TCBValidityPeriod: 30, MinTCBEvaluationDataNumber: 12},
		Accepting: true,
	})
	// TestQuoteV4_TDX_ECDSA_P256: verifies at 1725263032 with TDX allowed.
	add(&vector{
		Name: "tdx-v4", Quote: mustRead(pcsTestdata + "quote_v4_tdx_ecdsa_p256.bin"),
		TCBInfo: "tdx-C0806F", QEID: "qe-tdx-2024", Certs: "tcb-signing",
		TS:        time.Unix(1725263032, 0),
		Policy:    pcs.QuotePolicy{TCBValidityPeriod: 30, MinTCBEvaluationDataNumber: 12, TDX: &pcs.TdxQuotePolicy{}},
		TDX:       true,
		Accepting: true,
	})
	// TestQuoteV4_TDX_ECDSA_P256_OutOfDate: must be rejected at 1687091776 (TCB level not supported).
	add(&vector{
		Name: "tdx-v4-ood", Quote: mustRead(pcsTestdata + "quote_v4_tdx_ecdsa_p256_out_of_date.bin"),
		TCBInfo: "tdx-50806F", QEID: "qe-tdx-2023", Certs: "tcb-signing",
		TS:        time.Unix(1687091776, 0),
		Policy:    pcs.QuotePolicy{TCBValidityPeriod: 30, MinTCBEvaluationDataNumber: 12, TDX: &pcs.TdxQuotePolicy{}},
		TDX:       true,
		Accepting: false,
	})
	return c
}

// edit is one byte-level modification.
//
//	xor:    XOR Hex onto the bytes at Off
//	set:    replace [Off, Off+Len) by Hex (any length)
//	trunc:  keep [0, Off)
//	append: append Hex
//	le32add / le16add: add Delta to the little-endian integer at Off
type edit struct {
	Op    string `json:"op"`
	Off   int    `json:"off,omitempty"`
	Len   int    `json:"len,omitempty"`
	Hex   string `json:"hex,omitempty"`
	Delta int64  `json:"delta,omitempty"`
}

func applyEdits(src []byte, edits []edit) []byte {
	if len(edits) == 0 {
		return src
	}
	out := append([]byte{}, src...)
	for _, e := range edits {
		data, _ := hex.DecodeString(e.Hex)
		switch e.Op {
		case "xor":
			for i, b := range data {
				if e.Off+i >= 0 && e.Off+i < len(out) {
					out[e.Off+i] ^= b
				}
			}
		case "set":
			if e.Off < 0 || e.Off > len(out) {
				continue
			}
			end := e.Off + e.Len
			if end > len(out) {
				end = len(out)
			}
			n := append([]byte{}, out[:e.Off]...)
			n = append(n, data...)
			n = append(n, out[end:]...)
			out = n
		case "trunc":
			if e.Off >= 0 && e.Off <= len(out) {
				out = out[:e.Off]
			}
		case "append":
			out = append(out, data...)
		case "le32add":
			if e.Off >= 0 && e.Off+4 <= len(out) {
				v := uint32(out[e.Off]) | uint32(out[e.Off+1])<<8 | uint32(out[e.Off+2])<<16 | uint32(out[e.Off+3])<<24
				v = uint32(int64(v) + e.Delta)
				out[e.Off], out[e.Off+1], out[e.Off+2], out[e.Off+3] = byte(v), byte(v>>8), byte(v>>16), byte(v>>24)
			}
		case "le16add":
			if e.Off >= 0 && e.Off+2 <= len(out) {
				v := uint16(out[e.Off]) | uint16(out[e.Off+1])<<8
				v = uint16(int64(v) + e.Delta)
				out[e.Off], out[e.Off+1] = byte(v), byte(v>>8)
			}
		}
	}
	return out
}

// caseSpec fully describes one evaluated case; it is the replay witness.
type caseSpec struct {
	Vector string `json:"vector"`
	Group  string `json:"group"`  // mutation | time | policy | foreign
	Input  string `json:"input"`  // which input was modified: quote | tcbinfo | tcbsig | qeid | qesig | certs | tcbinfo-file | qeid-file | none
	Region string `json:"region"` // region class of the modification
	Kind   string `json:"kind"`   // mutation kind / boundary side / policy name
	Index  int    `json:"index"`

	QuoteEdits   []edit `json:"quote_edits,omitempty"`
	TCBInfoSrc   string `json:"tcbinfo_src,omitempty"` // other collateral document than the vector's own
	QEIDSrc      string `json:"qeid_src,omitempty"`
	CertsSrc     string `json:"certs_src,omitempty"`
	TCBInfoEdits []edit `json:"tcbinfo_edits,omitempty"`
	TCBSigEdits  []edit `json:"tcbsig_edits,omitempty"`
	QEIDEdits    []edit `json:"qeid_edits,omitempty"`
	QESigEdits   []edit `json:"qesig_edits,omitempty"`
	CertsEdits   []edit `json:"certs_edits,omitempty"`
	TCBFileEdits []edit `json:"tcbinfo_file_edits,omitempty"` // applied to the JSON file, then parsed like the tests do
	QEFileEdits  []edit `json:"qeid_file_edits,omitempty"`

	TSSec     int64            `json:"ts_sec"`
	TSNsec    int64            `json:"ts_nsec"`
	NilPolicy bool             `json:"nil_policy,omitempty"`
	Policy    *pcs.QuotePolicy `json:"policy,omitempty"`
}

func (cs *caseSpec) quoteUnmodified() bool { return len(cs.QuoteEdits) == 0 }

type outcome struct {
	Accepted bool
	Err      string
	Verified *refResult // what the code returned
	Panic    string
	ParseErr bool // rejected while decoding a mutated JSON file
}

// build materialises the inputs of a case. ok=false: a mutated JSON file did
// not decode; changed=false: the edits left every artifact byte-identical
// (not a modification at all).
func (c *corpus) build(cs *caseSpec) (in *refInput, ok bool, changed bool) {
	v := c.vectors[cs.Vector]
	ed := func(src []byte, edits []edit) []byte {
		if len(edits) == 0 {
			return src
		}
		out := applyEdits(src, edits)
		if !bytes.Equal(out, src) {
			changed = true
		}
		return out
	}
	in = &refInput{}
	in.Quote = ed(v.Quote, cs.QuoteEdits)
	ti := c.tcbInfo[v.TCBInfo]
	if cs.TCBInfoSrc != "" && cs.TCBInfoSrc != v.TCBInfo {
		ti = c.tcbInfo[cs.TCBInfoSrc]
		changed = true
	}
	qe := c.qeID[v.QEID]
	if cs.QEIDSrc != "" && cs.QEIDSrc != v.QEID {
		qe = c.qeID[cs.QEIDSrc]
		changed = true
	}
	certs := c.certs[v.Certs]
	if cs.CertsSrc != "" && cs.CertsSrc != v.Certs {
		certs = c.certs[cs.CertsSrc]
		changed = true
	}
	tiBody, tiSig := ti.Body, ti.Sig
	if len(cs.TCBFileEdits) > 0 {
		var s pcs.SignedTCBInfo
		if err := json.Unmarshal(ed(ti.File, cs.TCBFileEdits), &s); err != nil {
			return nil, false, changed
		}
		tiBody, tiSig = s.TCBInfo, s.Signature
	}
	qeBody, qeSig := qe.Body, qe.Sig
	if len(cs.QEFileEdits) > 0 {
		var s pcs.SignedQEIdentity
		if err := json.Unmarshal(ed(qe.File, cs.QEFileEdits), &s); err != nil {
			return nil, false, changed
		}
		qeBody, qeSig = s.EnclaveIdentity, s.Signature
	}
	in.TCBInfo = ed(tiBody, cs.TCBInfoEdits)
	in.TCBSig = string(ed([]byte(tiSig), cs.TCBSigEdits))
	in.QEID = ed(qeBody, cs.QEIDEdits)
	in.QESig = string(ed([]byte(qeSig), cs.QESigEdits))
	in.Certs = ed(certs, cs.CertsEdits)
	in.TS = time.Unix(cs.TSSec, cs.TSNsec)
	if !cs.NilPolicy {
		in.Policy = cs.Policy
	}
	return in, true, changed
}

// runCode calls the code under test: QuoteBundle.Verify, exactly as
// go/common/sgx/quote.Quote.Verify does for node registrations.
func runCode(in *refInput) (out outcome) {
	defer func() {
		if p := recover(); p != nil {
			out = outcome{Panic: fmt.Sprint(p)}
		}
	}()
	qb := pcs.QuoteBundle{
		Quote: in.Quote,
		TCB: pcs.TCBBundle{
			TCBInfo:      pcs.SignedTCBInfo{TCBInfo: json.RawMessage(in.TCBInfo), Signature: in.TCBSig},
			QEIdentity:   pcs.SignedQEIdentity{EnclaveIdentity: json.RawMessage(in.QEID), Signature: in.QESig},
			Certificates: in.Certs,
		},
	}
	var pol *pcs.QuotePolicy
	if in.Policy != nil {
		cp := *in.Policy // the code must not depend on mutating it, but keep cases independent
		pol = &cp
	}
	vq, err := qb.Verify(pol, in.TS)
	if err != nil {
		return outcome{Err: err.Error()}
	}
	if vq == nil {
		return outcome{Accepted: true, Verified: &refResult{}}
	}
	r := &refResult{ReportData: append([]byte{}, vq.ReportData...)}
	copy(r.MrEnclave[:], vq.Identity.MrEnclave[:])
	copy(r.MrSigner[:], vq.Identity.MrSigner[:])
	return outcome{Accepted: true, Verified: r}
}

var traceNeutral = os.Getenv("C18_TRACE") != ""

var (
	reDigits = regexp.MustCompile(`\b[0-9A-Fa-f]{8,}\b|[0-9]+`)
)

// errClass reduces an error text to a stable class name.
func errClass(s string) string {
	parts := strings.Split(s, ": ")
	// Keep the pcs-level reason, drop variable tails of library errors.
	keep := parts
	if len(parts) > 3 {
		keep = parts[len(parts)-3:]
	}
	for i, p := range keep {
		if !strings.HasPrefix(p, "pcs/") && i > 0 {
			keep = keep[:i+1]
			break
		}
	}
	out := strings.Join(keep, ": ")
	out = reDigits.ReplaceAllString(out, "N")
	if len(out) > 110 {
		out = out[:110]
	}
	return out
}

// neutralLog collects accepted-neutral mutation offsets per (vector, input).
type neutralLog struct {
	mu   sync.Mutex
	offs map[string]map[int]string // key vector/input -> offset -> region
}

func (n *neutralLog) add(key string, off int, region string) {
	n.mu.Lock()
	if n.offs == nil {
		n.offs = map[string]map[int]string{}
	}
	m := n.offs[key]
	if m == nil {
		m = map[int]string{}
		n.offs[key] = m
	}
	m[off] = region
	n.mu.Unlock()
}

// ranges renders the offsets as "[a,b] region" strings.
func (n *neutralLog) ranges() map[string][]string {
	n.mu.Lock()
	defer n.mu.Unlock()
	out := map[string][]string{}
	for key, m := range n.offs {
		max := -1
		for o := range m {
			if o > max {
				max = o
			}
		}
		start := -1
		for o := 0; o <= max+1; o++ {
			r, ok := m[o]
			if ok && start >= 0 && m[start] != r {
				out[key] = append(out[key], fmt.Sprintf("[%d,%d] %s", start, o-1, m[start]))
				start = o
				continue
			}
			if ok && start < 0 {
				start = o
			}
			if !ok && start >= 0 {
				out[key] = append(out[key], fmt.Sprintf("[%d,%d] %s", start, o-1, m[start]))
				start = -1
			}
		}
		if n := len(out[key]); n > 60 {
			out[key] = append(out[key][:60], fmt.Sprintf("... %d more ranges (%d positions in total)", n-60, len(m)))
		}
	}
	return out
}

type checker struct {
	r       *evid.Run
	c       *corpus
	neutral neutralLog

	flipMu sync.Mutex
	flips  map[string]map[string]string // vector|boundary|V -> side -> outcome
}

// noteTime records the outcome on one side of a boundary.
func (k *checker) noteTime(cs *caseSpec, outcome string) {
	side, val, ok := strings.Cut(cs.Kind, "@")
	if !ok || cs.Region == "extreme" {
		return
	}
	key := cs.Vector + "|" + cs.Region + "|" + val
	k.flipMu.Lock()
	if k.flips == nil {
		k.flips = map[string]map[string]string{}
	}
	if k.flips[key] == nil {
		k.flips[key] = map[string]string{}
	}
	k.flips[key][side] = outcome
	k.flipMu.Unlock()
}

// flipSummary lists the boundaries at which acceptance changes between the sides.
func (k *checker) flipSummary() []string {
	k.flipMu.Lock()
	defer k.flipMu.Unlock()
	var out []string
	for key, m := range k.flips {
		acc, rej := "", ""
		for _, side := range []string{"-1s", "-1ns", "at", "+1ns", "+1s"} {
			switch m[side] {
			case "accepted":
				acc += side + " "
			case "rejected":
				rej += side + " "
			}
		}
		if acc != "" && rej != "" {
			out = append(out, fmt.Sprintf("%s: accepted{%s} rejected{%s}", key, strings.TrimSpace(acc), strings.TrimSpace(rej)))
		}
	}
	sort.Strings(out)
	return out
}

func firstEditOff(cs *caseSpec) int {
	for _, l := range [][]edit{cs.QuoteEdits, cs.TCBInfoEdits, cs.TCBSigEdits, cs.QEIDEdits, cs.QESigEdits, cs.CertsEdits, cs.TCBFileEdits, cs.QEFileEdits} {
		if len(l) > 0 {
			return l[0].Off
		}
	}
	return -1
}

// eval runs one case and applies the oracle. It returns the outcome class.
func (k *checker) eval(cs *caseSpec) string {
	res := k.evalCase(cs)
	// A fixed, seed-independent choice of cases is written out as samples.
	if cs.Group == "mutation" && cs.Input == "quote" && cs.Kind == "bitflip" && cs.Index == 1000 {
		k.r.Sample(map[string]any{"case": cs, "outcome": res})
	}
	return res
}

func (k *checker) evalCase(cs *caseSpec) string {
	r := k.r
	v := k.c.vectors[cs.Vector]
	in, ok, changed := k.c.build(cs)
	if cs.Group == "mutation" && ok && !changed {
		r.Count("noop_modifications_skipped", 1)
		return "noop"
	}
	r.Eval(1)
	r.Count("cases/"+cs.Group, 1)
	if !ok {
		r.Count("rejected_at_json_file_decode", 1)
		k.nontrivial(cs, "rejected")
		return "rejected"
	}
	out := runCode(in)
	if out.Panic != "" {
		r.Violation("panic/pcs.QuoteBundle.Verify/"+cs.Vector+"/"+cs.Input,
			fmt.Sprintf("QuoteBundle.Verify panicked on a %s case of vector %s (input %s, region %s, kind %s): %s", cs.Group, cs.Vector, cs.Input, cs.Region, cs.Kind, out.Panic),
			map[string]any{"case": cs, "panic": out.Panic, "seed": r.Seed, "tier": r.Tier})
		return "panic"
	}
	if !out.Accepted {
		cls := errClass(out.Err)
		r.Count("rejected", 1)
		r.Count("reject/"+cls, 1)
		r.Distinct("reject_classes", cls)
		k.nontrivial(cs, "rejected")
		return "rejected"
	}
	r.Count("accepted", 1)

	// Accepted: the reference predicate must hold for exactly these inputs.
	ref, f := refVerify(in)
	if f != nil && f.Detail == caseVariantDetail && in.Policy != nil {
		// Known shape (FMSPC blacklist entry in another letter case). Report it under its own fixed
		// signature and make sure it does not mask a second reason: re-evaluate without the blacklist.
		k.reportCaseVariant(cs)
		defer func() { k.r.Count("known_shape/"+caseVariantDetail, 1) }()
		p2 := *in.Policy
		p2.FMSPCBlacklist = nil
		in2 := *in
		in2.Policy = &p2
		ref, f = refVerify(&in2)
	}
	if f != nil {
		sig := fmt.Sprintf("c18/%s/%s/%s", cs.Vector, sigFamily(f), sanitize(f.Detail))
		if cs.Group == "mutation" {
			sig += "/" + sanitize(cs.Input+"."+cs.Region)
		}
		r.Violation(sig,
			fmt.Sprintf("%s case (input %s, region %s, kind %s) of vector %s was ACCEPTED at ts=%d.%09d although the independent predicate fails: %s",
				cs.Group, cs.Input, cs.Region, cs.Kind, cs.Vector, cs.TSSec, cs.TSNsec, f),
			map[string]any{"case": cs, "reference_failure": f.String(), "seed": r.Seed, "tier": r.Tier,
				"returned_mrenclave": hex.EncodeToString(out.Verified.MrEnclave[:]), "returned_report_data": hex.EncodeToString(out.Verified.ReportData)})
		return "violation"
	}
	// The returned identity / report data must be the signed ones ...
	same := func(a, b *refResult) bool {
		return a.MrEnclave == b.MrEnclave && a.MrSigner == b.MrSigner && bytes.Equal(a.ReportData, b.ReportData)
	}
	if !same(out.Verified, ref) {
		r.Violation(fmt.Sprintf("c18/%s/returned-identity-not-the-signed-one/%s", cs.Vector, sanitize(cs.Input+"."+cs.Region)),
			fmt.Sprintf("vector %s %s case: Verify returned identity/report data that differ from the signed report body", cs.Vector, cs.Group),
			map[string]any{"case": cs, "seed": r.Seed, "tier": r.Tier,
				"returned_mrenclave": hex.EncodeToString(out.Verified.MrEnclave[:]), "returned_mrsigner": hex.EncodeToString(out.Verified.MrSigner[:]),
				"returned_report_data": hex.EncodeToString(out.Verified.ReportData),
				"signed_mrenclave":     hex.EncodeToString(ref.MrEnclave[:]), "signed_report_data": hex.EncodeToString(ref.ReportData)})
		return "violation"
	}
	// ... and, for every modification of the vector, byte-equal to the baseline's.
	if v.baseline != nil && !same(out.Verified, v.baseline) {
		r.Violation(fmt.Sprintf("c18/%s/mutant-accepted-with-different-identity/%s", cs.Vector, sanitize(cs.Input+"."+cs.Region)),
			fmt.Sprintf("vector %s: a modified input (input %s, region %s, kind %s) was accepted with an identity/report data different from the baseline's", cs.Vector, cs.Input, cs.Region, cs.Kind),
			map[string]any{"case": cs, "seed": r.Seed, "tier": r.Tier,
				"returned_mrenclave": hex.EncodeToString(out.Verified.MrEnclave[:]), "returned_mrsigner": hex.EncodeToString(out.Verified.MrSigner[:]),
				"returned_report_data": hex.EncodeToString(out.Verified.ReportData),
				"baseline_mrenclave":   hex.EncodeToString(v.baseline.MrEnclave[:]), "baseline_report_data": hex.EncodeToString(v.baseline.ReportData)})
		return "violation"
	}
	if cs.Group == "time" || cs.Group == "policy" {
		// Observation only: nextUpdate is not enforced (quote_test.go expects acceptance after it).
		for _, body := range [][]byte{in.TCBInfo, in.QEID} {
			var x struct {
				NextUpdate string `json:"nextUpdate"`
			}
			if json.Unmarshal(body, &x) == nil {
				if nu, err := time.Parse(pcs.TimestampFormat, x.NextUpdate); err == nil && in.TS.After(nu) {
					r.Count("observed/accepted_after_nextUpdate_within_policy_validity", 1)
					break
				}
			}
		}
	}
	if cs.Group == "mutation" {
		r.Count("accepted_neutral", 1)
		r.Count("accepted_neutral/"+cs.Vector+"/"+cs.Input+"."+cs.Region+"/"+cs.Kind, 1)
		if traceNeutral && strings.HasPrefix(cs.Kind, "splice") {
			b, _ := json.Marshal(cs)
			fmt.Fprintf(os.Stderr, "NEUTRAL %s\n", b)
		}
		switch cs.Kind {
		case "bitflip", "byte-set", "delete-byte", "insert-byte":
			// Single-position modifications: list the position.
			if off := firstEditOff(cs); off >= 0 {
				k.neutral.add(cs.Vector+"/"+cs.Input+"/"+cs.Kind, off, cs.Region)
			}
		}
		k.nontrivial(cs, "neutral")
		return "neutral"
	}
	k.nontrivial(cs, "accepted")
	return "accepted"
}

const caseVariantDetail = "fmspc-blacklisted-case-variant"

// reportCaseVariant reports the acceptance of a quote whose platform FMSPC is blacklisted in the
// other letter case. The signature depends on the vector only.
func (k *checker) reportCaseVariant(cs *caseSpec) {
	k.r.Violation(fmt.Sprintf("c18/%s/policy-violation-accepted/%s", cs.Vector, caseVariantDetail),
		fmt.Sprintf("vector %s was ACCEPTED at ts=%d although its platform's FMSPC is on policy.FMSPCBlacklist %v (entry spelled in the other letter case than the TCB info's fmspc member; "+
			"the list is compared as case-sensitive strings, the FMSPC binding to the PCK certificate is by decoded bytes)", cs.Vector, cs.TSSec, cs.Policy.FMSPCBlacklist),
		map[string]any{"case": cs, "reference_failure": "policy/" + caseVariantDetail, "seed": k.r.Seed, "tier": k.r.Tier})
}

func (k *checker) nontrivial(cs *caseSpec, outcome string) {
	switch cs.Group {
	case "mutation", "foreign":
		k.r.Nontrivial(cs.Group + "|" + cs.Vector + "|" + cs.Input + "." + cs.Region + "|" + cs.Kind)
		k.r.Distinct("mutation_classes", cs.Vector+"|"+cs.Input+"."+cs.Region+"|"+cs.Kind+"|"+outcome)
	case "time":
		k.noteTime(cs, outcome)
		k.r.Nontrivial("time|" + cs.Vector + "|" + cs.Region + "|" + cs.Kind)
		k.r.Distinct("time_cases", cs.Vector+"|"+cs.Region+"|"+cs.Kind+"|"+outcome)
	case "policy":
		k.r.Nontrivial("policy|" + cs.Vector + "|" + cs.Kind)
		k.r.Distinct("policy_cases", cs.Vector+"|"+cs.Kind+"|"+outcome)
	}
}
