// Check C18: attestation quotes are accepted only as signed and within policy.
//
// Fault enumeration on the repository's known-good vectors: every accepted
// (quote, collateral, policy, time) tuple must satisfy an independent
// predicate (ref.go) and return the baseline's identity / report data.
package main

import (
	"encoding/hex"
	"encoding/json"
	"fmt"
	"os"
	"sort"

	"verif/engine/evid"
)

func main() {
	r := evid.Start("C18", "fault_enumeration")
	c := loadCorpus()
	k := &checker{r: r, c: c}

	if r.ReplayFile != "" {
		k.replay(r.ReplayFile)
		return
	}

	thorough := !r.Quick()
	bitsPerByte := r.Pick(3, 8)
	r.Rule = fmt.Sprintf("Vectors of go/common/sgx/pcs/testdata (SGX v3 PCK-chain quote, TDX v4 quote, TDX v4 out-of-date quote as must-reject vector) with the "+
		"collateral/time/policy of quote_test.go. Cases: single-bit flips of the quote (%d PRNG-chosen bits of every byte; thorough: all 8 = every single bit), "+
		"byte replacement of every quote byte, multi-byte splices/field swaps/recombination with the other quotes, every truncation length and extensions (with and without "+
		"length-field fix-up); every byte of TCB info, QE identity (signed bodies and the JSON files), their hex signatures and the PEM chain (bit flips, replacement, deletion, "+
		"insertion, truncation, splices, chain recombination); all combinations of the corpus' TCB infos x QE identities x certificate chains as foreign collateral; a time grid "+
		"(every certificate NotBefore/NotAfter, issueDate, nextUpdate, issueDate+V days for V in %v; each -1s,-1ns,0,+1ns,+1s) plus random instants; named policy settings and random "+
		"combinations; platform SVN / FMSPC / QE report enumeration through TCBBundle.Verify; node.CapabilityTEE.Verify cases (all must reject); node policy derivation (consensus default PCS policies x runtime constraint shapes through the exported "+
		"ApplyDefaultConstraints + quote.Quote.Verify sequence of node/sgx.go: acceptance must agree with the runtime's own PCS policy, else the consensus default). Oracle: acceptance => independent "+
		"reference predicate holds for exactly these inputs AND returned identity/report data equal the signed ones AND the baseline's. A non-trivial case is a distinct "+
		"(vector, input.region class, mutation kind) evaluated and rejected or neutrally accepted, a distinct (boundary, side@validity) time case, a distinct policy case, "+
		"a distinct TCB-level case kind.", bitsPerByte, validityGrid)
	r.Assume("Go standard library crypto/x509, crypto/ecdsa, encoding/json, encoding/pem, encoding/asn1 are correct (used by the reference predicate)")
	r.Assume("Collateral validity window = [issueDate, issueDate + policy.TCBValidityPeriod days] as in quote_test.go; nextUpdate is not enforced by the code (observed, not demanded)")
	r.Assume("Allowed platform TCB statuses: UpToDate, SWHardeningNeeded; QE identity / TDX module level must be UpToDate (tcb.go, lax mode never enabled)")
	r.Assume("FMSPC black/whitelist entries denote FMSPC byte strings (hex, either letter case)")
	r.Assume("No process-global unsafe switch (SetSkipVerify, SetAllowDebugEnclaves, SetUnsafeLaxVerify) is ever set by this check")

	// Baselines.
	baselineBroken := false
	for _, name := range c.order {
		v := c.vectors[name]
		cs := k.base(v, "baseline", "none")
		in, _, _ := c.build(&cs)
		out := runCode(in)
		ref, f := refVerify(in)
		r.Eval(1)
		switch {
		case out.Panic != "":
			r.Violation("panic/pcs.QuoteBundle.Verify/"+name+"/baseline", "baseline verification panicked: "+out.Panic, map[string]any{"case": cs})
		case v.Accepting && !out.Accepted:
			r.Inconclusive("baseline of vector %s does not verify at its documented time: %s", name, out.Err)
			baselineBroken = true
		case v.Accepting && f != nil:
			r.Inconclusive("reference predicate rejects the baseline of vector %s: %s (predicate wrong)", name, f)
			baselineBroken = true
		case v.Accepting:
			if ref.MrEnclave != out.Verified.MrEnclave || ref.MrSigner != out.Verified.MrSigner || string(ref.ReportData) != string(out.Verified.ReportData) {
				r.Violation("c18/"+name+"/returned-identity-not-the-signed-one/baseline", "baseline identity/report data differ from the signed report body",
					map[string]any{"case": cs, "returned_mrenclave": hex.EncodeToString(out.Verified.MrEnclave[:]), "signed_mrenclave": hex.EncodeToString(ref.MrEnclave[:])})
			}
			v.baseline = out.Verified
			r.Sample(map[string]any{"vector": name, "baseline": "accepted", "ts": v.TS.Unix(), "mrenclave": hex.EncodeToString(out.Verified.MrEnclave[:]),
				"mrsigner": hex.EncodeToString(out.Verified.MrSigner[:]), "report_data": hex.EncodeToString(out.Verified.ReportData), "quote_bytes": len(v.Quote)})
		case !v.Accepting && out.Accepted:
			sig := "c18/" + name + "/must-reject-vector-accepted"
			if f != nil {
				sig = fmt.Sprintf("c18/%s/%s/%s", name, sigFamily(f), sanitize(f.Detail))
			}
			r.Violation(sig, "the vector that quote_test.go expects to be rejected (TCB level not supported) was accepted", map[string]any{"case": cs})
		case !v.Accepting && f == nil:
			r.Inconclusive("reference predicate accepts the must-reject vector %s (predicate wrong)", name)
			baselineBroken = true
		default:
			r.Sample(map[string]any{"vector": name, "baseline": "rejected (as quote_test.go expects)", "error": out.Err, "reference": f.String(), "quote_bytes": len(v.Quote)})
		}
	}
	if baselineBroken {
		r.Finish(300)
	}

	// Deterministic start-up witnesses of the known finding shape (FMSPC blacklist spelled in the
	// other letter case than the TCB info): minimal case per accepting vector, independent of the seed.
	for _, name := range c.order {
		v := c.vectors[name]
		if !v.Accepting {
			continue
		}
		for _, np := range k.policies(v) {
			if np.Name != "blacklist-hit-other-letter-case" {
				continue
			}
			cs := k.base(v, "policy", "none")
			cs.Region, cs.Kind = "policy", "startup-witness:"+np.Name
			p := np.Pol
			cs.Policy = &p
			k.eval(&cs)
		}
	}

	exhaustiveBits := true
	for _, name := range c.order {
		v := c.vectors[name]
		k.quoteBitflips(v, bitsPerByte)
		if int(r.Counter("quote_bits_flipped/"+name)) != len(v.Quote)*8 {
			exhaustiveBits = false
		}
		k.quoteByteSets(v, thorough)
		k.quoteSplices(v, r.Pick(4000, 300000))
		k.quoteStructured(v)
		k.quoteLengths(v)
		k.collateralBytes(v, thorough)
		k.collateralSplices(v, r.Pick(3000, 150000))
		k.foreignCollateral(v)
		k.timeGrid(v, r.Pick(1500, 120000))
		k.policyCases(v, r.Pick(600, 60000))
		k.tcbLevels(v, r.Pick(1500, 100000))
		k.pckTime(v)
	}
	k.nodeLevel()
	k.nodePolicyDerivation()

	// Evidence.
	neutral := k.neutral.ranges()
	keys := make([]string, 0, len(neutral))
	for key := range neutral {
		keys = append(keys, key)
	}
	sort.Strings(keys)
	nr := map[string][]string{}
	for _, key := range keys {
		nr[key] = neutral[key]
	}
	r.Set("accepted_neutral_regions", nr)
	r.Set("accepted_neutral_note", "offset ranges (in the original input) whose single-byte/bit modification was accepted with the identical identity and report data and with the "+
		"reference predicate holding: bytes that are not bound by a signature or comparison. Structured neutral kinds are in counters accepted_neutral/<vector>/<input.region>/<kind>.")
	flips := k.flipSummary()
	r.Set("time_boundaries_where_acceptance_flips", flips)
	r.Count("time_boundaries_where_acceptance_flips", int64(len(flips)))
	lens := map[string]int{}
	for _, name := range c.order {
		lens[name] = len(c.vectors[name].Quote)
	}
	r.Set("quote_lengths", lens)
	r.Set("bits_per_quote_byte", bitsPerByte)
	if thorough {
		r.Exhaustive(exhaustiveBits)
		r.Set("exhaustive_scope", "every single bit of each of the three quotes (and every single bit of every byte of the collateral inputs); all other dimensions are sampled or gridded")
	}

	// Floors: the run must have seen rejected and neutrally accepted mutants, both sides of time boundaries, policy cases.
	if r.Counter("rejected") == 0 || r.Counter("accepted") == 0 {
		r.Inconclusive("no rejected or no accepted case observed")
	}
	if r.DistinctCount("time_cases") < 100 || r.DistinctCount("policy_cases") < 30 {
		r.Inconclusive("too few time (%d) or policy (%d) cases", r.DistinctCount("time_cases"), r.DistinctCount("policy_cases"))
	}
	r.Finish(300)
}

// replay re-evaluates the case stored in a replay file.
func (k *checker) replay(path string) {
	r := k.r
	raw, err := os.ReadFile(path)
	if err != nil {
		r.Inconclusive("cannot read replay file: %v", err)
		r.Finish(0)
	}
	var doc struct {
		Signature string `json:"signature"`
		Witness   struct {
			Case      *caseSpec       `json:"case"`
			TCBCase   *tcbCase        `json:"tcb_case"`
			NodeCase  *nodeCase       `json:"node_case"`
			PCKCase   *pckCase        `json:"pck_case"`
			DerivCase *derivationCase `json:"derivation_case"`
		} `json:"witness"`
	}
	if err := json.Unmarshal(raw, &doc); err != nil {
		r.Inconclusive("cannot parse replay file: %v", err)
		r.Finish(0)
	}
	// Baselines are needed for the identity comparison.
	for _, name := range k.c.order {
		v := k.c.vectors[name]
		if !v.Accepting {
			continue
		}
		cs := k.base(v, "baseline", "none")
		in, _, _ := k.c.build(&cs)
		if out := runCode(in); out.Accepted {
			v.baseline = out.Verified
		}
	}
	switch {
	case doc.Witness.Case != nil:
		if _, ok := k.c.vectors[doc.Witness.Case.Vector]; !ok {
			r.Inconclusive("unknown vector %q in replay file", doc.Witness.Case.Vector)
			break
		}
		res := k.eval(doc.Witness.Case)
		fmt.Printf("REPLAY case outcome=%s (recorded signature %s)\n", res, doc.Signature)
	case doc.Witness.TCBCase != nil:
		if _, ok := k.c.vectors[doc.Witness.TCBCase.Vector]; !ok {
			r.Inconclusive("unknown vector %q in replay file", doc.Witness.TCBCase.Vector)
			break
		}
		k.evalTCBCase(doc.Witness.TCBCase)
		fmt.Printf("REPLAY tcb case done (recorded signature %s)\n", doc.Signature)
	case doc.Witness.PCKCase != nil:
		if _, ok := k.c.vectors[doc.Witness.PCKCase.Vector]; !ok {
			r.Inconclusive("unknown vector %q in replay file", doc.Witness.PCKCase.Vector)
			break
		}
		k.evalPCKCase(doc.Witness.PCKCase)
		fmt.Printf("REPLAY pck case done (recorded signature %s)\n", doc.Signature)
	case doc.Witness.DerivCase != nil:
		k.nodePolicyDerivation()
		fmt.Printf("REPLAY node policy derivation family re-run (recorded signature %s)\n", doc.Signature)
	case doc.Witness.NodeCase != nil:
		k.nodeLevel()
		fmt.Printf("REPLAY node-level cases re-run (recorded signature %s)\n", doc.Signature)
	default:
		r.Inconclusive("replay file has no case")
	}
	if r.Violations() == 0 {
		fmt.Println("REPLAY: the recorded violation does not reproduce on this tree")
	}
	r.Nontrivial("replay-1")
	r.Nontrivial("replay-2")
	r.Finish(0)
}
