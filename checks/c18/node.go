package main

// Node-level path: node.CapabilityTEE.Verify -> SGXAttestation.Verify.
//
// The repository has no node-level vector that verifies without the
// process-global debug switch (sgx_attestation_v1.bin carries a DEBUG enclave
// quote and is only decoded by the tests), and the RAK whose hash is in the
// report data of the PCS vectors is unknown. Hence no node-level case can be
// accepted: every case here must be rejected, and the cases are built so that
// the only failing step is the one named (RAK binding, enclave identity ...).

import (
	"errors"
	"fmt"
	"io"
	"os"
	"time"

	"github.com/oasisprotocol/curve25519-voi/primitives/x25519"

	"github.com/oasisprotocol/oasis-core/go/common/cbor"
	"github.com/oasisprotocol/oasis-core/go/common/crypto/signature"
	memorySigner "github.com/oasisprotocol/oasis-core/go/common/crypto/signature/signers/memory"
	"github.com/oasisprotocol/oasis-core/go/common/node"
	"github.com/oasisprotocol/oasis-core/go/common/sgx"
	"github.com/oasisprotocol/oasis-core/go/common/sgx/pcs"
	"github.com/oasisprotocol/oasis-core/go/common/sgx/quote"

	"verif/engine/evid"
)

type rngReader struct{ f func() byte }

func (r rngReader) Read(p []byte) (int, error) {
	for i := range p {
		p[i] = r.f()
	}
	return len(p), nil
}

type nodeCase struct {
	Name        string `json:"name"`
	Vector      string `json:"vector"`
	Signed      bool   `json:"signed_attestations"`
	RAK         string `json:"rak"`
	REKSet      bool   `json:"rek_set"`
	Height      uint64 `json:"height"`
	AttHeight   uint64 `json:"attestation_height"`
	Enclaves    string `json:"enclaves"` // right | wrong | empty
	Expect      string `json:"expect"`   // substring of the expected error ("" = any error)
	PolicyShape string `json:"policy_shape"`
}

func (k *checker) nodeLevel() {
	r := k.r
	type job struct {
		nc   nodeCase
		call func() error
	}
	var jobs []job

	for _, vn := range []string{"sgx-v3", "tdx-v4"} {
		v := k.c.vectors[vn]
		if v.baseline == nil {
			continue
		}
		in, _, _ := k.c.build(&caseSpec{Vector: vn, TSSec: v.TS.Unix()})
		bundle := &pcs.QuoteBundle{
			Quote: in.Quote,
			TCB: pcs.TCBBundle{
				TCBInfo:      pcs.SignedTCBInfo{TCBInfo: in.TCBInfo, Signature: in.TCBSig},
				QEIdentity:   pcs.SignedQEIdentity{EnclaveIdentity: in.QEID, Signature: in.QESig},
				Certificates: in.Certs,
			},
		}
		var eid sgx.EnclaveIdentity
		copy(eid.MrEnclave[:], v.baseline.MrEnclave[:])
		copy(eid.MrSigner[:], v.baseline.MrSigner[:])
		wrong := eid
		wrong.MrEnclave[0] ^= 1

		for i := 0; i < 24; i++ {
			i := i
			rng := r.Rand(stNode, vecIndex(k, vn), uint64(i))
			rd := rngReader{func() byte { return byte(rng.IntN(256)) }}
			signer, err := memorySigner.NewFactory().Generate(signature.SignerNode, io.Reader(rd))
			if err != nil {
				r.Inconclusive("cannot generate signer: %v", err)
				return
			}
			rak := signer.Public()
			var nodeID signature.PublicKey
			_, _ = rd.Read(nodeID[:])
			var rek *x25519.PublicKey
			if i%3 != 0 {
				var x x25519.PublicKey
				_, _ = rd.Read(x[:])
				rek = &x
			}
			height := uint64(1000 + rng.IntN(1000))
			attHeight := height - uint64(rng.IntN(50))
			signed := i%2 == 0
			enclaves := []string{"right", "right", "right", "wrong", "empty"}[i%5]
			special := ""
			switch i {
			case 20: // RAK bytes = the first 32 bytes of the report data (not its hash)
				copy(rak[:], v.baseline.ReportData[:32])
				special = "/rak=report-data-prefix"
			case 21:
				rak = signature.PublicKey{}
				special = "/rak=zero"
			case 22:
				attHeight = height + 1
				special = "/attestation-from-future"
			case 23:
				attHeight = 0
				special = "/attestation-stale"
			}

			// A correct attestation signature by this RAK, so that nothing but the RAK binding
			// (or the named defect) can be the reason for rejection.
			h := node.HashAttestation(v.baseline.ReportData, nodeID, attHeight, rek)
			sigRaw, err := signer.ContextSign(node.AttestationSignatureContext, h)
			if err != nil {
				r.Inconclusive("cannot sign attestation: %v", err)
				return
			}
			sa := node.SGXAttestation{
				Versioned: cbor.NewVersioned(1),
				Quote:     quote.Quote{PCS: bundle},
				Height:    attHeight,
			}
			copy(sa.Signature[:], sigRaw)

			pol := v.Policy
			sc := node.SGXConstraints{
				Versioned:         cbor.NewVersioned(1),
				Policy:            &quote.Policy{PCS: &pol},
				MaxAttestationAge: 100,
			}
			expect := node.ErrRAKHashMismatch.Error()
			switch enclaves {
			case "right":
				sc.Enclaves = []sgx.EnclaveIdentity{eid}
			case "wrong":
				sc.Enclaves = []sgx.EnclaveIdentity{wrong}
				expect = node.ErrBadEnclaveIdentity.Error()
			default:
				expect = node.ErrBadEnclaveIdentity.Error()
			}
			rawSC := cbor.Marshal(sc)
			cap := node.CapabilityTEE{Hardware: node.TEEHardwareIntelSGX, RAK: rak, REK: rek, Attestation: cbor.Marshal(sa)}
			ts := v.TS
			tdx := v.TDX
			nc := nodeCase{
				Name: fmt.Sprintf("%s/enclaves=%s/signed=%v%s", vn, enclaves, signed, special), Vector: vn, Signed: signed,
				RAK: rak.String(), REKSet: rek != nil, Height: height, AttHeight: attHeight, Enclaves: enclaves, Expect: expect, PolicyShape: "constraints",
			}
			jobs = append(jobs, job{nc, func() error {
				cfg := &node.TEEFeatures{SGX: node.TEEFeaturesSGX{PCS: true, TDX: tdx, SignedAttestations: signed, DefaultMaxAttestationAge: 100}}
				c := cap
				return c.Verify(cfg, ts, height, rawSC, nodeID, true)
			}})
		}
	}

	// The repository's node-level V1 attestation (DEBUG enclave): must be rejected in production mode.
	if raw, err := os.ReadFile("/repo/go/common/node/testdata/sgx_attestation_v1.bin"); err == nil {
		rawSC, err2 := os.ReadFile("/repo/go/common/node/testdata/sgx_constraints_v1.bin")
		if err2 == nil {
			var sa node.SGXAttestation
			if cbor.Unmarshal(raw, &sa) == nil && sa.Quote.PCS != nil {
				var rak, nodeID signature.PublicKey
				for _, ts := range []time.Time{time.Unix(1662716400, 0), time.Unix(1663000000, 0)} {
					ts := ts
					jobs = append(jobs, job{nodeCase{Name: "repo-vector-sgx_attestation_v1(debug-enclave)", Vector: "node-v1", Expect: ""}, func() error {
						cfg := &node.TEEFeatures{SGX: node.TEEFeaturesSGX{PCS: true}}
						c := node.CapabilityTEE{Hardware: node.TEEHardwareIntelSGX, RAK: rak, Attestation: raw}
						return c.Verify(cfg, ts, 100, rawSC, nodeID, true)
					}})
				}
			}
		}
	}

	evid.Parallel(len(jobs), 0, func(i int) {
		j := jobs[i]
		r.Eval(1)
		r.Count("cases/node", 1)
		var (
			err      error
			panicked string
		)
		func() {
			defer func() {
				if p := recover(); p != nil {
					panicked = fmt.Sprint(p)
				}
			}()
			err = j.call()
		}()
		switch {
		case panicked != "":
			r.Violation("panic/node.CapabilityTEE.Verify", "CapabilityTEE.Verify panicked: "+panicked, map[string]any{"node_case": j.nc, "seed": r.Seed})
		case err == nil:
			r.Violation("c18/node/"+j.nc.Vector+"/accepted-without-rak-binding/"+sanitize(j.nc.Enclaves),
				"CapabilityTEE.Verify ACCEPTED an attestation whose report data does not contain the hash of the node's RAK (or whose enclave identity is not in the constraints): "+j.nc.Name,
				map[string]any{"node_case": j.nc, "seed": r.Seed, "tier": r.Tier})
		default:
			r.Count("node_rejected", 1)
			r.Count("node_reject/"+errClass(err.Error()), 1)
			if j.nc.Expect != "" && !errors.Is(err, node.ErrRAKHashMismatch) && !errors.Is(err, node.ErrBadEnclaveIdentity) {
				// Rejected earlier than intended: the case did not reach the binding step (evidence only).
				r.Count("node_rejected_before_binding_step", 1)
			} else {
				r.Nontrivial("node|" + j.nc.Vector + "|" + j.nc.Enclaves + "|" + fmt.Sprint(j.nc.Signed))
			}
		}
	})
}
