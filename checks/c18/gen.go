package main

import (
	"crypto/elliptic"
	"encoding/hex"
	"encoding/json"
	"fmt"
	"math/big"
	"math/rand/v2"
	"sort"
	"strings"
	"time"

	"github.com/oasisprotocol/oasis-core/go/common/sgx/pcs"

	"verif/engine/evid"
)

// Stream identifiers for the deterministic PRNGs.
const (
	stQuoteBits = 1 + iota
	stQuoteBytes
	stQuoteSplice
	stCollBits
	stCollSplice
	stFileBits
	stTimeRandom
	stPolicyRandom
	stAppend
	stNode
	stTCBLevels
)

func (k *checker) base(v *vector, group, input string) caseSpec {
	pol := v.Policy
	return caseSpec{
		Vector: v.Name, Group: group, Input: input,
		TSSec: v.TS.Unix(), TSNsec: int64(v.TS.Nanosecond()),
		Policy: &pol,
	}
}

func hexByte(b byte) string { return hex.EncodeToString([]byte{b}) }

// bitOrder returns a PRNG permutation of the 8 bit positions for one byte.
func bitOrder(rng *rand.Rand) [8]int {
	p := [8]int{0, 1, 2, 3, 4, 5, 6, 7}
	rng.Shuffle(8, func(i, j int) { p[i], p[j] = p[j], p[i] })
	return p
}

func vecIndex(k *checker, name string) uint64 {
	for i, n := range k.c.order {
		if n == name {
			return uint64(i)
		}
	}
	return 99
}

// runN evaluates n lazily generated cases in parallel.
func (k *checker) runN(n int, gen func(i int) *caseSpec) {
	evid.Parallel(n, 0, func(i int) {
		cs := gen(i)
		if cs == nil {
			return
		}
		cs.Index = i
		k.eval(cs)
	})
}

// ---- quote: single bits -------------------------------------------------

func (k *checker) quoteBitflips(v *vector, bitsPerByte int) {
	vi := vecIndex(k, v.Name)
	n := len(v.Quote) * bitsPerByte
	k.runN(n, func(i int) *caseSpec {
		off := i / bitsPerByte
		order := bitOrder(k.r.Rand(stQuoteBits, vi, uint64(off)))
		bit := order[i%bitsPerByte]
		cs := k.base(v, "mutation", "quote")
		cs.Region = spanOf(v.spans, off)
		cs.Kind = "bitflip"
		cs.QuoteEdits = []edit{{Op: "xor", Off: off, Hex: hexByte(1 << bit)}}
		k.r.Count("quote_bits_flipped/"+v.Name, 1)
		return &cs
	})
}

// ---- quote: byte replacement ---------------------------------------------

func (k *checker) quoteByteSets(v *vector, thorough bool) {
	vi := vecIndex(k, v.Name)
	per := 1
	if thorough {
		per = 4
	}
	k.runN(len(v.Quote)*per, func(i int) *caseSpec {
		off := i / per
		rng := k.r.Rand(stQuoteBytes, vi, uint64(i))
		var nb byte
		switch {
		case thorough && i%per == 0:
			nb = 0x00
		case thorough && i%per == 1:
			nb = 0xff
		default:
			nb = byte(rng.IntN(256))
		}
		if nb == v.Quote[off] {
			nb ^= 0x5a
		}
		cs := k.base(v, "mutation", "quote")
		cs.Region = spanOf(v.spans, off)
		cs.Kind = "byte-set"
		cs.QuoteEdits = []edit{{Op: "set", Off: off, Len: 1, Hex: hexByte(nb)}}
		return &cs
	})
}

// ---- quote: multi-byte splices -------------------------------------------

func spanByName(spans []span, name string) (span, bool) {
	for _, s := range spans {
		if s.Name == name {
			return s, true
		}
	}
	return span{}, false
}

func (k *checker) donorNames(v *vector) []string {
	var out []string
	for n := range k.c.quotes {
		if n != v.Name {
			out = append(out, n)
		}
	}
	sort.Strings(out)
	return out
}

func randBytes(rng *rand.Rand, n int) []byte {
	b := make([]byte, n)
	for i := range b {
		b[i] = byte(rng.IntN(256))
	}
	return b
}

func (k *checker) quoteSplices(v *vector, n int) {
	vi := vecIndex(k, v.Name)
	donors := k.donorNames(v)
	k.runN(n, func(i int) *caseSpec {
		rng := k.r.Rand(stQuoteSplice, vi, uint64(i))
		cs := k.base(v, "mutation", "quote")
		q := v.Quote
		switch rng.IntN(7) {
		case 0: // random bytes over a random range
			l := 2 + rng.IntN(63)
			off := rng.IntN(len(q) - l)
			cs.Kind = "splice-random"
			cs.Region = spanOf(v.spans, off)
			cs.QuoteEdits = []edit{{Op: "set", Off: off, Len: l, Hex: hex.EncodeToString(randBytes(rng, l))}}
		case 1: // same offsets of a donor quote
			d := k.c.quotes[donors[rng.IntN(len(donors))]]
			m := len(q)
			if len(d) < m {
				m = len(d)
			}
			l := 2 + rng.IntN(127)
			off := rng.IntN(m - l)
			cs.Kind = "splice-donor-same-offset"
			cs.Region = spanOf(v.spans, off)
			cs.QuoteEdits = []edit{{Op: "set", Off: off, Len: l, Hex: hex.EncodeToString(d[off : off+l])}}
		case 2: // a named field taken from a donor
			dn := donors[rng.IntN(len(donors))]
			d := k.c.quotes[dn]
			ds := quoteSpans(d)
			s := v.spans[rng.IntN(len(v.spans))]
			o, ok := spanByName(ds, s.Name)
			if !ok || o.End-o.Start != s.End-s.Start {
				// Not the same shape: fall back to zeroing the field.
				cs.Kind = "field-zero"
				cs.Region = s.Name
				cs.QuoteEdits = []edit{{Op: "set", Off: s.Start, Len: s.End - s.Start, Hex: hex.EncodeToString(make([]byte, s.End-s.Start))}}
				break
			}
			cs.Kind = "field-from-donor"
			cs.Region = s.Name
			cs.QuoteEdits = []edit{{Op: "set", Off: s.Start, Len: s.End - s.Start, Hex: hex.EncodeToString(d[o.Start:o.End])}}
		case 3: // zero / ones over a named field
			s := v.spans[rng.IntN(len(v.spans))]
			fill := make([]byte, s.End-s.Start)
			cs.Kind = "field-zero"
			if rng.IntN(2) == 0 {
				for j := range fill {
					fill[j] = 0xff
				}
				cs.Kind = "field-ones"
			}
			cs.Region = s.Name
			cs.QuoteEdits = []edit{{Op: "set", Off: s.Start, Len: len(fill), Hex: hex.EncodeToString(fill)}}
		case 4: // a range of the same quote copied elsewhere
			l := 2 + rng.IntN(63)
			from := rng.IntN(len(q) - l)
			to := rng.IntN(len(q) - l)
			cs.Kind = "splice-self"
			cs.Region = spanOf(v.spans, to)
			cs.QuoteEdits = []edit{{Op: "set", Off: to, Len: l, Hex: hex.EncodeToString(q[from : from+l])}}
		case 5: // two single bits
			a, b := rng.IntN(len(q)), rng.IntN(len(q))
			cs.Kind = "bitflip2"
			cs.Region = spanOf(v.spans, a)
			cs.QuoteEdits = []edit{{Op: "xor", Off: a, Hex: hexByte(1 << rng.IntN(8))}, {Op: "xor", Off: b, Hex: hexByte(1 << rng.IntN(8))}}
		default: // delete or insert bytes (shifts everything behind)
			off := rng.IntN(len(q))
			if rng.IntN(2) == 0 {
				cs.Kind = "delete-bytes"
				cs.QuoteEdits = []edit{{Op: "set", Off: off, Len: 1 + rng.IntN(4), Hex: ""}}
			} else {
				cs.Kind = "insert-bytes"
				cs.QuoteEdits = []edit{{Op: "set", Off: off, Len: 0, Hex: hex.EncodeToString(randBytes(rng, 1+rng.IntN(4)))}}
			}
			cs.Region = spanOf(v.spans, off)
		}
		return &cs
	})
}

// ---- quote: structured recombination -------------------------------------

func negateS(sig []byte) []byte {
	n := elliptic.P256().Params().N
	s := new(big.Int).SetBytes(sig[32:64])
	s.Sub(n, s)
	out := append([]byte{}, sig[:32]...)
	sb := s.Bytes()
	out = append(out, make([]byte, 32-len(sb))...)
	return append(out, sb...)
}

func le32(v int) []byte { return []byte{byte(v), byte(v >> 8), byte(v >> 16), byte(v >> 24)} }

// reassemble builds a quote from the parts of (possibly different) quotes.
func reassemble(hdrBody, quoteSig, attKey, qeRep, qeSig, auth, certData []byte, v4 bool) []byte {
	var tail []byte
	tail = append(tail, qeRep...)
	tail = append(tail, qeSig...)
	tail = append(tail, byte(len(auth)), byte(len(auth)>>8))
	tail = append(tail, auth...)
	tail = append(tail, 5, 0)
	tail = append(tail, le32(len(certData))...)
	tail = append(tail, certData...)
	var sig []byte
	sig = append(sig, quoteSig...)
	sig = append(sig, attKey...)
	if v4 {
		sig = append(sig, 6, 0)
		sig = append(sig, le32(len(tail))...)
	}
	sig = append(sig, tail...)
	out := append([]byte{}, hdrBody...)
	out = append(out, le32(len(sig))...)
	return append(out, sig...)
}

type qParts struct {
	l                                       *qLayout
	hdrBody, quoteSig, attKey, qeRep, qeSig []byte
	auth, cert                              []byte
}

func partsOf(q []byte) *qParts {
	l, f := parseLayout(q)
	if f != nil {
		return nil
	}
	return &qParts{
		l: l, hdrBody: q[:l.SigLenAt], quoteSig: q[l.QuoteSig : l.QuoteSig+64], attKey: q[l.AttKey : l.AttKey+64],
		qeRep: q[l.QERep : l.QERep+384], qeSig: q[l.QESig : l.QESig+64], auth: q[l.Auth : l.Auth+l.AuthLen],
		cert: q[l.Cert : l.Cert+l.CertLen],
	}
}

func (p *qParts) build(mod func(c *qParts)) []byte {
	c := *p
	if mod != nil {
		mod(&c)
	}
	return reassemble(c.hdrBody, c.quoteSig, c.attKey, c.qeRep, c.qeSig, c.auth, c.cert, c.l.Version == 4)
}

func splitPEM(data []byte) ([][]byte, []byte) {
	var blocks [][]byte
	for _, s := range pemSpans(data, 0, "") {
		if strings.HasPrefix(s.Name, "cert") {
			blocks = append(blocks, data[s.Start:s.End])
		}
	}
	var tail []byte
	if sp := pemSpans(data, 0, ""); len(sp) > 0 && sp[len(sp)-1].Name == "tail" {
		tail = data[sp[len(sp)-1].Start:]
	}
	return blocks, tail
}

func (k *checker) quoteStructured(v *vector) {
	p := partsOf(v.Quote)
	if p == nil {
		k.r.Inconclusive("vector %s does not parse with the reference layout", v.Name)
		return
	}
	type sc struct {
		kind, region string
		q            []byte
	}
	var cases []sc
	add := func(kind, region string, q []byte) { cases = append(cases, sc{kind, region, q}) }

	// Sanity: reassembling the unmodified parts gives the vector back.
	if re := p.build(nil); string(re) != string(v.Quote) {
		k.r.Count("reassemble_not_identical/"+v.Name, 1)
	}
	add("ecdsa-s-negate", "quotesig", p.build(func(c *qParts) { c.quoteSig = negateS(c.quoteSig) }))
	add("ecdsa-s-negate", "qesig", p.build(func(c *qParts) { c.qeSig = negateS(c.qeSig) }))
	add("swap-r-s", "quotesig", p.build(func(c *qParts) { c.quoteSig = append(append([]byte{}, c.quoteSig[32:]...), c.quoteSig[:32]...) }))
	add("swap-r-s", "qesig", p.build(func(c *qParts) { c.qeSig = append(append([]byte{}, c.qeSig[32:]...), c.qeSig[:32]...) }))
	add("swap-signatures", "quotesig", p.build(func(c *qParts) { c.quoteSig, c.qeSig = c.qeSig, c.quoteSig }))
	add("authdata-empty", "authdata", p.build(func(c *qParts) { c.auth = nil }))
	add("authdata-extended", "authdata", p.build(func(c *qParts) { c.auth = append(append([]byte{}, c.auth...), 0) }))
	add("authdata-moved-into-attkey-boundary", "authdata", p.build(func(c *qParts) {
		if len(c.auth) > 0 {
			c.auth = c.auth[1:]
		}
	}))

	blocks, tail := splitPEM(p.cert)
	join := func(bs ...[]byte) []byte {
		var out []byte
		for _, b := range bs {
			out = append(out, b...)
		}
		return out
	}
	if len(blocks) == 3 {
		add("pck-chain-reordered", "pck.chain", p.build(func(c *qParts) { c.cert = join(blocks[0], blocks[2], blocks[1], tail) }))
		add("pck-chain-reordered", "pck.chain", p.build(func(c *qParts) { c.cert = join(blocks[1], blocks[0], blocks[2], tail) }))
		add("pck-chain-reordered", "pck.chain", p.build(func(c *qParts) { c.cert = join(blocks[2], blocks[1], blocks[0], tail) }))
		add("pck-chain-leaf-only", "pck.chain", p.build(func(c *qParts) { c.cert = join(blocks[0], tail) }))
		add("pck-chain-no-root", "pck.chain", p.build(func(c *qParts) { c.cert = join(blocks[0], blocks[1], tail) }))
		add("pck-chain-no-intermediate", "pck.chain", p.build(func(c *qParts) { c.cert = join(blocks[0], blocks[2], tail) }))
		add("pck-chain-duplicated-leaf", "pck.chain", p.build(func(c *qParts) { c.cert = join(blocks[0], blocks[0], blocks[1], blocks[2], tail) }))
		add("pck-chain-extra-cert-appended", "pck.chain", p.build(func(c *qParts) { c.cert = join(blocks[0], blocks[1], blocks[2], blocks[1], tail) }))
		add("pck-chain-tail-dropped", "pck.tail", p.build(func(c *qParts) { c.cert = join(blocks[0], blocks[1], blocks[2]) }))
		add("pck-chain-garbage-after-last-pem", "pck.tail", p.build(func(c *qParts) { c.cert = join(blocks[0], blocks[1], blocks[2], []byte("garbage\x00\x01 -----BEGIN")) }))
		add("pck-chain-text-between-pems", "pck.gap", p.build(func(c *qParts) { c.cert = join(blocks[0], []byte("comment\n"), blocks[1], blocks[2], tail) }))
		add("pck-chain-tcb-signing-as-intermediate", "pck.chain", p.build(func(c *qParts) {
			sb, _ := splitPEM(k.c.certs["tcb-signing"])
			if len(sb) == 2 {
				c.cert = join(blocks[0], sb[0], blocks[2], tail)
			}
		}))
	}

	// Recombination with every other quote of the corpus.
	for _, dn := range k.donorNames(v) {
		d := partsOf(k.c.quotes[dn])
		if d == nil {
			// e.g. the EPPID quote (no PCK chain) and the quote with trailing data: use raw pieces.
			dq := k.c.quotes[dn]
			if len(dq) >= len(p.hdrBody) {
				add("header+body-from:"+dn, "hdr+body", append(append([]byte{}, dq[:len(p.hdrBody)]...), v.Quote[len(p.hdrBody):]...))
			}
			if len(dq) > 48+384 && !p.l.TDX {
				add("reportbody-from:"+dn, "body", append(append(append([]byte{}, v.Quote[:48]...), dq[48:48+384]...), v.Quote[48+384:]...))
			}
			continue
		}
		sameBody := d.l.BodyLen == p.l.BodyLen
		add("sigdata-from:"+dn, "sigdata", p.build(func(c *qParts) {
			c.quoteSig, c.attKey, c.qeRep, c.qeSig, c.auth, c.cert = d.quoteSig, d.attKey, d.qeRep, d.qeSig, d.auth, d.cert
		}))
		add("certification-from:"+dn, "qe+pck", p.build(func(c *qParts) {
			c.qeRep, c.qeSig, c.auth, c.cert = d.qeRep, d.qeSig, d.auth, d.cert
		}))
		add("attkey-from:"+dn, "attkey", p.build(func(c *qParts) { c.attKey = d.attKey }))
		add("attkey+quotesig-from:"+dn, "attkey", p.build(func(c *qParts) { c.attKey, c.quoteSig = d.attKey, d.quoteSig }))
		add("qereport-from:"+dn, "qe", p.build(func(c *qParts) { c.qeRep, c.qeSig = d.qeRep, d.qeSig }))
		add("pckchain-from:"+dn, "pck.chain", p.build(func(c *qParts) { c.cert = d.cert }))
		if sameBody {
			add("header+body-from:"+dn, "hdr+body", p.build(func(c *qParts) { c.hdrBody = d.hdrBody }))
			add("reportbody-from:"+dn, "body", p.build(func(c *qParts) {
				c.hdrBody = append(append([]byte{}, p.hdrBody[:48]...), d.hdrBody[48:]...)
			}))
			add("header-from:"+dn, "hdr", p.build(func(c *qParts) {
				c.hdrBody = append(append([]byte{}, d.hdrBody[:48]...), p.hdrBody[48:]...)
			}))
		} else {
			// Different TEE type: header says one type, body is the other.
			add("header+body-from:"+dn, "hdr+body", p.build(func(c *qParts) { c.hdrBody = d.hdrBody }))
			add("body-of-other-tee-type-from:"+dn, "body", p.build(func(c *qParts) {
				c.hdrBody = append(append([]byte{}, p.hdrBody[:48]...), d.hdrBody[48:]...)
			}))
		}
	}
	// Version / TEE type relabelling with the layout kept.
	if p.l.Version == 3 {
		q4 := append([]byte{}, v.Quote...)
		q4[0] = 4
		add("relabel-v3-as-v4", "hdr.version", q4)
	} else {
		q3 := append([]byte{}, v.Quote...)
		q3[0] = 3
		add("relabel-v4-as-v3", "hdr.version", q3)
		qs := append([]byte{}, v.Quote...)
		qs[4] = 0
		add("relabel-tdx-as-sgx", "hdr.teetype", qs)
	}

	k.runN(len(cases), func(i int) *caseSpec {
		cs := k.base(v, "mutation", "quote")
		cs.Kind = cases[i].kind
		cs.Region = cases[i].region
		cs.QuoteEdits = []edit{{Op: "set", Off: 0, Len: len(v.Quote), Hex: hex.EncodeToString(cases[i].q)}}
		return &cs
	})
}

// ---- quote: truncation and extension -------------------------------------

func (k *checker) quoteLengths(v *vector) {
	vi := vecIndex(k, v.Name)
	k.runN(len(v.Quote), func(i int) *caseSpec {
		cs := k.base(v, "mutation", "quote")
		cs.Kind = "truncate"
		cs.Region = spanOf(v.spans, i)
		cs.QuoteEdits = []edit{{Op: "trunc", Off: i}}
		return &cs
	})
	l, f := parseLayout(v.Quote)
	if f != nil {
		return
	}
	sizes := []int{1, 2, 3, 7, 16, 64, 70, 1000}
	kinds := []string{"append", "append+siglen", "append+siglen+outer-size", "append+all-sizes"}
	k.runN(len(sizes)*len(kinds)*2, func(i int) *caseSpec {
		rng := k.r.Rand(stAppend, vi, uint64(i))
		n := sizes[i%len(sizes)]
		kind := kinds[(i/len(sizes))%len(kinds)]
		random := i/(len(sizes)*len(kinds)) == 1
		data := make([]byte, n)
		if random {
			data = randBytes(rng, n)
		}
		cs := k.base(v, "mutation", "quote")
		cs.Region = "after-end"
		cs.Kind = kind
		if random {
			cs.Kind += "-random"
		} else {
			cs.Kind += "-zero"
		}
		cs.QuoteEdits = []edit{{Op: "append", Off: len(v.Quote), Hex: hex.EncodeToString(data)}}
		if kind != "append" {
			cs.QuoteEdits = append(cs.QuoteEdits, edit{Op: "le32add", Off: l.SigLenAt, Delta: int64(n)})
		}
		if (kind == "append+siglen+outer-size" || kind == "append+all-sizes") && l.V4Hdr >= 0 {
			cs.QuoteEdits = append(cs.QuoteEdits, edit{Op: "le32add", Off: l.V4Hdr + 2, Delta: int64(n)})
		}
		if kind == "append+all-sizes" {
			cs.QuoteEdits = append(cs.QuoteEdits, edit{Op: "le32add", Off: l.CertSzAt, Delta: int64(n)})
		}
		return &cs
	})
}

// ---- collateral bytes ----------------------------------------------------

type collInput struct {
	name  string
	data  []byte
	spans []span
	set   func(cs *caseSpec, e []edit)
}

func (k *checker) collInputs(v *vector) []collInput {
	ti := k.c.tcbInfo[v.TCBInfo]
	qe := k.c.qeID[v.QEID]
	certs := k.c.certs[v.Certs]
	return []collInput{
		{"tcbinfo", ti.Body, jsonSpans(ti.Body, ""), func(cs *caseSpec, e []edit) { cs.TCBInfoEdits = e }},
		{"tcbsig", []byte(ti.Sig), []span{{0, 64, "r"}, {64, 128, "s"}}, func(cs *caseSpec, e []edit) { cs.TCBSigEdits = e }},
		{"qeid", qe.Body, jsonSpans(qe.Body, ""), func(cs *caseSpec, e []edit) { cs.QEIDEdits = e }},
		{"qesig", []byte(qe.Sig), []span{{0, 64, "r"}, {64, 128, "s"}}, func(cs *caseSpec, e []edit) { cs.QESigEdits = e }},
		{"certs", certs, pemSpans(certs, 0, ""), func(cs *caseSpec, e []edit) { cs.CertsEdits = e }},
		{"tcbinfo-file", ti.File, jsonSpans(ti.File, ""), func(cs *caseSpec, e []edit) { cs.TCBFileEdits = e }},
		{"qeid-file", qe.File, jsonSpans(qe.File, ""), func(cs *caseSpec, e []edit) { cs.QEFileEdits = e }},
	}
}

// collateralBytes mutates every byte of every collateral input.
func (k *checker) collateralBytes(v *vector, thorough bool) {
	vi := vecIndex(k, v.Name)
	for ii, in := range k.collInputs(v) {
		in := in
		// Per byte: bit flips (quick 2 PRNG-chosen, thorough all 8), a byte replacement, deletion, insertion.
		bits := 2
		if thorough {
			bits = 8
		}
		per := bits + 3
		k.runN(len(in.data)*per, func(i int) *caseSpec {
			off := i / per
			j := i % per
			rng := k.r.Rand(stCollBits, vi, uint64(ii), uint64(off))
			order := bitOrder(rng)
			cs := k.base(v, "mutation", in.name)
			cs.Region = spanOf(in.spans, off)
			switch {
			case j < bits:
				cs.Kind = "bitflip"
				in.set(&cs, []edit{{Op: "xor", Off: off, Hex: hexByte(1 << order[j])}})
			case j == bits:
				nb := byte(rng.IntN(256))
				if nb == in.data[off] {
					nb ^= 0x21
				}
				cs.Kind = "byte-set"
				in.set(&cs, []edit{{Op: "set", Off: off, Len: 1, Hex: hexByte(nb)}})
			case j == bits+1:
				cs.Kind = "delete-byte"
				in.set(&cs, []edit{{Op: "set", Off: off, Len: 1, Hex: ""}})
			default:
				ins := []byte{' ', '\n', '0', 0, '"', 'A'}[rng.IntN(6)]
				cs.Kind = "insert-byte"
				in.set(&cs, []edit{{Op: "set", Off: off, Len: 0, Hex: hexByte(ins)}})
			}
			return &cs
		})
		// Truncations (every length) and extensions.
		step := 1
		if !thorough && len(in.data) > 600 {
			step = 3
		}
		k.runN(len(in.data)/step, func(i int) *caseSpec {
			off := i * step
			if step > 1 {
				off += int(k.r.Rand(stCollBits, vi, uint64(ii), 1<<40, uint64(i)).IntN(step))
			}
			cs := k.base(v, "mutation", in.name)
			cs.Region = spanOf(in.spans, off)
			cs.Kind = "truncate"
			in.set(&cs, []edit{{Op: "trunc", Off: off}})
			return &cs
		})
		ext := [][]byte{{' '}, {'\n'}, {0}, []byte("}"), []byte("00"), []byte(" \n\t "), []byte("-----BEGIN CERTIFICATE-----\n"), in.data}
		k.runN(len(ext), func(i int) *caseSpec {
			cs := k.base(v, "mutation", in.name)
			cs.Region = "after-end"
			cs.Kind = fmt.Sprintf("append-%d", i)
			in.set(&cs, []edit{{Op: "append", Off: len(in.data), Hex: hex.EncodeToString(ext[i])}})
			return &cs
		})
	}
}

// collateralSplices applies multi-byte modifications to the collateral.
func (k *checker) collateralSplices(v *vector, n int) {
	vi := vecIndex(k, v.Name)
	inputs := k.collInputs(v)
	// Donor material per input kind.
	donors := map[string][][]byte{}
	for _, d := range k.c.tcbInfo {
		donors["tcbinfo"] = append(donors["tcbinfo"], d.Body)
		donors["tcbsig"] = append(donors["tcbsig"], []byte(d.Sig))
		donors["tcbinfo-file"] = append(donors["tcbinfo-file"], d.File)
	}
	for _, d := range k.c.qeID {
		donors["qeid"] = append(donors["qeid"], d.Body)
		donors["qesig"] = append(donors["qesig"], []byte(d.Sig))
		donors["qeid-file"] = append(donors["qeid-file"], d.File)
	}
	for _, d := range k.c.certs {
		donors["certs"] = append(donors["certs"], d)
	}
	for _, name := range []string{"tcbinfo", "tcbsig", "tcbinfo-file", "qeid", "qesig", "qeid-file", "certs"} {
		ds := donors[name]
		sort.Slice(ds, func(a, b int) bool { return string(ds[a]) < string(ds[b]) })
	}
	// Cross pollination: a TCB info signature is also a plausible QE identity signature and vice versa.
	donors["tcbsig"] = append(donors["tcbsig"], donors["qesig"]...)
	donors["qesig"] = append(donors["qesig"], donors["tcbsig"]...)

	k.runN(n, func(i int) *caseSpec {
		rng := k.r.Rand(stCollSplice, vi, uint64(i))
		in := inputs[rng.IntN(len(inputs))]
		cs := k.base(v, "mutation", in.name)
		switch rng.IntN(6) {
		case 0:
			l := 2 + rng.IntN(31)
			if l >= len(in.data) {
				l = len(in.data) - 1
			}
			off := rng.IntN(len(in.data) - l)
			cs.Kind = "splice-random"
			cs.Region = spanOf(in.spans, off)
			in.set(&cs, []edit{{Op: "set", Off: off, Len: l, Hex: hex.EncodeToString(randBytes(rng, l))}})
		case 1: // same offsets from a donor document
			d := donors[in.name][rng.IntN(len(donors[in.name]))]
			m := len(in.data)
			if len(d) < m {
				m = len(d)
			}
			l := 1 + rng.IntN(63)
			if l >= m {
				l = m - 1
			}
			off := rng.IntN(m - l)
			cs.Kind = "splice-donor-same-offset"
			cs.Region = spanOf(in.spans, off)
			in.set(&cs, []edit{{Op: "set", Off: off, Len: l, Hex: hex.EncodeToString(d[off : off+l])}})
		case 2: // one top-level member replaced by the donor's member of the same name
			d := donors[in.name][rng.IntN(len(donors[in.name]))]
			s := in.spans[rng.IntN(len(in.spans))]
			var ds []span
			if strings.HasPrefix(in.name, "certs") {
				ds = pemSpans(d, 0, "")
			} else if strings.HasSuffix(in.name, "sig") {
				ds = []span{{0, 64, "r"}, {64, 128, "s"}}
			} else {
				ds = jsonSpans(d, "")
			}
			o, ok := spanByName(ds, s.Name)
			if !ok || o.End > len(d) {
				return nil
			}
			cs.Kind = "member-from-donor"
			cs.Region = s.Name
			in.set(&cs, []edit{{Op: "set", Off: s.Start, Len: s.End - s.Start, Hex: hex.EncodeToString(d[o.Start:o.End])}})
		case 3: // digits of a member replaced by other digits of the same length
			s := in.spans[rng.IntN(len(in.spans))]
			nb := append([]byte{}, in.data[s.Start:s.End]...)
			changed := false
			for j := range nb {
				if nb[j] >= '0' && nb[j] <= '9' && rng.IntN(3) == 0 {
					nb[j] = byte('0' + rng.IntN(10))
					changed = true
				}
			}
			if !changed {
				return nil
			}
			cs.Kind = "digits-changed"
			cs.Region = s.Name
			in.set(&cs, []edit{{Op: "set", Off: s.Start, Len: len(nb), Hex: hex.EncodeToString(nb)}})
		case 4: // letter case of the whole member flipped
			s := in.spans[rng.IntN(len(in.spans))]
			nb := append([]byte{}, in.data[s.Start:s.End]...)
			changed := false
			for j := range nb {
				switch {
				case nb[j] >= 'a' && nb[j] <= 'z':
					nb[j] -= 32
					changed = true
				case nb[j] >= 'A' && nb[j] <= 'Z':
					nb[j] += 32
					changed = true
				}
			}
			if !changed {
				return nil
			}
			cs.Kind = "letter-case-flipped"
			cs.Region = s.Name
			in.set(&cs, []edit{{Op: "set", Off: s.Start, Len: len(nb), Hex: hex.EncodeToString(nb)}})
		default: // two bits
			a, b := rng.IntN(len(in.data)), rng.IntN(len(in.data))
			cs.Kind = "bitflip2"
			cs.Region = spanOf(in.spans, a)
			in.set(&cs, []edit{{Op: "xor", Off: a, Hex: hexByte(1 << rng.IntN(8))}, {Op: "xor", Off: b, Hex: hexByte(1 << rng.IntN(8))}})
		}
		return &cs
	})

	// Structured: s-negated collateral signatures, whole documents swapped with their signatures kept.
	ti := k.c.tcbInfo[v.TCBInfo]
	qe := k.c.qeID[v.QEID]
	type sc struct {
		input, kind, region string
		apply               func(cs *caseSpec)
	}
	var cases []sc
	negHex := func(s string) string {
		b, err := hex.DecodeString(s)
		if err != nil || len(b) != 64 {
			return s
		}
		return hex.EncodeToString(negateS(b))
	}
	cases = append(cases,
		sc{"tcbsig", "ecdsa-s-negate", "s", func(cs *caseSpec) {
			cs.TCBSigEdits = []edit{{Op: "set", Off: 0, Len: len(ti.Sig), Hex: hex.EncodeToString([]byte(negHex(ti.Sig)))}}
		}},
		sc{"qesig", "ecdsa-s-negate", "s", func(cs *caseSpec) {
			cs.QESigEdits = []edit{{Op: "set", Off: 0, Len: len(qe.Sig), Hex: hex.EncodeToString([]byte(negHex(qe.Sig)))}}
		}},
		sc{"tcbsig", "uppercase-hex", "r", func(cs *caseSpec) {
			cs.TCBSigEdits = []edit{{Op: "set", Off: 0, Len: len(ti.Sig), Hex: hex.EncodeToString([]byte(strings.ToUpper(ti.Sig)))}}
		}},
		sc{"qesig", "uppercase-hex", "r", func(cs *caseSpec) {
			cs.QESigEdits = []edit{{Op: "set", Off: 0, Len: len(qe.Sig), Hex: hex.EncodeToString([]byte(strings.ToUpper(qe.Sig)))}}
		}},
		sc{"tcbsig", "signature-of-qe-identity", "r", func(cs *caseSpec) {
			cs.TCBSigEdits = []edit{{Op: "set", Off: 0, Len: len(ti.Sig), Hex: hex.EncodeToString([]byte(qe.Sig))}}
		}},
		sc{"qesig", "signature-of-tcb-info", "r", func(cs *caseSpec) {
			cs.QESigEdits = []edit{{Op: "set", Off: 0, Len: len(qe.Sig), Hex: hex.EncodeToString([]byte(ti.Sig))}}
		}},
		sc{"tcbinfo", "body-is-qe-identity-with-its-signature", "json", func(cs *caseSpec) {
			cs.TCBInfoEdits = []edit{{Op: "set", Off: 0, Len: len(ti.Body), Hex: hex.EncodeToString(qe.Body)}}
			cs.TCBSigEdits = []edit{{Op: "set", Off: 0, Len: len(ti.Sig), Hex: hex.EncodeToString([]byte(qe.Sig))}}
		}},
		sc{"qeid", "body-is-tcb-info-with-its-signature", "json", func(cs *caseSpec) {
			cs.QEIDEdits = []edit{{Op: "set", Off: 0, Len: len(qe.Body), Hex: hex.EncodeToString(ti.Body)}}
			cs.QESigEdits = []edit{{Op: "set", Off: 0, Len: len(qe.Sig), Hex: hex.EncodeToString([]byte(ti.Sig))}}
		}},
		sc{"tcbinfo", "reserialized-by-encoding-json", "json", func(cs *caseSpec) {
			var x any
			_ = json.Unmarshal(ti.Body, &x)
			b, _ := json.Marshal(x)
			cs.TCBInfoEdits = []edit{{Op: "set", Off: 0, Len: len(ti.Body), Hex: hex.EncodeToString(b)}}
		}},
		sc{"qeid", "reserialized-by-encoding-json", "json", func(cs *caseSpec) {
			var x any
			_ = json.Unmarshal(qe.Body, &x)
			b, _ := json.Marshal(x)
			cs.QEIDEdits = []edit{{Op: "set", Off: 0, Len: len(qe.Body), Hex: hex.EncodeToString(b)}}
		}},
		sc{"tcbinfo", "empty", "json", func(cs *caseSpec) { cs.TCBInfoEdits = []edit{{Op: "trunc", Off: 0}} }},
		sc{"qeid", "empty", "json", func(cs *caseSpec) { cs.QEIDEdits = []edit{{Op: "trunc", Off: 0}} }},
		sc{"certs", "empty", "pem", func(cs *caseSpec) { cs.CertsEdits = []edit{{Op: "trunc", Off: 0}} }},
	)
	// Certificate chain recombinations.
	sb, _ := splitPEM(k.c.certs[v.Certs])
	pb, _ := splitPEM(k.c.certs["pck-platform-ca"])
	setCerts := func(parts ...[]byte) func(cs *caseSpec) {
		var d []byte
		for _, p := range parts {
			d = append(d, p...)
		}
		return func(cs *caseSpec) {
			cs.CertsEdits = []edit{{Op: "set", Off: 0, Len: len(k.c.certs[v.Certs]), Hex: hex.EncodeToString(d)}}
		}
	}
	if len(sb) == 2 && len(pb) == 2 {
		cases = append(cases,
			sc{"certs", "chain-reversed", "chain", setCerts(sb[1], sb[0])},
			sc{"certs", "signing-cert-only", "chain", setCerts(sb[0])},
			sc{"certs", "root-only", "chain", setCerts(sb[1])},
			sc{"certs", "root-twice", "chain", setCerts(sb[1], sb[1])},
			sc{"certs", "signing-cert-twice", "chain", setCerts(sb[0], sb[0])},
			sc{"certs", "three-certs", "chain", setCerts(sb[0], sb[1], sb[1])},
			sc{"certs", "platform-ca-as-signer", "chain", setCerts(pb[0], sb[1])},
			sc{"certs", "signing-cert-with-platform-ca-as-root", "chain", setCerts(sb[0], pb[0])},
			sc{"certs", "text-before-first-pem", "gap", setCerts([]byte("junk\n"), sb[0], sb[1])},
			sc{"certs", "text-after-last-pem", "tail", setCerts(sb[0], sb[1], []byte("junk"))},
		)
		if p := partsOf(v.Quote); p != nil {
			qb, _ := splitPEM(p.cert)
			if len(qb) == 3 {
				cases = append(cases,
					sc{"certs", "pck-leaf-as-signer", "chain", setCerts(qb[0], sb[1])},
					sc{"certs", "pck-chain-as-tcb-chain", "chain", setCerts(qb[0], qb[1], qb[2])},
				)
			}
		}
	}
	k.runN(len(cases), func(i int) *caseSpec {
		cs := k.base(v, "mutation", cases[i].input)
		cs.Kind = cases[i].kind
		cs.Region = cases[i].region
		cases[i].apply(&cs)
		return &cs
	})
}

// ---- foreign collateral --------------------------------------------------

func sortedKeys[T any](m map[string]T) []string {
	var out []string
	for k := range m {
		out = append(out, k)
	}
	sort.Strings(out)
	return out
}

func (k *checker) issueOf(body []byte) time.Time {
	var x struct {
		IssueDate string `json:"issueDate"`
	}
	_ = json.Unmarshal(body, &x)
	t, _ := time.Parse(pcs.TimestampFormat, x.IssueDate)
	return t
}

func (k *checker) foreignCollateral(v *vector) {
	var cases []caseSpec
	for _, tn := range sortedKeys(k.c.tcbInfo) {
		for _, qn := range sortedKeys(k.c.qeID) {
			for _, cn := range sortedKeys(k.c.certs) {
				// Times: the vector's own, and one hour after the later issue date of the chosen documents.
				late := k.issueOf(k.c.tcbInfo[tn].Body)
				if t := k.issueOf(k.c.qeID[qn].Body); t.After(late) {
					late = t
				}
				for ti, ts := range []time.Time{v.TS, late.Add(time.Hour)} {
					for _, val := range []uint16{v.Policy.TCBValidityPeriod, 65535} {
						cs := k.base(v, "foreign", "collateral")
						pol := v.Policy
						pol.TCBValidityPeriod = val
						pol.MinTCBEvaluationDataNumber = 0
						cs.Policy = &pol
						cs.TCBInfoSrc, cs.QEIDSrc, cs.CertsSrc = tn, qn, cn
						cs.TSSec, cs.TSNsec = ts.Unix(), 0
						own := tn == v.TCBInfo && qn == v.QEID && cn == v.Certs
						cs.Region = fmt.Sprintf("tcbinfo=%s,qeid=%s,certs=%s", tn, qn, cn)
						if own {
							cs.Region = "own"
						}
						cs.Kind = fmt.Sprintf("V=%d,ts=%s", val, []string{"vector", "after-latest-issue"}[ti])
						cases = append(cases, cs)
					}
				}
			}
		}
	}
	k.runN(len(cases), func(i int) *caseSpec { cs := cases[i]; return &cs })
}

// ---- time ----------------------------------------------------------------

type boundary struct {
	Name string
	At   time.Time
}

// boundaries lists every instant at which acceptance may change for the vector.
func (k *checker) boundaries(v *vector, validity []uint16) []boundary {
	var out []boundary
	ti := k.c.tcbInfo[v.TCBInfo]
	qe := k.c.qeID[v.QEID]
	var t struct {
		IssueDate  string `json:"issueDate"`
		NextUpdate string `json:"nextUpdate"`
	}
	for _, d := range []struct {
		name string
		body []byte
	}{{"tcb-info", ti.Body}, {"qe-identity", qe.Body}} {
		_ = json.Unmarshal(d.body, &t)
		issue, _ := time.Parse(pcs.TimestampFormat, t.IssueDate)
		next, _ := time.Parse(pcs.TimestampFormat, t.NextUpdate)
		out = append(out, boundary{d.name + "-issue", issue}, boundary{d.name + "-nextupdate", next})
		for _, val := range validity {
			out = append(out, boundary{fmt.Sprintf("%s-issue+%dd", d.name, val), time.Unix(issue.Unix()+int64(val)*86400, 0)})
		}
	}
	certs, _ := parsePEMCerts(k.c.certs[v.Certs])
	for i, c := range certs {
		n := []string{"tcb-signing-cert", "tcb-root-cert"}[i%2]
		out = append(out, boundary{n + "-notbefore", c.NotBefore}, boundary{n + "-notafter", c.NotAfter})
	}
	if p := partsOf(v.Quote); p != nil {
		chain, _ := parsePEMCerts(p.cert)
		for i, c := range chain {
			n := []string{"pck-leaf-cert", "pck-intermediate-cert", "pck-root-cert"}[i%3]
			out = append(out, boundary{n + "-notbefore", c.NotBefore}, boundary{n + "-notafter", c.NotAfter})
		}
	}
	return out
}

var validityGrid = []uint16{0, 1, 29, 30, 31, 90, 365, 1000, 3000, 65535}

func (k *checker) timeGrid(v *vector, nRandom int) {
	vi := vecIndex(k, v.Name)
	bs := k.boundaries(v, validityGrid)
	sides := []struct {
		name string
		d    time.Duration
	}{{"-1s", -time.Second}, {"-1ns", -1}, {"at", 0}, {"+1ns", 1}, {"+1s", time.Second}}
	var cases []caseSpec
	for _, val := range validityGrid {
		for _, b := range bs {
			for _, s := range sides {
				cs := k.base(v, "time", "none")
				pol := v.Policy
				pol.TCBValidityPeriod = val
				cs.Policy = &pol
				ts := b.At.Add(s.d)
				cs.TSSec, cs.TSNsec = ts.Unix(), int64(ts.Nanosecond())
				cs.Region = b.Name
				cs.Kind = fmt.Sprintf("%s@V=%d", s.name, val)
				cases = append(cases, cs)
			}
		}
	}
	// Extremes.
	for i, ts := range []time.Time{{}, time.Unix(0, 0), time.Unix(-1, 0), time.Unix(1<<31, 0), time.Unix(253402300799, 999999999), time.Unix(1<<40, 0)} {
		for _, val := range []uint16{30, 65535} {
			cs := k.base(v, "time", "none")
			pol := v.Policy
			pol.TCBValidityPeriod = val
			cs.Policy = &pol
			cs.TSSec, cs.TSNsec = ts.Unix(), int64(ts.Nanosecond())
			cs.Region = "extreme"
			cs.Kind = fmt.Sprintf("extreme-%d@V=%d", i, val)
			cases = append(cases, cs)
		}
	}
	k.runN(len(cases), func(i int) *caseSpec { cs := cases[i]; return &cs })

	// Random instants between the earliest and the latest boundary (+- 2 days), random validity.
	lo, hi := bs[0].At, bs[0].At
	for _, b := range bs {
		if b.At.Before(lo) {
			lo = b.At
		}
		if b.At.After(hi) {
			hi = b.At
		}
	}
	k.runN(nRandom, func(i int) *caseSpec {
		rng := k.r.Rand(stTimeRandom, vi, uint64(i))
		cs := k.base(v, "time", "none")
		pol := v.Policy
		var ts time.Time
		switch rng.IntN(3) {
		case 0: // anywhere
			pol.TCBValidityPeriod = uint16(rng.IntN(65536))
			ts = time.Unix(lo.Unix()-2*86400+rng.Int64N(hi.Unix()-lo.Unix()+4*86400), rng.Int64N(1e9))
			cs.Region = "random-anywhere"
		case 1: // near a boundary
			pol.TCBValidityPeriod = validityGrid[rng.IntN(len(validityGrid))]
			b := bs[rng.IntN(len(bs))]
			ts = b.At.Add(time.Duration(rng.Int64N(7200e9) - 3600e9))
			cs.Region = "random-near/" + b.Name
		default: // inside the collateral's life with a random validity in days around the age
			issue := k.issueOf(k.c.tcbInfo[v.TCBInfo].Body)
			age := rng.IntN(4000)
			ts = issue.Add(time.Duration(age)*24*time.Hour + time.Duration(rng.Int64N(86400e9)))
			val := age + rng.IntN(5) - 2
			if val < 0 {
				val = 0
			}
			pol.TCBValidityPeriod = uint16(val)
			cs.Region = "random-age-vs-validity"
		}
		cs.Policy = &pol
		cs.TSSec, cs.TSNsec = ts.Unix(), int64(ts.Nanosecond())
		cs.Kind = "random"
		return &cs
	})
}

// ---- policy --------------------------------------------------------------

func flipCase(s string) string {
	b := []byte(s)
	for i := range b {
		switch {
		case b[i] >= 'a' && b[i] <= 'z':
			b[i] -= 32
		case b[i] >= 'A' && b[i] <= 'Z':
			b[i] += 32
		}
	}
	return string(b)
}

type namedPolicy struct {
	Name string
	Nil  bool
	Pol  pcs.QuotePolicy
}

func (k *checker) policies(v *vector) []namedPolicy {
	var ti struct {
		FMSPC string `json:"fmspc"`
		Eval  uint32 `json:"tcbEvaluationDataNumber"`
	}
	_ = json.Unmarshal(k.c.tcbInfo[v.TCBInfo].Body, &ti)
	var qe struct {
		Eval uint32 `json:"tcbEvaluationDataNumber"`
	}
	_ = json.Unmarshal(k.c.qeID[v.QEID].Body, &qe)
	base := v.Policy
	var out []namedPolicy
	add := func(name string, mod func(p *pcs.QuotePolicy)) {
		p := base
		mod(&p)
		out = append(out, namedPolicy{Name: name, Pol: p})
	}
	out = append(out, namedPolicy{Name: "nil-policy", Nil: true})
	add("base", func(p *pcs.QuotePolicy) {})
	add("disabled", func(p *pcs.QuotePolicy) { p.Disabled = true })
	add("disabled+everything-else-permissive", func(p *pcs.QuotePolicy) {
		p.Disabled = true
		p.TCBValidityPeriod = 65535
		p.MinTCBEvaluationDataNumber = 0
		p.TDX = &pcs.TdxQuotePolicy{}
	})
	evals := map[uint32]bool{}
	for _, n := range []uint32{ti.Eval, qe.Eval} {
		for _, m := range []uint32{0, n - 1, n, n + 1, n + 100, 1<<32 - 1} {
			evals[m] = true
		}
	}
	var es []uint32
	for m := range evals {
		es = append(es, m)
	}
	sort.Slice(es, func(a, b int) bool { return es[a] < es[b] })
	for _, m := range es {
		m := m
		rel := "other"
		switch {
		case m == ti.Eval:
			rel = "n"
		case m == ti.Eval-1:
			rel = "n-1"
		case m == ti.Eval+1:
			rel = "n+1"
		}
		add(fmt.Sprintf("min-eval=%d(%s)", m, rel), func(p *pcs.QuotePolicy) { p.MinTCBEvaluationDataNumber = m })
	}
	other := "00906ED50000"
	add("blacklist-hit", func(p *pcs.QuotePolicy) { p.FMSPCBlacklist = []string{ti.FMSPC} })
	add("blacklist-hit-among-others", func(p *pcs.QuotePolicy) { p.FMSPCBlacklist = []string{other, "000000000000", ti.FMSPC} })
	add("blacklist-miss", func(p *pcs.QuotePolicy) { p.FMSPCBlacklist = []string{other} })
	add("blacklist-empty", func(p *pcs.QuotePolicy) { p.FMSPCBlacklist = []string{} })
	add("blacklist-hit-other-letter-case", func(p *pcs.QuotePolicy) { p.FMSPCBlacklist = []string{flipCase(ti.FMSPC)} })
	add("blacklist-hit+whitelist-hit", func(p *pcs.QuotePolicy) {
		p.FMSPCBlacklist = []string{ti.FMSPC}
		p.FMSPCWhitelist = []string{ti.FMSPC}
	})
	add("whitelist-hit", func(p *pcs.QuotePolicy) { p.FMSPCWhitelist = []string{ti.FMSPC} })
	add("whitelist-hit-among-others", func(p *pcs.QuotePolicy) { p.FMSPCWhitelist = []string{other, ti.FMSPC} })
	add("whitelist-miss", func(p *pcs.QuotePolicy) { p.FMSPCWhitelist = []string{other} })
	add("whitelist-empty", func(p *pcs.QuotePolicy) { p.FMSPCWhitelist = []string{} })
	add("whitelist-hit-other-letter-case", func(p *pcs.QuotePolicy) { p.FMSPCWhitelist = []string{flipCase(ti.FMSPC)} })
	add("whitelist-prefix-of-fmspc", func(p *pcs.QuotePolicy) { p.FMSPCWhitelist = []string{ti.FMSPC[:10]} })

	// TDX policies (for SGX vectors they must not matter).
	var mrSeam, mrSigner, badSeam, badSigner [48]byte
	if l, f := parseLayout(v.Quote); f == nil && l.TDX {
		copy(mrSeam[:], v.Quote[48+16:48+64])
		copy(mrSigner[:], v.Quote[48+64:48+112])
	}
	badSeam = mrSeam
	badSeam[47] ^= 1
	badSigner = mrSigner
	badSigner[0] ^= 1
	add("tdx-nil", func(p *pcs.QuotePolicy) { p.TDX = nil })
	add("tdx-any-intel-module", func(p *pcs.QuotePolicy) { p.TDX = &pcs.TdxQuotePolicy{} })
	add("tdx-module-allowed-by-signer", func(p *pcs.QuotePolicy) {
		p.TDX = &pcs.TdxQuotePolicy{AllowedTdxModules: []pcs.TdxModulePolicy{{MrSignerSeam: mrSigner}}}
	})
	add("tdx-module-allowed-by-mrseam", func(p *pcs.QuotePolicy) {
		ms := mrSeam
		p.TDX = &pcs.TdxQuotePolicy{AllowedTdxModules: []pcs.TdxModulePolicy{{MrSeam: &ms, MrSignerSeam: mrSigner}}}
	})
	add("tdx-module-not-allowed-mrseam", func(p *pcs.QuotePolicy) {
		ms := badSeam
		p.TDX = &pcs.TdxQuotePolicy{AllowedTdxModules: []pcs.TdxModulePolicy{{MrSeam: &ms, MrSignerSeam: mrSigner}}}
	})
	add("tdx-module-not-allowed-signer", func(p *pcs.QuotePolicy) {
		p.TDX = &pcs.TdxQuotePolicy{AllowedTdxModules: []pcs.TdxModulePolicy{{MrSignerSeam: badSigner}}}
	})
	add("tdx-module-not-allowed-signer-right-mrseam", func(p *pcs.QuotePolicy) {
		ms := mrSeam
		p.TDX = &pcs.TdxQuotePolicy{AllowedTdxModules: []pcs.TdxModulePolicy{{MrSeam: &ms, MrSignerSeam: badSigner}}}
	})
	add("tdx-modules-not-allowed+allowed", func(p *pcs.QuotePolicy) {
		ms := badSeam
		p.TDX = &pcs.TdxQuotePolicy{AllowedTdxModules: []pcs.TdxModulePolicy{{MrSeam: &ms, MrSignerSeam: mrSigner}, {MrSignerSeam: mrSigner}}}
	})
	add("tdx-modules-two-not-allowed", func(p *pcs.QuotePolicy) {
		ms := badSeam
		p.TDX = &pcs.TdxQuotePolicy{AllowedTdxModules: []pcs.TdxModulePolicy{{MrSeam: &ms, MrSignerSeam: mrSigner}, {MrSignerSeam: badSigner}}}
	})
	for _, val := range []uint16{0, 1, 2, 3, 4, 5, 29, 30, 31, 90, 65535} {
		val := val
		add(fmt.Sprintf("validity=%dd", val), func(p *pcs.QuotePolicy) { p.TCBValidityPeriod = val })
	}
	return out
}

func (k *checker) policyCases(v *vector, nRandom int) {
	vi := vecIndex(k, v.Name)
	ps := k.policies(v)
	k.runN(len(ps), func(i int) *caseSpec {
		cs := k.base(v, "policy", "none")
		cs.Kind = ps[i].Name
		cs.Region = "policy"
		if ps[i].Nil {
			cs.NilPolicy = true
			cs.Policy = nil
		} else {
			p := ps[i].Pol
			cs.Policy = &p
		}
		return &cs
	})
	// Random combinations of the named settings at random grid instants.
	bs := k.boundaries(v, []uint16{30})
	pick := func(rng *rand.Rand, pre string) namedPolicy {
		var cand []namedPolicy
		for _, p := range ps {
			if strings.HasPrefix(p.Name, pre) {
				cand = append(cand, p)
			}
		}
		return cand[rng.IntN(len(cand))]
	}
	k.runN(nRandom, func(i int) *caseSpec {
		rng := k.r.Rand(stPolicyRandom, vi, uint64(i))
		cs := k.base(v, "policy", "none")
		p := v.Policy
		var names []string
		if rng.IntN(8) == 0 {
			p.Disabled = true
			names = append(names, "disabled")
		}
		a := pick(rng, "min-eval")
		p.MinTCBEvaluationDataNumber = a.Pol.MinTCBEvaluationDataNumber
		names = append(names, a.Name)
		if rng.IntN(2) == 0 {
			b := pick(rng, "blacklist")
			p.FMSPCBlacklist = b.Pol.FMSPCBlacklist
			names = append(names, b.Name)
		}
		if rng.IntN(2) == 0 {
			b := pick(rng, "whitelist")
			p.FMSPCWhitelist = b.Pol.FMSPCWhitelist
			names = append(names, b.Name)
		}
		t := pick(rng, "tdx-")
		p.TDX = t.Pol.TDX
		names = append(names, t.Name)
		p.TCBValidityPeriod = validityGrid[rng.IntN(len(validityGrid))]
		ts := v.TS
		if rng.IntN(3) == 0 {
			ts = bs[rng.IntN(len(bs))].At.Add(time.Duration(rng.Int64N(3)-1) * time.Second)
		}
		cs.TSSec, cs.TSNsec = ts.Unix(), int64(ts.Nanosecond())
		cs.Policy = &p
		cs.Region = "policy"
		cs.Kind = "combo:" + strings.Join(names, "+")
		return &cs
	})
}
