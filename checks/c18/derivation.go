package main

// Node policy derivation: which PCS policy does a node registration's quote get verified with?
//
// node/sgx.go SGXAttestation.Verify does, after CapabilityTEE.Verify has decoded the runtime's
// SGXConstraints from CBOR and validated them:
//
//	cfg.SGX.ApplyDefaultConstraints(sc)
//	verifiedQuote, err := sa.Quote.Verify(sc.Policy, ts)      // -> pcs.QuoteBundle.Verify(sc.Policy.PCS, ts)
//
// The same exported sequence is run here (without the RAK steps, which no repository vector can pass)
// for a grid of consensus defaults x runtime constraint shapes, with the known-good quote bundles, so
// that acceptance IS possible. Independent expectation (tee.go field documentation and tee_test.go):
// the quote is verified with the runtime's own PCS policy if it has one, else with the consensus
// default PCS policy (when the PCS feature is on), else with pcs' built-in default. Acceptance although
// the reference predicate rejects under that expected policy is a violation.

import (
	"fmt"
	"os"
	"reflect"
	"time"

	"github.com/oasisprotocol/oasis-core/go/common/cbor"
	"github.com/oasisprotocol/oasis-core/go/common/crypto/signature"
	"github.com/oasisprotocol/oasis-core/go/common/node"
	"github.com/oasisprotocol/oasis-core/go/common/sgx/ias"
	"github.com/oasisprotocol/oasis-core/go/common/sgx/pcs"
	"github.com/oasisprotocol/oasis-core/go/common/sgx/quote"

	"verif/engine/evid"
)

type derivationCase struct {
	Vector    string           `json:"vector"`
	Shape     string           `json:"shape"`        // runtime constraint shape
	Default   string           `json:"default_kind"` // consensus default kind
	IASDeflt  bool             `json:"default_has_ias_part"`
	RoundTrip bool             `json:"cbor_round_trip"`
	PCSOn     bool             `json:"pcs_feature"`
	Expected  *pcs.QuotePolicy `json:"expected_effective_pcs_policy"`
	Derived   *pcs.QuotePolicy `json:"derived_effective_pcs_policy"`
}

type namedPCS struct {
	name string
	pol  *pcs.QuotePolicy // nil = none
}

func (k *checker) nodePolicyDerivation() {
	r := k.r
	type job struct {
		dc      derivationCase
		v       *vector
		runtime *quote.Policy // runtime constraints' policy (nil, empty, ...)
		deflt   *quote.Policy // consensus default policy (nil = none)
	}
	var jobs []job

	for _, vn := range []string{"sgx-v3", "tdx-v4"} {
		v := k.c.vectors[vn]
		if v.baseline == nil {
			continue
		}
		var ps = map[string]pcs.QuotePolicy{}
		for _, np := range k.policies(v) {
			if !np.Nil {
				ps[np.Name] = np.Pol
			}
		}
		get := func(name string) *pcs.QuotePolicy {
			p, ok := ps[name]
			if !ok {
				r.Inconclusive("policy %q missing for vector %s", name, vn)
				return nil
			}
			return &p
		}
		var evalN1 string
		for name := range ps {
			if len(name) > 9 && name[:9] == "min-eval=" && name[len(name)-5:] == "(n+1)" {
				evalN1 = name
			}
		}
		permissive := get("base")
		defaults := []namedPCS{
			{"no-default-pcs", nil},
			{"permissive", permissive},
			{"disabled", get("disabled")},
			{"fmspc-blacklist-hit", get("blacklist-hit")},
			{"min-eval-n+1", get(evalN1)},
			{"validity-too-short", get("validity=0d")},
		}
		if v.TDX {
			defaults = append(defaults, namedPCS{"tdx-module-not-allowed", get("tdx-module-not-allowed-signer")}, namedPCS{"tdx-nil", get("tdx-nil")})
		}
		own := []namedPCS{
			{"own-permissive", permissive},
			{"own-disabled", get("disabled")},
			{"own-min-eval-n+1", get(evalN1)},
		}
		type shape struct {
			name string
			pol  func() *quote.Policy
			own  *pcs.QuotePolicy
		}
		shapes := []shape{
			{"nil-policy", func() *quote.Policy { return nil }, nil},
			{"empty-policy", func() *quote.Policy { return &quote.Policy{} }, nil},
			{"ias-only", func() *quote.Policy { return &quote.Policy{IAS: &ias.QuotePolicy{}} }, nil},
		}
		for _, o := range own {
			o := o
			shapes = append(shapes,
				shape{"pcs-only/" + o.name, func() *quote.Policy { p := *o.pol; return &quote.Policy{PCS: &p} }, o.pol},
				shape{"ias+pcs/" + o.name, func() *quote.Policy { p := *o.pol; return &quote.Policy{IAS: &ias.QuotePolicy{}, PCS: &p} }, o.pol},
			)
		}
		for _, d := range defaults {
			for _, withIASDefault := range []bool{true, false} {
				for _, sh := range shapes {
					for _, rt := range []bool{false, true} {
						for _, pcsOn := range []bool{true, false} {
							if !pcsOn && (!rt || !withIASDefault) {
								continue // the PCS-feature-off variant once per (default, shape)
							}
							var deflt *quote.Policy
							dname := d.name
							switch {
							case d.pol != nil:
								p := *d.pol
								deflt = &quote.Policy{PCS: &p}
								if withIASDefault {
									deflt.IAS = &ias.QuotePolicy{}
								}
							case withIASDefault:
								deflt = &quote.Policy{IAS: &ias.QuotePolicy{}} // default policy without a PCS part
							default:
								dname = "no-default-policy"
							}
							// Independent expectation.
							exp := sh.own
							if exp == nil && pcsOn && d.pol != nil {
								exp = d.pol
							}
							var expCopy *pcs.QuotePolicy
							if exp != nil {
								p := *exp
								expCopy = &p
							}
							jobs = append(jobs, job{
								dc: derivationCase{Vector: vn, Shape: sh.name, Default: dname, IASDeflt: withIASDefault, RoundTrip: rt, PCSOn: pcsOn, Expected: expCopy},
								v:  v, runtime: sh.pol(), deflt: deflt,
							})
						}
					}
				}
			}
		}
	}

	evid.Parallel(len(jobs), 0, func(i int) {
		j := jobs[i]
		r.Eval(1)
		r.Count("cases/node-derivation", 1)
		v := j.v
		in, _, _ := k.c.build(&caseSpec{Vector: v.Name, TSSec: v.TS.Unix()})
		bundle := &pcs.QuoteBundle{
			Quote: in.Quote,
			TCB: pcs.TCBBundle{
				TCBInfo:      pcs.SignedTCBInfo{TCBInfo: in.TCBInfo, Signature: in.TCBSig},
				QEIdentity:   pcs.SignedQEIdentity{EnclaveIdentity: in.QEID, Signature: in.QESig},
				Certificates: in.Certs,
			},
		}
		var (
			err      error
			accepted bool
			derived  *pcs.QuotePolicy
			panicked string
			early    string
		)
		func() {
			defer func() {
				if p := recover(); p != nil {
					panicked = fmt.Sprint(p)
				}
			}()
			cfg := &node.TEEFeatures{SGX: node.TEEFeaturesSGX{PCS: j.dc.PCSOn, TDX: true, DefaultPolicy: j.deflt, DefaultMaxAttestationAge: 100}}
			sc := node.SGXConstraints{Versioned: cbor.NewVersioned(1), Policy: j.runtime}
			if j.dc.RoundTrip {
				// As CapabilityTEE.Verify: the constraints arrive CBOR-encoded in the runtime descriptor.
				var dec node.SGXConstraints
				if e := cbor.Unmarshal(cbor.Marshal(sc), &dec); e != nil {
					early = "cbor: " + e.Error()
					return
				}
				sc = dec
				if j.dc.PCSOn {
					if e := sc.ValidateBasic(cfg, true); e != nil {
						early = "validate: " + e.Error()
						return
					}
				}
			}
			// node/sgx.go SGXAttestation.Verify:
			cfg.SGX.ApplyDefaultConstraints(&sc)
			if sc.Policy != nil {
				derived = sc.Policy.PCS
			}
			q := quote.Quote{PCS: bundle}
			_, err = q.Verify(sc.Policy, v.TS)
			accepted = err == nil
		}()
		key := fmt.Sprintf("%s|%s|%s|ias=%v|rt=%v|pcs=%v", v.Name, j.dc.Shape, j.dc.Default, j.dc.IASDeflt, j.dc.RoundTrip, j.dc.PCSOn)
		switch {
		case panicked != "":
			r.Violation("panic/node.ApplyDefaultConstraints+quote.Verify", "policy derivation panicked: "+panicked, map[string]any{"derivation_case": j.dc})
			return
		case early != "":
			r.Count("node_derivation_rejected_before_derivation", 1)
			r.Distinct("node_derivation_early", early)
			return
		}
		r.Nontrivial("node-derivation|" + key)
		if derived != nil {
			p := *derived
			j.dc.Derived = &p
		}
		if !reflect.DeepEqual(j.dc.Derived, j.dc.Expected) {
			r.Count("observed/node_derived_policy_differs_from_expected", 1)
			r.Distinct("node_derived_policy_differs", key)
		}
		// Reference verdict under the EXPECTED policy.
		rin := *in
		rin.Policy = j.dc.Expected
		rin.TS = v.TS
		_, f := refVerify(&rin)
		switch {
		case accepted && f != nil && f.Detail == caseVariantDetail:
			// Cannot happen with this grid (exact-case blacklist entries), kept for safety.
			k.reportCaseVariant(&caseSpec{Vector: v.Name, TSSec: v.TS.Unix(), Policy: j.dc.Expected})
		case accepted && f != nil:
			shape := j.dc.Shape
			if j.dc.RoundTrip {
				shape += "+cbor"
			}
			if !j.dc.PCSOn {
				shape += "+pcs-feature-off"
			}
			r.Violation(fmt.Sprintf("c18/node/default-policy-not-applied/%s/%s", sanitize(shape), sanitize(j.dc.Default)),
				fmt.Sprintf("vector %s: runtime SGX constraints of shape %q with consensus default %q: after TEEFeaturesSGX.ApplyDefaultConstraints the quote was ACCEPTED by quote.Quote.Verify, "+
					"although under the policy that should be in force (the runtime's own PCS policy, else the consensus default) it must be rejected: %s; derived PCS policy: %+v, expected: %+v",
					v.Name, j.dc.Shape, j.dc.Default, f, j.dc.Derived, j.dc.Expected),
				map[string]any{"derivation_case": j.dc, "reference_failure": f.String(), "seed": r.Seed, "tier": r.Tier})
		case accepted:
			r.Count("node_derivation_accepted", 1)
		default:
			r.Count("node_derivation_rejected", 1)
			r.Count("node_derivation_reject/"+errClass(err.Error()), 1)
			if f == nil {
				// Stricter than expected: not a C18 violation (nothing was accepted), evidence only.
				r.Count("observed/node_derivation_rejected_although_expected_policy_accepts", 1)
			}
		}
	})

	// Order of checks observable end to end on the repository's DEBUG-enclave attestation (counter only):
	// with a consensus default Disabled PCS policy and runtime constraints without a PCS policy the
	// first failing step is "disabled by policy" iff the default was applied (it precedes the debug check).
	raw, err1 := os.ReadFile("/repo/go/common/node/testdata/sgx_attestation_v1.bin")
	if err1 != nil {
		return
	}
	for _, sh := range []struct {
		name string
		pol  *quote.Policy
	}{{"nil-policy", nil}, {"empty-policy", &quote.Policy{}}, {"ias-only", &quote.Policy{IAS: &ias.QuotePolicy{}}}} {
		sc := node.SGXConstraints{Versioned: cbor.NewVersioned(1), Policy: sh.pol}
		cfg := &node.TEEFeatures{SGX: node.TEEFeaturesSGX{PCS: true, DefaultPolicy: &quote.Policy{IAS: &ias.QuotePolicy{}, PCS: &pcs.QuotePolicy{Disabled: true}}}}
		var rak, nodeID signature.PublicKey
		c := node.CapabilityTEE{Hardware: node.TEEHardwareIntelSGX, RAK: rak, Attestation: raw}
		var e error
		func() {
			defer func() {
				if p := recover(); p != nil {
					e = fmt.Errorf("panic: %v", p)
				}
			}()
			e = c.Verify(cfg, time.Unix(1662716400, 0), 100, cbor.Marshal(sc), nodeID, true)
		}()
		r.Eval(1)
		cls := "accepted"
		if e != nil {
			cls = errClass(e.Error())
		}
		r.Count("observed/node_debug_vector_default_disabled/"+sh.name+"/"+cls, 1)
		if e == nil {
			r.Violation("c18/node/node-v1/debug-enclave-attestation-accepted/"+sanitize(sh.name), "CapabilityTEE.Verify accepted the DEBUG enclave attestation vector in production mode", map[string]any{"shape": sh.name})
		}
	}
}
