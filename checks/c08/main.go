// C08 — a failed transaction changes nothing but fee and nonce.
//
// (1) Tap diff: the full proposal state is dumped before and after every
// delivered transaction on the reference replica; an independent model of
// authentication decides whether a failing transaction must leave no trace or
// exactly nonce+1 / balance-fee on the signer's account. (2) Twin blocks: a
// block is re-executed on two fresh replicas with and without a failing
// zero-fee transaction; the committed states may differ only in that nonce
// (catches effects surfacing in EndBlock). (3) CheckTx / EstimateGas bursts
// between blocks must leave the committed state unchanged. (4) Gas limits are
// swept over every value from 0 up to what a successful execution needs.
package main

import (
	"bytes"
	"context"
	"crypto/sha256"
	"fmt"
	"sort"
	"strings"
	"time"

	"github.com/cometbft/cometbft/abci/types"

	"github.com/oasisprotocol/oasis-core/go/common/cbor"
	"github.com/oasisprotocol/oasis-core/go/consensus/api/transaction"
	"github.com/oasisprotocol/oasis-core/go/consensus/cometbft/abci"
	staking "github.com/oasisprotocol/oasis-core/go/staking/api"

	"verif/engine/chainsim"
	"verif/engine/evid"
)

type burstMonitor struct {
	chainsim.BaseMonitor
	rep             chainsim.Reporter
	checkTx, estGas int
}

func stateHash(r *chainsim.Replica, height int64) [32]byte {
	st, err := chainsim.CommittedState(r, height)
	if err != nil {
		panic(err)
	}
	defer st.Close()
	h := sha256.New()
	for _, kv := range chainsim.Dump(context.Background(), st) {
		h.Write(kv.K)
		h.Write([]byte{0})
		h.Write(kv.V)
		h.Write([]byte{1})
	}
	var out [32]byte
	copy(out[:], h.Sum(nil))
	return out
}

// OnBlock: after every block, feed all transactions of the block (valid and
// invalid) once more to CheckTx and EstimateGas and require an unchanged
// committed state; the next block's AppHash is additionally compared with the
// builder replica, which never sees these calls.
func (m *burstMonitor) OnBlock(h *chainsim.History, b *chainsim.Block, txs []*chainsim.GenTx, ref *chainsim.BlockResult) {
	if len(txs) == 0 {
		return
	}
	before := stateHash(h.Ref, b.Height)
	for _, t := range txs {
		h.Ref.CheckTx(t.Raw, false)
		m.checkTx++
		if t.Tx != nil && t.Signer != nil {
			tx := *t.Tx
			h.Ref.WithAlive(func(srv *abci.ApplicationServer) {
				func() {
					defer func() {
						if e := recover(); e != nil {
							m.rep.Violation("c08/panic/estimate-gas", fmt.Sprint(e), map[string]any{"height": b.Height, "method": t.Method})
						}
					}()
					_, _ = srv.EstimateGas(t.Signer.PK, &tx)
				}()
			})
			m.estGas++
		}
	}
	after := stateHash(h.Ref, b.Height)
	if before != after || !bytes.Equal(h.Ref.AppHash, ref.AppHash) {
		m.rep.Violation("c08/checktx-or-estimategas-changed-committed-state", fmt.Sprintf("committed state at height %d changed after a burst of CheckTx/EstimateGas calls", b.Height), map[string]any{"height": b.Height, "params": h.Sc.P})
	}
}

// twin re-executes block idx on fresh replicas with and without transaction ti.
func twin(h *chainsim.History, rep chainsim.Reporter, idx, ti int, signer staking.Address) (ran bool) {
	mk := func(name string) *chainsim.Replica {
		r, err := chainsim.NewReplica(h.Sc.Doc, chainsim.ReplicaConfig{Name: name, Backend: "badger", Identity: h.Sc.Entities[0].Nodes[0]})
		if err != nil {
			panic(err)
		}
		if _, err := r.InitChain(); err != nil {
			panic(err)
		}
		for _, b := range h.Blocks[:idx] {
			r.Finalize(b, nil)
		}
		return r
	}
	a, bb := mk("twinA"), mk("twinB")
	defer a.Close()
	defer bb.Close()
	orig := h.Blocks[idx]
	user := orig.Txs[:len(orig.Txs)-1] // without the block metadata transaction
	ba, bbk := *orig, *orig
	ba.Hash, bbk.Hash = nil, nil
	ba.Txs = append([][]byte(nil), user...)
	bbk.Txs = append(append([][]byte(nil), user[:ti]...), user[ti+1:]...)
	ra := a.Finalize(&ba, nil)
	if ra.Txs[ti].Code == types.CodeTypeOK {
		return false // behaves differently without the metadata transaction; not a usable sample
	}
	bb.Finalize(&bbk, nil)
	sa, err := chainsim.CommittedState(a, 0)
	if err != nil {
		panic(err)
	}
	sb, err := chainsim.CommittedState(bb, 0)
	if err != nil {
		panic(err)
	}
	da, db := chainsim.Dump(context.Background(), sa), chainsim.Dump(context.Background(), sb)
	sa.Close()
	sb.Close()
	key := append([]byte{0x50}, signer[:]...)
	for _, d := range chainsim.Diff(db, da) {
		ok := false
		if bytes.Equal(d.K, key) {
			var oa, na staking.Account
			if d.Old != nil {
				_ = cbor.Unmarshal(d.Old, &oa)
			}
			if d.New != nil {
				_ = cbor.Unmarshal(d.New, &na)
			}
			if na.General.Nonce == oa.General.Nonce+1 {
				na.General.Nonce = oa.General.Nonce
				ok = bytes.Equal(cbor.Marshal(oa), cbor.Marshal(na))
			}
		}
		if !ok {
			var st transaction.SignedTransaction
			method := "?"
			if cbor.Unmarshal(user[ti], &st) == nil {
				var tx transaction.Transaction
				if cbor.Unmarshal(st.Blob, &tx) == nil {
					method = string(tx.Method)
				}
			}
			rep.Violation("c08/twin-block/failed-tx-changed-committed-state/"+method,
				fmt.Sprintf("block %d executed with and without failing zero-fee transaction %d commits states that differ in key %x beyond the signer's nonce", orig.Height, ti, d.K),
				map[string]any{"height": orig.Height, "tx_index": ti, "raw": fmt.Sprintf("%x", user[ti]), "key": fmt.Sprintf("%x", d.K), "without": fmt.Sprintf("%x", d.Old), "with": fmt.Sprintf("%x", d.New), "params": h.Sc.P})
			return true
		}
	}
	return true
}

// preSweep turns the last valid transaction of a signer in the block into a series of
// FIRST executions under rising gas limits: the victim's slot gets the transaction with gas
// limit 0, and the following nonces carry the same body with every limit at which a charge
// can run out (transaction size, each operation cost, and the sums that nested executions
// such as a vault action reach, each -1/0/+1), until finally the original fee lets it
// succeed. Every failed attempt ran against the state the transaction was generated for and
// must leave nothing behind (AtomicityMonitor), and the last one must still succeed.
func preSweep(h *chainsim.History, base []*chainsim.GenTx, sweeps, sweepTxs *int) []*chainsim.GenTx {
	vi := -1
	for pass := 0; pass < 2 && vi < 0; pass++ {
		for i := len(base) - 1; i >= 0 && vi < 0; i-- {
			b := base[i]
			// first choice: a transaction that executes another one inside (vault action)
			if pass == 0 && !strings.HasPrefix(b.Method, "vault.") {
				continue
			}
			if b.Intent == "valid" && b.Tx != nil && b.Signer != nil && b.Tx.Fee != nil {
				last := true
				for _, o := range base[i+1:] {
					if o.Signer == b.Signer {
						last = false
					}
				}
				if last {
					vi = i
				}
			}
		}
	}
	if vi < 0 {
		return nil
	}
	victim := base[vi]
	size := uint64(len(victim.Raw))
	orig := uint64(victim.Tx.Fee.Gas)
	origFee := victim.Tx.Fee
	// Operation costs of the generated genesis (staking 10..16, registry/governance/roothash/
	// key manager 1000, vault 5000/10000) and the sums a nested execution reaches (a vault
	// action executing an inner method: 5000 + inner cost).
	single := []uint64{10, 11, 12, 13, 14, 16, 1000, 5000, 10000}
	ops := append([]uint64{}, single...)
	for _, c := range single {
		ops = append(ops, 5000+c, 1000+c)
	}
	set := map[uint64]bool{0: true, 1: true}
	for _, base := range []uint64{size - 1, size, size + 1, size + 2} {
		set[base] = true
		for _, c := range ops {
			for d := uint64(0); d < 5; d++ {
				set[base+c+d-2] = true
			}
		}
	}
	var limits []uint64
	for g := range set {
		if g < orig {
			limits = append(limits, g)
		}
	}
	sort.Slice(limits, func(i, j int) bool { return limits[i] < limits[j] })
	price := h.Sc.P.MinGasPrice
	nonce := victim.Tx.Nonce
	mk := func(gas uint64, fee *transaction.Fee, intent string) *chainsim.GenTx {
		tx := *victim.Tx
		tx.Nonce = nonce
		nonce++
		if fee == nil {
			f := transaction.Fee{Gas: transaction.Gas(gas)}
			_ = f.Amount.FromUint64(gas * price)
			fee = &f
		}
		tx.Fee = fee
		st, err := transaction.Sign(victim.Signer.Signer, &tx)
		if err != nil {
			panic(err)
		}
		return &chainsim.GenTx{Raw: cbor.Marshal(st), Signer: victim.Signer, Tx: &tx, Method: victim.Method, Intent: intent}
	}
	var out []*chainsim.GenTx
	for i, g := range limits {
		t := mk(g, nil, "gas-presweep")
		if i == 0 {
			*base[vi] = *t // the victim's own slot
			continue
		}
		out = append(out, t)
	}
	if len(limits) == 0 {
		return nil
	}
	out = append(out, mk(0, origFee, "valid-after-presweep"))
	*sweeps++
	*sweepTxs += len(out)
	return out
}

func runCase(c chainsim.Case, rep chainsim.Reporter, scratch string) {
	am := &chainsim.AtomicityMonitor{Rep: rep}
	rec := &chainsim.Recorder{TxSubs: []chainsim.TxMonitor{am}}
	bm := &burstMonitor{rep: rep}
	h, err := chainsim.NewHistory(chainsim.HistoryConfig{Seed: c.Seed, Profile: c.Profile, Blocks: c.Blocks}, rec, bm)
	if err != nil {
		rep.Inconclusive("setup failed: " + err.Error())
		return
	}
	sweeps := 0
	sweepTxs := 0
	h.Gen.Extra = func(g *chainsim.TxGen, height int64, base []*chainsim.GenTx) []*chainsim.GenTx {
		rng := g.Rng()
		if height < 2 {
			return nil
		}
		mode := rng.IntN(12)
		if mode == 1 || mode == 2 {
			return preSweep(h, base, &sweeps, &sweepTxs)
		}
		if mode != 0 {
			return nil
		}
		// Gas sweep: the last valid transaction of a signer in this block is re-issued
		// with consecutive nonces and every gas limit from 0 upwards.
		var victim *chainsim.GenTx
		for i := len(base) - 1; i >= 0; i-- {
			b := base[i]
			if b.Intent == "valid" && b.Tx != nil && b.Signer != nil && b.Tx.Fee != nil {
				last := true
				for _, o := range base[i+1:] {
					if o.Signer == b.Signer {
						last = false
					}
				}
				if last {
					victim = b
					break
				}
			}
		}
		if victim == nil {
			return nil
		}
		top := len(victim.Raw) + 40
		if top > 700 {
			top = 700
		}
		price := h.Sc.P.MinGasPrice
		var out []*chainsim.GenTx
		nonce := victim.Tx.Nonce + 1
		for gas := 0; gas <= top; gas++ {
			tx := *victim.Tx
			tx.Nonce = nonce
			f := transaction.Fee{Gas: transaction.Gas(gas)}
			_ = f.Amount.FromUint64(uint64(gas) * price)
			tx.Fee = &f
			st, err := transaction.Sign(victim.Signer.Signer, &tx)
			if err != nil {
				panic(err)
			}
			out = append(out, &chainsim.GenTx{Raw: cbor.Marshal(st), Signer: victim.Signer, Tx: &tx, Method: victim.Method, Intent: "gas-sweep"})
			nonce++
		}
		sweeps++
		sweepTxs += len(out)
		return out
	}
	h.Run()

	// Twin blocks: sample failing zero-fee transactions that passed authentication.
	twins := 0
	if h.Sc.P.MaxBlockGas == 0 {
		for idx := len(h.Blocks) - 1; idx >= 1 && twins < 2; idx-- {
			b := h.Blocks[idx]
			res := h.Results[idx]
			user := b.Txs[:len(b.Txs)-1]
			for ti := len(user) - 1; ti >= 0; ti-- {
				if res.Txs[ti].Code == types.CodeTypeOK {
					continue
				}
				d := chainsim.DecodeTx(user[ti], h.Sc.Doc.ChainContext())
				if !d.EnvelopeOK || !d.SigValid || !d.TxOK {
					continue
				}
				if d.Tx.Fee != nil && !d.Tx.Fee.Amount.IsZero() {
					continue
				}
				lastOfSigner := true
				for _, o := range user[ti+1:] {
					if od := chainsim.DecodeTx(o, h.Sc.Doc.ChainContext()); od.EnvelopeOK && od.Signer == d.Signer {
						lastOfSigner = false
					}
				}
				if !lastOfSigner || res.Txs[ti].GasWanted == 0 && res.Txs[ti].GasUsed == 0 && res.Txs[ti].Codespace == "consensus" {
					continue
				}
				// Only transactions that advanced the nonce are interesting (passed authentication).
				if twin(h, rep, idx, ti, staking.NewAddress(d.Signer)) {
					twins++
				}
				break
			}
		}
	}

	chainsim.ReportCommon(h, rep)
	rep.Count("failed_transactions", int64(am.Failed))
	rep.Count("failed_after_authentication", int64(am.FailedAfterAuth))
	rep.Count("rejected_at_or_before_authentication", int64(am.RejectedAtAuth))
	rep.Count("successful_transactions", int64(am.Succeeded))
	rep.Count("checktx_calls_in_bursts", int64(bm.checkTx))
	rep.Count("estimategas_calls_in_bursts", int64(bm.estGas))
	rep.Count("gas_sweeps", int64(sweeps))
	rep.Count("gas_sweep_transactions", int64(sweepTxs))
	rep.Count("twin_block_comparisons", int64(twins))
	for _, k := range chainsim.TxOutcomeKinds(h) {
		rep.Distinct("tx_method_intent_outcome", k)
	}
	for _, p := range h.Panics {
		rep.Inconclusive("history ended by a panic (see C10): " + p.Error())
	}
	if am.FailedAfterAuth >= 10 && am.RejectedAtAuth >= 10 {
		rep.Nontrivial(fmt.Sprintf("%s/%d", c.Profile, c.Seed))
	}
	if c.Index < 2 {
		rep.Sample(map[string]any{"params": h.Sc.P, "blocks": h.Height, "failed_after_auth": am.FailedAfterAuth, "rejected_at_auth": am.RejectedAtAuth, "ok": am.Succeeded, "gas_sweep_txs": sweepTxs, "twins": twins})
	}
	h.Close()
	h.CloseBuilder()
}

func main() {
	chainsim.Main(chainsim.CheckSpec{
		ID:    "C08",
		Level: "exploration",
		Rule: "each case is one generated block history with valid and single-respect-invalid transactions of staking, registry, governance, vault, roothash and (profile keymanager: a test key manager runtime with key manager nodes) all key manager methods up to their success paths (nonce, signature, balance, gas limit, authority, malformed body, unknown method) plus gas sweeps (a valid transaction re-issued with every gas limit 0..min(size+40,700)); the proposal state is dumped before/after every delivered transaction: a failing one must leave an empty diff (rejected at/before authentication per the independent model) or exactly nonce+1/balance-fee of the signer; " +
			"CheckTx+EstimateGas bursts after every block must not change the committed state; twin replicas re-execute sampled blocks with/without a failing zero-fee transaction; non-trivial = history with >=10 failed-after-authentication and >=10 rejected transactions",
		Cases: func(r *evid.Run) []chainsim.Case {
			cs := chainsim.StdCases(r.Seed, r.Pick(64, 1600), r.Pick(50, 100), []string{"default", "registry", "hostile", "election"})
			// Key manager traffic (secrets and CHURP methods on a test key manager runtime).
			cs = chainsim.WithExtraCases(cs, r.Seed, r.Pick(8, 200), "keymanager")
			// VRF beacon backend: beacon.VRFProve transactions, valid and invalid in one respect.
			return chainsim.WithExtraCases(cs, r.Seed, r.Pick(6, 150), "vrf")
		},
		RunCase: runCase,
		Floor:   10,
		Timeout: 10 * time.Minute,
	})
}
