package main

import (
	"bytes"
	"math/rand/v2"
	"sort"
)

// alphabet is the adversarial key alphabet of DESIGN.md E2.
var alphabet = []byte{0x00, 0x01, 0x7f, 0x80, 0xff, 'a', 'b'}

type kv struct {
	K []byte `json:"k"`
	V []byte `json:"v"`
}

// model is the reference map.
type model map[string][]byte

func (m model) clone() model {
	c := make(model, len(m))
	for k, v := range m {
		c[k] = v
	}
	return c
}

func (m model) sorted() []kv {
	out := make([]kv, 0, len(m))
	for k, v := range m {
		out = append(out, kv{K: []byte(k), V: v})
	}
	sort.Slice(out, func(i, j int) bool { return bytes.Compare(out[i].K, out[j].K) < 0 })
	return out
}

func (m model) equal(o model) bool {
	if len(m) != len(o) {
		return false
	}
	for k, v := range m {
		ov, ok := o[k]
		if !ok || !bytes.Equal(v, ov) {
			return false
		}
	}
	return true
}

func (m model) keys() []string {
	ks := make([]string, 0, len(m))
	for k := range m {
		ks = append(ks, k)
	}
	sort.Strings(ks)
	return ks
}

// embedded reports whether key k is a proper prefix of another live key, i.e. whether its leaf
// hangs off an internal node's LeafNode pointer instead of being a stand-alone node.
func (m model) embedded(k string) bool {
	for o := range m {
		if len(o) > len(k) && o[:len(k)] == k {
			return true
		}
	}
	return false
}

func advKey(rng *rand.Rand, maxLen int) []byte {
	n := rng.IntN(maxLen + 1)
	k := make([]byte, n)
	for i := range k {
		k[i] = alphabet[rng.IntN(len(alphabet))]
	}
	return k
}

func advValue(rng *rand.Rand) []byte {
	switch rng.IntN(16) {
	case 0:
		v := make([]byte, 100+rng.IntN(1500))
		for i := range v {
			v[i] = byte(rng.IntN(256))
		}
		return v
	case 1, 2, 3:
		return []byte{} // empty value
	default:
		v := make([]byte, 1+rng.IntN(3))
		for i := range v {
			v[i] = alphabet[rng.IntN(len(alphabet))]
		}
		return v
	}
}

// op is one tree operation of a batch. Value == nil means Remove.
type op struct {
	Kind  string `json:"kind"`
	Key   []byte `json:"key"`
	Value []byte `json:"value"`
}

// Operation kinds (what the operation is relative to the state at the moment it is issued).
const (
	opInsertNew      = "insert-new"
	opOverwrite      = "overwrite"
	opNoopRewrite    = "noop-rewrite"
	opRemove         = "remove"
	opRemoveAbsent   = "remove-absent"
	opReinsertSame   = "reinsert-same-after-remove"
	opReinsertOther  = "reinsert-other-after-remove"
	opRemoveInserted = "remove-just-inserted"
)

// genBatch generates a batch against the current contents cur (which it does not modify) and
// returns the operations in issue order. Kinds are relative to the evolving working state.
func genBatch(rng *rand.Rand, cur model, maxOps int) []op {
	work := cur.clone()
	removedHere := map[string][]byte{} // keys removed in this batch that existed before -> old value
	insertedHere := map[string]bool{}  // keys that did not exist before and were inserted in this batch
	var ops []op
	n := 1 + rng.IntN(maxOps)
	if rng.IntN(12) == 0 {
		n = 0 // empty batch: r' has the hash of r
	}
	pickLive := func() (string, bool) {
		if len(work) == 0 {
			return "", false
		}
		ks := work.keys()
		return ks[rng.IntN(len(ks))], true
	}
	newKey := func() []byte {
		// Prefer keys related to live keys (extensions, prefixes, siblings) so that leaves move
		// between stand-alone and embedded positions.
		for try := 0; try < 8; try++ {
			var k []byte
			if base, ok := pickLive(); ok && rng.IntN(3) != 0 {
				b := []byte(base)
				switch rng.IntN(3) {
				case 0:
					k = append(append([]byte{}, b...), advKey(rng, 2)...)
					if len(k) == len(b) {
						k = append(k, alphabet[rng.IntN(len(alphabet))])
					}
				case 1:
					if len(b) > 0 {
						k = append([]byte{}, b[:rng.IntN(len(b))]...)
					} else {
						k = advKey(rng, 3)
					}
				default:
					k = append([]byte{}, b...)
					if len(k) > 0 {
						k[len(k)-1] = alphabet[rng.IntN(len(alphabet))]
					}
				}
			} else {
				k = advKey(rng, 6)
			}
			if _, live := work[string(k)]; !live {
				return k
			}
		}
		return nil
	}
	for len(ops) < n {
		switch c := rng.IntN(20); {
		case c < 5: // insert new
			k := newKey()
			if k == nil {
				continue
			}
			v := advValue(rng)
			kind := opInsertNew
			if old, was := removedHere[string(k)]; was {
				if bytes.Equal(old, v) {
					kind = opReinsertSame
				} else {
					kind = opReinsertOther
				}
			}
			if _, existed := cur[string(k)]; !existed {
				insertedHere[string(k)] = true
			}
			work[string(k)] = v
			ops = append(ops, op{kind, k, v})
		case c < 8: // overwrite
			k, ok := pickLive()
			if !ok {
				continue
			}
			v := advValue(rng)
			if bytes.Equal(v, work[k]) {
				v = append(append([]byte{}, v...), 'x')
			}
			work[k] = v
			ops = append(ops, op{opOverwrite, []byte(k), v})
		case c < 12: // no-op rewrite, preferably of an embedded leaf
			k, ok := pickLive()
			if !ok {
				continue
			}
			if rng.IntN(2) == 0 {
				for _, cand := range work.keys() {
					if work.embedded(cand) && rng.IntN(2) == 0 {
						k = cand
						break
					}
				}
			}
			ops = append(ops, op{opNoopRewrite, []byte(k), work[k]})
		case c < 15: // remove existing
			k, ok := pickLive()
			if !ok {
				continue
			}
			kind := opRemove
			if insertedHere[k] {
				kind = opRemoveInserted
			} else if _, was := removedHere[k]; !was {
				if old, existed := cur[k]; existed {
					removedHere[k] = old
				}
			}
			delete(work, k)
			ops = append(ops, op{kind, []byte(k), nil})
		case c < 16: // remove absent
			k := newKey()
			if k == nil {
				continue
			}
			ops = append(ops, op{opRemoveAbsent, k, nil})
		case c < 18: // remove then re-insert (same or other value)
			k, ok := pickLive()
			if !ok {
				continue
			}
			old := work[k]
			if _, was := removedHere[k]; !was {
				if o, existed := cur[k]; existed {
					removedHere[k] = o
				}
			}
			delete(work, k)
			kindRm := opRemove
			if insertedHere[k] {
				kindRm = opRemoveInserted
			}
			ops = append(ops, op{kindRm, []byte(k), nil})
			v := old
			kind := opReinsertSame
			if rng.IntN(3) == 0 {
				v = append(append([]byte{}, old...), 'y')
				kind = opReinsertOther
			}
			work[k] = v
			ops = append(ops, op{kind, []byte(k), v})
		default: // insert then remove inside the batch
			k := newKey()
			if k == nil {
				continue
			}
			v := advValue(rng)
			_, existed := cur[string(k)]
			if !existed {
				insertedHere[string(k)] = true
			}
			work[string(k)] = v
			ops = append(ops, op{opInsertNew, k, v})
			if rng.IntN(3) == 0 {
				k2, v2 := newKey(), advValue(rng)
				if k2 != nil {
					if _, e2 := cur[string(k2)]; !e2 {
						insertedHere[string(k2)] = true
					}
					work[string(k2)] = v2
					ops = append(ops, op{opInsertNew, k2, v2})
				}
			}
			delete(work, string(k))
			kind := opRemoveInserted
			if existed {
				kind = opRemove
			}
			ops = append(ops, op{kind, k, nil})
		}
	}
	return ops
}

// applyOps applies the operations to a copy of m.
func applyOps(m model, ops []op) model {
	out := m.clone()
	for _, o := range ops {
		if o.Value == nil {
			delete(out, string(o.Key))
		} else {
			out[string(o.Key)] = o.Value
		}
	}
	return out
}

// genFreshBatch generates a batch that only inserts new keys and overwrites existing keys, every
// key at most once and every value carrying 8 PRNG bytes, so that no node of the resulting tree
// can be identical to a node that exists anywhere in the database already. It is used for the
// competing (to be discarded) state candidates on the hashed badger backend, whose Finalize has
// the open C06 finding badger/finalize/discarded-sibling-recreated-preexisting-node.
func genFreshBatch(rng *rand.Rand, cur model, maxOps int) []op {
	n := 1 + rng.IntN(maxOps)
	touched := map[string]bool{}
	var ops []op
	fresh := func() []byte {
		v := make([]byte, 8+rng.IntN(3))
		for i := range v {
			v[i] = byte(rng.IntN(256))
		}
		return v
	}
	live := cur.keys()
	for try := 0; len(ops) < n && try < 4*n+8; try++ {
		if len(live) > 0 && rng.IntN(3) == 0 {
			k := live[rng.IntN(len(live))]
			if touched[k] {
				continue
			}
			touched[k] = true
			ops = append(ops, op{opOverwrite, []byte(k), fresh()})
			continue
		}
		var k []byte
		if len(live) > 0 && rng.IntN(2) == 0 {
			k = append(append([]byte{}, live[rng.IntN(len(live))]...), advKey(rng, 2)...)
		} else {
			k = advKey(rng, 6)
		}
		if _, ok := cur[string(k)]; ok || touched[string(k)] {
			continue
		}
		touched[string(k)] = true
		ops = append(ops, op{opInsertNew, k, fresh()})
	}
	return ops
}
