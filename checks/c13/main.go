// Check C13: storage sync applies exactly the announced state transition.
//
// See DESIGN.md "C13". Histories of finalized versions are produced through the real mkvs tree
// in a leader NodeDB of each backend; for every consecutive pair (r, r') the served write log is
// applied to a tree at r, and a follower LocalBackend is fed the honest and every corrupted log.
package main

import (
	"bytes"
	"context"
	"crypto/sha256"
	"encoding/hex"
	"encoding/json"
	"errors"
	"fmt"
	"os"
	"runtime/debug"
	"sort"
	"strings"
	"sync"

	"github.com/oasisprotocol/oasis-core/go/common"
	"github.com/oasisprotocol/oasis-core/go/common/crypto/hash"
	"github.com/oasisprotocol/oasis-core/go/common/logging"
	storageApi "github.com/oasisprotocol/oasis-core/go/storage/api"
	"github.com/oasisprotocol/oasis-core/go/storage/database"
	"github.com/oasisprotocol/oasis-core/go/storage/mkvs"
	dbApi "github.com/oasisprotocol/oasis-core/go/storage/mkvs/db/api"
	"github.com/oasisprotocol/oasis-core/go/storage/mkvs/db/badger"
	"github.com/oasisprotocol/oasis-core/go/storage/mkvs/db/pathbadger"
	"github.com/oasisprotocol/oasis-core/go/storage/mkvs/node"
	"github.com/oasisprotocol/oasis-core/go/storage/mkvs/writelog"

	"verif/engine/evid"
)

var testNs = common.NewTestNamespaceFromSeed([]byte("verif c13 storage sync ns"), 0)

var backends = []string{"badger", "pathbadger"}

func openDB(backend string) (dbApi.NodeDB, error) {
	cfg := &dbApi.Config{Namespace: testNs, MaxCacheSize: 4 * 1024 * 1024, NoFsync: true, MemoryOnly: true}
	switch backend {
	case "badger":
		return badger.New(cfg)
	case "pathbadger":
		return pathbadger.New(cfg)
	}
	return nil, fmt.Errorf("unknown backend %q", backend)
}

func openFollower(backend string) (storageApi.LocalBackend, error) {
	return database.New(&storageApi.Config{
		Backend: backend, Namespace: testNs, MaxCacheSize: 4 * 1024 * 1024, NoFsync: true, MemoryOnly: true,
		DiscardWriteLogs: false,
	})
}

type stats map[string]int64

func (s stats) add(k string, n int64) { s[k] += n }

type runner struct {
	r        *evid.Run
	versions int
	maxOps   int
	perKind  int

	mu    sync.Mutex
	stats stats
}

func (rn *runner) merge(st stats) {
	rn.mu.Lock()
	for k, v := range st {
		rn.stats[k] += v
	}
	rn.mu.Unlock()
}

func main() {
	_ = logging.Initialize(nil, logging.FmtLogfmt, logging.LevelError, nil)
	r := evid.Start("C13", "exploration")
	r.Rule = "PRNG histories of finalized versions (10 versions with batches of up to 10 operations; every fourth history 20 versions with up to 24) in a leader NodeDB of each backend (badger, pathbadger): " +
		"per version a state batch on a tree that is either kept open or REOPENED from the DB (mkvs.NewWithRoot), and in about half of the versions an IO root built from the empty root; batches mix insert-new, overwrite, " +
		"no-op rewrite (preferably of leaves embedded in internal nodes), remove, remove-absent, remove-then-reinsert (same/other value), insert-then-remove, empty values, occasional large values, " +
		"adversarial keys over {00,01,7f,80,ff,a,b} of length 0-6 related to live keys (extensions, prefixes, siblings). For every consecutive pair (r,r'): GetWriteLog must be served; applied to the reference map of r it must give the map of r' " +
		"and applied to mkvs.NewWithRoot(r) the committed hash must be r'; a follower LocalBackend (same backend, every third history the other one) gets every corrupted log " +
		"(dropped/duplicated/altered value/altered key/value<->nil per sampled entry, reordered, extra entry, truncated; neutrality decided with the reference map) and must refuse the non-neutral ones without making r' " +
		"(or any other new root of that version) visible, then the honest log must persist r'; after Finalize the follower reads back as the reference map. " +
		"COMPETING CANDIDATES: in about half of the versions (a quarter on badger) one or two further non-finalized state roots are committed from the same finalized parent by fresh trees, before or after the main candidate, and IO versions get one to three IO candidates; " +
		"BEFORE Finalize GetWriteLog(parent, candidate) of every candidate must either fail (counted by error class) or serve a log that applied to the reference map / a tree at the parent gives exactly that candidate; a PRNG-chosen candidate is finalized and checked as above; " +
		"AFTER Finalize the discarded candidates' logs must be refused or still lead exactly to the discarded root. " +
		"REFUSED COMMITS: in a third of the batches (main, competing and IO trees alike) the batch is cut at one or two PRNG positions where the same tree makes a commit attempt that must be refused " +
		"(already finalized version, version gap, version backwards, wrong namespace, CommitKnown with a hash the tree does not have, injected failure of the database batch commit), then goes on with at least one more operation and is committed successfully; " +
		"the write log RETURNED by every successful Commit and the served one must hold exactly the net changes of the whole batch (applied to r they give r'; every entry concerns a touched key and carries its final state). Minimal witnesses of the known findings are replayed first. " +
		"A pair is NON-TRIVIAL when its batch contains at least one removal and at least one no-op rewrite or remove-then-reinsert; distinct key = hash of (backend, follower, root type, reopened, operation list)."
	r.Assume("the reference map and the harness are correct; neutrality of a corrupted log is decided by applying it to the reference map of r and comparing with the map of r'")
	r.Assume("Apply is documented to bypass the log when the expected root already exists; corrupted logs are therefore applied before the honest one, at most one neutral corruption per pair, and pairs whose r' is the empty root are not corrupted")
	r.Assume("an Apply of a non-neutral corrupted log that fails with an error other than ErrExpectedRootMismatch is counted (corrupt_apply_error/...), not reported: the property only demands failure and invisibility of the result")
	r.Assume("a pair with identical hashes whose Commit returned an empty log has no stored write log in either backend (ErrWriteLogNotFound, counted under observed/...); the storage worker never requests such a diff (worker.go fetchDiff), so this is not reported")
	r.Assume("the order of a served write log is the iteration order of a Go map in Commit; the follower is fed the log sorted by key so that the case list is a function of the seed; the served order itself is exercised when the log is applied to a tree at r")
	r.Assume("on the hashed badger backend all candidates of a version with competing candidates use batches that only create nodes that never existed (fresh 8-byte values, no removals) and the main state candidate is the finalized one: the open C06 findings badger/finalize/discarded-sibling-recreated-preexisting-node and badger/prune|finalize node sharing between roots would otherwise make the finalized root unreadable; pathbadger candidates are unrestricted")
	r.Assume("pathbadger: a commit that fails after the tree has been walked (wrong namespace, already finalized version, known-root mismatch, failing batch) leaves database pointers of the failed batch on the dirty nodes and the next successful commit of the same tree stores a corrupt root on the unchanged tree (minimal history recorded under coverage.observation_pathbadger_tree_reuse_after_failed_commit, reported to the lead); therefore pathbadger trees only get the refusals its NewBatch makes before walking the tree (version gap / backwards / same-version child of a finalized root), and only badger trees exercise refusals at the batch-commit stage")
	r.Assume("the leader's state trees use mkvs.Capacity(0,0) (no eviction) because of the cache accounting finding mkvs/cache-valuesize-underflow/*; the real Apply path and the tree of step 2 use the default capacity, and a failure there is attributed to that finding only when the same operation succeeds on a non-evicting tree")

	rn := &runner{r: r, versions: 10, maxOps: 10, perKind: r.Pick(3, 4), stats: stats{}}
	nHist := r.Pick(240, 24000) // per backend pairs = nHist/2 * versions * ~1.5 (state + IO)

	if r.ReplayFile != "" {
		var doc struct {
			Seed    int64  `json:"seed"`
			Tier    string `json:"tier"`
			Witness struct {
				History int `json:"history"`
			} `json:"witness"`
		}
		b, err := os.ReadFile(r.ReplayFile)
		if err != nil || json.Unmarshal(b, &doc) != nil {
			fmt.Println("INCONCLUSIVE property=C13 cannot read replay file")
			os.Exit(2)
		}
		r.Seed, r.Tier = doc.Seed, doc.Tier
		rn.perKind = r.Pick(3, 4)
		replayKnownWitnessD3(r)
		replayKnownWitnessRootLeaf(r)
		replayKnownWitnessCacheUnderflow(r)
		if doc.Witness.History >= 0 {
			rn.runHistory(doc.Witness.History)
		}
		rn.finish(1)
		return
	}

	replayKnownWitnessD3(r)
	replayKnownWitnessRootLeaf(r)
	replayKnownWitnessCacheUnderflow(r)
	observePathbadgerReuseAfterFailedCommit(r)
	evid.Parallel(nHist, 0, func(h int) { rn.runHistory(h) })
	// Evicting-leader cases (evict.go): both backends per case index.
	nEvict := r.Pick(200, 40000)
	evid.Parallel(nEvict, 0, func(i int) {
		st := stats{}
		for _, b := range backends {
			rn.evictingCase(i, b, st)
			r.Eval(1)
		}
		rn.merge(st)
	})
	// Slow readers of a streamed write log while its version is pruned (evict.go).
	nStream := r.Pick(8, 120)
	evid.Parallel(nStream, 0, func(i int) {
		st := stats{}
		for _, b := range backends {
			rn.streamPruneCase(i, b, st)
			r.Eval(1)
		}
		rn.merge(st)
	})
	rn.finish(r.Pick(30, 300))
}

func (rn *runner) finish(floor int) {
	var ks []string
	for k := range rn.stats {
		ks = append(ks, k)
	}
	for _, k := range ks {
		rn.r.Count(k, rn.stats[k])
	}
	rn.r.Finish(floor)
}

// pairWitness is the replayable description of one pair.
type pairWitness struct {
	Seed       int64             `json:"seed"`
	Tier       string            `json:"tier"`
	History    int               `json:"history"`
	Backend    string            `json:"backend"`
	Follower   string            `json:"follower_backend"`
	RootType   string            `json:"root_type"`
	Version    uint64            `json:"version"`
	StartRoot  string            `json:"start_root"`
	EndRoot    string            `json:"end_root"`
	Facts      pairFacts         `json:"facts"`
	Before     []kv              `json:"contents_of_r"`
	Ops        []op              `json:"batch"`
	CommitLog  writelog.WriteLog `json:"log_returned_by_commit"`
	ServedLog  writelog.WriteLog `json:"log_served_by_getwritelog,omitempty"`
	Corruption *corruptedLog     `json:"corruption,omitempty"`
	// Phase is set for the checks on competing candidate roots: "pending-candidate" (asked before
	// Finalize) or "discarded-candidate" (asked after another candidate was finalized).
	Phase       string   `json:"phase,omitempty"`
	CommitOrder int      `json:"commit_order_among_candidates,omitempty"`
	Competitors []string `json:"candidate_roots_of_this_version_in_commit_order,omitempty"`
	Replay      string   `json:"replay_hint"`
}

// pairFacts are the recorded facts the classifier uses.
type pairFacts struct {
	// RefusedCommits lists the commit attempts of the same tree that were refused in the middle
	// of the batch (the tree then went on and was committed successfully).
	RefusedCommits []string `json:"refused_commit_attempts_during_the_batch,omitempty"`
	// Reopened: the tree that executed the batch was created with mkvs.NewWithRoot from the
	// database (at SessionStart) and not by the commits of this process' tree object.
	Reopened     bool   `json:"tree_reopened_from_db"`
	SessionStart uint64 `json:"tree_session_started_at_version"`
	// NoopOfLoadedEmbeddedLeaf lists keys (hex) for which every operation of the batch is an
	// insert of the pair that already exists, the key is a proper prefix of another live key both
	// in r and in r', and the key has not been written since the tree was reopened.
	NoopOfLoadedEmbeddedLeaf []string `json:"noop_rewrite_of_embedded_leaf_loaded_from_db"`
	// NoopKeys lists all keys whose only operations are no-op inserts.
	NoopKeys []string `json:"noop_rewrite_keys"`
	// SameHash: r' has the hash of r.
	SameHash bool `json:"end_hash_equals_start_hash"`
	// SingleLeafRoot: r holds exactly one key (its root node is a leaf) and that key is in NoopKeys.
	SingleLeafRoot bool `json:"root_of_r_is_single_leaf_that_is_noop_rewritten"`
	// EmptyCommitLog: Commit returned a write log without entries.
	EmptyCommitLog bool `json:"commit_log_empty"`
}

func errClass(err error) string {
	switch {
	case err == nil:
		return "nil"
	case errors.Is(err, storageApi.ErrExpectedRootMismatch):
		return "ErrExpectedRootMismatch"
	case errors.Is(err, dbApi.ErrWriteLogNotFound):
		return "ErrWriteLogNotFound"
	case errors.Is(err, dbApi.ErrRootNotFound):
		return "ErrRootNotFound"
	case errors.Is(err, dbApi.ErrNodeNotFound):
		return "ErrNodeNotFound"
	case errors.Is(err, dbApi.ErrRootMustFollowOld):
		return "ErrRootMustFollowOld"
	case errors.Is(err, dbApi.ErrAlreadyFinalized):
		return "ErrAlreadyFinalized"
	case errors.Is(err, dbApi.ErrNotFinalized):
		return "ErrNotFinalized"
	case errors.Is(err, dbApi.ErrPreviousVersionMismatch):
		return "ErrPreviousVersionMismatch"
	case strings.Contains(err.Error(), "failed to fetch node"):
		return "failed-to-fetch-node"
	case strings.Contains(err.Error(), "failed to fetch root node"):
		return "failed-to-fetch-root-node"
	default:
		return "other"
	}
}

// sigCacheFamily prefixes the signatures of all symptoms of the cache accounting defect (see
// sigCacheUnderflow). A symptom is attributed to it by a differential fact: the very same
// operation gives the expected result on a tree whose cache never evicts (mkvs.Capacity(0,0)).
const sigCacheFamily = "mkvs/cache-valuesize-underflow/"

type panicInfo struct {
	val   any
	stack string
}

// safeApply calls LocalBackend.Apply and recovers a panic of the code under test.
func safeApply(ctx context.Context, lb storageApi.LocalBackend, req *storageApi.ApplyRequest) (err error, pan *panicInfo) {
	defer func() {
		if rec := recover(); rec != nil {
			pan = &panicInfo{rec, string(debug.Stack())}
		}
	}()
	return lb.Apply(ctx, req), nil
}

// treeResult is the outcome of applying a write log to a fresh tree at r without persisting.
type treeResult struct {
	hash hash.Hash
	err  error
	pan  *panicInfo
}

func (t treeResult) ok(end node.Root) bool {
	return t.pan == nil && t.err == nil && t.hash.Equal(&end.Hash)
}

func (t treeResult) symptom() string {
	switch {
	case t.pan != nil:
		return "panic"
	case t.err != nil:
		return "error"
	default:
		return "wrong-root"
	}
}

func (t treeResult) String() string {
	switch {
	case t.pan != nil:
		return fmt.Sprintf("panic: %v", t.pan.val)
	case t.err != nil:
		return fmt.Sprintf("error: %v", t.err)
	default:
		return "root " + t.hash.String()
	}
}

// applyOnTree does what RootCache.Apply does (NewWithRoot at r, ApplyWriteLog, commit) but only
// computes the hash (NoPersist); noEvict selects a tree whose cache never evicts.
func applyOnTree(ctx context.Context, ndb dbApi.NodeDB, start, end node.Root, wl writelog.WriteLog, noEvict bool) (res treeResult) {
	defer func() {
		if rec := recover(); rec != nil {
			res.pan = &panicInfo{rec, string(debug.Stack())}
		}
	}()
	var opts []mkvs.Option
	if noEvict {
		opts = append(opts, mkvs.Capacity(0, 0))
	}
	t := mkvs.NewWithRoot(nil, ndb, start, opts...)
	defer t.Close()
	if err := t.ApplyWriteLog(ctx, writelog.NewStaticIterator(wl)); err != nil {
		res.err = err
		return
	}
	_, res.hash, res.err = t.Commit(ctx, testNs, end.Version, mkvs.NoPersist())
	return
}

// persistOnTree persists r' like RootCache.Apply, through a tree whose cache never evicts.
func persistOnTree(ctx context.Context, ndb dbApi.NodeDB, start, end node.Root, wl writelog.WriteLog) (err error) {
	defer func() {
		if rec := recover(); rec != nil {
			err = fmt.Errorf("panic: %v", rec)
		}
	}()
	t := mkvs.NewWithRoot(nil, ndb, start, mkvs.Capacity(0, 0))
	defer t.Close()
	if err = t.ApplyWriteLog(ctx, writelog.NewStaticIterator(wl)); err != nil {
		return err
	}
	_, err = t.CommitKnown(ctx, end)
	return err
}

// listRoots renders the set of roots the database lists for a version ("" on error: a version
// that does not exist yet).
func listRoots(ndb dbApi.NodeDB, version uint64) string {
	roots, err := ndb.GetRootsForVersion(version)
	if err != nil {
		return "error: " + errClass(err)
	}
	var out []string
	for _, x := range roots {
		out = append(out, x.Type.String()+":"+x.Hash.String())
	}
	sort.Strings(out)
	return strings.Join(out, ",")
}

// logProblem judges a write log of a batch: applied to the contents of r it must give the contents
// of r', and its entries must be exactly net changes of the batch: every entry concerns a key the
// batch touched and carries the key's final state. It returns "" or what is wrong.
func logProblem(before, after model, ops []op, wl writelog.WriteLog, strict bool) string {
	if got := applyLog(before, wl); !got.equal(after) {
		var missing []string
		for k, v := range after {
			if gv, ok := got[k]; !ok || !bytes.Equal(gv, v) {
				missing = append(missing, hex.EncodeToString([]byte(k)))
			}
		}
		for k := range got {
			if _, ok := after[k]; !ok {
				missing = append(missing, hex.EncodeToString([]byte(k))+"(should be absent)")
			}
		}
		sort.Strings(missing)
		if len(missing) > 6 {
			missing = append(missing[:6], "...")
		}
		return fmt.Sprintf("applied to the contents of r it does not give the contents of r' (%d vs %d keys; %d log entries; keys that end up wrong: %v)", len(got), len(after), len(wl), missing)
	}
	if !strict {
		return ""
	}
	touched := map[string]bool{}
	for _, o := range ops {
		touched[string(o.Key)] = true
	}
	for _, e := range wl {
		if !touched[string(e.Key)] {
			return fmt.Sprintf("it has an entry for key %x, which the batch never touched", e.Key)
		}
		fin, ok := after[string(e.Key)]
		if (e.Value == nil) == ok || (ok && !bytes.Equal(fin, e.Value)) {
			return fmt.Sprintf("its entry for key %x does not carry the key's final state", e.Key)
		}
	}
	return ""
}

func stackNow() []byte { return debug.Stack() }

func sortedLog(wl writelog.WriteLog) writelog.WriteLog {
	out := append(writelog.WriteLog{}, wl...)
	sort.SliceStable(out, func(i, j int) bool { return bytes.Compare(out[i].Key, out[j].Key) < 0 })
	return out
}

func drain(it writelog.Iterator) (writelog.WriteLog, error) {
	var wl writelog.WriteLog
	for {
		more, err := it.Next()
		if err != nil {
			return wl, err
		}
		if !more {
			return wl, nil
		}
		e, err := it.Value()
		if err != nil {
			return wl, err
		}
		wl = append(wl, e)
	}
}

func readAll(ctx context.Context, ndb dbApi.NodeDB, root node.Root) (model, error) {
	tree := mkvs.NewWithRoot(nil, ndb, root)
	defer tree.Close()
	it := tree.NewIterator(ctx)
	defer it.Close()
	out := model{}
	for it.Rewind(); it.Valid(); it.Next() {
		out[string(it.Key())] = append([]byte{}, it.Value()...)
	}
	return out, it.Err()
}

func applyToTree(ctx context.Context, tree mkvs.Tree, ops []op) error {
	for _, o := range ops {
		var err error
		switch {
		case o.Value == nil:
			err = tree.Remove(ctx, o.Key)
		case len(o.Value) == 0 && len(o.Key)%2 == 0:
			// An insert of the empty value is made with a NIL value slice for half of the keys (the
			// documented equivalent: Insert stores the empty value for a nil argument; no PRNG draw).
			err = tree.Insert(ctx, o.Key, nil)
		default:
			err = tree.Insert(ctx, o.Key, o.Value)
		}
		if err != nil {
			return fmt.Errorf("%s %x: %w", o.Kind, o.Key, err)
		}
	}
	return nil
}

// noopOnlyKeys returns the keys for which every operation of the batch is a no-op insert of the
// pair existing in before.
func noopOnlyKeys(before model, ops []op) []string {
	written := map[string]bool{}
	noop := map[string]bool{}
	for _, o := range ops {
		k := string(o.Key)
		old, ok := before[k]
		if o.Value != nil && ok && bytes.Equal(old, o.Value) && !written[k] {
			noop[k] = true
			continue
		}
		if o.Value == nil && !ok && !written[k] {
			continue // removal of an absent key touches nothing
		}
		written[k] = true
		delete(noop, k)
	}
	var out []string
	for k := range noop {
		out = append(out, k)
	}
	return out
}

func writtenKeys(before model, ops []op) map[string]bool {
	written := map[string]bool{}
	for _, o := range ops {
		k := string(o.Key)
		old, ok := before[k]
		if o.Value != nil && ok && bytes.Equal(old, o.Value) && !written[k] {
			continue
		}
		if o.Value == nil && !ok && !written[k] {
			continue
		}
		written[k] = true
	}
	return written
}

func nontrivialBatch(ops []op) bool {
	var removal, noopOrReinsert bool
	for _, o := range ops {
		switch o.Kind {
		case opRemove, opRemoveInserted:
			removal = true
		case opNoopRewrite, opReinsertSame, opReinsertOther:
			noopOrReinsert = true
		}
	}
	return removal && noopOrReinsert
}

// runHistory runs history h: leader backend h%2, follower the same backend or the other one.
func (rn *runner) runHistory(h int) {
	r := rn.r
	ctx := context.Background()
	st := stats{}
	defer rn.merge(st)
	backend := backends[h%2]
	fbackend := backend
	if (h/2)%3 == 2 {
		fbackend = backends[(h+1)%2]
	}
	rng := r.Rand(13, uint64(h))

	base := pairWitness{Seed: r.Seed, Tier: r.Tier, History: h, Backend: backend, Follower: fbackend}
	fail := func(sig, what string, w pairWitness) {
		w.Replay = fmt.Sprintf("./run.sh C13 replay <this file>  (re-runs history %d of seed %d tier %s)", w.History, w.Seed, w.Tier)
		r.Violation(sig, what, w)
	}
	// cursor describes what is being executed, for the witness of a panic of the code under test.
	cursor := base
	where := "setup"
	defer func() {
		if rec := recover(); rec != nil {
			stack := string(debug.Stack())
			// What the panicking tree session executed: the batch, or the (corrupted) log.
			var applied [][2][]byte
			if cursor.Corruption != nil {
				for _, e := range cursor.Corruption.Log {
					applied = append(applied, [2][]byte{e.Key, e.Value})
				}
			} else {
				for _, o := range cursor.Ops {
					applied = append(applied, [2][]byte{o.Key, o.Value})
				}
			}
			before := model{}
			for _, e := range cursor.Before {
				before[string(e.K)] = e.V
			}
			fail(classifyPanic(where, fmt.Sprint(rec), stack, before, applied), fmt.Sprintf("%v\n%s", rec, stack), cursor)
		}
	}()

	leader, err := openDB(backend)
	if err != nil {
		r.Inconclusive("cannot open %s leader db: %v", backend, err)
		return
	}
	defer leader.Close()
	// The trees of the history talk to the leader database through a wrapper that can inject a
	// failing batch commit.
	fdb := &faultDB{NodeDB: leader}
	var finalized *uint64
	follower, err := openFollower(fbackend)
	if err != nil {
		r.Inconclusive("cannot open %s follower: %v", fbackend, err)
		return
	}
	defer follower.Cleanup()

	firstVersion := uint64(1 + rng.IntN(3))
	cur := model{}
	prev := node.Root{Namespace: testNs, Version: firstVersion, Type: node.RootTypeState}
	prev.Hash.Empty()
	var (
		tree         mkvs.Tree
		sessionStart uint64
		reopened     bool
		sessEmbedded map[string]bool // keys continuously embedded and unwritten since the tree was reopened
	)
	defer func() {
		if tree != nil {
			tree.Close()
		}
	}()

	// Every fourth history is longer and uses bigger batches, so that trees grow to ~100 keys.
	versions, maxOps := rn.versions, rn.maxOps
	if h%8 >= 6 {
		versions, maxOps = 2*rn.versions, 24
	}
	for i := 0; i < versions; i++ {
		v := firstVersion + uint64(i)
		// Kept-open tree or tree reopened from the database.
		if tree == nil || rng.IntN(2) == 0 {
			if tree != nil {
				tree.Close()
			}
			// The leader's trees never evict (Capacity(0,0)): the cache accounting defect reported
			// as mkvs/cache-valuesize-underflow/... (own minimal witness; still reachable below
			// through the real Apply path and the default-capacity tree of step 2) would otherwise
			// corrupt the histories themselves.
			tree = mkvs.NewWithRoot(nil, fdb, prev, mkvs.Capacity(0, 0))
			sessionStart = prev.Version
			reopened = !prev.Hash.IsEmpty()
			sessEmbedded = map[string]bool{}
			if reopened {
				for k := range cur {
					if cur.embedded(k) {
						sessEmbedded[k] = true
					}
				}
			}
		}
		// Competing candidate roots: in about half of the versions (a quarter on badger) one or two
		// further state roots are derived from the same finalized parent by fresh trees (as other
		// proposers would) and committed without being finalized, before or after the main
		// candidate. A separate PRNG stream drives them.
		candRng := r.Rand(13, uint64(h), uint64(v), 11)
		nExtra := 0
		if candRng.IntN(2) == 0 && (backend != "badger" || candRng.IntN(2) == 0) {
			nExtra = 1 + candRng.IntN(2)
		}
		extrasFirst := candRng.IntN(2) == 0
		var ops []op
		if backend == "badger" && nExtra > 0 {
			// The hashed backend's Finalize loses nodes of the finalized root when sibling candidates
			// and re-created nodes meet (open C06 findings badger/finalize/...): all state candidates
			// of such a version, the main one included, only create nodes that never existed.
			ops = genFreshBatch(rng, cur, maxOps)
		} else {
			ops = genBatch(rng, cur, maxOps)
		}
		next := applyOps(cur, ops)

		type pair struct {
			start, end    node.Root
			before, after model
			ops           []op
			commitLog     writelog.WriteLog
			facts         pairFacts
			order         int // commit order among the candidates of its type in this version (1-based)
		}
		var pairs []pair

		var stateCands []pair
		order := 0
		commitExtras := func(rootType node.RootType, start node.Root, before model, n int, cands *[]pair, fresh bool) bool {
			for e := 0; e < n; e++ {
				var eops []op
				if fresh {
					// See genFreshBatch: open C06 findings of the hashed backend's Finalize.
					eops = genFreshBatch(candRng, before, maxOps)
				} else {
					eops = genBatch(candRng, before, maxOps)
				}
				eafter := applyOps(before, eops)
				var et mkvs.Tree
				if rootType == node.RootTypeState {
					et = mkvs.NewWithRoot(nil, fdb, start, mkvs.Capacity(0, 0))
				} else {
					et = mkvs.New(nil, fdb, rootType)
				}
				cursor = base
				cursor.RootType, cursor.Version, cursor.Ops, cursor.Before, cursor.Phase = rootType.String(), v, eops, before.sorted(), "competing-candidate-commit"
				where = "tree-batch-and-commit/" + backend
				nRef := 0
				if candRng.IntN(3) == 0 {
					nRef = 1 + candRng.IntN(2)
				}
				where = "tree-batch-with-refused-commits/" + backend
				attempts, accepted, err := applyWithRefusedCommits(ctx, et, fdb, eops, nRef, backend, start.Hash.IsEmpty() || rootType != node.RootTypeState, rootType, v, finalized, candRng, st)
				if err != nil {
					et.Close()
					fail("c13/"+backend+"/harness/tree-op-failed", err.Error(), base)
					return false
				}
				if accepted != "" {
					et.Close()
					st.add("observed/commit_expected_to_be_refused_was_accepted/"+backend, 1)
					return false
				}
				where = "tree-batch-and-commit/" + backend
				elog, ehash, err := et.Commit(ctx, testNs, v)
				et.Close()
				if err != nil {
					w := base
					w.Version, w.Ops, w.Before, w.RootType, w.Phase = v, eops, before.sorted(), rootType.String(), "competing-candidate-commit"
					fail("c13/"+backend+"/commit-failed/competing-candidate/"+errClass(err), fmt.Sprintf("Commit of a competing candidate root of version %d failed: %v", v, err), w)
					return false
				}
				st.add("competing_candidates_committed/"+backend+"/"+rootType.String(), 1)
				order++
				eend := node.Root{Namespace: testNs, Version: v, Type: rootType, Hash: ehash}
				ef := pairFacts{Reopened: rootType == node.RootTypeState && !start.Hash.IsEmpty(), SessionStart: start.Version, SameHash: ehash.Equal(&start.Hash), EmptyCommitLog: len(elog) == 0, RefusedCommits: attempts}
				if len(attempts) > 0 {
					st.add("batches_with_refused_commit_then_success/"+backend+"/"+rootType.String(), 1)
				}
				for _, k := range noopOnlyKeys(before, eops) {
					if len(before) == 1 {
						ef.SingleLeafRoot = true
					}
					ef.NoopKeys = append(ef.NoopKeys, hex.EncodeToString([]byte(k)))
					if ef.Reopened && before.embedded(k) && eafter.embedded(k) {
						ef.NoopOfLoadedEmbeddedLeaf = append(ef.NoopOfLoadedEmbeddedLeaf, hex.EncodeToString([]byte(k)))
					}
				}
				*cands = append(*cands, pair{start, eend, before, eafter, eops, elog, ef, order})
			}
			return true
		}
		if extrasFirst && !commitExtras(node.RootTypeState, prev, cur, nExtra, &stateCands, backend == "badger") {
			return
		}

		// State batch (main candidate).
		cursor = base
		cursor.RootType, cursor.Version, cursor.Ops, cursor.Before = "state-root", v, ops, cur.sorted()
		cursor.StartRoot = fmt.Sprintf("%d:%s", prev.Version, prev.Hash)
		cursor.Facts = pairFacts{Reopened: reopened, SessionStart: sessionStart}
		where = "tree-batch-and-commit/" + backend
		frng := r.Rand(13, uint64(h), uint64(v), 17)
		nRefused := 0
		if frng.IntN(3) == 0 {
			nRefused = 1 + frng.IntN(2)
		}
		where = "tree-batch-with-refused-commits/" + backend
		attempts, accepted, err := applyWithRefusedCommits(ctx, tree, fdb, ops, nRefused, backend, prev.Hash.IsEmpty(), node.RootTypeState, v, finalized, frng, st)
		if err != nil {
			fail("c13/"+backend+"/harness/tree-op-failed", err.Error(), base)
			return
		}
		if accepted != "" {
			// A commit that was expected to be refused went through: the history cannot go on.
			st.add("observed/commit_expected_to_be_refused_was_accepted/"+backend, 1)
			return
		}
		where = "tree-batch-and-commit/" + backend
		commitLog, hsh, err := tree.Commit(ctx, testNs, v)
		if err != nil {
			w := base
			w.Version, w.Ops, w.Before = v, ops, cur.sorted()
			fail("c13/"+backend+"/commit-failed/"+errClass(err), fmt.Sprintf("Commit of version %d failed: %v", v, err), w)
			return
		}
		order++
		end := node.Root{Namespace: testNs, Version: v, Type: node.RootTypeState, Hash: hsh}
		facts := pairFacts{Reopened: reopened, SessionStart: sessionStart, SameHash: hsh.Equal(&prev.Hash), EmptyCommitLog: len(commitLog) == 0, RefusedCommits: attempts}
		if len(attempts) > 0 {
			st.add("batches_with_refused_commit_then_success/"+backend+"/state-root", 1)
		}
		for _, k := range noopOnlyKeys(cur, ops) {
			if len(cur) == 1 {
				facts.SingleLeafRoot = true
			}
			facts.NoopKeys = append(facts.NoopKeys, hex.EncodeToString([]byte(k)))
			if reopened && sessEmbedded[k] && next.embedded(k) {
				facts.NoopOfLoadedEmbeddedLeaf = append(facts.NoopOfLoadedEmbeddedLeaf, hex.EncodeToString([]byte(k)))
			}
		}
		mainPair := pair{prev, end, cur, next, ops, commitLog, facts, order}
		stateCands = append(stateCands, mainPair)
		if !extrasFirst && !commitExtras(node.RootTypeState, prev, cur, nExtra, &stateCands, backend == "badger") {
			return
		}

		// IO roots from the empty root in about half of the versions (one to three candidates).
		var ioCands []pair
		ioVersion := rng.IntN(2) == 0
		ioStart := node.Root{Namespace: testNs, Version: v, Type: node.RootTypeIO}
		ioStart.Hash.Empty()
		if ioVersion {
			order = 0
			nIO := 1
			if candRng.IntN(2) == 0 {
				nIO += 1 + candRng.IntN(2)
			}
			if !commitExtras(node.RootTypeIO, ioStart, model{}, nIO, &ioCands, backend == "badger" && nIO > 1) {
				return
			}
		}

		// Candidates with a hash that another candidate of the version (or, for IO, the empty root)
		// already has are not distinguishable in the database; they are dropped from the checks.
		// dupRoots: roots (type:hash) that more than one tree committed in this version. The database
		// keeps the write log of the first committer, which belongs to another batch, so the served
		// log of such a root is only required to lead from r to r'.
		dupRoots := map[string]bool{}
		dedup := func(cands []pair, dropEmpty bool) []pair {
			seen := map[string]bool{}
			var out []pair
			for _, c := range cands {
				key := c.end.Hash.String()
				if seen[key] || (dropEmpty && c.end.Hash.IsEmpty()) {
					st.add("candidates_dropped_duplicate_or_empty", 1)
					dupRoots[c.end.Type.String()+":"+key] = true
					continue
				}
				seen[key] = true
				out = append(out, c)
			}
			return out
		}
		mainDup := false
		var dropped []pair
		{
			// The main candidate must survive de-duplication (its tree session goes on).
			var first []pair
			for _, c := range stateCands {
				if c.end.Hash.Equal(&mainPair.end.Hash) && c.order != mainPair.order {
					mainDup = true
					dupRoots[c.end.Type.String()+":"+c.end.Hash.String()] = true
					dropped = append(dropped, c)
					st.add("candidates_dropped_duplicate_or_empty", 1)
					continue
				}
				first = append(first, c)
			}
			stateCands = dedup(first, false)
		}
		mainCommittedExistingRoot := false
		if mainDup {
			for _, c := range dropped {
				if c.order < mainPair.order {
					mainCommittedExistingRoot = true
				}
			}
		}
		ioCands = dedup(ioCands, true)

		// Before Finalize: every candidate's write log is either refused or leads exactly to it.
		candRoots := func(cands []pair) []string {
			var out []string
			for _, c := range cands {
				out = append(out, fmt.Sprintf("#%d %s", c.order, c.end.Hash))
			}
			return out
		}
		checkCandidate := func(p pair, phase string, all []pair) {
			w := base
			w.RootType, w.Version, w.Phase, w.CommitOrder, w.Competitors = p.start.Type.String(), p.end.Version, phase, p.order, candRoots(all)
			w.StartRoot, w.EndRoot = fmt.Sprintf("%d:%s", p.start.Version, p.start.Hash), fmt.Sprintf("%d:%s", p.end.Version, p.end.Hash)
			w.Facts, w.Before, w.Ops, w.CommitLog = p.facts, p.before.sorted(), p.ops, p.commitLog
			cursor = w
			csfx := ""
			if len(p.facts.RefusedCommits) > 0 {
				csfx = "/after-refused-commit"
			}
			if phase == "pending-candidate" {
				if d := logProblem(p.before, p.after, p.ops, p.commitLog, true); d != "" {
					fail("c13/"+backend+"/commit-returned-log-wrong"+csfx, fmt.Sprintf("write log returned by Commit of candidate #%d of %d: %s", p.order, len(all), d), w)
				}
				st.add("returned_logs_checked", 1)
			}
			where = phase + "/getwritelog/" + backend
			r.Eval(1)
			var served writelog.WriteLog
			it, err := leader.GetWriteLog(ctx, p.start, p.end)
			if err == nil {
				served, err = drain(it)
			}
			if err != nil {
				// Refusing the log of a root that is not (or will never be) finalized is fine.
				st.add(phase+"/getwritelog/"+backend+"/"+errClass(err), 1)
				return
			}
			st.add(phase+"/getwritelog/"+backend+"/served", 1)
			w.ServedLog = served
			if d := logProblem(p.before, p.after, p.ops, served, !dupRoots[p.end.Type.String()+":"+p.end.Hash.String()]); d != "" {
				fail("c13/"+backend+"/"+phase+"/writelog-wrong-contents"+csfx, fmt.Sprintf("write log served for candidate #%d of %d (%s): %s", p.order, len(all), phase, d), w)
			}
			where = phase + "/apply-served-log-to-tree/" + backend
			res := applyOnTree(ctx, leader, p.start, p.end, served, false)
			if !res.ok(p.end) {
				res2 := applyOnTree(ctx, leader, p.start, p.end, served, true)
				sig := "c13/" + backend + "/" + phase + "/writelog-wrong-root" + csfx
				switch {
				case res2.ok(p.end):
					sig = sigCacheFamily + "served-log-on-tree-at-r/" + res.symptom()
				case res.pan != nil:
					sig = "panic/" + phase + "/apply-served-log-to-tree/" + backend
				case res.err != nil:
					sig = "c13/" + backend + "/" + phase + "/writelog-apply-error/" + errClass(res.err)
				}
				fail(sig, fmt.Sprintf("write log served for candidate #%d of %d (%s) applied to a tree at the parent root: %s; the candidate root is %s", p.order, len(all), phase, res, p.end.Hash), w)
			}
		}
		if len(stateCands) > 1 {
			st.add("versions_with_competing_state_candidates/"+backend, 1)
		}
		if len(ioCands) > 1 {
			st.add("versions_with_competing_io_candidates/"+backend, 1)
		}
		for _, cands := range [][]pair{stateCands, ioCands} {
			if len(cands) < 2 {
				continue
			}
			for _, c := range cands {
				checkCandidate(c, "pending-candidate", cands)
			}
		}

		// Finalize a PRNG-chosen candidate per type (the main state candidate in half of the cases,
		// so that kept-open tree sessions stay frequent).
		chosen := mainPair
		if len(stateCands) > 1 && candRng.IntN(2) == 0 && backend != "badger" {
			// (On badger the main candidate, whose batch is unrestricted, is never the discarded one.)
			chosen = stateCands[candRng.IntN(len(stateCands))]
		}
		if chosen.order != mainPair.order || mainCommittedExistingRoot {
			// The kept-open tree sits on a discarded root now: the next batch reopens at the chosen one.
			// The tree is also dropped when its Commit hit a root that an earlier candidate of this
			// version had committed already: pathbadger skips such a commit but the tree keeps the
			// database pointers of nodes that were never written, so its NEXT commit would persist
			// dangling references (reported to the lead as a C06-type finding, not part of C13).
			tree.Close()
			tree = nil
			if chosen.order != mainPair.order {
				st.add("finalized_candidate_is_not_the_main_one/"+backend, 1)
			} else {
				st.add("tree_dropped_after_commit_of_already_existing_root/"+backend, 1)
			}
		} else {
			// Session bookkeeping for the next batch of a kept-open tree.
			wr := writtenKeys(cur, ops)
			for k := range sessEmbedded {
				if wr[k] || !next.embedded(k) {
					delete(sessEmbedded, k)
				}
			}
		}
		next, end = chosen.after, chosen.end
		pairs = append(pairs, chosen)
		roots := []node.Root{end}
		var discarded [][]pair
		{
			var d []pair
			for _, c := range stateCands {
				if c.order != chosen.order {
					d = append(d, c)
				}
			}
			discarded = append(discarded, d)
		}
		if ioVersion {
			if len(ioCands) == 0 {
				// Every IO tree ended empty: there is no IO root to sync in this version.
				st.add("io_batches_ending_empty_skipped", 1)
				roots = append(roots, ioStart)
			} else {
				ioChosen := ioCands[candRng.IntN(len(ioCands))]
				pairs = append(pairs, ioChosen)
				roots = append(roots, ioChosen.end)
				var d []pair
				for _, c := range ioCands {
					if c.order != ioChosen.order {
						d = append(d, c)
					}
				}
				discarded = append(discarded, d)
			}
		}

		where = "finalize/" + backend
		if err := leader.Finalize(roots); err != nil {
			w := base
			w.Version, w.Ops, w.Before = v, ops, cur.sorted()
			fail("c13/"+backend+"/finalize-failed/"+errClass(err), fmt.Sprintf("Finalize(%v) failed: %v", roots, err), w)
			return
		}
		fv := v
		finalized = &fv

		// Sanity of the history itself: the leader's roots hold the reference contents.
		where = "leader-readback/" + backend
		for _, p := range pairs {
			got, err := readAll(ctx, leader, p.end)
			if err != nil || !got.equal(p.after) {
				w := base
				w.RootType, w.Version, w.Ops, w.Before, w.CommitLog, w.Facts = p.start.Type.String(), p.end.Version, p.ops, p.before.sorted(), p.commitLog, p.facts
				fail("c13/"+backend+"/leader-root-differs-from-reference-map", fmt.Sprintf("the committed root reads %d keys (err %v), the reference map has %d", len(got), err, len(p.after)), w)
				return
			}
		}

		// After Finalize: a discarded candidate's write log is refused, or still leads exactly to it.
		for _, ds := range discarded {
			for _, c := range ds {
				all := append([]pair{}, ds...)
				checkCandidate(c, "discarded-candidate", all)
			}
		}

		for _, p := range pairs {
			w := base
			w.RootType, w.Version = p.start.Type.String(), p.end.Version
			w.StartRoot, w.EndRoot = fmt.Sprintf("%d:%s", p.start.Version, p.start.Hash), fmt.Sprintf("%d:%s", p.end.Version, p.end.Hash)
			w.Facts, w.Before, w.Ops, w.CommitLog = p.facts, p.before.sorted(), p.ops, p.commitLog
			r.Eval(1)
			st.add("pairs/"+backend+"/"+p.start.Type.String(), 1)
			if p.facts.Reopened {
				st.add("pairs_on_reopened_tree/"+backend, 1)
			}
			if p.facts.SameHash {
				st.add("pairs_with_unchanged_hash/"+backend, 1)
			}
			for _, o := range p.ops {
				st.add("ops/"+o.Kind, 1)
				if o.Value != nil && len(o.Value) == 0 {
					st.add("ops_with_empty_value", 1)
				}
			}
			if len(p.facts.NoopOfLoadedEmbeddedLeaf) > 0 {
				st.add("pairs_with_noop_rewrite_of_loaded_embedded_leaf/"+backend, 1)
			}

			// The suffix tells apart pairs whose batch was interrupted by refused commit attempts.
			sfx := ""
			if len(p.facts.RefusedCommits) > 0 {
				sfx = "/after-refused-commit"
			}
			// 0. The write log returned by Commit holds exactly the net changes of the batch.
			if d := logProblem(p.before, p.after, p.ops, p.commitLog, true); d != "" {
				fail("c13/"+backend+"/commit-returned-log-wrong"+sfx, "write log returned by Commit: "+d, w)
			}
			st.add("returned_logs_checked", 1)

			// 1. The database must serve the write log of the pair.
			cursor = w
			where = "getwritelog/" + backend
			honest := p.commitLog
			var served writelog.WriteLog
			it, err := leader.GetWriteLog(ctx, p.start, p.end)
			if err == nil {
				served, err = drain(it)
			}
			st.add("getwritelog_calls/"+backend, 1)
			switch {
			case err != nil && p.end.Hash.IsEmpty():
				// r' is the empty root, which is implicitly present everywhere and never synced.
				st.add("observed/getwritelog_to_empty_root/"+backend+"/"+errClass(err), 1)
			case err != nil && p.facts.SameHash && errors.Is(err, dbApi.ErrWriteLogNotFound):
				// Both backends do not store an empty write log (and keep the first log when the
				// same root is committed twice); the storage worker never asks for the diff of two
				// roots with the same hash (worker.go fetchDiff).
				st.add("observed/empty_transition_log_not_stored/"+backend, 1)
			case err != nil:
				sig := classifyGetWriteLogFailure(backend, err, p.facts)
				fail(sig, fmt.Sprintf("GetWriteLog(%s -> %s) of a finalized consecutive pair failed: %v", w.StartRoot, w.EndRoot, err), w)
				st.add("getwritelog_failed/"+backend, 1)
			default:
				w.ServedLog = served
				honest = served
				st.add("served_log_entries", int64(len(served)))
				seen := map[string]bool{}
				for _, e := range served {
					if seen[string(e.Key)] {
						st.add("observed/served_log_with_duplicate_key/"+backend, 1)
					}
					seen[string(e.Key)] = true
				}
				// 2. Applied to r it must produce exactly r'.
				if d := logProblem(p.before, p.after, p.ops, served, !dupRoots[p.end.Type.String()+":"+p.end.Hash.String()]); d != "" {
					fail("c13/"+backend+"/writelog-wrong-contents"+sfx, "served write log: "+d, w)
				}
				where = "apply-served-log-to-tree/" + backend
				res := applyOnTree(ctx, leader, p.start, p.end, served, false)
				st.add("served_logs_applied_to_tree_at_r", 1)
				if !res.ok(p.end) {
					// Differential fact for the classifier: the same log on a tree that never evicts.
					res2 := applyOnTree(ctx, leader, p.start, p.end, served, true)
					sig := "c13/" + backend + "/writelog-wrong-root" + sfx
					switch {
					case res2.ok(p.end):
						sig = sigCacheFamily + "served-log-on-tree-at-r/" + res.symptom()
					case res.pan != nil:
						sig = "panic/apply-served-log-to-tree/" + backend
					case res.err != nil:
						sig = "c13/" + backend + "/writelog-apply-error/" + errClass(res.err)
					}
					fail(sig, fmt.Sprintf("served write log applied to a tree at r: %s; r' is %s (same log on a tree with eviction disabled: %s)", res, p.end.Hash, res2), w)
				}
			}

			// 3. Follower: corrupted logs first, then the honest one.
			req := func(wl writelog.WriteLog) *storageApi.ApplyRequest {
				return &storageApi.ApplyRequest{
					Namespace: testNs, RootType: p.end.Type,
					SrcRound: p.start.Version, SrcRoot: p.start.Hash,
					DstRound: p.end.Version, DstRoot: p.end.Hash,
					WriteLog: wl,
				}
			}
			fdb := follower.NodeDB()
			// The order of a write log is the iteration order of a Go map in Commit, i.e. it
			// differs from run to run. The follower is fed the log sorted by key and a separate
			// PRNG stream drives the corruptions, so that the case list is a function of the seed.
			honest = sortedLog(honest)
			crng := r.Rand(13, uint64(h), uint64(p.end.Version), uint64(p.end.Type), 7)
			if !p.end.Hash.IsEmpty() {
				cs := corruptions(crng, honest, p.before, p.after, rn.perKind)
				var neutral []corruptedLog
				for ci := range cs {
					c := cs[ci]
					if c.Neutral {
						neutral = append(neutral, c)
						st.add("corruptions_neutral/"+c.Kind, 1)
						continue
					}
					cw := w
					cw.Corruption = &c
					cursor = cw
					rootsBefore := listRoots(fdb, p.end.Version)
					where = "apply-corrupted-log/" + fbackend + "/" + c.Kind
					err, pan := safeApply(ctx, follower, req(c.Log))
					cursor = w
					st.add("corrupt_applies/"+fbackend+"/"+c.Kind, 1)
					if pan != nil {
						res2 := applyOnTree(ctx, fdb, p.start, p.end, c.Log, true)
						sig := "panic/apply-corrupted-log/" + fbackend + "/" + c.Kind
						if res2.pan == nil {
							sig = sigCacheFamily + "apply-panic"
						}
						fail(sig, fmt.Sprintf("Apply of a corrupted write log (%s) panicked: %v (same log on a tree with eviction disabled: %s)", c.Detail, pan.val, res2)+"\n"+pan.stack, cw)
						return
					}
					if err == nil {
						// Differential facts for the classifier: the same log on a tree that never (the reference map says it is not neutral).
						// evicts must not reach r' (the reference map says it is not neutral), while on a
						// default tree (what Apply uses) it does reach r' because writes were lost.
						res1 := applyOnTree(ctx, fdb, p.start, p.end, c.Log, false)
						res2 := applyOnTree(ctx, fdb, p.start, p.end, c.Log, true)
						sig := "c13/" + fbackend + "/apply-accepted-corrupt/" + c.Kind
						if res1.ok(p.end) && !res2.ok(p.end) {
							sig = sigCacheFamily + "corrupt-log-accepted"
						}
						fail(sig, fmt.Sprintf("Apply accepted a corrupted write log (%s) that does not lead to the contents of r' (r' is %s; same log on a default tree: %s; on a tree with eviction disabled: %s)", c.Detail, p.end.Hash, res1, res2), cw)
						break // r' is persisted now
					}
					if errors.Is(err, storageApi.ErrExpectedRootMismatch) {
						st.add("corrupt_apply_refused/ErrExpectedRootMismatch", 1)
					} else {
						st.add("corrupt_apply_error/"+fbackend+"/"+errClass(err), 1)
					}
					if fdb.HasRoot(p.end) {
						fail("c13/"+fbackend+"/root-visible-after-failed-apply", fmt.Sprintf("HasRoot(r') is true after a failed Apply of a corrupted write log (%s; Apply returned: %v)", c.Detail, err), cw)
						break
					}
					if rootsAfter := listRoots(fdb, p.end.Version); rootsAfter != rootsBefore {
						fail("c13/"+fbackend+"/result-of-failed-apply-persisted", fmt.Sprintf("a failed Apply of a corrupted write log (%s; Apply returned: %v) changed the roots stored for version %d from [%s] to [%s]", c.Detail, err, p.end.Version, rootsBefore, rootsAfter), cw)
						break
					}
				}
				// At most one neutral corruption, in a third of the pairs (it persists r').
				if len(neutral) > 0 && crng.IntN(3) == 0 && !fdb.HasRoot(p.end) {
					c := neutral[crng.IntN(len(neutral))]
					cursor.Corruption = &c
					where = "apply-neutral-corrupted-log/" + fbackend + "/" + c.Kind
					err, pan := safeApply(ctx, follower, req(c.Log))
					cursor = w
					if pan != nil {
						res2 := applyOnTree(ctx, fdb, p.start, p.end, c.Log, true)
						sig := "panic/apply-neutral-corrupted-log/" + fbackend + "/" + c.Kind
						if res2.pan == nil {
							sig = sigCacheFamily + "apply-panic"
						}
						fail(sig, fmt.Sprintf("Apply of a semantically neutral corrupted write log (%s) panicked: %v", c.Detail, pan.val)+"\n"+pan.stack, w)
						return
					}
					switch {
					case err == nil:
						st.add("neutral_corruption_accepted/"+c.Kind, 1)
					case errors.Is(err, storageApi.ErrExpectedRootMismatch):
						st.add("observed/neutral_corruption_refused/"+c.Kind, 1)
					default:
						st.add("observed/neutral_corruption_error/"+errClass(err), 1)
					}
				}
			} else {
				st.add("pairs_with_empty_end_root_not_corrupted", 1)
			}
			had := fdb.HasRoot(p.end)
			where = "apply-honest-log/" + fbackend
			if err, pan := safeApply(ctx, follower, req(honest)); err != nil || pan != nil {
				// Differential fact for the classifier: the same log on a tree that never evicts.
				res2 := applyOnTree(ctx, fdb, p.start, p.end, honest, true)
				switch {
				case pan != nil && res2.ok(p.end):
					fail(sigCacheFamily+"apply-panic", fmt.Sprintf("Apply of the honest write log panicked: %v (same log on a tree with eviction disabled: %s)", pan.val, res2)+"\n"+pan.stack, w)
					return
				case pan != nil:
					fail("panic/apply-honest-log/"+fbackend, fmt.Sprintf("Apply of the honest write log panicked: %v", pan.val)+"\n"+pan.stack, w)
					return
				case errors.Is(err, storageApi.ErrExpectedRootMismatch) && res2.ok(p.end):
					fail(sigCacheFamily+"honest-log-refused", fmt.Sprintf("Apply of the honest write log failed: %v (same log on a tree with eviction disabled: %s)", err, res2), w)
					// Persist r' through a tree that never evicts so that the history can go on.
					if perr := persistOnTree(ctx, fdb, p.start, p.end, honest); perr != nil {
						return
					}
				default:
					fail("c13/"+fbackend+"/apply-honest-failed/"+errClass(err), fmt.Sprintf("Apply of the honest write log failed: %v", err), w)
					return
				}
			}
			if !had {
				st.add("honest_applies/"+fbackend, 1)
			}
			if !fdb.HasRoot(p.end) {
				fail("c13/"+fbackend+"/root-missing-after-apply", "HasRoot(r') is false after a successful Apply of the honest write log", w)
				return
			}
			if nontrivialBatch(p.ops) {
				b, _ := json.Marshal(p.ops)
				d := sha256.Sum256(append([]byte(fmt.Sprintf("%s|%s|%s|%v|", backend, fbackend, p.start.Type, p.facts.Reopened)), b...))
				r.Nontrivial(hex.EncodeToString(d[:16]))
				r.Sample(map[string]any{"history": h, "backend": backend, "follower": fbackend, "root_type": p.start.Type.String(), "version": p.end.Version, "tree_reopened": p.facts.Reopened, "batch": p.ops, "served_log": served})
			}
		}

		// 4. The follower finalizes the version and must read back as the model.
		where = "follower-finalize-and-readback/" + fbackend
		if err := follower.NodeDB().Finalize(roots); err != nil {
			w := base
			w.Version = v
			fail("c13/"+fbackend+"/follower-finalize-failed/"+errClass(err), fmt.Sprintf("follower Finalize(%v) failed: %v", roots, err), w)
			return
		}
		for _, p := range pairs {
			got, err := readAll(ctx, follower.NodeDB(), p.end)
			if err != nil || !got.equal(p.after) {
				w := base
				w.RootType, w.Version, w.Ops, w.Before, w.CommitLog, w.Facts = p.start.Type.String(), p.end.Version, p.ops, p.before.sorted(), p.commitLog, p.facts
				fail("c13/"+fbackend+"/follower-contents-mismatch", fmt.Sprintf("follower reads %d keys (err %v) at r', the reference map has %d", len(got), err, len(p.after)), w)
				return
			}
			st.add("follower_readbacks", 1)
		}

		cur, prev = next, end
	}
	r.Distinct("histories", fmt.Sprint(h))
}
