package main

import (
	"bytes"
	"context"
	"fmt"
	"strings"

	"github.com/oasisprotocol/oasis-core/go/storage/mkvs"
	"github.com/oasisprotocol/oasis-core/go/storage/mkvs/node"
	"github.com/oasisprotocol/oasis-core/go/storage/mkvs/writelog"

	"verif/engine/evid"
)

// sigD3 is the signature of the finding DESIGN.md section 6, D3.
const sigD3 = "pathbadger/getwritelog/noop-rewrite-of-embedded-leaf-after-reopen"

// sigRootLeaf is the signature of the second shape of the same root cause: the tree is a single
// leaf (the root node), the batch re-inserts its unchanged pair (kept-open or reopened tree), the
// root hash does not change; the log entry then refers to the root node of the previous version.
const sigRootLeaf = "pathbadger/getwritelog/noop-rewrite-of-single-leaf-root-unchanged-hash"

// classifyGetWriteLogFailure derives the signature of a GetWriteLog failure from the recorded
// facts. Exactly the shape
//
//	backend pathbadger, error "failed to fetch node", the tree was reopened from the database,
//	and the batch re-inserts (only) the existing pair of a key that is a proper prefix of another
//	live key in r and in r' and has not been written since the reopen
//
// gets sigD3; every other failure gets "c13/<backend>/getwritelog-error/<errclass>[/...]".
func classifyGetWriteLogFailure(backend string, err error, f pairFacts) string {
	ec := errClass(err)
	if backend == "pathbadger" && ec == "failed-to-fetch-node" && f.Reopened && len(f.NoopOfLoadedEmbeddedLeaf) > 0 {
		return sigD3
	}
	if backend == "pathbadger" && ec == "failed-to-fetch-node" && f.SameHash && f.SingleLeafRoot {
		return sigRootLeaf
	}
	sig := "c13/" + backend + "/getwritelog-error/" + ec
	switch {
	case len(f.NoopKeys) > 0 && f.SameHash:
		sig += "/batch-with-noop-rewrite/unchanged-root-hash"
	case len(f.NoopKeys) > 0 && f.Reopened:
		sig += "/batch-with-noop-rewrite/reopened-tree"
	case len(f.NoopKeys) > 0:
		sig += "/batch-with-noop-rewrite/kept-open-tree"
	}
	return sig
}

// replayKnownWitnessD3 replays the minimal deterministic witness of D3 on both backends:
//
//	v1: insert a=1, ab=2 (the leaf of "a" is embedded in the internal node above "ab"); finalize.
//	reopen the tree from the database at r1; insert a=1 (unchanged) and c=3; commit v2; finalize.
//	GetWriteLog(r1, r2) must be served.
//
// The finding line is printed while the defect exists and disappears when it is repaired.
func replayKnownWitnessD3(r *evid.Run) {
	ctx := context.Background()
	for _, backend := range backends {
		var opsDone []string
		sig, what := func() (sig, what string) {
			defer func() {
				if rec := recover(); rec != nil {
					sig, what = "panic/known-witness/d3/"+backend, fmt.Sprint(rec)
				}
			}()
			ndb, err := openDB(backend)
			if err != nil {
				return "c13/" + backend + "/harness/open-db", err.Error()
			}
			defer ndb.Close()
			t1 := mkvs.New(nil, ndb, node.RootTypeState)
			_ = t1.Insert(ctx, []byte("a"), []byte("1"))
			_ = t1.Insert(ctx, []byte("ab"), []byte("2"))
			_, h1, err := t1.Commit(ctx, testNs, 1)
			t1.Close()
			if err != nil {
				return "c13/" + backend + "/commit-failed/" + errClass(err), err.Error()
			}
			r1 := node.Root{Namespace: testNs, Version: 1, Type: node.RootTypeState, Hash: h1}
			if err = ndb.Finalize([]node.Root{r1}); err != nil {
				return "c13/" + backend + "/finalize-failed/" + errClass(err), err.Error()
			}
			opsDone = append(opsDone, "tree from empty: Insert a=1; Insert ab=2; Commit v1; Finalize -> r1 "+h1.String())
			t2 := mkvs.NewWithRoot(nil, ndb, r1)
			_ = t2.Insert(ctx, []byte("a"), []byte("1"))
			_ = t2.Insert(ctx, []byte("c"), []byte("3"))
			_, h2, err := t2.Commit(ctx, testNs, 2)
			t2.Close()
			if err != nil {
				return "c13/" + backend + "/commit-failed/" + errClass(err), err.Error()
			}
			r2 := node.Root{Namespace: testNs, Version: 2, Type: node.RootTypeState, Hash: h2}
			if err = ndb.Finalize([]node.Root{r2}); err != nil {
				return "c13/" + backend + "/finalize-failed/" + errClass(err), err.Error()
			}
			opsDone = append(opsDone, "mkvs.NewWithRoot(r1): Insert a=1 (unchanged); Insert c=3; Commit v2; Finalize -> r2 "+h2.String(), "GetWriteLog(r1, r2)")
			facts := pairFacts{Reopened: true, SessionStart: 1, NoopKeys: []string{"61"}, NoopOfLoadedEmbeddedLeaf: []string{"61"}}
			it, err := ndb.GetWriteLog(ctx, r1, r2)
			var served writelog.WriteLog
			if err == nil {
				served, err = drain(it)
			}
			if err != nil {
				return classifyGetWriteLogFailure(backend, err, facts), fmt.Sprintf("GetWriteLog(r1, r2) failed: %v", err)
			}
			want := model{"a": []byte("1"), "ab": []byte("2"), "c": []byte("3")}
			if got := applyLog(model{"a": []byte("1"), "ab": []byte("2")}, served); !got.equal(want) {
				return "c13/" + backend + "/writelog-wrong-contents", fmt.Sprintf("served log %v does not lead to the contents of r2", served)
			}
			return "", ""
		}()
		r.Eval(1)
		r.Count("known_witness_replayed/d3/"+backend, 1)
		if sig != "" {
			r.Violation(sig, "minimal witness (no-op rewrite of an embedded leaf on a reopened tree): "+what, map[string]any{
				"backend": backend, "operations": opsDone, "minimal_witness": true, "history": -1,
			})
		}
	}
}

// replayKnownWitnessRootLeaf replays the minimal deterministic witness of sigRootLeaf on both
// backends: v1 = {a:1}; the same pair is inserted again (tree reopened from the database) and
// committed as v2, whose root hash equals that of v1; GetWriteLog(r1, r2) must be served.
func replayKnownWitnessRootLeaf(r *evid.Run) {
	ctx := context.Background()
	for _, backend := range backends {
		ops := []string{"tree from empty: Insert a=1; Commit v1; Finalize", "mkvs.NewWithRoot(r1): Insert a=1 (unchanged); Commit v2 (same root hash); Finalize", "GetWriteLog(r1, r2)"}
		sig, what := func() (sig, what string) {
			defer func() {
				if rec := recover(); rec != nil {
					sig, what = "panic/known-witness/root-leaf/"+backend, fmt.Sprint(rec)
				}
			}()
			ndb, err := openDB(backend)
			if err != nil {
				return "c13/" + backend + "/harness/open-db", err.Error()
			}
			defer ndb.Close()
			var roots [2]node.Root
			for i := 0; i < 2; i++ {
				var t mkvs.Tree
				if i == 0 {
					t = mkvs.New(nil, ndb, node.RootTypeState)
				} else {
					t = mkvs.NewWithRoot(nil, ndb, roots[0])
				}
				_ = t.Insert(ctx, []byte("a"), []byte("1"))
				_, h, err := t.Commit(ctx, testNs, uint64(i+1))
				t.Close()
				if err != nil {
					return "c13/" + backend + "/commit-failed/" + errClass(err), err.Error()
				}
				roots[i] = node.Root{Namespace: testNs, Version: uint64(i + 1), Type: node.RootTypeState, Hash: h}
				if err = ndb.Finalize([]node.Root{roots[i]}); err != nil {
					return "c13/" + backend + "/finalize-failed/" + errClass(err), err.Error()
				}
			}
			facts := pairFacts{Reopened: true, SessionStart: 1, NoopKeys: []string{"61"}, SameHash: roots[0].Hash.Equal(&roots[1].Hash), SingleLeafRoot: true}
			it, err := ndb.GetWriteLog(ctx, roots[0], roots[1])
			var served writelog.WriteLog
			if err == nil {
				served, err = drain(it)
			}
			if err != nil {
				return classifyGetWriteLogFailure(backend, err, facts), fmt.Sprintf("GetWriteLog(r1, r2) failed: %v", err)
			}
			want := model{"a": []byte("1")}
			if got := applyLog(want, served); !got.equal(want) {
				return "c13/" + backend + "/writelog-wrong-contents", fmt.Sprintf("served log %v does not lead to the contents of r2", served)
			}
			return "", ""
		}()
		r.Eval(1)
		r.Count("known_witness_replayed/root-leaf/"+backend, 1)
		if sig != "" {
			r.Violation(sig, "minimal witness (no-op rewrite of the only pair of a tree, root hash unchanged): "+what, map[string]any{
				"backend": backend, "operations": ops, "minimal_witness": true, "history": -1,
			})
		}
	}
}

// sigCacheUnderflow is the signature of the finding "mkvs cache value-size accounting underflows
// when a clean cached leaf is overwritten with a larger value (insert.go subtracts the NEW size in
// rollbackNode); every later load of a leaf then evicts all clean leaves, including one that has
// just become the embedded leaf of a dirty internal node; Commit dereferences its nil Node".
const sigCacheUnderflow = sigCacheFamily + "commit-panic"

// classifyPanic derives the signature of a panic of the code under test. Only a nil dereference
// of an internal node's LeafNode inside doCommit, in a tree session whose operations (a) insert a
// key that extends an existing, otherwise untouched key of r (that leaf becomes embedded in a new
// dirty internal node while it stays listed in the cache LRU) and (b) overwrite an existing key
// with a longer value (the accounting underflow) gets sigCacheUnderflow.
func classifyPanic(where, text, stack string, before model, applied [][2][]byte) string {
	nilLeaf := strings.Contains(text, "node.Node is nil, not *node.LeafNode") || strings.Contains(text, "nil pointer dereference")
	inCommit := strings.Contains(stack, "mkvs.doCommit") && (strings.Contains(stack, "nodeToDb") || strings.Contains(stack, "(*InternalNode).MarshalBinary"))
	if nilLeaf && inCommit && growsExistingValue(before, applied) && extendsExistingKey(before, applied) {
		return sigCacheUnderflow
	}
	return "panic/" + where
}

func growsExistingValue(before model, applied [][2][]byte) bool {
	for _, e := range applied {
		if old, ok := before[string(e[0])]; ok && e[1] != nil && len(e[1]) > len(old) {
			return true
		}
	}
	return false
}

func extendsExistingKey(before model, applied [][2][]byte) bool {
	for _, e := range applied {
		if e[1] == nil {
			continue
		}
		if _, ok := before[string(e[0])]; ok {
			continue
		}
		for k0 := range before {
			if len(k0) < len(e[0]) && bytes.HasPrefix(e[0], []byte(k0)) {
				return true
			}
		}
	}
	return false
}

// replayKnownWitnessCacheUnderflow replays the minimal deterministic witness of sigCacheUnderflow
// on both backends: v1 = {a:1, b:3, c:4}; a tree reopened at r1 executes Insert ax=9 (leaf "a"
// becomes the embedded leaf of a new internal node), Insert b=<1000 bytes> (underflow), Get c
// (loading leaf c evicts every clean leaf, also "a"), Commit. Commit must not panic.
func replayKnownWitnessCacheUnderflow(r *evid.Run) {
	ctx := context.Background()
	for _, backend := range backends {
		ops := []string{"tree from empty: Insert a=1, b=3, c=4; Commit v1; Finalize", "mkvs.NewWithRoot(r1): Insert ax=9; Insert b=<1000 x 'x'>; Get c; Commit v2"}
		sig, what := func() (sig, what string) {
			before := model{"a": []byte("1"), "b": []byte("3"), "c": []byte("4")}
			big := bytes.Repeat([]byte{'x'}, 1000)
			defer func() {
				if rec := recover(); rec != nil {
					sig = classifyPanic("known-witness/cache-underflow/"+backend, fmt.Sprint(rec), string(stackNow()), before, [][2][]byte{{[]byte("ax"), []byte("9")}, {[]byte("b"), big}})
					what = fmt.Sprint(rec)
				}
			}()
			ndb, err := openDB(backend)
			if err != nil {
				return "c13/" + backend + "/harness/open-db", err.Error()
			}
			defer ndb.Close()
			t1 := mkvs.New(nil, ndb, node.RootTypeState)
			for k, v := range before {
				_ = t1.Insert(ctx, []byte(k), v)
			}
			_, h1, err := t1.Commit(ctx, testNs, 1)
			t1.Close()
			if err != nil {
				return "c13/" + backend + "/commit-failed/" + errClass(err), err.Error()
			}
			r1 := node.Root{Namespace: testNs, Version: 1, Type: node.RootTypeState, Hash: h1}
			if err = ndb.Finalize([]node.Root{r1}); err != nil {
				return "c13/" + backend + "/finalize-failed/" + errClass(err), err.Error()
			}
			t2 := mkvs.NewWithRoot(nil, ndb, r1)
			defer t2.Close()
			_ = t2.Insert(ctx, []byte("ax"), []byte("9"))
			_ = t2.Insert(ctx, []byte("b"), big)
			_, _ = t2.Get(ctx, []byte("c"))
			if _, _, err = t2.Commit(ctx, testNs, 2); err != nil {
				return "c13/" + backend + "/commit-failed/" + errClass(err), err.Error()
			}
			return "", ""
		}()
		r.Eval(1)
		r.Count("known_witness_replayed/cache-underflow/"+backend, 1)
		if sig != "" {
			r.Violation(sig, "minimal witness: Commit of a reopened tree panics: "+what, map[string]any{
				"backend": backend, "operations": ops, "minimal_witness": true, "history": -1,
			})
		}
	}
}
