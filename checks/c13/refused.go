package main

import (
	"context"
	"errors"
	"fmt"
	"math/rand/v2"
	"sync/atomic"

	"github.com/oasisprotocol/oasis-core/go/common"
	"github.com/oasisprotocol/oasis-core/go/storage/mkvs"
	dbApi "github.com/oasisprotocol/oasis-core/go/storage/mkvs/db/api"
	"github.com/oasisprotocol/oasis-core/go/storage/mkvs/node"
)

// faultDB wraps the leader's NodeDB for the trees of a history: when armed, the next batch it
// hands out fails in Commit (an injected transient failure of the database); everything else is
// delegated.
type faultDB struct {
	dbApi.NodeDB
	failNext atomic.Bool
}

var errInjectedCommitFailure = errors.New("verif: injected failure of the node database batch commit")

func (f *faultDB) NewBatch(oldRoot node.Root, version uint64, chunk bool) (dbApi.Batch, error) {
	b, err := f.NodeDB.NewBatch(oldRoot, version, chunk)
	if err != nil {
		return nil, err
	}
	if f.failNext.Swap(false) {
		return &failingBatch{Batch: b}, nil
	}
	return b, nil
}

type failingBatch struct {
	dbApi.Batch
}

func (b *failingBatch) Commit(node.Root) error { return errInjectedCommitFailure }

var otherNs = common.NewTestNamespaceFromSeed([]byte("verif c13 some other namespace"), 0)

// The ways a commit of a tree with pending updates is refused without a crash:
// already-finalized-version, version-gap, version-backwards, wrong-namespace, known-root-mismatch,
// injected-batch-failure (see allowedRefusals).

// allowedRefusals returns the refusal kinds used for a tree.
//
//   - A tree that starts at the empty root takes its "old root" version from the commit, so a
//     version gap / backwards version is not a refusal reason for it.
//   - (Until fix "pathbadger kept database locations of a failed commit" a commit that failed
//     after the tree had been walked corrupted the next successful commit of the same tree on
//     pathbadger; both backends now get every refusal kind.)
func allowedRefusals(backend string, startEmpty bool) []string {
	switch {
	case startEmpty:
		return []string{"wrong-namespace", "injected-batch-failure", "known-root-mismatch", "already-finalized-version"}
	default:
		return []string{"wrong-namespace", "injected-batch-failure", "known-root-mismatch", "already-finalized-version", "version-gap", "version-backwards"}
	}
}

// refusedCommit makes one commit attempt of the given kind that the node database (or the
// known-root hook) must refuse. ok=false: this kind is not constructible here. The returned error
// is what the attempt answered (nil = the attempt was NOT refused).
func refusedCommit(ctx context.Context, tree mkvs.Tree, fdb *faultDB, kind string, rootType node.RootType, v uint64, finalized *uint64, rng *rand.Rand) (desc string, err error, ok bool) {
	switch kind {
	case "already-finalized-version":
		if finalized == nil {
			return "", nil, false
		}
		_, _, err = tree.Commit(ctx, testNs, *finalized)
		return fmt.Sprintf("Commit(version %d, already finalized)", *finalized), err, true
	case "version-gap":
		tv := v + 2 + uint64(rng.IntN(5))
		_, _, err = tree.Commit(ctx, testNs, tv)
		return fmt.Sprintf("Commit(version %d, the tree is at the parent of version %d)", tv, v), err, true
	case "version-backwards":
		if finalized == nil || *finalized == 0 {
			return "", nil, false
		}
		tv := *finalized - 1
		_, _, err = tree.Commit(ctx, testNs, tv)
		return fmt.Sprintf("Commit(version %d, before the last finalized version %d)", tv, *finalized), err, true
	case "wrong-namespace":
		_, _, err = tree.Commit(ctx, otherNs, v)
		return fmt.Sprintf("Commit(namespace of another runtime, version %d)", v), err, true
	case "known-root-mismatch":
		bogus := node.Root{Namespace: testNs, Version: v, Type: rootType}
		bogus.Hash.FromBytes([]byte("verif c13 bogus expected root"), []byte{byte(rng.IntN(256))})
		_, err = tree.CommitKnown(ctx, bogus)
		return fmt.Sprintf("CommitKnown(version %d, a root hash the tree does not have)", v), err, true
	case "injected-batch-failure":
		fdb.failNext.Store(true)
		_, _, err = tree.Commit(ctx, testNs, v)
		fdb.failNext.Store(false)
		return fmt.Sprintf("Commit(version %d) with an injected failure of the database batch commit", v), err, true
	}
	panic("unknown refusal kind " + kind)
}

// applyWithRefusedCommits applies the batch to the tree; when nRefused > 0 the batch is cut at
// PRNG positions (always leaving at least one operation for after the last attempt) and a commit
// attempt that must be refused is made at each cut. It returns the description of the attempts.
// accepted != "" reports an attempt that was NOT refused (the history cannot go on).
func applyWithRefusedCommits(ctx context.Context, tree mkvs.Tree, fdb *faultDB, ops []op, nRefused int, backend string, startEmpty bool, rootType node.RootType, v uint64, finalized *uint64, rng *rand.Rand, st stats) (attempts []string, accepted string, err error) {
	kinds := allowedRefusals(backend, startEmpty)
	if nRefused == 0 || len(ops) == 0 || len(kinds) == 0 {
		return nil, "", applyToTree(ctx, tree, ops)
	}
	cuts := make([]int, nRefused)
	for i := range cuts {
		cuts[i] = rng.IntN(len(ops)) // 0..len-1: at least one operation follows
	}
	if nRefused == 2 && cuts[0] > cuts[1] {
		cuts[0], cuts[1] = cuts[1], cuts[0]
	}
	pos := 0
	for _, c := range cuts {
		if err := applyToTree(ctx, tree, ops[pos:c]); err != nil {
			return attempts, "", err
		}
		pos = c
		kind := kinds[rng.IntN(len(kinds))]
		desc, cerr, ok := refusedCommit(ctx, tree, fdb, kind, rootType, v, finalized, rng)
		if !ok {
			// Not constructible yet (nothing finalized): fall back to the first allowed kind,
			// which always is.
			kind = kinds[0]
			desc, cerr, _ = refusedCommit(ctx, tree, fdb, kind, rootType, v, finalized, rng)
		}
		if cerr == nil {
			return attempts, fmt.Sprintf("after %d of %d operations: %s was accepted", c, len(ops), desc), nil
		}
		st.add("refused_commits/"+kind+"/"+refusalClass(cerr), 1)
		attempts = append(attempts, fmt.Sprintf("after %d of %d operations: %s -> %v", c, len(ops), desc, cerr))
	}
	return attempts, "", applyToTree(ctx, tree, ops[pos:])
}

func refusalClass(err error) string {
	switch {
	case errors.Is(err, errInjectedCommitFailure):
		return "injected"
	case errors.Is(err, mkvs.ErrKnownRootMismatch):
		return "ErrKnownRootMismatch"
	case errors.Is(err, dbApi.ErrBadNamespace):
		return "ErrBadNamespace"
	case errors.Is(err, dbApi.ErrVersionNotFound):
		return "ErrVersionNotFound"
	default:
		return errClass(err)
	}
}

// observePathbadgerReuseAfterFailedCommit replays, on both backends, the minimal history of the
// finding named in allowedRefusals and records the outcome in the evidence (no verdict):
// v1 = {a:1, b:2} finalized; tree reopened at r1: Insert c=3; Commit(other namespace, v2) refused;
// Insert d=4; Commit(v2) succeeds; Finalize; read r2 back.
func observePathbadgerReuseAfterFailedCommit(r interface{ Set(string, any) }) {
	ctx := context.Background()
	obs := map[string]any{}
	for _, backend := range backends {
		obs[backend] = func() (out string) {
			defer func() {
				if rec := recover(); rec != nil {
					out = fmt.Sprintf("reading the committed root panics: %v", rec)
				}
			}()
			ndb, err := openDB(backend)
			if err != nil {
				return "open: " + err.Error()
			}
			defer ndb.Close()
			t1 := mkvs.New(nil, ndb, node.RootTypeState)
			_ = t1.Insert(ctx, []byte("a"), []byte("1"))
			_ = t1.Insert(ctx, []byte("b"), []byte("2"))
			_, h1, err := t1.Commit(ctx, testNs, 1)
			t1.Close()
			if err != nil {
				return "commit v1: " + err.Error()
			}
			r1 := node.Root{Namespace: testNs, Version: 1, Type: node.RootTypeState, Hash: h1}
			if err = ndb.Finalize([]node.Root{r1}); err != nil {
				return "finalize v1: " + err.Error()
			}
			t2 := mkvs.NewWithRoot(nil, ndb, r1)
			defer t2.Close()
			_ = t2.Insert(ctx, []byte("c"), []byte("3"))
			_, _, rerr := t2.Commit(ctx, otherNs, 2)
			_ = t2.Insert(ctx, []byte("d"), []byte("4"))
			_, h2, err := t2.Commit(ctx, testNs, 2)
			if err != nil {
				return fmt.Sprintf("refused attempt: %v; second commit failed: %v", rerr, err)
			}
			r2 := node.Root{Namespace: testNs, Version: 2, Type: node.RootTypeState, Hash: h2}
			if err = ndb.Finalize([]node.Root{r2}); err != nil {
				return "finalize v2: " + err.Error()
			}
			got, err := readAll(ctx, ndb, r2)
			want := model{"a": []byte("1"), "b": []byte("2"), "c": []byte("3"), "d": []byte("4")}
			if err != nil || !got.equal(want) {
				return fmt.Sprintf("refused attempt: %v; committed root reads %d of 4 keys, err %v", rerr, len(got), err)
			}
			return fmt.Sprintf("refused attempt: %v; committed root reads back as expected", rerr)
		}()
	}
	r.Set("observation_pathbadger_tree_reuse_after_failed_commit", obs)
}
