package main

import (
	"context"
	"errors"
	"fmt"
	"math/rand/v2"
	"os"
	"sync/atomic"

	"github.com/oasisprotocol/oasis-core/go/common"
	"github.com/oasisprotocol/oasis-core/go/storage/mkvs"
	dbApi "github.com/oasisprotocol/oasis-core/go/storage/mkvs/db/api"
	"github.com/oasisprotocol/oasis-core/go/storage/mkvs/node"
)

// faultDB wraps the leader's NodeDB for the trees of a history: when armed, the next batch it
// hands out fails in Commit (an injected transient failure of the database); everything else is
// delegated.
type faultDB struct {
	dbApi.NodeDB
	failNext atomic.Bool
}

var errInjectedCommitFailure = errors.New("verif: injected failure of the node database batch commit")

func (f *faultDB) NewBatch(oldRoot node.Root, version uint64, chunk bool) (dbApi.Batch, error) {
	b, err := f.NodeDB.NewBatch(oldRoot, version, chunk)
	if err != nil {
		return nil, err
	}
	if f.failNext.Swap(false) {
		return &failingBatch{Batch: b}, nil
	}
	return b, nil
}

type failingBatch struct {
	dbApi.Batch
}

func (b *failingBatch) Commit(node.Root) error { return errInjectedCommitFailure }

var otherNs = common.NewTestNamespaceFromSeed([]byte("verif c13 some other namespace"), 0)

// refusalKinds are the ways a commit of a tree with pending updates is refused without a crash.
var refusalKinds = []string{"already-finalized-version", "version-gap", "version-backwards", "wrong-namespace", "known-root-mismatch", "injected-batch-failure"}

// refusedCommit makes one commit attempt of the given kind that the node database (or the
// known-root hook) must refuse. ok=false: this kind is not constructible here. The returned error
// is what the attempt answered (nil = the attempt was NOT refused).
func refusedCommit(ctx context.Context, tree mkvs.Tree, fdb *faultDB, kind string, rootType node.RootType, v uint64, finalized *uint64, rng *rand.Rand) (desc string, err error, ok bool) {
	switch kind {
	case "already-finalized-version":
		if finalized == nil {
			return "", nil, false
		}
		_, _, err = tree.Commit(ctx, testNs, *finalized)
		return fmt.Sprintf("Commit(version %d, already finalized)", *finalized), err, true
	case "version-gap":
		tv := v + 2 + uint64(rng.IntN(5))
		_, _, err = tree.Commit(ctx, testNs, tv)
		return fmt.Sprintf("Commit(version %d, the tree is at the parent of version %d)", tv, v), err, true
	case "version-backwards":
		if finalized == nil || *finalized == 0 {
			return "", nil, false
		}
		tv := *finalized - 1
		_, _, err = tree.Commit(ctx, testNs, tv)
		return fmt.Sprintf("Commit(version %d, before the last finalized version %d)", tv, *finalized), err, true
	case "wrong-namespace":
		_, _, err = tree.Commit(ctx, otherNs, v)
		return fmt.Sprintf("Commit(namespace of another runtime, version %d)", v), err, true
	case "known-root-mismatch":
		bogus := node.Root{Namespace: testNs, Version: v, Type: rootType}
		bogus.Hash.FromBytes([]byte("verif c13 bogus expected root"), []byte{byte(rng.IntN(256))})
		_, err = tree.CommitKnown(ctx, bogus)
		return fmt.Sprintf("CommitKnown(version %d, a root hash the tree does not have)", v), err, true
	case "injected-batch-failure":
		fdb.failNext.Store(true)
		_, _, err = tree.Commit(ctx, testNs, v)
		fdb.failNext.Store(false)
		return fmt.Sprintf("Commit(version %d) with an injected failure of the database batch commit", v), err, true
	}
	panic("unknown refusal kind " + kind)
}

// applyWithRefusedCommits applies the batch to the tree; when nRefused > 0 the batch is cut at
// PRNG positions (always leaving at least one operation for after the last attempt) and a commit
// attempt that must be refused is made at each cut. It returns the description of the attempts.
// accepted != "" reports an attempt that was NOT refused (the history cannot go on).
func applyWithRefusedCommits(ctx context.Context, tree mkvs.Tree, fdb *faultDB, ops []op, nRefused int, rootType node.RootType, v uint64, finalized *uint64, rng *rand.Rand, st stats) (attempts []string, accepted string, err error) {
	if nRefused == 0 || len(ops) == 0 {
		return nil, "", applyToTree(ctx, tree, ops)
	}
	cuts := make([]int, nRefused)
	for i := range cuts {
		cuts[i] = rng.IntN(len(ops)) // 0..len-1: at least one operation follows
	}
	if nRefused == 2 && cuts[0] > cuts[1] {
		cuts[0], cuts[1] = cuts[1], cuts[0]
	}
	pos := 0
	for _, c := range cuts {
		if err := applyToTree(ctx, tree, ops[pos:c]); err != nil {
			return attempts, "", err
		}
		pos = c
		kind := refusalKinds[rng.IntN(len(refusalKinds))]
		if ek := os.Getenv("C13_KIND"); ek != "" {
			kind = ek
		}
		desc, cerr, ok := refusedCommit(ctx, tree, fdb, kind, rootType, v, finalized, rng)
		if !ok {
			kind = []string{"wrong-namespace", "injected-batch-failure", "version-gap"}[rng.IntN(3)]
			desc, cerr, _ = refusedCommit(ctx, tree, fdb, kind, rootType, v, finalized, rng)
		}
		if cerr == nil {
			return attempts, fmt.Sprintf("after %d of %d operations: %s was accepted", c, len(ops), desc), nil
		}
		st.add("refused_commits/"+kind+"/"+refusalClass(cerr), 1)
		attempts = append(attempts, fmt.Sprintf("after %d of %d operations: %s -> %v", c, len(ops), desc, cerr))
	}
	return attempts, "", applyToTree(ctx, tree, ops[pos:])
}

func refusalClass(err error) string {
	switch {
	case errors.Is(err, errInjectedCommitFailure):
		return "injected"
	case errors.Is(err, mkvs.ErrKnownRootMismatch):
		return "ErrKnownRootMismatch"
	case errors.Is(err, dbApi.ErrBadNamespace):
		return "ErrBadNamespace"
	case errors.Is(err, dbApi.ErrVersionNotFound):
		return "ErrVersionNotFound"
	default:
		return errClass(err)
	}
}
