package main

import (
	"fmt"
	"math/rand/v2"

	"github.com/oasisprotocol/oasis-core/go/storage/mkvs/writelog"
)

// corruptedLog is one corruption of an honest write log.
type corruptedLog struct {
	Kind    string            `json:"kind"`
	Detail  string            `json:"detail"`
	Log     writelog.WriteLog `json:"log"`
	Neutral bool              `json:"neutral"` // decided with the model: applied to contents(r) it still yields contents(r')
}

// applyLog applies a write log to a copy of the model.
func applyLog(m model, wl writelog.WriteLog) model {
	out := m.clone()
	for _, e := range wl {
		if e.Value == nil {
			delete(out, string(e.Key))
		} else {
			out[string(e.Key)] = e.Value
		}
	}
	return out
}

func cloneLog(wl writelog.WriteLog) writelog.WriteLog {
	out := make(writelog.WriteLog, len(wl))
	for i, e := range wl {
		out[i] = writelog.LogEntry{Key: append([]byte{}, e.Key...)}
		if e.Value != nil {
			out[i].Value = append([]byte{}, e.Value...)
		}
	}
	return out
}

// corruptions builds the corrupted variants of an honest log: for each sampled entry index every
// entry-level kind, plus the log-level kinds. Neutrality is decided by applying the corrupted log
// to the model of r and comparing with the model of r'.
func corruptions(rng *rand.Rand, honest writelog.WriteLog, before, after model, perKind int) []corruptedLog {
	var out []corruptedLog
	add := func(kind, detail string, wl writelog.WriteLog) {
		out = append(out, corruptedLog{Kind: kind, Detail: detail, Log: wl, Neutral: applyLog(before, wl).equal(after)})
	}
	n := len(honest)
	idx := rng.Perm(n)
	if len(idx) > perKind {
		idx = idx[:perKind]
	}
	for _, i := range idx {
		e := honest[i]
		// entry dropped
		wl := cloneLog(honest)
		wl = append(wl[:i], wl[i+1:]...)
		add("dropped", fmt.Sprintf("entry %d (key %x) dropped", i, e.Key), wl)
		// entry duplicated (at a PRNG position)
		wl = cloneLog(honest)
		pos := rng.IntN(n + 1)
		dup := cloneLog(writelog.WriteLog{e})[0]
		wl = append(wl[:pos], append(writelog.WriteLog{dup}, wl[pos:]...)...)
		add("duplicated", fmt.Sprintf("entry %d (key %x) duplicated at position %d", i, e.Key, pos), wl)
		// altered value
		if e.Value != nil {
			wl = cloneLog(honest)
			switch {
			case len(wl[i].Value) == 0 || rng.IntN(3) == 0:
				wl[i].Value = append(wl[i].Value, alphabet[rng.IntN(len(alphabet))])
			case rng.IntN(2) == 0:
				wl[i].Value[rng.IntN(len(wl[i].Value))] ^= 1 << rng.IntN(8)
			default:
				wl[i].Value = wl[i].Value[:len(wl[i].Value)-1] // may become the empty (non-nil) value
			}
			add("altered-value", fmt.Sprintf("value of entry %d (key %x) altered to %x", i, e.Key, short(wl[i].Value)), wl)
		}
		// altered key
		wl = cloneLog(honest)
		switch {
		case len(wl[i].Key) == 0 || rng.IntN(3) == 0:
			wl[i].Key = append(wl[i].Key, alphabet[rng.IntN(len(alphabet))])
		case rng.IntN(2) == 0:
			wl[i].Key[rng.IntN(len(wl[i].Key))] ^= 1 << rng.IntN(8)
		default:
			wl[i].Key = wl[i].Key[:len(wl[i].Key)-1]
		}
		add("altered-key", fmt.Sprintf("key of entry %d altered from %x to %x", i, e.Key, wl[i].Key), wl)
		// value <-> nil
		wl = cloneLog(honest)
		if e.Value != nil {
			wl[i].Value = nil
			add("value-to-nil", fmt.Sprintf("entry %d (key %x): insert turned into removal", i, e.Key), wl)
		} else {
			if old, ok := before[string(e.Key)]; ok && rng.IntN(2) == 0 {
				wl[i].Value = append([]byte{}, old...) // resurrect the removed pair
			} else {
				wl[i].Value = []byte{}
			}
			add("nil-to-value", fmt.Sprintf("entry %d (key %x): removal turned into insert of %x", i, e.Key, short(wl[i].Value)), wl)
		}
	}
	// reordered
	if n >= 2 {
		wl := cloneLog(honest)
		a, b := rng.IntN(n), rng.IntN(n-1)
		if b >= a {
			b++
		}
		wl[a], wl[b] = wl[b], wl[a]
		add("reordered", fmt.Sprintf("entries %d and %d swapped", a, b), wl)
		wl = cloneLog(honest)
		for l, r := 0, n-1; l < r; l, r = l+1, r-1 {
			wl[l], wl[r] = wl[r], wl[l]
		}
		add("reordered", "log reversed", wl)
	}
	// extra entry
	{
		wl := cloneLog(honest)
		k := append(advKey(rng, 4), 'q')
		pos := rng.IntN(n + 1)
		wl = append(wl[:pos], append(writelog.WriteLog{{Key: k, Value: []byte("extra")}}, wl[pos:]...)...)
		add("extra-entry", fmt.Sprintf("insert of foreign key %x added at position %d", k, pos), wl)
	}
	// truncated / emptied
	if n >= 1 {
		cut := rng.IntN(n)
		add("truncated", fmt.Sprintf("log cut to its first %d of %d entries", cut, n), cloneLog(honest[:cut]))
	}
	return out
}

func short(b []byte) []byte {
	if len(b) > 12 {
		return b[:12]
	}
	return b
}
