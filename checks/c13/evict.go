package main

// Evicting-leader cases of check C13.
//
// The main histories keep the leader's trees free of cache eviction. Here the leader's
// tree has a small VALUE cache, so clean leaves legitimately leave the cache between the
// moment a batch touches them and the commit (a no-op rewrite keeps a pointer to the clean
// leaf in the pending write log; reading many other keys afterwards evicts its node). The
// log the database stores and serves for (r, r') must still turn r into r'.
//
// Keys have a fixed length, so no key is a prefix of another and no leaf is embedded in an
// internal node: the open cache findings of C02/C03 (embedded leaves evicted on their own;
// node capacity below the working set) cannot occur. Node capacity is unlimited.

import (
	"bytes"
	"context"
	"fmt"
	"math/rand/v2"
	"sort"
	"time"

	"github.com/oasisprotocol/oasis-core/go/common/crypto/hash"
	"github.com/oasisprotocol/oasis-core/go/storage/mkvs"
	"github.com/oasisprotocol/oasis-core/go/storage/mkvs/node"
	"github.com/oasisprotocol/oasis-core/go/storage/mkvs/writelog"
)

type evictWitness struct {
	Seed     int64    `json:"seed"`
	Case     int      `json:"evicting_case"`
	Backend  string   `json:"backend"`
	ValueCap uint64   `json:"value_capacity_bytes"`
	Keys     int      `json:"keys_in_r"`
	Ops      []string `json:"batch"`
	Served   []string `json:"served_log,omitempty"`
	Detail   string   `json:"detail"`
}

func (rn *runner) evictingCase(idx int, backend string, st stats) {
	r := rn.r
	rng := r.Rand(700, uint64(idx))
	ctx := context.Background()
	ndb, err := openDB(backend)
	if err != nil {
		r.Inconclusive("evicting case: open %s: %v", backend, err)
		return
	}
	defer ndb.Close()
	valCap := []uint64{48, 96, 200, 512}[rng.IntN(4)]
	nKeys := 30 + rng.IntN(90)
	w := evictWitness{Seed: r.Seed, Case: idx, Backend: backend, ValueCap: valCap, Keys: nKeys}
	fail := func(sig, detail string) {
		w.Detail = detail
		r.Violation("c13/"+backend+"/evicting-leader/"+sig, fmt.Sprintf("leader tree with value cache of %d bytes, %d prefix-free keys: %s", valCap, nKeys, detail), w)
	}
	rndVal := func() []byte {
		v := make([]byte, 6+rng.IntN(30))
		for i := range v {
			v[i] = byte(rng.UintN(256))
		}
		return v
	}
	cur := map[string][]byte{}
	var keys []string
	for len(cur) < nKeys {
		k := fmt.Sprintf("%04x", rng.UintN(1<<16))
		if _, ok := cur[k]; !ok {
			cur[k] = rndVal()
			keys = append(keys, k)
		}
	}
	sort.Strings(keys)
	// version 1: everything, through a non-evicting tree
	t1 := mkvs.New(nil, ndb, node.RootTypeState, mkvs.Capacity(0, 0))
	for _, k := range keys {
		if err = t1.Insert(ctx, []byte(k), cur[k]); err != nil {
			fail("setup-error", "insert: "+err.Error())
			return
		}
	}
	_, h1, err := t1.Commit(ctx, testNs, 1)
	t1.Close()
	if err != nil {
		fail("setup-error", "commit v1: "+err.Error())
		return
	}
	r1 := node.Root{Namespace: testNs, Version: 1, Type: node.RootTypeState, Hash: h1}
	if err = ndb.Finalize([]node.Root{r1}); err != nil {
		fail("setup-error", "finalize v1: "+err.Error())
		return
	}
	before := map[string][]byte{}
	for k, v := range cur {
		before[k] = v
	}

	// version 2: a batch on a tree reopened at r1 with the small value cache
	tree := mkvs.NewWithRoot(nil, ndb, r1, mkvs.Capacity(0, valCap))
	defer tree.Close()
	nTouch := 3 + rng.IntN(8)
	touched := map[string]bool{}
	noops := 0
	for i := 0; i < nTouch; i++ {
		k := keys[rng.IntN(len(keys))]
		if touched[k] {
			continue
		}
		touched[k] = true
		switch x := rng.IntN(10); {
		case x < 5: // no-op rewrite of the stored value
			if v, ok := cur[k]; ok {
				if err = tree.Insert(ctx, []byte(k), v); err != nil {
					fail("op-error", "rewrite: "+err.Error())
					return
				}
				w.Ops = append(w.Ops, "rewrite "+k)
				noops++
			}
		case x < 7:
			v := rndVal()
			if err = tree.Insert(ctx, []byte(k), v); err != nil {
				fail("op-error", "overwrite: "+err.Error())
				return
			}
			cur[k] = v
			w.Ops = append(w.Ops, "overwrite "+k)
		case x < 9:
			if err = tree.Remove(ctx, []byte(k)); err != nil {
				fail("op-error", "remove: "+err.Error())
				return
			}
			delete(cur, k)
			w.Ops = append(w.Ops, "remove "+k)
		default:
			nk := fmt.Sprintf("%04x", rng.UintN(1<<16))
			if _, ok := before[nk]; ok || touched[nk] {
				continue
			}
			touched[nk] = true
			v := rndVal()
			if err = tree.Insert(ctx, []byte(nk), v); err != nil {
				fail("op-error", "insert: "+err.Error())
				return
			}
			cur[nk] = v
			w.Ops = append(w.Ops, "insert "+nk)
		}
		// read other keys: their leaves push the touched ones out of the value cache
		for j := 0; j < 10+rng.IntN(40); j++ {
			ok := keys[rng.IntN(len(keys))]
			if touched[ok] {
				continue
			}
			got, gerr := tree.Get(ctx, []byte(ok))
			if gerr != nil {
				fail("op-error", "get: "+gerr.Error())
				return
			}
			if !bytes.Equal(got, before[ok]) {
				fail("get-wrong-value", fmt.Sprintf("Get(%s) on the evicting tree returned %x, stored %x", ok, got, before[ok]))
				return
			}
		}
	}
	st.add("evicting-leader/cases/"+backend, 1)
	st.add("evicting-leader/noop-rewrites", int64(noops))
	returned, h2, err := tree.Commit(ctx, testNs, 2)
	if err != nil {
		fail("commit-error", "commit v2: "+err.Error())
		return
	}
	want2 := refRootOf(ctx, cur)
	if !h2.Equal(&want2) {
		fail("commit-root-wrong", fmt.Sprintf("root committed by the evicting tree %s != root of the same contents built by a non-evicting tree %s", h2, want2))
		return
	}
	r2 := node.Root{Namespace: testNs, Version: 2, Type: node.RootTypeState, Hash: h2}
	if err = ndb.Finalize([]node.Root{r2}); err != nil {
		fail("finalize-error", err.Error())
		return
	}
	if h1.Equal(&h2) {
		st.add("evicting-leader/unchanged-root", 1)
		return
	}
	check := func(kind string, wl writelog.WriteLog) bool {
		m := map[string][]byte{}
		for k, v := range before {
			m[k] = v
		}
		for _, e := range wl {
			if e.Value == nil {
				delete(m, string(e.Key))
			} else {
				m[string(e.Key)] = e.Value
			}
		}
		var bad []string
		for k, v := range cur {
			if g, ok := m[k]; !ok || !bytes.Equal(g, v) {
				bad = append(bad, k)
			}
		}
		for k := range m {
			if _, ok := cur[k]; !ok {
				bad = append(bad, k)
			}
		}
		if len(bad) > 0 {
			sort.Strings(bad)
			for _, e := range wl {
				w.Served = append(w.Served, fmt.Sprintf("%s=%x", e.Key, e.Value))
			}
			fail(kind+"-log-wrong-contents", fmt.Sprintf("the %s write log of (r1,r2), applied to the contents of r1, does not give the contents of r2; keys that end up wrong: %v", kind, bad))
			return false
		}
		return true
	}
	if !check("returned", returned) {
		return
	}
	it, err := ndb.GetWriteLog(ctx, r1, r2)
	if err != nil {
		fail("getwritelog-error", err.Error())
		return
	}
	served, err := drain(it)
	if err != nil {
		fail("getwritelog-error", err.Error())
		return
	}
	st.add("evicting-leader/served-logs-checked/"+backend, 1)
	if !check("served", served) {
		return
	}
	// and on a real tree at r1
	ft := mkvs.NewWithRoot(nil, ndb, r1, mkvs.Capacity(0, 0))
	defer ft.Close()
	if err = ft.ApplyWriteLog(ctx, writelog.NewStaticIterator(served)); err != nil {
		fail("apply-served-error", err.Error())
		return
	}
	fit := ft.NewIterator(ctx)
	defer fit.Close()
	n := 0
	for fit.Rewind(); fit.Valid(); fit.Next() {
		if v, ok := cur[string(fit.Key())]; !ok || !bytes.Equal(v, fit.Value()) {
			fail("served-log-wrong-contents-on-tree", fmt.Sprintf("served log applied to a tree at r1: key %s has value %x, r2 holds %x (present=%v)", fit.Key(), fit.Value(), v, ok))
			return
		}
		n++
	}
	if fit.Err() != nil {
		fail("apply-served-error", "iteration: "+fit.Err().Error())
		return
	}
	if n != len(cur) {
		fail("served-log-wrong-contents-on-tree", fmt.Sprintf("served log applied to a tree at r1 gives %d keys, r2 holds %d", n, len(cur)))
		return
	}
	if noops > 0 {
		r.Nontrivial(fmt.Sprintf("evicting-leader/%s/%d", backend, idx))
	}
}

// refRootOf builds the contents on a fresh non-evicting in-memory tree and returns its root hash.
func refRootOf(ctx context.Context, m map[string][]byte) hash.Hash {
	t := mkvs.New(nil, nil, node.RootTypeState, mkvs.Capacity(0, 0))
	defer t.Close()
	ks := make([]string, 0, len(m))
	for k := range m {
		ks = append(ks, k)
	}
	sort.Strings(ks)
	for _, k := range ks {
		_ = t.Insert(ctx, []byte(k), m[k])
	}
	_, h, _ := t.Commit(ctx, testNs, 2)
	return h
}

var _ = rand.IntN

// streamPruneCase: the write log of a version with more entries than the streaming iterator
// buffers is read slowly while that version is pruned. Failing to serve a log whose version is
// gone is fine; a log that ENDS WITHOUT AN ERROR must be complete. (The pause only lets the
// producer fill its buffer; the verdict does not depend on it.)
func (rn *runner) streamPruneCase(idx int, backend string, st stats) {
	r := rn.r
	rng := r.Rand(710, uint64(idx))
	ctx := context.Background()
	ndb, err := openDB(backend)
	if err != nil {
		r.Inconclusive("stream case: open %s: %v", backend, err)
		return
	}
	defer ndb.Close()
	n := 120 + rng.IntN(200)
	w := map[string]any{"seed": r.Seed, "stream_case": idx, "backend": backend, "entries": n}
	fail := func(sig, detail string) {
		r.Violation("c13/"+backend+"/stream-during-prune/"+sig, fmt.Sprintf("write log of %d entries read slowly while its version is pruned: %s", n, detail), w)
	}
	want := map[string][]byte{}
	tree := mkvs.New(nil, ndb, node.RootTypeState, mkvs.Capacity(0, 0))
	defer tree.Close()
	for i := 0; i < n; i++ {
		k, v := fmt.Sprintf("key %04d", i), []byte(fmt.Sprintf("value %d-%d", i, rng.IntN(1000)))
		if err = tree.Insert(ctx, []byte(k), v); err != nil {
			fail("setup-error", err.Error())
			return
		}
		want[k] = v
	}
	_, h1, err := tree.Commit(ctx, testNs, 1)
	if err != nil {
		fail("setup-error", err.Error())
		return
	}
	r1 := node.Root{Namespace: testNs, Version: 1, Type: node.RootTypeState, Hash: h1}
	if err = ndb.Finalize([]node.Root{r1}); err != nil {
		fail("setup-error", err.Error())
		return
	}
	if err = tree.Insert(ctx, []byte("another key"), []byte("another value")); err != nil {
		fail("setup-error", err.Error())
		return
	}
	_, h2, err := tree.Commit(ctx, testNs, 2)
	if err != nil {
		fail("setup-error", err.Error())
		return
	}
	if err = ndb.Finalize([]node.Root{{Namespace: testNs, Version: 2, Type: node.RootTypeState, Hash: h2}}); err != nil {
		fail("setup-error", err.Error())
		return
	}
	empty := node.Root{Namespace: testNs, Version: 1, Type: node.RootTypeState}
	empty.Hash.Empty()
	it, err := ndb.GetWriteLog(ctx, empty, r1)
	if err != nil {
		fail("getwritelog-error", err.Error())
		return
	}
	got := map[string][]byte{}
	read := 0
	var readErr error
	readOne := func() bool {
		more, nerr := it.Next()
		if nerr != nil {
			readErr = nerr
			return false
		}
		if !more {
			return false
		}
		e, verr := it.Value()
		if verr != nil {
			readErr = verr
			return false
		}
		if e.Value == nil {
			delete(got, string(e.Key))
		} else {
			got[string(e.Key)] = e.Value
		}
		read++
		return true
	}
	if !readOne() {
		fail("first-entry-not-served", fmt.Sprint(readErr))
		return
	}
	time.Sleep(150 * time.Millisecond)
	if err = ndb.Prune(1); err != nil {
		fail("prune-error", err.Error())
		return
	}
	// One more entry, then another pause: the producer refills its buffer and meets the pruned
	// nodes while the buffer is full.
	if readOne() {
		time.Sleep(150 * time.Millisecond)
		for readOne() {
		}
	}
	st.add("stream-during-prune/cases/"+backend, 1)
	if readErr != nil {
		st.add("stream-during-prune/refused-after-prune/"+backend, 1)
		return
	}
	st.add("stream-during-prune/served-to-the-end/"+backend, 1)
	bad := 0
	for k, v := range want {
		if g, ok := got[k]; !ok || !bytes.Equal(g, v) {
			bad++
		}
	}
	if bad > 0 || len(got) != len(want) {
		w["entries_served"] = read
		fail("log-ended-without-error-but-incomplete", fmt.Sprintf("the iterator ended without an error after %d of %d entries; applied to the empty map the served log lacks or misstates %d keys", read, n, bad+abs(len(got)-len(want))))
		return
	}
	r.Nontrivial(fmt.Sprintf("stream-during-prune/%s/%d", backend, idx))
}

func abs(x int) int {
	if x < 0 {
		return -x
	}
	return x
}
