package main

import (
	"bytes"
	"errors"
	"fmt"
	"regexp"
	"strings"

	"github.com/oasisprotocol/oasis-core/go/common/crypto/hash"
	"github.com/oasisprotocol/oasis-core/go/storage/mkvs"
)

// Finding classifier (DESIGN.md 1.3). When a client tree gives a wrong answer
// the monitor dumps the client's local cache (Tree.DumpLocal) and walks it
// along the true lookup path of the key concerned. If a cached node carries a
// TRUE node hash of the trusted tree but has a nil child pointer where the true
// node has a child, the wrong answer comes from the client's own cache
// management (a verified node lost a child pointer), not from anything the peer
// sent. That gets its own signature so that it can never hide a real lie.

type dumpKind int

const (
	dkNilPtr dumpKind = iota
	dkHashOnly
	dkLeaf
	dkInternal
)

type dumpNode struct {
	kind dumpKind
	hash hash.Hash
	ch   [3]*dumpNode // leaf, left, right
}

var (
	reInternal = regexp.MustCompile(`^\* \[(?:true|false)/".*"\(\d+\)/([0-9a-f]{64})\]: \{$`)
	reHashOnly = regexp.MustCompile(`^<nil> \[(?:true|false)/([0-9a-f]{64})\],?$`)
	reLeaf     = regexp.MustCompile(`^- .* \[(?:true|false)/([0-9a-f]{64})\],?$`)
)

func parseDump(text string) (*dumpNode, error) {
	var lines []string
	for _, l := range strings.Split(text, "\n") {
		l = strings.TrimSpace(l)
		if l != "" && l != "," {
			lines = append(lines, l)
		}
	}
	i := 0
	var parse func() (*dumpNode, error)
	parse = func() (*dumpNode, error) {
		if i >= len(lines) {
			return nil, errors.New("dump ends early")
		}
		l := lines[i]
		i++
		switch {
		case l == "<nil>" || l == "<nil>,":
			return &dumpNode{kind: dkNilPtr}, nil
		case l == "<...>" || l == "<...>,":
			return &dumpNode{kind: dkHashOnly}, nil
		}
		if m := reHashOnly.FindStringSubmatch(l); m != nil {
			n := &dumpNode{kind: dkHashOnly}
			_ = n.hash.UnmarshalHex(m[1])
			return n, nil
		}
		if m := reInternal.FindStringSubmatch(l); m != nil {
			n := &dumpNode{kind: dkInternal}
			_ = n.hash.UnmarshalHex(m[1])
			for k := 0; k < 3; k++ {
				ch, err := parse()
				if err != nil {
					return nil, err
				}
				n.ch[k] = ch
			}
			if i >= len(lines) || (lines[i] != "}" && lines[i] != "},") {
				return nil, fmt.Errorf("expected } at dump line %d", i)
			}
			i++
			return n, nil
		}
		if m := reLeaf.FindStringSubmatch(l); m != nil {
			n := &dumpNode{kind: dkLeaf}
			_ = n.hash.UnmarshalHex(m[1])
			return n, nil
		}
		return nil, fmt.Errorf("unparsed dump line %q", l)
	}
	return parse()
}

// diagnose explains a wrong answer about key from the client's cache.
// class is one of:
//
//	dropped-child-pointer  a cached node with a true hash lacks a child pointer on the key's path
//	foreign-node           the cache holds, on the key's path, a node whose hash is not the true one
//	unexplained            neither (or the dump could not be read)
func (c *caseCtx) diagnose(t mkvs.Tree, key []byte) (class, detail string) {
	var buf bytes.Buffer
	if msg, _ := guard(func() { t.DumpLocal(c.ctx, &buf, 0) }); msg != "" {
		return "unexplained", "DumpLocal panics: " + msg
	}
	root, err := parseDump(buf.String())
	if err != nil {
		return "unexplained", "cache dump not understood: " + err.Error()
	}
	cur := root
	trueHash := c.root.Hash
	names := [3]string{"leaf", "left", "right"}
	for step := 0; step < 600; step++ {
		switch cur.kind {
		case dkNilPtr:
			return "unexplained", "nil pointer in the cache where the trusted tree has node " + hshort(trueHash)
		case dkHashOnly:
			return "unexplained", "path leaves the cached part at node " + hshort(trueHash)
		}
		if !cur.hash.Equal(&trueHash) {
			return "foreign-node", fmt.Sprintf("cache holds node %s where the trusted tree has %s", hshort(cur.hash), hshort(trueHash))
		}
		ni := c.full[trueHash]
		if ni == nil || ni.leaf || cur.kind == dkLeaf {
			return "unexplained", "path reaches leaf " + hshort(trueHash)
		}
		bl := ni.depth + int(ni.internal.LabelBitLength)
		idx := 0
		switch {
		case len(key)*8 < bl:
			return "unexplained", "key ends inside the label of node " + hshort(trueHash)
		case len(key)*8 == bl:
			idx = 0
		case key[bl/8]&(1<<(7-uint(bl%8))) != 0:
			idx = 2
		default:
			idx = 1
		}
		th := ni.childV1[idx]
		dc := cur.ch[idx]
		if dc.kind == dkNilPtr {
			if th.IsEmpty() {
				return "unexplained", "key is absent below node " + hshort(trueHash)
			}
			return "dropped-child-pointer", fmt.Sprintf("cached node %s (a true node of the trusted tree at bit depth %d) has a nil %s pointer, the true node has child %s there",
				hshort(trueHash), ni.depth, names[idx], hshort(th))
		}
		if th.IsEmpty() {
			return "foreign-node", fmt.Sprintf("cached node %s has a %s child where the true node has none", hshort(trueHash), names[idx])
		}
		if idx == 0 {
			if dc.kind == dkLeaf && !dc.hash.Equal(&th) {
				return "foreign-node", "cached leaf differs from the true leaf"
			}
			return "unexplained", "leaf pointer present in cache"
		}
		cur, trueHash = dc, th
	}
	return "unexplained", "path too long"
}
