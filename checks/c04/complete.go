package main

import (
	"bytes"
	"context"
	"encoding/hex"
	"errors"
	"fmt"
	"math/rand/v2"

	"github.com/oasisprotocol/oasis-core/go/common/crypto/hash"
	"github.com/oasisprotocol/oasis-core/go/storage/mkvs"
	"github.com/oasisprotocol/oasis-core/go/storage/mkvs/node"
	"github.com/oasisprotocol/oasis-core/go/storage/mkvs/syncer"
	"github.com/oasisprotocol/oasis-core/go/storage/mkvs/writelog"
)

var errOneShot = errors.New("c04: one-shot peer already used")

// oneShot passes the first request through to the honest server (optionally
// forcing sibling inclusion) and fails every later request: a client on top of
// it is fed by exactly one proof.
type oneShot struct {
	backing syncer.ReadSyncer
	sib     bool
	used    int
}

func (o *oneShot) SyncGet(ctx context.Context, req *syncer.GetRequest) (*syncer.ProofResponse, error) {
	o.used++
	if o.used > 1 {
		return nil, errOneShot
	}
	rq := *req
	rq.IncludeSiblings = rq.IncludeSiblings || o.sib
	return o.backing.SyncGet(ctx, &rq)
}

func (o *oneShot) SyncGetPrefixes(ctx context.Context, req *syncer.GetPrefixesRequest) (*syncer.ProofResponse, error) {
	o.used++
	if o.used > 1 {
		return nil, errOneShot
	}
	return o.backing.SyncGetPrefixes(ctx, req)
}

func (o *oneShot) SyncIterate(ctx context.Context, req *syncer.IterateRequest) (*syncer.ProofResponse, error) {
	o.used++
	if o.used > 1 {
		return nil, errOneShot
	}
	return o.backing.SyncIterate(ctx, req)
}

type complFail struct {
	Op       string   `json:"op"`
	Key      string   `json:"key_hex,omitempty"`
	Prefixes []string `json:"prefixes_hex,omitempty"`
	Limit    int      `json:"limit_or_prefetch"`
	Version  int      `json:"proof_version"`
	Siblings bool     `json:"include_siblings"`
	Position string   `json:"position"`
}

func (c *caseCtx) complViolation(sig, what string, f complFail, p *syncer.Proof, stack string) {
	w := c.baseWitness("completeness")
	w.Failing = f
	w.Detail = what
	w.Proof = hexProof(p)
	w.Stack = stack
	c.rep.Violation(sig, what, w)
}

// verified is the result of checking one honest proof against a trusted hash.
type verified struct {
	rootPtr *node.Pointer
	wl      writelog.WriteLog
}

// verifyHonest runs VerifyProof and VerifyProofToWriteLog on a proof produced
// by the honest server and reports failures as completeness violations.
func (c *caseCtx) verifyHonest(op string, f complFail, trusted hash.Hash, p *syncer.Proof) (*verified, bool) {
	var pv syncer.ProofVerifier
	var v verified
	var err1, err2 error
	if msg, st := guard(func() {
		v.rootPtr, err1 = pv.VerifyProof(c.ctx, trusted, p)
		v.wl, err2 = pv.VerifyProofToWriteLog(c.ctx, trusted, p)
	}); msg != "" {
		c.complViolation("panic/verify-honest-proof/"+op, "panic while verifying an honest proof: "+msg, f, p, st)
		return nil, false
	}
	if err1 != nil {
		c.complViolation(fmt.Sprintf("c04/completeness/verify-failed/%s/v%d", op, f.Version),
			fmt.Sprintf("honest %s proof does not verify against the root: %v", op, err1), f, p, "")
		return nil, false
	}
	if err2 != nil {
		c.complViolation(fmt.Sprintf("c04/completeness/verify-failed/%s-to-writelog/v%d", op, f.Version),
			fmt.Sprintf("VerifyProofToWriteLog fails on an honest %s proof that VerifyProof accepts: %v", op, err2), f, p, "")
		return nil, false
	}
	c.count(fmt.Sprintf("completeness/proofs_verified/%s/v%d", op, f.Version), 1)
	c.count("completeness/proof_entries_total", int64(len(p.Entries)))
	if msg, bad := falsePair(c.M, v.wl); bad {
		c.complViolation(fmt.Sprintf("c04/completeness/writelog-false-pair/%s/v%d", op, f.Version),
			"write log of a verified honest proof contains a pair that is not in the tree: "+msg, f, p, "")
		return nil, false
	}
	c.count("completeness/writelog_pairs_checked", int64(len(v.wl)))
	return &v, true
}

func hx(b []byte) string { return hex.EncodeToString(b) }

func hshort(h hash.Hash) string { return hex.EncodeToString(h[:6]) }

// completeness runs the first half. It returns false when the complete tree
// could not be read back (the soundness half needs it).
func (c *caseCtx) completeness(rng *rand.Rand) bool {
	if !c.readBack() {
		return false
	}
	c.completenessProofs(rng)
	return true
}

// readBack reads the complete tree through SyncIterate (both proof versions),
// compares it with the model and records every node of the trusted tree.
func (c *caseCtx) readBack() bool {
	for ver := 0; ver <= 1; ver++ {
		f := complFail{Op: "iterate-full", Key: "", Limit: 65535, Version: ver, Position: "root"}
		var rsp *syncer.ProofResponse
		var err error
		if msg, st := guard(func() {
			rsp, err = c.server.SyncIterate(c.ctx, &syncer.IterateRequest{
				Tree: syncer.TreeID{Root: c.root, Position: c.root.Hash}, Key: []byte{}, Prefetch: 65535, ProofVersion: uint16(ver),
			})
		}); msg != "" {
			c.complViolation("panic/server-synciterate", "panic in SyncIterate: "+msg, f, nil, st)
			return false
		}
		if err != nil {
			c.complViolation(fmt.Sprintf("c04/completeness/server-error/iterate-full/v%d", ver), "SyncIterate over the whole tree fails: "+err.Error(), f, nil, "")
			return false
		}
		v, ok := c.verifyHonest("iterate-full", f, c.root.Hash, &rsp.Proof)
		if !ok {
			return false
		}
		info, leaves, complete := collectFull(v.rootPtr)
		same := complete && len(leaves) == len(c.M.keys)
		if same {
			for i, l := range leaves {
				if string(l.K) != c.M.keys[i] || !bytes.Equal(l.V, c.M.m[c.M.keys[i]]) {
					same = false
					break
				}
			}
		}
		if !same {
			c.complViolation(fmt.Sprintf("c04/completeness/full-iteration-incomplete/v%d", ver),
				fmt.Sprintf("proof of a complete iteration does not contain exactly the tree contents (complete=%v, %d leaves, %d keys in tree)", complete, len(leaves), len(c.M.keys)), f, &rsp.Proof, "")
			return false
		}
		if ver == 0 {
			c.full = info
			// Deterministic order: pre-order walk again.
			var order func(p *node.Pointer)
			order = func(p *node.Pointer) {
				if p == nil || p.Node == nil {
					return
				}
				c.fullHashes = append(c.fullHashes, p.Hash)
				if n, ok := p.Node.(*node.InternalNode); ok {
					c.internalHashes = append(c.internalHashes, p.Hash)
					order(n.LeafNode)
					order(n.Left)
					order(n.Right)
				}
			}
			order(v.rootPtr)
			c.count("tree_internal_nodes_total", int64(len(c.internalHashes)))
		}
	}
	return true
}

func (c *caseCtx) completenessProofs(rng *rand.Rand) {
	nGet := min(len(c.probes), c.sz.getProbes)
	// --- B. SyncGet ---------------------------------------------------------
	for pi := 0; pi < nGet; pi++ {
		pr := c.probes[pi]
		expVal, present := c.M.m[string(pr.Key)]
		c.count("completeness/probes/"+pr.Kind, 1)
		// Nodes on the lookup path of this key in the complete tree.
		var path []hash.Hash
		c.pathOf(pr.Key, &path)
		for ver := 0; ver <= 1; ver++ {
			for _, sib := range []bool{false, true} {
				pos, posKind := c.root.Hash, "root"
				switch x := rng.IntN(10); {
				case x < 2 && len(path) > 1:
					pos, posKind = path[1+rng.IntN(len(path)-1)], "on-path"
				case x == 2 && len(c.fullHashes) > 0:
					pos, posKind = c.fullHashes[rng.IntN(len(c.fullHashes))], "off-path"
					for _, h := range path {
						if h.Equal(&pos) {
							posKind = "on-path"
						}
					}
				}
				f := complFail{Op: "get", Key: hx(pr.Key), Version: ver, Siblings: sib, Position: posKind + ":" + hshort(pos)}
				var rsp *syncer.ProofResponse
				var err error
				if msg, st := guard(func() {
					rsp, err = c.server.SyncGet(c.ctx, &syncer.GetRequest{
						Tree: syncer.TreeID{Root: c.root, Position: pos}, Key: pr.Key, IncludeSiblings: sib, ProofVersion: uint16(ver),
					})
				}); msg != "" {
					c.complViolation("panic/server-syncget", "panic in SyncGet: "+msg, f, nil, st)
					continue
				}
				if err != nil {
					c.complViolation(fmt.Sprintf("c04/completeness/server-error/get/v%d", ver), "SyncGet fails on a committed tree: "+err.Error(), f, nil, "")
					continue
				}
				p := &rsp.Proof
				trusted, depth, subtree := c.root.Hash, 0, false
				switch {
				case p.UntrustedRoot.Equal(&c.root.Hash):
				case p.UntrustedRoot.Equal(&pos):
					trusted, subtree = pos, true
					if ni := c.full[pos]; ni != nil {
						depth = ni.depth
					}
				default:
					c.complViolation(fmt.Sprintf("c04/completeness/verify-failed/get/v%d", ver),
						"honest SyncGet proof is neither for the root nor for the requested position", f, p, "")
					continue
				}
				v, ok := c.verifyHonest("get", f, trusted, p)
				if !ok {
					continue
				}
				if subtree {
					c.count("completeness/subtree_rooted_proofs", 1)
				}
				if subtree && posKind != "on-path" {
					continue // a proof for an unrelated subtree says nothing about the key
				}
				if present && !wlHas(v.wl, pr.Key) {
					c.complViolation(fmt.Sprintf("c04/completeness/writelog-missing-key/get/v%d", ver),
						fmt.Sprintf("key %x is in the tree but VerifyProofToWriteLog of its SyncGet proof does not contain it", pr.Key), f, p, "")
					continue
				}
				res, val := ptGet(v.rootPtr, depth, pr.Key, nil)
				switch {
				case res == getUndetermined:
					c.complViolation(fmt.Sprintf("c04/completeness/undetermined/get/v%d", ver),
						fmt.Sprintf("verified SyncGet proof does not determine key %x (lookup path ends in a hash-only entry)", pr.Key), f, p, "")
				case (res == getPresent) != present || (present && !bytes.Equal(val, expVal)):
					c.complViolation(fmt.Sprintf("c04/completeness/wrong-determination/get/v%d", ver),
						fmt.Sprintf("verified SyncGet proof determines key %x as present=%v value=%x, tree has present=%v value=%x", pr.Key, res == getPresent, trunc(val), present, trunc(expVal)), f, p, "")
				default:
					if present {
						c.count("completeness/determined/get-present", 1)
					} else {
						c.count("completeness/determined/get-absent", 1)
					}
				}
			}
		}
	}

	// --- C. SyncIterate -----------------------------------------------------
	n := len(c.M.keys)
	prefetches := []int{0, 1, 2, 3, n / 2, n, n + 5, 65535}
	nIter := min(len(c.probes), c.sz.iterProbes)
	for pi := 0; pi < nIter; pi++ {
		seek := c.probes[(pi*7+3)%len(c.probes)].Key
		pf := prefetches[rng.IntN(len(prefetches))]
		for ver := 0; ver <= 1; ver++ {
			// A reader that has already resolved part of the tree states that node as its
			// position; an iteration proof must cover the asked range against the ROOT all the same.
			pos, posKind := c.root.Hash, "root"
			switch x := rng.IntN(10); {
			case x < 3:
				var path []hash.Hash
				c.pathOf(seek, &path)
				if len(path) > 1 {
					pos, posKind = path[1+rng.IntN(len(path)-1)], "on-path"
				}
			case x == 3 && len(c.fullHashes) > 0:
				pos, posKind = c.fullHashes[rng.IntN(len(c.fullHashes))], "some-node"
			}
			f := complFail{Op: "iterate", Key: hx(seek), Limit: pf, Version: ver, Position: posKind + ":" + hshort(pos)}
			var rsp *syncer.ProofResponse
			var err error
			if msg, st := guard(func() {
				rsp, err = c.server.SyncIterate(c.ctx, &syncer.IterateRequest{
					Tree: syncer.TreeID{Root: c.root, Position: pos}, Key: seek, Prefetch: uint16(pf), ProofVersion: uint16(ver),
				})
			}); msg != "" {
				c.complViolation("panic/server-synciterate", "panic in SyncIterate: "+msg, f, nil, st)
				continue
			}
			if err != nil {
				c.complViolation(fmt.Sprintf("c04/completeness/server-error/iterate/v%d", ver), "SyncIterate fails on a committed tree: "+err.Error(), f, nil, "")
				continue
			}
			p := &rsp.Proof
			v, ok := c.verifyHonest("iterate", f, c.root.Hash, p)
			if !ok {
				continue
			}
			lb := c.M.lowerBound(seek)
			want := c.M.keys[lb:min(n, lb+pf+1)]
			bad := false
			for _, k := range want {
				if !wlHas(v.wl, []byte(k)) {
					c.complViolation(fmt.Sprintf("c04/completeness/writelog-missing-key/iterate/v%d", ver),
						fmt.Sprintf("SyncIterate(seek %x, prefetch %d) must cover key %x but its write log does not contain it", seek, pf, k), f, p, "")
					bad = true
					break
				}
			}
			if bad {
				continue
			}
			items, det := ptIter(v.rootPtr, seek, pf+1)
			if !det {
				c.complViolation(fmt.Sprintf("c04/completeness/undetermined/iterate/v%d", ver),
					fmt.Sprintf("verified SyncIterate(seek %x, prefetch %d) proof does not determine the next %d items (a hash-only entry lies in the range)", seek, pf, pf+1), f, p, "")
				continue
			}
			same := len(items) == len(want)
			for i := 0; same && i < len(items); i++ {
				same = string(items[i].K) == want[i] && bytes.Equal(items[i].V, c.M.m[want[i]])
			}
			if !same {
				c.complViolation(fmt.Sprintf("c04/completeness/wrong-determination/iterate/v%d", ver),
					fmt.Sprintf("verified SyncIterate(seek %x, prefetch %d) proof determines %d items, the tree has %d in that range (or they differ)", seek, pf, len(items), len(want)), f, p, "")
				continue
			}
			c.count("completeness/determined/iterate-items", int64(len(items)))
			if len(want) < pf+1 {
				c.count("completeness/determined/iterate-end-of-tree", 1)
			}
		}
	}

	// --- D. SyncGetPrefixes -------------------------------------------------
	limits := []int{0, 1, 2, n / 2, n, n + 3, 65535}
	for pi := 0; pi < c.sz.prefixProbes; pi++ {
		prefixes := c.genPrefixes(rng)
		limit := limits[rng.IntN(len(limits))]
		covered := c.coveredByPrefixes(prefixes, limit)
		var pfx []string
		for _, p := range prefixes {
			pfx = append(pfx, hx(p))
		}
		for ver := 0; ver <= 1; ver++ {
			f := complFail{Op: "prefixes", Prefixes: pfx, Limit: limit, Version: ver, Position: "root"}
			var rsp *syncer.ProofResponse
			var err error
			if msg, st := guard(func() {
				rsp, err = c.server.SyncGetPrefixes(c.ctx, &syncer.GetPrefixesRequest{
					Tree: syncer.TreeID{Root: c.root, Position: c.root.Hash}, Prefixes: prefixes, Limit: uint16(limit), ProofVersion: uint16(ver),
				})
			}); msg != "" {
				c.complViolation("panic/server-syncgetprefixes", "panic in SyncGetPrefixes: "+msg, f, nil, st)
				continue
			}
			if err != nil {
				c.complViolation(fmt.Sprintf("c04/completeness/server-error/prefixes/v%d", ver), "SyncGetPrefixes fails on a committed tree: "+err.Error(), f, nil, "")
				continue
			}
			p := &rsp.Proof
			v, ok := c.verifyHonest("prefixes", f, c.root.Hash, p)
			if !ok {
				continue
			}
			for _, k := range covered {
				if !wlHas(v.wl, []byte(k)) {
					c.complViolation(fmt.Sprintf("c04/completeness/writelog-missing-key/prefixes/v%d", ver),
						fmt.Sprintf("SyncGetPrefixes(limit %d) must cover key %x but its write log does not contain it", limit, k), f, p, "")
					break
				}
				res, val := ptGet(v.rootPtr, 0, []byte(k), nil)
				if res != getPresent || !bytes.Equal(val, c.M.m[k]) {
					sig := "wrong-determination"
					if res == getUndetermined {
						sig = "undetermined"
					}
					c.complViolation(fmt.Sprintf("c04/completeness/%s/prefixes/v%d", sig, ver),
						fmt.Sprintf("verified SyncGetPrefixes(limit %d) proof does not determine covered key %x correctly", limit, k), f, p, "")
					break
				}
				c.count("completeness/determined/prefix-keys", 1)
			}
		}
	}

	// --- E. clients fed by exactly one proof (what the Go client asks: v0) --
	for pi := 0; pi < nGet; pi++ {
		pr := c.probes[pi]
		sib := pi%2 == 1
		f := complFail{Op: "client-get", Key: hx(pr.Key), Siblings: sib, Position: "root"}
		os := &oneShot{backing: c.server, sib: sib}
		cl := mkvs.NewWithRoot(os, nil, c.root, mkvs.Capacity(0, 0))
		var val []byte
		var err error
		msg, st := guard(func() { val, err = cl.Get(c.ctx, pr.Key) })
		cl.Close()
		if msg != "" {
			c.complViolation("panic/client-get-honest", "panic in client Get over an honest peer: "+msg, f, nil, st)
			continue
		}
		if err != nil {
			c.complViolation("c04/completeness/client-error/get",
				fmt.Sprintf("client with unlimited cache fed by the single honest SyncGet proof cannot answer Get(%x): %v (requests made: %d)", pr.Key, err, os.used), f, nil, "")
			continue
		}
		exp, present := c.M.m[string(pr.Key)]
		if (val != nil) != present || !bytes.Equal(val, exp) {
			c.complViolation("c04/completeness/client-answer-mismatch/get",
				fmt.Sprintf("client over the honest peer answers Get(%x) = %x (nil=%v); the tree has present=%v value %x", pr.Key, trunc(val), val == nil, present, trunc(exp)), f, nil, "")
			continue
		}
		c.count("completeness/oneshot_client/get", 1)
	}
	for pi := 0; pi < nIter; pi++ {
		seek := c.probes[(pi*5+1)%len(c.probes)].Key
		pf := []int{0, 1, 2, 5, n}[rng.IntN(5)]
		f := complFail{Op: "client-iterate", Key: hx(seek), Limit: pf, Position: "root"}
		os := &oneShot{backing: c.server}
		cl := mkvs.NewWithRoot(os, nil, c.root, mkvs.Capacity(0, 0))
		var got []kvPair
		var ierr error
		msg, st := guard(func() {
			it := cl.NewIterator(c.ctx, mkvs.IteratorPrefetch(uint16(pf)))
			defer it.Close()
			it.Seek(seek)
			for it.Valid() {
				got = append(got, kvPair{K: append([]byte{}, it.Key()...), V: append([]byte{}, it.Value()...)})
				if len(got) >= pf+1 {
					break
				}
				it.Next()
			}
			ierr = it.Err()
		})
		cl.Close()
		if msg != "" {
			c.complViolation("panic/client-iterate-honest", "panic in client iteration over an honest peer: "+msg, f, nil, st)
			continue
		}
		lb := c.M.lowerBound(seek)
		want := c.M.keys[lb:min(n, lb+pf+1)]
		if ierr != nil {
			c.complViolation("c04/completeness/client-error/iterate",
				fmt.Sprintf("client with unlimited cache fed by the single honest SyncIterate(seek %x, prefetch %d) proof fails after %d of %d items: %v", seek, pf, len(got), len(want), ierr), f, nil, "")
			continue
		}
		same := len(got) == len(want)
		for i := 0; same && i < len(got); i++ {
			same = string(got[i].K) == want[i] && bytes.Equal(got[i].V, c.M.m[want[i]])
		}
		if !same {
			c.complViolation("c04/completeness/client-answer-mismatch/iterate",
				fmt.Sprintf("client over the honest peer iterates %d items from %x, the tree has %d there (or they differ)", len(got), seek, len(want)), f, nil, "")
			continue
		}
		c.count("completeness/oneshot_client/iterate", 1)
	}
	for pi := 0; pi < c.sz.prefixProbes; pi++ {
		prefixes := c.genPrefixes(rng)
		limit := []int{1, 2, n/2 + 1, n + 3, 65535}[rng.IntN(5)]
		covered := c.coveredByPrefixes(prefixes, limit)
		var pfx []string
		for _, p := range prefixes {
			pfx = append(pfx, hx(p))
		}
		f := complFail{Op: "client-prefetch", Prefixes: pfx, Limit: limit, Position: "root"}
		os := &oneShot{backing: c.server}
		cl := mkvs.NewWithRoot(os, nil, c.root, mkvs.Capacity(0, 0))
		var perr error
		var failKey string
		var failWhat string
		msg, st := guard(func() {
			if perr = cl.PrefetchPrefixes(c.ctx, prefixes, uint16(limit)); perr != nil {
				return
			}
			for _, k := range covered {
				val, err := cl.Get(c.ctx, []byte(k))
				if err != nil {
					failKey, failWhat = k, "error: "+err.Error()
					return
				}
				if val == nil || !bytes.Equal(val, c.M.m[k]) {
					failKey, failWhat = k, fmt.Sprintf("answer %x (nil=%v), tree has %x", trunc(val), val == nil, trunc(c.M.m[k]))
					return
				}
			}
		})
		cl.Close()
		switch {
		case msg != "":
			c.complViolation("panic/client-prefetch-honest", "panic in client PrefetchPrefixes/Get over an honest peer: "+msg, f, nil, st)
		case perr != nil:
			c.complViolation("c04/completeness/client-error/prefetch", "PrefetchPrefixes over the honest peer fails: "+perr.Error(), f, nil, "")
		case failWhat != "" && failWhat[0] == 'e':
			c.complViolation("c04/completeness/client-error/prefetch-get",
				fmt.Sprintf("after PrefetchPrefixes(limit %d) the covered key %x cannot be read from the single proof: %s", limit, failKey, failWhat), f, nil, "")
		case failWhat != "":
			c.complViolation("c04/completeness/client-answer-mismatch/prefetch-get",
				fmt.Sprintf("after PrefetchPrefixes(limit %d) Get(%x) gives %s", limit, failKey, failWhat), f, nil, "")
		default:
			c.count("completeness/oneshot_client/prefetch", 1)
			c.count("completeness/oneshot_client/prefetch_keys_read", int64(len(covered)))
		}
	}
}

// pathOf returns the hashes of the pointers a lookup of key visits in the complete tree.
func (c *caseCtx) pathOf(key []byte, out *[]hash.Hash) {
	h := c.root.Hash
	depth := 0
	for {
		ni := c.full[h]
		if ni == nil {
			return
		}
		*out = append(*out, h)
		if ni.leaf {
			return
		}
		n := ni.internal
		bl := depth + int(n.LabelBitLength)
		switch {
		case len(key)*8 < bl:
			return
		case len(key)*8 == bl:
			if n.LeafNode != nil {
				*out = append(*out, n.LeafNode.Hash)
			}
			return
		}
		var next *node.Pointer
		if key[bl/8]&(1<<(7-uint(bl%8))) != 0 {
			next = n.Right
		} else {
			next = n.Left
		}
		if next == nil {
			return
		}
		h, depth = next.Hash, bl
	}
}

func (c *caseCtx) genPrefixes(rng *rand.Rand) [][]byte {
	var out [][]byte
	for i := 1 + rng.IntN(3); i > 0; i-- {
		k := c.probes[rng.IntN(len(c.probes))].Key
		cut := 0
		if len(k) > 0 {
			cut = rng.IntN(len(k) + 1)
		}
		if rng.IntN(8) == 0 {
			cut = 0
		}
		out = append(out, append([]byte{}, k[:cut]...))
	}
	return out
}

// coveredByPrefixes lists the keys a prefix fetch with the given limit is asked
// about: per prefix, in order, the keys with that prefix until `limit` keys in total.
func (c *caseCtx) coveredByPrefixes(prefixes [][]byte, limit int) []string {
	var out []string
	seen := map[string]bool{}
	total := 0
	for _, p := range prefixes {
		for j := c.M.lowerBound(p); j < len(c.M.keys); j++ {
			if total >= limit {
				return out
			}
			if !bytes.HasPrefix([]byte(c.M.keys[j]), p) {
				break
			}
			if !seen[c.M.keys[j]] {
				seen[c.M.keys[j]] = true
				out = append(out, c.M.keys[j])
			}
			total++
		}
	}
	return out
}
