package main

import (
	"bytes"

	"github.com/oasisprotocol/oasis-core/go/common/crypto/hash"
	"github.com/oasisprotocol/oasis-core/go/storage/mkvs/node"
)

// This file contains the checker's own interpretation of a VERIFIED partial
// tree (the *node.Pointer graph returned by ProofVerifier.VerifyProof). It
// decides, without any further fetch, whether the proof determines the value
// or the absence of a key, resp. the next n items from a seek key. It is
// written directly from the trie definition (label bits, leaf at a node for
// the key ending there, left = 0 bit, right = 1 bit) and shares no code with
// lookup.go / iterator.go.

type bits []byte // one element per bit, 0 or 1

func keyBits(k []byte) bits {
	b := make(bits, 0, len(k)*8)
	for _, c := range k {
		for i := 7; i >= 0; i-- {
			b = append(b, (c>>uint(i))&1)
		}
	}
	return b
}

func labelBits(label node.Key, n node.Depth) bits {
	all := keyBits(label)
	if int(n) > len(all) {
		return all
	}
	return all[:int(n)]
}

// cmpTrunc compares the first min(len) bits of p and k.
func cmpTrunc(p, k bits) int {
	m := len(p)
	if len(k) < m {
		m = len(k)
	}
	return bytes.Compare(p[:m], k[:m])
}

type getResult int

const (
	getUndetermined getResult = iota
	getAbsent
	getPresent
)

// ptGet looks key up in the verified partial tree whose root pointer sits at bit depth.
func ptGet(ptr *node.Pointer, depth int, key []byte, visited *[]hash.Hash) (getResult, []byte) {
	kb := len(key) * 8
	for {
		if ptr == nil {
			return getAbsent, nil
		}
		if visited != nil {
			*visited = append(*visited, ptr.Hash)
		}
		if ptr.Node == nil {
			if ptr.Hash.IsEmpty() {
				return getAbsent, nil
			}
			return getUndetermined, nil
		}
		switch n := ptr.Node.(type) {
		case *node.LeafNode:
			if bytes.Equal(n.Key, key) {
				return getPresent, n.Value
			}
			return getAbsent, nil
		case *node.InternalNode:
			bl := depth + int(n.LabelBitLength)
			switch {
			case kb < bl:
				return getAbsent, nil
			case kb == bl:
				lp := n.LeafNode
				if lp == nil {
					return getAbsent, nil
				}
				if visited != nil {
					*visited = append(*visited, lp.Hash)
				}
				if lp.Node == nil {
					if lp.Hash.IsEmpty() {
						return getAbsent, nil
					}
					return getUndetermined, nil
				}
				if lf, ok := lp.Node.(*node.LeafNode); ok && bytes.Equal(lf.Key, key) {
					return getPresent, lf.Value
				}
				return getAbsent, nil
			default:
				if key[bl/8]&(1<<(7-uint(bl%8))) != 0 {
					ptr = n.Right
				} else {
					ptr = n.Left
				}
				depth = bl
			}
		default:
			return getUndetermined, nil
		}
	}
}

type kvPair struct {
	K []byte
	V []byte
}

// ptIter returns the first n items with key >= seek that the verified partial
// tree determines. determined=false if a hash-only pointer that could contain
// a key >= seek is met before n items are found (or before the end of the tree).
func ptIter(root *node.Pointer, seek []byte, n int) (items []kvPair, determined bool) {
	sb := keyBits(seek)
	determined = true
	stop := false
	emit := func(lf *node.LeafNode) {
		if bytes.Compare(lf.Key, seek) >= 0 {
			items = append(items, kvPair{K: lf.Key, V: lf.Value})
			if len(items) >= n {
				stop = true
			}
		}
	}
	// path = bits consumed above this pointer; hint = path plus the branch bit
	// that leads here (a child's label starts with its branch bit, so the bit
	// is known for hash-only and nil children too).
	var walk func(ptr *node.Pointer, path, hint bits)
	walk = func(ptr *node.Pointer, path, hint bits) {
		if stop || ptr == nil {
			return
		}
		// Every key below this pointer starts with hint. If hint is already
		// smaller than the seek key on the common length, everything is smaller.
		if cmpTrunc(hint, sb) < 0 {
			return
		}
		if ptr.Node == nil {
			if ptr.Hash.IsEmpty() {
				return
			}
			determined = false
			stop = true
			return
		}
		switch nd := ptr.Node.(type) {
		case *node.LeafNode:
			emit(nd)
		case *node.InternalNode:
			np := append(append(bits{}, path...), labelBits(nd.Label, nd.LabelBitLength)...)
			if cmpTrunc(np, sb) < 0 {
				return
			}
			if lp := nd.LeafNode; lp != nil {
				switch {
				case lp.Node != nil:
					if lf, ok := lp.Node.(*node.LeafNode); ok {
						emit(lf)
					}
				case lp.Hash.IsEmpty():
				default:
					// Hash-only leaf whose key is exactly np. It matters only if np >= seek.
					c := cmpTrunc(np, sb)
					if c > 0 || (c == 0 && len(np) >= len(sb)) {
						determined = false
						stop = true
						return
					}
				}
			}
			if stop {
				return
			}
			walk(nd.Left, np, append(append(bits{}, np...), 0))
			walk(nd.Right, np, append(append(bits{}, np...), 1))
		}
	}
	walk(root, bits{}, bits{})
	return items, determined
}

// nodeInfo describes one node of the complete trusted tree.
type nodeInfo struct {
	leaf     bool
	depth    int // bit depth at the pointer to this node
	entryV0  []byte
	entryV1  []byte
	entryDB  []byte      // non-compact (database) serialization: inline leaf + embedded child hashes
	childV0  []hash.Hash // left, right
	childV1  []hash.Hash // leaf, left, right
	key      []byte      // for leaves
	internal *node.InternalNode
}

func ptrHash(p *node.Pointer) hash.Hash {
	var h hash.Hash
	if p == nil {
		h.Empty()
		return h
	}
	return p.Hash
}

// collectFull walks a complete verified tree. ok=false if it has a hole.
func collectFull(root *node.Pointer) (info map[hash.Hash]*nodeInfo, leaves []kvPair, ok bool) {
	info = map[hash.Hash]*nodeInfo{}
	ok = true
	var walk func(p *node.Pointer, depth int)
	walk = func(p *node.Pointer, depth int) {
		if p == nil {
			return
		}
		if p.Node == nil {
			if !p.Hash.IsEmpty() {
				ok = false
			}
			return
		}
		switch n := p.Node.(type) {
		case *node.LeafNode:
			e, _ := n.CompactMarshalBinaryV0()
			ent := append([]byte{0x01}, e...)
			info[p.Hash] = &nodeInfo{leaf: true, depth: depth, entryV0: ent, entryV1: ent, key: n.Key}
			leaves = append(leaves, kvPair{K: n.Key, V: n.Value})
		case *node.InternalNode:
			ni := &nodeInfo{depth: depth, internal: n}
			if n.LeafNode != nil && n.LeafNode.Node == nil && !n.LeafNode.Hash.IsEmpty() {
				ok = false
				return
			}
			e0, err0 := n.CompactMarshalBinaryV0()
			e1, err1 := n.CompactMarshalBinaryV1()
			if err0 != nil || err1 != nil {
				ok = false
				return
			}
			ni.entryV0 = append([]byte{0x01}, e0...)
			ni.entryV1 = append([]byte{0x01}, e1...)
			if eb, err := n.MarshalBinary(); err == nil {
				ni.entryDB = append([]byte{0x01}, eb...)
			}
			ni.childV0 = []hash.Hash{ptrHash(n.Left), ptrHash(n.Right)}
			ni.childV1 = []hash.Hash{ptrHash(n.LeafNode), ptrHash(n.Left), ptrHash(n.Right)}
			info[p.Hash] = ni
			bl := depth + int(n.LabelBitLength)
			walk(n.LeafNode, bl)
			walk(n.Left, bl)
			walk(n.Right, bl)
		}
	}
	walk(root, 0)
	return info, leaves, ok
}
