package main

// Local writes on a remote reader (check C04): a tree that holds only the trusted root and
// reads through a peer is also WRITTEN to locally (as a runtime client that applies
// transactions on top of remote state does). Its answers must be those of a full replica with
// the same local writes, or errors - whichever proof version the peer chooses to answer with.

import (
	"bytes"
	"context"
	"fmt"
	"math/rand/v2"
	"sort"

	"github.com/oasisprotocol/oasis-core/go/storage/mkvs"
	"github.com/oasisprotocol/oasis-core/go/storage/mkvs/syncer"
)

// versionPeer answers every request with proofs of a fixed version, whatever was asked for.
type versionPeer struct {
	inner syncer.ReadSyncer
	v     uint16
	force bool
}

func (p *versionPeer) SyncGet(ctx context.Context, r *syncer.GetRequest) (*syncer.ProofResponse, error) {
	r2 := *r
	if p.force {
		r2.ProofVersion = p.v
	}
	return p.inner.SyncGet(ctx, &r2)
}

func (p *versionPeer) SyncGetPrefixes(ctx context.Context, r *syncer.GetPrefixesRequest) (*syncer.ProofResponse, error) {
	r2 := *r
	if p.force {
		r2.ProofVersion = p.v
	}
	return p.inner.SyncGetPrefixes(ctx, &r2)
}

func (p *versionPeer) SyncIterate(ctx context.Context, r *syncer.IterateRequest) (*syncer.ProofResponse, error) {
	r2 := *r
	if p.force {
		r2.ProofVersion = p.v
	}
	return p.inner.SyncIterate(ctx, &r2)
}

func (c *caseCtx) localWrites(rng *rand.Rand) {
	if len(c.M.keys) == 0 {
		return
	}
	for _, mode := range []string{"peer-answers-as-asked", "peer-answers-version-1", "peer-answers-version-0"} {
		peer := &versionPeer{inner: c.server}
		switch mode {
		case "peer-answers-version-1":
			peer.force, peer.v = true, 1
		case "peer-answers-version-0":
			peer.force, peer.v = true, 0
		}
		tree := mkvs.NewWithRoot(peer, nil, c.root)
		want := map[string][]byte{}
		for k, v := range c.M.m {
			want[k] = v
		}
		w := map[string]any{"case": c.idx, "mode": mode, "root": c.root.Hash.String()}
		var ops []string
		viol := func(sig, what string) {
			w["local_operations"] = ops
			c.rep.Violation("c04/local-writes/"+sig+"/"+mode, "remote reader with local writes ("+mode+"): "+what, w)
		}
		failed := false
		nw := 1 + rng.IntN(4)
		func() {
			defer func() {
				if p := recover(); p != nil {
					viol("panic", fmt.Sprint(p))
					failed = true
				}
			}()
			for i := 0; i < nw && !failed; i++ {
				k := []byte(c.M.keys[rng.IntN(len(c.M.keys))])
				switch rng.IntN(4) {
				case 0:
					k = append(append([]byte{}, k...), byte(rng.UintN(256))) // extension of a present key
				case 1:
					if len(k) > 0 {
						k = k[:len(k)-1] // prefix of a present key
					}
				}
				if rng.IntN(4) == 0 {
					ops = append(ops, fmt.Sprintf("remove %x", k))
					if err := tree.Remove(c.ctx, k); err != nil {
						c.count("local_writes/"+mode+"/write-errors", 1)
						failed = true
						return
					}
					delete(want, string(k))
				} else {
					v := []byte(fmt.Sprintf("local-%d", i))
					ops = append(ops, fmt.Sprintf("insert %x", k))
					if err := tree.Insert(c.ctx, k, v); err != nil {
						c.count("local_writes/"+mode+"/write-errors", 1)
						failed = true
						return
					}
					want[string(k)] = v
				}
			}
			if failed {
				return
			}
			c.count("local_writes/"+mode+"/trees", 1)
			// every key of the model and of the overlay
			keys := make([]string, 0, len(want)+len(c.M.keys))
			seen := map[string]bool{}
			for _, k := range c.M.keys {
				if !seen[k] {
					seen[k] = true
					keys = append(keys, k)
				}
			}
			for k := range want {
				if !seen[k] {
					seen[k] = true
					keys = append(keys, k)
				}
			}
			sort.Strings(keys)
			for _, k := range keys {
				got, err := tree.Get(c.ctx, []byte(k))
				if err != nil {
					c.count("local_writes/"+mode+"/get-errors", 1)
					continue
				}
				exp, present := want[k]
				c.count("local_writes/"+mode+"/answers", 1)
				switch {
				case present && got == nil:
					viol("wrong-absence", fmt.Sprintf("Get(%x) answers absent without an error; a full replica with the same local writes holds %x", k, trunc(exp)))
					return
				case !present && got != nil:
					viol("wrong-value", fmt.Sprintf("Get(%x) answers %x; the key is absent in a full replica with the same local writes", k, trunc(got)))
					return
				case present && !bytes.Equal(got, exp):
					viol("wrong-value", fmt.Sprintf("Get(%x) answers %x; a full replica with the same local writes holds %x", k, trunc(got), trunc(exp)))
					return
				}
			}
			// full iteration
			wk := make([]string, 0, len(want))
			for k := range want {
				wk = append(wk, k)
			}
			sort.Strings(wk)
			it := tree.NewIterator(c.ctx)
			defer it.Close()
			i := 0
			for it.Rewind(); it.Valid(); it.Next() {
				if i >= len(wk) || string(it.Key()) != wk[i] || !bytes.Equal(it.Value(), want[wk[i]]) {
					viol("wrong-iteration", fmt.Sprintf("iteration item %d is key %x; a full replica with the same local writes has %d keys and another item there", i, it.Key(), len(wk)))
					return
				}
				i++
			}
			if it.Err() == nil && i != len(wk) {
				viol("wrong-iteration", fmt.Sprintf("iteration ends without an error after %d of %d keys", i, len(wk)))
			}
		}()
		tree.Close()
	}
}
