package main

import (
	"fmt"
	"math/rand/v2"

	"github.com/oasisprotocol/oasis-core/go/common/crypto/hash"
	"github.com/oasisprotocol/oasis-core/go/storage/mkvs/node"
	"github.com/oasisprotocol/oasis-core/go/storage/mkvs/syncer"
)

// mutCtx is what a mutation may use: the request, the honest proof and the
// peer's knowledge of the complete tree and of the donor trees.
type mutCtx struct {
	pe     *peer
	ri     reqInfo
	honest *syncer.Proof

	annDone bool
	annOK   bool
	annHash []hash.Hash // node hash of every entry of the honest proof
	annEnd  []int       // index just past the subtree that starts at entry i
}

type mutation struct {
	name     string
	weight   int
	replaces bool // builds a whole new proof instead of editing the honest one
	// f mutates p (a private copy of the honest proof) or builds a new proof.
	f func(mc *mutCtx, p *syncer.Proof) (out *syncer.Proof, detail string, ok bool)
}

var mutations []mutation
var mutationWeight int

func pickMutation(rng *rand.Rand) *mutation {
	x := rng.IntN(mutationWeight)
	for i := range mutations {
		if x < mutations[i].weight {
			return &mutations[i]
		}
		x -= mutations[i].weight
	}
	return &mutations[0]
}

// annotate derives, for the honest proof, the node hash of every entry and the
// extent of its subtree (pre-order), using the peer's copy of the complete tree.
func (mc *mutCtx) annotate() bool {
	if mc.annDone {
		return mc.annOK
	}
	mc.annDone = true
	p := mc.honest
	full := mc.pe.c.full
	mc.annHash = make([]hash.Hash, len(p.Entries))
	mc.annEnd = make([]int, len(p.Entries))
	var walk func(i int, h hash.Hash) (int, bool)
	walk = func(i int, h hash.Hash) (int, bool) {
		if i >= len(p.Entries) {
			return 0, false
		}
		mc.annHash[i] = h
		e := p.Entries[i]
		if e == nil || len(e) == 0 || e[0] != 0x01 {
			mc.annEnd[i] = i + 1
			return i + 1, true
		}
		ni := full[h]
		if ni == nil {
			return 0, false
		}
		pos := i + 1
		if !ni.leaf {
			ch := ni.childV0
			if p.V == 1 {
				ch = ni.childV1
			}
			for _, chh := range ch {
				var ok bool
				if pos, ok = walk(pos, chh); !ok {
					return 0, false
				}
			}
		}
		mc.annEnd[i] = pos
		return pos, true
	}
	end, ok := walk(0, p.UntrustedRoot)
	mc.annOK = ok && end == len(p.Entries)
	return mc.annOK
}

func hashEntry(h hash.Hash) []byte {
	if h.IsEmpty() {
		return nil
	}
	return append([]byte{0x02}, h[:]...)
}

func randHash(rng *rand.Rand) hash.Hash {
	var h hash.Hash
	for i := range h {
		h[i] = byte(rng.IntN(256))
	}
	return h
}

// pickEntry returns the index of a random entry satisfying pred, or -1.
func pickEntry(rng *rand.Rand, p *syncer.Proof, pred func(e []byte) bool) int {
	var idx []int
	for i, e := range p.Entries {
		if pred(e) {
			idx = append(idx, i)
		}
	}
	if len(idx) == 0 {
		return -1
	}
	return idx[rng.IntN(len(idx))]
}

func isFull(e []byte) bool   { return len(e) > 1 && e[0] == 0x01 }
func isHashE(e []byte) bool  { return len(e) > 1 && e[0] == 0x02 }
func isNilE(e []byte) bool   { return e == nil }
func nonEmpty(e []byte) bool { return len(e) > 0 }
func isFullLeaf(e []byte) bool {
	return len(e) > 2 && e[0] == 0x01 && e[1] == node.PrefixLeafNode
}
func isFullInternal(e []byte) bool {
	return len(e) > 2 && e[0] == 0x01 && e[1] == node.PrefixInternalNode
}

func fabricatedLeaf(key, value []byte) []byte {
	lf := &node.LeafNode{Key: key, Value: value}
	d, _ := lf.CompactMarshalBinaryV0()
	return append([]byte{0x01}, d...)
}

// leafOf decodes entry e and returns the leaf it carries (a leaf entry, or the
// leaf embedded in a version 0 internal node) plus a function re-encoding e.
func leafOf(e []byte) (*node.LeafNode, func() []byte) {
	if !isFull(e) {
		return nil, nil
	}
	n, err := node.UnmarshalBinary(e[1:])
	if err != nil {
		return nil, nil
	}
	switch nd := n.(type) {
	case *node.LeafNode:
		return nd, func() []byte { d, _ := nd.CompactMarshalBinaryV0(); return append([]byte{0x01}, d...) }
	case *node.InternalNode:
		if nd.LeafNode == nil || nd.LeafNode.Node == nil {
			return nil, nil
		}
		lf := nd.LeafNode.Node.(*node.LeafNode)
		return lf, func() []byte { d, _ := nd.CompactMarshalBinaryV0(); return append([]byte{0x01}, d...) }
	}
	return nil, nil
}

func (mc *mutCtx) someKey() []byte {
	rng := mc.pe.rng
	if mc.ri.op != "prefixes" && rng.IntN(2) == 0 {
		return append([]byte{}, mc.ri.key...)
	}
	return append([]byte{}, mc.pe.c.probes[rng.IntN(len(mc.pe.c.probes))].Key...)
}

func (mc *mutCtx) otherRequest() reqInfo {
	ri := mc.ri
	rng := mc.pe.rng
	pr := mc.pe.c.probes
	switch ri.op {
	case "prefixes":
		ri.prefixes = [][]byte{pr[rng.IntN(len(pr))].Key}
	default:
		ri.key = pr[rng.IntN(len(pr))].Key
	}
	return ri
}

func spliceEntries(rng *rand.Rand, p, donor *syncer.Proof) string {
	if len(donor.Entries) == 0 || len(p.Entries) == 0 {
		return ""
	}
	a := rng.IntN(len(p.Entries))
	n := 1 + rng.IntN(3)
	cnt := 0
	for i := a; i < a+n && i < len(p.Entries); i++ {
		j := i
		if j >= len(donor.Entries) {
			j = rng.IntN(len(donor.Entries))
		}
		if donor.Entries[j] == nil {
			p.Entries[i] = nil
		} else {
			p.Entries[i] = append([]byte{}, donor.Entries[j]...)
		}
		cnt++
	}
	return fmt.Sprintf("entries[%d:%d] from donor", a, a+cnt)
}

func init() {
	add := func(name string, weight int, f func(mc *mutCtx, p *syncer.Proof) (*syncer.Proof, string, bool)) {
		repl := name == "fabricated-minimal" || name == "honest-other-version" || name == "stale-old-root" || name == "other-key-whole" || name == "stale-replay" ||
			name == "splice-other-tree-whole" || name == "splice-old-root-whole"
		mutations = append(mutations, mutation{name: name, weight: weight, f: f, replaces: repl})
		mutationWeight += weight
	}

	// ---- byte level -------------------------------------------------------
	add("byte-flip", 8, func(mc *mutCtx, p *syncer.Proof) (*syncer.Proof, string, bool) {
		rng := mc.pe.rng
		i := pickEntry(rng, p, nonEmpty)
		if i < 0 {
			return nil, "", false
		}
		b, bit := rng.IntN(len(p.Entries[i])), rng.IntN(8)
		p.Entries[i][b] ^= 1 << uint(bit)
		return p, fmt.Sprintf("entry %d byte %d bit %d", i, b, bit), true
	})
	add("byte-set", 4, func(mc *mutCtx, p *syncer.Proof) (*syncer.Proof, string, bool) {
		rng := mc.pe.rng
		i := pickEntry(rng, p, nonEmpty)
		if i < 0 {
			return nil, "", false
		}
		b := rng.IntN(len(p.Entries[i]))
		v := []byte{0, 1, 2, 0xff, byte(rng.IntN(256))}[rng.IntN(5)]
		p.Entries[i][b] = v
		return p, fmt.Sprintf("entry %d byte %d = %02x", i, b, v), true
	})
	add("byte-insert", 3, func(mc *mutCtx, p *syncer.Proof) (*syncer.Proof, string, bool) {
		rng := mc.pe.rng
		i := pickEntry(rng, p, nonEmpty)
		if i < 0 {
			return nil, "", false
		}
		e := p.Entries[i]
		b := rng.IntN(len(e) + 1)
		v := byte(rng.IntN(256))
		p.Entries[i] = append(append(append([]byte{}, e[:b]...), v), e[b:]...)
		return p, fmt.Sprintf("entry %d at %d insert %02x", i, b, v), true
	})
	add("byte-delete", 3, func(mc *mutCtx, p *syncer.Proof) (*syncer.Proof, string, bool) {
		rng := mc.pe.rng
		i := pickEntry(rng, p, nonEmpty)
		if i < 0 {
			return nil, "", false
		}
		e := p.Entries[i]
		b := rng.IntN(len(e))
		p.Entries[i] = append(append([]byte{}, e[:b]...), e[b+1:]...)
		return p, fmt.Sprintf("entry %d delete byte %d", i, b), true
	})
	add("entry-bytes-truncate", 3, func(mc *mutCtx, p *syncer.Proof) (*syncer.Proof, string, bool) {
		rng := mc.pe.rng
		i := pickEntry(rng, p, nonEmpty)
		if i < 0 {
			return nil, "", false
		}
		l := rng.IntN(len(p.Entries[i]))
		p.Entries[i] = p.Entries[i][:l]
		return p, fmt.Sprintf("entry %d cut to %d bytes", i, l), true
	})
	add("entry-bytes-extend", 4, func(mc *mutCtx, p *syncer.Proof) (*syncer.Proof, string, bool) {
		rng := mc.pe.rng
		i := pickEntry(rng, p, nonEmpty)
		if i < 0 {
			return nil, "", false
		}
		n := 1 + rng.IntN(4)
		if rng.IntN(4) == 0 {
			n = 64 // looks like two trailing child hashes of a non-compact node
		}
		for j := 0; j < n; j++ {
			p.Entries[i] = append(p.Entries[i], byte(rng.IntN(256)))
		}
		return p, fmt.Sprintf("entry %d + %d bytes", i, n), true
	})
	add("nil-to-empty", 1, func(mc *mutCtx, p *syncer.Proof) (*syncer.Proof, string, bool) {
		i := pickEntry(mc.pe.rng, p, isNilE)
		if i < 0 {
			return nil, "", false
		}
		p.Entries[i] = []byte{}
		return p, fmt.Sprintf("entry %d nil -> zero-length", i), true
	})

	// ---- entry level ------------------------------------------------------
	add("entry-drop", 6, func(mc *mutCtx, p *syncer.Proof) (*syncer.Proof, string, bool) {
		if len(p.Entries) == 0 {
			return nil, "", false
		}
		i := mc.pe.rng.IntN(len(p.Entries))
		p.Entries = append(p.Entries[:i:i], p.Entries[i+1:]...)
		return p, fmt.Sprintf("entry %d", i), true
	})
	add("entry-dup", 5, func(mc *mutCtx, p *syncer.Proof) (*syncer.Proof, string, bool) {
		rng := mc.pe.rng
		if len(p.Entries) == 0 {
			return nil, "", false
		}
		i := rng.IntN(len(p.Entries))
		at := i + 1
		if rng.IntN(3) == 0 {
			at = rng.IntN(len(p.Entries) + 1)
		}
		var cp []byte
		if p.Entries[i] != nil {
			cp = append([]byte{}, p.Entries[i]...)
		}
		ne := append([][]byte{}, p.Entries[:at]...)
		ne = append(ne, cp)
		ne = append(ne, p.Entries[at:]...)
		p.Entries = ne
		return p, fmt.Sprintf("entry %d copied to %d", i, at), true
	})
	add("entry-reorder", 6, func(mc *mutCtx, p *syncer.Proof) (*syncer.Proof, string, bool) {
		rng := mc.pe.rng
		if len(p.Entries) < 2 {
			return nil, "", false
		}
		i := rng.IntN(len(p.Entries))
		j := rng.IntN(len(p.Entries))
		if rng.IntN(2) == 0 {
			j = (i + 1) % len(p.Entries)
		}
		p.Entries[i], p.Entries[j] = p.Entries[j], p.Entries[i]
		return p, fmt.Sprintf("swap %d,%d", i, j), true
	})
	add("proof-truncate", 5, func(mc *mutCtx, p *syncer.Proof) (*syncer.Proof, string, bool) {
		if len(p.Entries) == 0 {
			return nil, "", false
		}
		k := mc.pe.rng.IntN(len(p.Entries))
		p.Entries = p.Entries[:k]
		return p, fmt.Sprintf("keep first %d entries", k), true
	})
	add("proof-extend", 6, func(mc *mutCtx, p *syncer.Proof) (*syncer.Proof, string, bool) {
		rng := mc.pe.rng
		n := 1 + rng.IntN(3)
		what := rng.IntN(4)
		for j := 0; j < n; j++ {
			var e []byte
			switch what {
			case 0:
			case 1:
				e = hashEntry(randHash(rng))
			case 2:
				if len(p.Entries) > 0 {
					if src := p.Entries[rng.IntN(len(p.Entries))]; src != nil {
						e = append([]byte{}, src...)
					}
				}
			default:
				e = fabricatedLeaf(mc.someKey(), genValue(rng))
			}
			if rng.IntN(5) == 0 {
				p.Entries = append([][]byte{e}, p.Entries...)
			} else {
				p.Entries = append(p.Entries, e)
			}
		}
		return p, fmt.Sprintf("%d extra entries of kind %d", n, what), true
	})

	// ---- structure: full node <-> hash -----------------------------------
	add("full-to-hash-subtree", 7, func(mc *mutCtx, p *syncer.Proof) (*syncer.Proof, string, bool) {
		// A valid but less informative proof: a whole subtree collapsed to its hash.
		if !mc.annotate() {
			return nil, "", false
		}
		i := pickEntry(mc.pe.rng, p, isFull)
		if i < 0 {
			return nil, "", false
		}
		ne := append([][]byte{}, p.Entries[:i]...)
		ne = append(ne, hashEntry(mc.annHash[i]))
		ne = append(ne, p.Entries[mc.annEnd[i]:]...)
		p.Entries = ne
		return p, fmt.Sprintf("entries [%d,%d) -> hash", i, mc.annEnd[i]), true
	})
	add("full-to-hash-raw", 4, func(mc *mutCtx, p *syncer.Proof) (*syncer.Proof, string, bool) {
		rng := mc.pe.rng
		i := pickEntry(rng, p, isFull)
		if i < 0 {
			return nil, "", false
		}
		h := randHash(rng)
		if mc.annotate() && rng.IntN(3) != 0 {
			h = mc.annHash[i]
		}
		p.Entries[i] = hashEntry(h)
		return p, fmt.Sprintf("entry %d -> hash entry, children left in place", i), true
	})
	add("hash-to-full-real", 7, func(mc *mutCtx, p *syncer.Proof) (*syncer.Proof, string, bool) {
		// A valid but more informative proof: a hash expanded to the real node.
		if !mc.annotate() {
			return nil, "", false
		}
		i := pickEntry(mc.pe.rng, p, isHashE)
		if i < 0 {
			return nil, "", false
		}
		ni := mc.pe.c.full[mc.annHash[i]]
		if ni == nil {
			return nil, "", false
		}
		ent, ch := ni.entryV0, ni.childV0
		if p.V == 1 {
			ent, ch = ni.entryV1, ni.childV1
		}
		ne := append([][]byte{}, p.Entries[:i]...)
		ne = append(ne, append([]byte{}, ent...))
		for _, h := range ch {
			ne = append(ne, hashEntry(h))
		}
		ne = append(ne, p.Entries[i+1:]...)
		p.Entries = ne
		return p, fmt.Sprintf("entry %d expanded to the real node", i), true
	})
	add("hash-to-full-fake", 6, func(mc *mutCtx, p *syncer.Proof) (*syncer.Proof, string, bool) {
		rng := mc.pe.rng
		i := pickEntry(rng, p, isHashE)
		if i < 0 {
			return nil, "", false
		}
		k := mc.someKey()
		p.Entries[i] = fabricatedLeaf(k, genValue(rng))
		return p, fmt.Sprintf("entry %d -> fabricated leaf for key %x", i, k), true
	})
	add("hash-to-nil", 6, func(mc *mutCtx, p *syncer.Proof) (*syncer.Proof, string, bool) {
		i := pickEntry(mc.pe.rng, p, isHashE)
		if i < 0 {
			return nil, "", false
		}
		p.Entries[i] = nil
		return p, fmt.Sprintf("entry %d (subtree hash) -> nil", i), true
	})
	add("nil-to-hash", 2, func(mc *mutCtx, p *syncer.Proof) (*syncer.Proof, string, bool) {
		rng := mc.pe.rng
		i := pickEntry(rng, p, isNilE)
		if i < 0 {
			return nil, "", false
		}
		p.Entries[i] = hashEntry(randHash(rng))
		return p, fmt.Sprintf("entry %d nil -> random hash", i), true
	})
	add("hash-replace", 5, func(mc *mutCtx, p *syncer.Proof) (*syncer.Proof, string, bool) {
		rng := mc.pe.rng
		i := pickEntry(rng, p, isHashE)
		if i < 0 {
			return nil, "", false
		}
		fh := mc.pe.c.fullHashes
		h := randHash(rng)
		if len(fh) > 0 && rng.IntN(3) != 0 {
			h = fh[rng.IntN(len(fh))]
		}
		p.Entries[i] = hashEntry(h)
		return p, fmt.Sprintf("entry %d -> hash of another node", i), true
	})

	// ---- targeted lies ----------------------------------------------------
	add("leaf-value", 10, func(mc *mutCtx, p *syncer.Proof) (*syncer.Proof, string, bool) {
		rng := mc.pe.rng
		i := pickEntry(rng, p, func(e []byte) bool { l, _ := leafOf(e); return l != nil })
		if i < 0 {
			return nil, "", false
		}
		lf, enc := leafOf(p.Entries[i])
		old := lf.Value
		switch rng.IntN(3) {
		case 0:
			lf.Value = genValue(rng)
		case 1:
			lf.Value = []byte{}
		default:
			lf.Value = append(append([]byte{}, old...), byte(rng.IntN(256)))
		}
		if string(lf.Value) == string(old) {
			lf.Value = append(append([]byte{}, old...), 0x42)
		}
		p.Entries[i] = enc()
		return p, fmt.Sprintf("entry %d: value of key %x changed", i, []byte(lf.Key)), true
	})
	add("leaf-key", 8, func(mc *mutCtx, p *syncer.Proof) (*syncer.Proof, string, bool) {
		rng := mc.pe.rng
		i := pickEntry(rng, p, func(e []byte) bool { l, _ := leafOf(e); return l != nil })
		if i < 0 {
			return nil, "", false
		}
		lf, enc := leafOf(p.Entries[i])
		old := lf.Key
		lf.Key = mc.someKey()
		if string(lf.Key) == string(old) {
			lf.Key = append(append(node.Key{}, old...), 'a')
		}
		p.Entries[i] = enc()
		return p, fmt.Sprintf("entry %d: key %x -> %x", i, []byte(old), []byte(lf.Key)), true
	})
	add("leaf-to-nil", 8, func(mc *mutCtx, p *syncer.Proof) (*syncer.Proof, string, bool) {
		rng := mc.pe.rng
		i := pickEntry(rng, p, func(e []byte) bool { l, _ := leafOf(e); return l != nil })
		if i < 0 {
			return nil, "", false
		}
		e := p.Entries[i]
		if isFullLeaf(e) {
			p.Entries[i] = nil
			return p, fmt.Sprintf("leaf entry %d -> nil", i), true
		}
		n, err := node.UnmarshalBinary(e[1:])
		if err != nil {
			return nil, "", false
		}
		in := n.(*node.InternalNode)
		in.LeafNode = nil
		d, _ := in.CompactMarshalBinaryV0()
		p.Entries[i] = append([]byte{0x01}, d...)
		return p, fmt.Sprintf("entry %d: embedded leaf removed", i), true
	})
	add("nil-to-leaf", 6, func(mc *mutCtx, p *syncer.Proof) (*syncer.Proof, string, bool) {
		rng := mc.pe.rng
		i := pickEntry(rng, p, isNilE)
		if i < 0 {
			return nil, "", false
		}
		k := mc.someKey()
		p.Entries[i] = fabricatedLeaf(k, genValue(rng))
		return p, fmt.Sprintf("entry %d nil -> fabricated leaf for key %x", i, k), true
	})
	add("embed-leaf", 4, func(mc *mutCtx, p *syncer.Proof) (*syncer.Proof, string, bool) {
		// Give an internal node (without leaf) an embedded fabricated leaf.
		rng := mc.pe.rng
		i := pickEntry(rng, p, isFullInternal)
		if i < 0 {
			return nil, "", false
		}
		n, err := node.UnmarshalBinary(p.Entries[i][1:])
		if err != nil {
			return nil, "", false
		}
		in := n.(*node.InternalNode)
		k := mc.someKey()
		in.LeafNode = &node.Pointer{Clean: true, Node: &node.LeafNode{Key: k, Value: genValue(rng)}}
		d, _ := in.CompactMarshalBinaryV0()
		p.Entries[i] = append([]byte{0x01}, d...)
		return p, fmt.Sprintf("entry %d: embedded leaf for key %x fabricated", i, k), true
	})
	add("v1-true-embedded-leaf-fake-child", 4, func(mc *mutCtx, p *syncer.Proof) (*syncer.Proof, string, bool) {
		// Version 1 only: an internal node entry is given in its version 0
		// encoding (with the TRUE leaf embedded) while the separate leaf child
		// entry is fabricated. The hash must be computed from the child entry.
		rng := mc.pe.rng
		if p.V != 1 || !mc.annotate() {
			return nil, "", false
		}
		var cand []int
		for i, e := range p.Entries {
			if ni := mc.pe.c.full[mc.annHash[i]]; isFullInternal(e) && ni != nil && !ni.leaf && !ni.childV1[0].IsEmpty() && i+1 < len(p.Entries) {
				cand = append(cand, i)
			}
		}
		if len(cand) == 0 {
			return nil, "", false
		}
		i := cand[rng.IntN(len(cand))]
		ni := mc.pe.c.full[mc.annHash[i]]
		p.Entries[i] = append([]byte{}, ni.entryV0...)
		k := mc.someKey()
		if rng.IntN(2) == 0 && ni.internal.LeafNode != nil && ni.internal.LeafNode.Node != nil {
			if lf, ok := ni.internal.LeafNode.Node.(*node.LeafNode); ok {
				k = append([]byte{}, lf.Key...)
			}
		}
		p.Entries[i+1] = fabricatedLeaf(k, append(genValue(rng), 0x99))
		return p, fmt.Sprintf("entry %d in v0 encoding with its true leaf, child entry %d fabricated for key %x", i, i+1, k), true
	})
	add("label-change", 6, func(mc *mutCtx, p *syncer.Proof) (*syncer.Proof, string, bool) {
		rng := mc.pe.rng
		i := pickEntry(rng, p, isFullInternal)
		if i < 0 {
			return nil, "", false
		}
		n, err := node.UnmarshalBinary(p.Entries[i][1:])
		if err != nil {
			return nil, "", false
		}
		in := n.(*node.InternalNode)
		var what string
		switch rng.IntN(3) {
		case 0:
			if len(in.Label) == 0 {
				return nil, "", false
			}
			b := rng.IntN(len(in.Label))
			in.Label = append(node.Key{}, in.Label...)
			in.Label[b] ^= 1 << uint(rng.IntN(8))
			what = "label bit flipped"
		case 1:
			delta := []int{-8, -1, 1, 8}[rng.IntN(4)]
			nl := int(in.LabelBitLength) + delta
			if nl < 0 {
				nl = 0
			}
			in.LabelBitLength = node.Depth(nl)
			lab := append(node.Key{}, in.Label...)
			for len(lab) < in.LabelBitLength.ToBytes() {
				lab = append(lab, 0)
			}
			in.Label = lab[:in.LabelBitLength.ToBytes()]
			what = fmt.Sprintf("label bit length %+d", delta)
		default:
			in.LabelBitLength = node.Depth(rng.IntN(70000))
			what = "label bit length random, label bytes unchanged"
		}
		d, err := in.CompactMarshalBinaryV0()
		if err != nil {
			return nil, "", false
		}
		if p.V == 1 && in.LeafNode == nil {
			d, _ = in.CompactMarshalBinaryV1()
		}
		p.Entries[i] = append([]byte{0x01}, d...)
		return p, fmt.Sprintf("entry %d: %s", i, what), true
	})

	// ---- fabricated minimal proofs ----------------------------------------
	add("fabricated-minimal", 8, func(mc *mutCtx, p *syncer.Proof) (*syncer.Proof, string, bool) {
		// A proof made from nothing but the trusted hash: no entries, a single
		// nil, or a single hash entry (empty hash / the trusted root / the
		// position / some node / random), in either version, claiming to be for
		// the sync root or for the requested position.
		rng := mc.pe.rng
		c := mc.pe.c
		q := &syncer.Proof{V: uint16(rng.IntN(2)), UntrustedRoot: c.root.Hash}
		what := "for sync root"
		if rng.IntN(3) == 0 {
			q.UntrustedRoot, what = mc.ri.position, "for position"
		}
		var eh hash.Hash
		eh.Empty()
		rawHash := func(h hash.Hash) []byte { return append([]byte{0x02}, h[:]...) }
		switch rng.IntN(9) {
		case 0:
			q.Entries, what = [][]byte{}, what+", no entries"
		case 1, 2:
			q.Entries, what = [][]byte{nil}, what+", [nil]"
		case 3, 4:
			q.Entries, what = [][]byte{rawHash(eh)}, what+", [hash entry = empty hash]"
		case 5:
			q.Entries, what = [][]byte{rawHash(q.UntrustedRoot)}, what+", [hash entry = claimed root]"
		case 6:
			h := c.root.Hash
			if len(c.fullHashes) > 0 {
				h = c.fullHashes[rng.IntN(len(c.fullHashes))]
			}
			q.Entries, what = [][]byte{rawHash(h)}, what+", [hash entry = some node of the tree]"
		case 7:
			q.Entries, what = [][]byte{rawHash(randHash(rng))}, what+", [hash entry = random]"
		default:
			q.Entries, what = [][]byte{nil, nil}, what+", [nil nil]"
		}
		return q, fmt.Sprintf("v%d %s", q.V, what), true
	})

	// ---- alternative encodings of honest entries ---------------------------
	add("reencode-db", 5, func(mc *mutCtx, p *syncer.Proof) (*syncer.Proof, string, bool) {
		// Internal-node entries given in the non-compact (database) serialization
		// (inline leaf + embedded child hashes). Same tree, different bytes.
		if !mc.annotate() {
			return nil, "", false
		}
		rng := mc.pe.rng
		all := rng.IntN(2) == 0
		one := pickEntry(rng, p, isFullInternal)
		n := 0
		for i, e := range p.Entries {
			if !isFullInternal(e) || (!all && i != one) {
				continue
			}
			if ni := mc.pe.c.full[mc.annHash[i]]; ni != nil && ni.entryDB != nil {
				p.Entries[i] = append([]byte{}, ni.entryDB...)
				n++
			}
		}
		return p, fmt.Sprintf("%d internal entries in database encoding", n), n > 0
	})
	add("reencode-other-compact", 3, func(mc *mutCtx, p *syncer.Proof) (*syncer.Proof, string, bool) {
		// Compact encoding of the other proof version (with / without inline leaf).
		if !mc.annotate() {
			return nil, "", false
		}
		i := pickEntry(mc.pe.rng, p, isFullInternal)
		if i < 0 {
			return nil, "", false
		}
		ni := mc.pe.c.full[mc.annHash[i]]
		if ni == nil {
			return nil, "", false
		}
		if p.V == 0 {
			p.Entries[i] = append([]byte{}, ni.entryV1...)
		} else {
			p.Entries[i] = append([]byte{}, ni.entryV0...)
		}
		return p, fmt.Sprintf("entry %d in the compact encoding of version %d", i, p.V^1), true
	})
	add("reencode-db-forged-child", 14, func(mc *mutCtx, p *syncer.Proof) (*syncer.Proof, string, bool) {
		// The real node in database encoding (its embedded child hashes are the
		// true ones) followed by child entries that are NOT its children: a
		// forged leaf, nil, another node's hash, a subtree of another tree.
		if !mc.annotate() {
			return nil, "", false
		}
		rng := mc.pe.rng
		c := mc.pe.c
		i := pickEntry(rng, p, isFullInternal)
		if i < 0 {
			return nil, "", false
		}
		ni := c.full[mc.annHash[i]]
		if ni == nil || ni.leaf || ni.entryDB == nil {
			return nil, "", false
		}
		nch := 2
		if p.V == 1 {
			nch = 3
		}
		// Extents of the child subtrees in the honest proof.
		starts := make([]int, nch+1)
		pos := i + 1
		for k := 0; k < nch; k++ {
			if pos >= len(p.Entries) {
				return nil, "", false
			}
			starts[k] = pos
			pos = mc.annEnd[pos]
		}
		starts[nch] = pos
		// Which child does the requested key go to?
		key := mc.someKey()
		if mc.ri.op != "prefixes" && rng.IntN(4) != 0 {
			key = append([]byte{}, mc.ri.key...)
		}
		bl := ni.depth + int(ni.internal.LabelBitLength)
		k := rng.IntN(nch)
		if rng.IntN(4) != 0 {
			switch {
			case len(key)*8 == bl && p.V == 1:
				k = 0
			case len(key)*8 > bl && key[bl/8]&(1<<(7-uint(bl%8))) != 0:
				k = nch - 1
			case len(key)*8 > bl:
				k = nch - 2
			}
		}
		var repl [][]byte
		var what string
		switch x := rng.IntN(10); {
		case x < 4:
			repl, what = [][]byte{fabricatedLeaf(key, append(genValue(rng), 0x77))}, fmt.Sprintf("forged leaf for key %x", key)
		case x < 7:
			repl, what = [][]byte{nil}, "nil"
		case x < 8 && len(c.fullHashes) > 0:
			repl, what = [][]byte{hashEntry(c.fullHashes[rng.IntN(len(c.fullHashes))])}, "hash of another node"
		default:
			donor := []string{"other-tree", "old-root"}[rng.IntN(2)]
			q, err := mc.pe.fetch(donor, mc.ri)
			if err != nil || len(q.Entries) == 0 || q.V != p.V {
				return nil, "", false
			}
			repl, what = q.Entries, "whole proof of "+donor+" as subtree"
		}
		ent := append([]byte{}, ni.entryDB...)
		if rng.IntN(8) == 0 {
			// Variant: database encoding with a forged inline leaf as well.
			in := *ni.internal
			in.LeafNode = &node.Pointer{Clean: true, Node: &node.LeafNode{Key: key, Value: genValue(rng)}}
			if b, err := in.MarshalBinary(); err == nil {
				ent = append([]byte{0x01}, b...)
				what += " + forged inline leaf"
			}
		}
		ne := append([][]byte{}, p.Entries[:i]...)
		ne = append(ne, ent)
		ne = append(ne, p.Entries[starts[0]:starts[k]]...)
		ne = append(ne, repl...)
		ne = append(ne, p.Entries[starts[k+1]:]...)
		p.Entries = ne
		return p, fmt.Sprintf("entry %d (bit depth %d) in database encoding, child %d of %d replaced by %s", i, ni.depth, k, nch, what), true
	})

	// ---- header -----------------------------------------------------------
	add("root-swap", 6, func(mc *mutCtx, p *syncer.Proof) (*syncer.Proof, string, bool) {
		rng := mc.pe.rng
		c := mc.pe.c
		var what string
		switch rng.IntN(5) {
		case 0:
			p.UntrustedRoot, what = c.otherRoot.Hash, "root of another tree"
		case 1:
			p.UntrustedRoot, what = c.oldRoot.Hash, "older root"
		case 2:
			p.UntrustedRoot, what = randHash(rng), "random"
		case 3:
			p.UntrustedRoot.Empty()
			what = "empty hash"
		default:
			if p.UntrustedRoot.Equal(&mc.ri.position) {
				p.UntrustedRoot, what = c.root.Hash, "sync root instead of position"
			} else {
				p.UntrustedRoot, what = mc.ri.position, "position instead of sync root"
			}
		}
		return p, "untrusted root := " + what, true
	})
	add("version-swap", 6, func(mc *mutCtx, p *syncer.Proof) (*syncer.Proof, string, bool) {
		rng := mc.pe.rng
		if rng.IntN(4) == 0 {
			p.V = uint16(2 + rng.IntN(65534))
			return p, fmt.Sprintf("version := %d", p.V), true
		}
		p.V ^= 1
		return p, fmt.Sprintf("version := %d, entries unchanged", p.V), true
	})
	add("honest-other-version", 5, func(mc *mutCtx, p *syncer.Proof) (*syncer.Proof, string, bool) {
		ri := mc.ri
		ri.version ^= 1
		q, err := mc.pe.fetch("main", ri)
		if err != nil {
			return nil, "", false
		}
		return q, fmt.Sprintf("honest proof in version %d", ri.version), true
	})

	// ---- splices ----------------------------------------------------------
	for _, donor := range []string{"other-tree", "old-root"} {
		donor := donor
		add("splice-"+donor+"-whole", 4, func(mc *mutCtx, p *syncer.Proof) (*syncer.Proof, string, bool) {
			q, err := mc.pe.fetch(donor, mc.ri)
			if err != nil {
				return nil, "", false
			}
			q.UntrustedRoot = p.UntrustedRoot
			return q, "whole proof of the donor, untrusted root rewritten", true
		})
		add("splice-"+donor+"-entries", 7, func(mc *mutCtx, p *syncer.Proof) (*syncer.Proof, string, bool) {
			q, err := mc.pe.fetch(donor, mc.ri)
			if err != nil {
				return nil, "", false
			}
			d := spliceEntries(mc.pe.rng, p, q)
			return p, d, d != ""
		})
	}
	add("stale-old-root", 4, func(mc *mutCtx, p *syncer.Proof) (*syncer.Proof, string, bool) {
		q, err := mc.pe.fetch("old-root", mc.ri)
		if err != nil {
			return nil, "", false
		}
		return q, "unmodified proof for the older root", true
	})
	add("other-key-whole", 6, func(mc *mutCtx, p *syncer.Proof) (*syncer.Proof, string, bool) {
		// A valid proof of the right tree, but for a different question.
		ri := mc.otherRequest()
		if mc.pe.rng.IntN(2) == 0 {
			ri.position = mc.pe.c.root.Hash
		}
		q, err := mc.pe.fetch("main", ri)
		if err != nil {
			return nil, "", false
		}
		return q, fmt.Sprintf("honest proof for key %x", ri.key), true
	})
	add("other-key-entries", 5, func(mc *mutCtx, p *syncer.Proof) (*syncer.Proof, string, bool) {
		q, err := mc.pe.fetch("main", mc.otherRequest())
		if err != nil {
			return nil, "", false
		}
		d := spliceEntries(mc.pe.rng, p, q)
		return p, d, d != ""
	})
	add("stale-replay", 5, func(mc *mutCtx, p *syncer.Proof) (*syncer.Proof, string, bool) {
		h := mc.pe.history
		if len(h) == 0 {
			return nil, "", false
		}
		i := mc.pe.rng.IntN(len(h))
		return copyProof(h[i]), fmt.Sprintf("replay of earlier response %d", i), true
	})
	add("empty-proof", 1, func(mc *mutCtx, p *syncer.Proof) (*syncer.Proof, string, bool) {
		p.Entries = nil
		return p, "no entries", true
	})
}
