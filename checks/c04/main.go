// Command c04 is the runtime monitor for property C04 "Merkle proofs are
// complete and cannot be made to lie" (DESIGN.md section 4, C04).
//
// Completeness: for random committed trees and probe keys, every proof the
// real tree produces (SyncGet / SyncGetPrefixes / SyncIterate, proof versions
// 0 and 1, with and without siblings, root and sub-tree positions) must verify
// against the root, yield only true pairs, contain the asked keys, determine
// the answer (checked by the monitor's own interpreter of the verified partial
// tree) and let a client fed by exactly that proof answer like the model.
//
// Soundness: client trees with cache capacities 1..unlimited read through an
// evil peer that serves honest / mutated / spliced / stale proofs or errors
// from a seeded schedule. Every non-error answer must equal the model under
// the trusted root; errors are fine; panics are violations. Every corrupted
// proof that VerifyProof accepts is re-interrogated.
package main

import (
	"encoding/json"
	"fmt"
	"os"
	"time"

	"verif/engine/evid"
)

func main() {
	r := evid.Start("C04", "exploration")
	r.Rule = "case = random committed MKVS tree (adversarial key alphabet {00,01,7f,80,ff,a,b}, key length 0-6 incl. the empty key and prefix pairs, " +
		"values 0-3 bytes plus occasional 100-3100 bytes, 0-48 keys) with two donor trees (older root differing in 1-3 entries, another tree). " +
		"Per case: completeness half (honest SyncGet/SyncGetPrefixes/SyncIterate proofs in versions 0/1, siblings on/off, root/sub-tree positions: VerifyProof, " +
		"VerifyProofToWriteLog true pairs + asked keys, determination by the monitor's own partial-tree interpreter, one-proof clients, long-lived honest clients) " +
		"and soundness half (client trees with cache capacities 1..unlimited over an evil peer following a seeded schedule of honest/mutated/spliced/stale/error responses). " +
		"evaluations = trees. A non-trivial case is a distinct (tree, evil schedule) pair in which at least one corrupted response was served AND at least one non-error answer was obtained after it."
	r.Assume("the reference model (Go map + sorted key list) and the monitor's partial-tree interpreter (ptree.go) are correct")
	r.Assume("the honest server tree is an in-memory mkvs tree built with Insert/Remove/Commit; its contents are checked against the model by a full SyncIterate read-back before use")
	r.Assume("hash function (SHA-512/256) is collision resistant; the evil peer does not search for collisions")
	r.Assume("the peer returns a non-nil ProofResponse or an error (what an RPC layer delivers); a nil response with nil error is not generated")

	sz := sizes{
		clientsPerTree:   5,                // 2 honest + 3 evil schedules
		responsesPerPeer: r.Pick(67, 67),   // 3 evil peers x 67 = ~200 responses per tree
		maxOpsPerClient:  r.Pick(160, 160), //
		getProbes:        r.Pick(24, 40),
		iterProbes:       r.Pick(10, 16),
		prefixProbes:     r.Pick(5, 8),
	}
	nTrees := r.Pick(9000, 60000)
	r.Set("sizes", map[string]any{"trees": nTrees, "clients_per_tree": sz.clientsPerTree, "evil_schedules_per_tree": sz.clientsPerTree - 2,
		"max_responses_per_peer": sz.responsesPerPeer, "max_ops_per_client": sz.maxOpsPerClient})

	if r.ReplayFile != "" {
		replay(r, sz)
		return
	}

	if spec := os.Getenv("C04_WORKER"); spec != "" {
		workerMain(r, sz, spec) // does not return
	}

	cacheDefectProbe(r, sz)
	deepChainProbe(r, sz)
	longPrefixProbe(r, sz)
	// Cases run in worker processes (worker.go). The watchdog is generous; its
	// firing makes the run inconclusive.
	runWorkers(r, nTrees, time.Duration(r.Pick(25, 110))*time.Minute)

	r.Set("mutation_kinds_available", len(mutations))
	r.Finish(nTrees / 2)
}

// replay re-runs the case named in a witness file written by r.Violation.
func replay(r *evid.Run, sz sizes) {
	b, err := os.ReadFile(r.ReplayFile)
	if err != nil {
		fmt.Fprintf(os.Stderr, "replay: %v\n", err)
		os.Exit(2)
	}
	var doc struct {
		Signature string `json:"signature"`
		Witness   struct {
			Seed int64  `json:"seed"`
			Tier string `json:"tier"`
			Case int    `json:"case"`
		} `json:"witness"`
	}
	if err := json.Unmarshal(b, &doc); err != nil {
		fmt.Fprintf(os.Stderr, "replay: %v\n", err)
		os.Exit(2)
	}
	r.Seed = doc.Witness.Seed
	if doc.Witness.Tier == "quick" || doc.Witness.Tier == "thorough" {
		r.Tier = doc.Witness.Tier
	}
	sz.getProbes = r.Pick(24, 40)
	sz.iterProbes = r.Pick(10, 16)
	sz.prefixProbes = r.Pick(5, 8)
	fmt.Printf("REPLAY case %d of seed %d tier %s (expected signature %s)\n", doc.Witness.Case, r.Seed, r.Tier, doc.Signature)
	if doc.Witness.Case <= -20 {
		longPrefixProbe(r, sz)
	} else if doc.Witness.Case < -1 {
		deepChainProbe(r, sz)
	} else if doc.Witness.Case < 0 {
		cacheDefectProbe(r, sz)
	} else {
		runCase(r, r, sz, doc.Witness.Case, true)
	}
	if r.Violations() == 0 {
		fmt.Println("REPLAY: no violation reproduced")
	}
	r.Finish(0)
}
