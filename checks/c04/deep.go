package main

import (
	"bytes"
	"context"
	"fmt"
	"strings"

	"github.com/oasisprotocol/oasis-core/go/storage/mkvs/syncer"

	"verif/engine/evid"
)

// deepChainProbe builds fixed nested-prefix key chains ("", "a", "aa", ...) and
// asks the honest server for a lookup proof of the deepest key, for both proof
// versions. The proof verifier bounds the proof depth (maxProofDepth = 128 in
// syncer/proof.go); a chain below the bound is the control and must verify, a
// chain above it shows the listed finding "honest proof of a tree deeper than
// 128 node levels is rejected" under one stable signature. Any other failure
// is reported under the ordinary completeness signatures.
func deepChainProbe(r *evid.Run, sz sizes) {
	for ci, n := range []int{100, 127, 140} {
		c := &caseCtx{r: r, rep: r, sz: sz, idx: -2 - ci, ctx: context.Background(), cnt: map[string]int64{}, set: map[string]map[string]struct{}{}}
		content := map[string][]byte{}
		for i := 0; i < n; i++ {
			content[strings.Repeat("a", i)] = []byte(fmt.Sprintf("v%d", i))
		}
		var serr error
		if msg, _ := guard(func() { serr = c.setup(r.Rand(^uint64(1), uint64(ci)), content) }); msg != "" || serr != nil {
			r.Inconclusive("deep chain probe: cannot build tree: %v %s", serr, msg)
			c.flush()
			continue
		}
		// The full-iteration read-back itself needs a proof of the whole chain, so it
		// is only possible below the bound.
		if n > 128 || c.readBack() {
			key := []byte(strings.Repeat("a", n-1))
			for ver := 0; ver <= 1; ver++ {
				f := complFail{Op: "get", Key: hx(key), Version: ver, Position: fmt.Sprintf("root (chain of %d nested keys)", n)}
				var rsp *syncer.ProofResponse
				var err error
				if msg, st := guard(func() {
					rsp, err = c.server.SyncGet(c.ctx, &syncer.GetRequest{
						Tree: syncer.TreeID{Root: c.root, Position: c.root.Hash}, Key: key, ProofVersion: uint16(ver),
					})
				}); msg != "" {
					c.complViolation("panic/server-syncget", "panic in SyncGet: "+msg, f, nil, st)
					continue
				}
				if err != nil {
					c.complViolation(fmt.Sprintf("c04/completeness/server-error/get/v%d", ver), "SyncGet fails on a committed tree: "+err.Error(), f, nil, "")
					continue
				}
				var pv syncer.ProofVerifier
				var verr error
				if msg, st := guard(func() { _, verr = pv.VerifyProof(c.ctx, c.root.Hash, &rsp.Proof) }); msg != "" {
					c.complViolation("panic/verify-honest-proof/get", "panic while verifying an honest proof: "+msg, f, &rsp.Proof, st)
					continue
				}
				c.count("deep_chain_probe/proofs", 1)
				if verr != nil && n > 128 && strings.Contains(verr.Error(), "max proof depth exceeded") {
					c.count("deep_chain_probe/rejected_over_128", 1)
					c.complViolation("c04/completeness/honest-proof-rejected/proof-depth-over-128",
						fmt.Sprintf("honest lookup proof of the deepest key of a %d-level prefix chain is rejected: %v", n, verr), f, nil, "")
					continue
				}
				v, ok := c.verifyHonest("get", f, c.root.Hash, &rsp.Proof)
				if !ok {
					continue
				}
				found := false
				for _, e := range v.wl {
					if bytes.Equal(e.Key, key) && bytes.Equal(e.Value, content[string(key)]) {
						found = true
					}
				}
				if !found {
					c.complViolation(fmt.Sprintf("c04/completeness/writelog-missing-key/get/v%d", ver),
						"verified honest proof of a deep chain does not determine the requested key", f, &rsp.Proof, "")
					continue
				}
				c.count("deep_chain_probe/verified", 1)
			}
		}
		c.close()
		c.flush()
	}
}

// longPrefixProbe builds small trees in which two (or three) keys share a very long run of bytes with
// nothing branching off inside it, so one internal node carries a label of hundreds to tens of
// thousands of bits, and asks the honest server for lookup proofs of every key (both proof versions)
// and for the full iteration: every honest proof must verify and determine the key. Key lengths go up to
// the tree's limit (8191 bytes).
func longPrefixProbe(r *evid.Run, sz sizes) {
	for ci, n := range []int{130, 1023, 1024, 1500, 4000, 8100} {
		c := &caseCtx{r: r, rep: r, sz: sz, idx: -20 - ci, ctx: context.Background(), cnt: map[string]int64{}, set: map[string]map[string]struct{}{}}
		rng := r.Rand(^uint64(2), uint64(ci))
		run := make([]byte, n)
		for i := range run {
			run[i] = []byte{0x00, 0x61, 0x7f, 0x80, 0xff}[rng.IntN(5)]
		}
		content := map[string][]byte{
			string(append(append([]byte(nil), run...), 0x01, 'x')): []byte("left"),
			string(append(append([]byte(nil), run...), 0x81, 'y')): []byte("right"),
			"a":  []byte("short"),
			"zz": []byte("other"),
		}
		if ci%2 == 1 {
			content[string(append(append([]byte(nil), run...), 0x81, 'y', 'z'))] = []byte("below")
		}
		var serr error
		if msg, _ := guard(func() { serr = c.setup(rng, content) }); msg != "" || serr != nil {
			r.Inconclusive("long prefix probe: cannot build tree: %v %s", serr, msg)
			c.flush()
			continue
		}
		if c.readBack() {
			for ks := range content {
				key := []byte(ks)
				for ver := 0; ver <= 1; ver++ {
					f := complFail{Op: "get", Key: fmt.Sprintf("%d bytes, shared run of %d", len(key), n), Version: ver, Position: "root"}
					var rsp *syncer.ProofResponse
					var err error
					if msg, st := guard(func() {
						rsp, err = c.server.SyncGet(c.ctx, &syncer.GetRequest{
							Tree: syncer.TreeID{Root: c.root, Position: c.root.Hash}, Key: key, ProofVersion: uint16(ver),
						})
					}); msg != "" {
						c.complViolation("panic/server-syncget", "panic in SyncGet: "+msg, f, nil, st)
						continue
					}
					if err != nil {
						c.complViolation(fmt.Sprintf("c04/completeness/server-error/get/v%d", ver), "SyncGet fails on a committed tree: "+err.Error(), f, nil, "")
						continue
					}
					c.count("long_prefix_probe/proofs", 1)
					v, ok := c.verifyHonest("get", f, c.root.Hash, &rsp.Proof)
					if !ok {
						continue
					}
					found := false
					for _, e := range v.wl {
						if bytes.Equal(e.Key, key) && bytes.Equal(e.Value, content[ks]) {
							found = true
						}
					}
					if !found {
						c.complViolation(fmt.Sprintf("c04/completeness/writelog-missing-key/get/v%d", ver),
							"verified honest proof through a long-label node does not determine the requested key", f, &rsp.Proof, "")
						continue
					}
					c.count("long_prefix_probe/verified", 1)
				}
			}
		}
		c.close()
		c.flush()
	}
}
