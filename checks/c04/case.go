package main

import (
	"bytes"
	"context"
	"encoding/hex"
	"fmt"
	"math/rand/v2"
	"runtime/debug"
	"sort"
	"sync"

	"github.com/oasisprotocol/oasis-core/go/common/crypto/hash"
	"github.com/oasisprotocol/oasis-core/go/storage/mkvs"
	"github.com/oasisprotocol/oasis-core/go/storage/mkvs/node"
	"github.com/oasisprotocol/oasis-core/go/storage/mkvs/syncer"
	"github.com/oasisprotocol/oasis-core/go/storage/mkvs/writelog"

	"verif/engine/evid"
)

type sizes struct {
	clientsPerTree   int
	responsesPerPeer int
	maxOpsPerClient  int
	getProbes        int // completeness: probe keys per tree for SyncGet
	iterProbes       int
	prefixProbes     int
}

// caseCtx is everything that belongs to one generated tree.
type caseCtx struct {
	r   *evid.Run // seed, tier, PRNG streams
	rep reporter  // where observations go (the Run itself, or a recorder in a worker process)
	sz  sizes
	idx int
	ctx context.Context

	M, Mold, Mother *model
	server          mkvs.Tree
	oldSrv          mkvs.Tree
	otherSrv        mkvs.Tree
	root            node.Root
	oldRoot         node.Root
	otherRoot       node.Root
	probes          []probe
	full            map[hash.Hash]*nodeInfo
	fullHashes      []hash.Hash // deterministic order
	internalHashes  []hash.Hash

	mu  sync.Mutex
	cnt map[string]int64
	set map[string]map[string]struct{}
}

func (c *caseCtx) count(name string, n int64) { c.cnt[name] += n }

func (c *caseCtx) distinct(set, key string) {
	m := c.set[set]
	if m == nil {
		m = map[string]struct{}{}
		c.set[set] = m
	}
	m[key] = struct{}{}
}

func (c *caseCtx) flush() {
	names := make([]string, 0, len(c.cnt))
	for k := range c.cnt {
		names = append(names, k)
	}
	sort.Strings(names)
	for _, k := range names {
		c.rep.Count(k, c.cnt[k])
	}
	for s, m := range c.set {
		for k := range m {
			c.rep.Distinct(s, k)
		}
	}
}

// witness is the replayable description of a violation: the case is a pure
// function of (seed, case); tree contents and the schedule are included so the
// failure can be understood without re-running.
type witness struct {
	Seed     int64          `json:"seed"`
	Tier     string         `json:"tier"`
	Case     int            `json:"case"`
	Half     string         `json:"half"`
	Client   int            `json:"client,omitempty"`
	Root     string         `json:"root"`
	TreeHex  [][2]string    `json:"tree_hex"`
	Cache    string         `json:"cache,omitempty"`
	Schedule []schedEntry   `json:"schedule,omitempty"`
	Ops      []opRecord     `json:"ops,omitempty"`
	Failing  any            `json:"failing_op"`
	Detail   string         `json:"detail"`
	Proof    *proofHex      `json:"proof,omitempty"`
	Stack    string         `json:"stack,omitempty"`
	Replay   string         `json:"replay_cmd"`
	OtherHex [][2]string    `json:"other_tree_hex,omitempty"`
	OldHex   [][2]string    `json:"old_root_tree_hex,omitempty"`
	Extra    map[string]any `json:"extra,omitempty"`
}

type proofHex struct {
	V             uint16   `json:"v"`
	UntrustedRoot string   `json:"untrusted_root"`
	Entries       []string `json:"entries"`
}

func hexProof(p *syncer.Proof) *proofHex {
	if p == nil {
		return nil
	}
	ph := &proofHex{V: p.V, UntrustedRoot: hex.EncodeToString(p.UntrustedRoot[:])}
	for _, e := range p.Entries {
		if e == nil {
			ph.Entries = append(ph.Entries, "nil")
		} else {
			ph.Entries = append(ph.Entries, hex.EncodeToString(e))
		}
	}
	return ph
}

func (c *caseCtx) baseWitness(half string) *witness {
	return &witness{
		Seed: c.r.Seed, Tier: c.r.Tier, Case: c.idx, Half: half,
		Root:    hex.EncodeToString(c.root.Hash[:]),
		TreeHex: c.M.hex(),
		Replay:  fmt.Sprintf("cd /verif && ./run.sh C04 replay <this file>   (re-runs case %d of seed %d, tier %s)", c.idx, c.r.Seed, c.r.Tier),
	}
}

// guard runs f and converts a panic into (message, stack).
func guard(f func()) (pmsg string, stack string) {
	defer func() {
		if x := recover(); x != nil {
			pmsg = fmt.Sprint(x)
			stack = string(debug.Stack())
		}
	}()
	f()
	return "", ""
}

func copyProof(p *syncer.Proof) *syncer.Proof {
	if p == nil {
		return nil
	}
	q := *p
	q.Entries = make([][]byte, len(p.Entries))
	for i, e := range p.Entries {
		if e != nil {
			q.Entries[i] = append([]byte{}, e...)
		}
	}
	return &q
}

func proofEqual(a, b *syncer.Proof) bool {
	if a.V != b.V || !a.UntrustedRoot.Equal(&b.UntrustedRoot) || len(a.Entries) != len(b.Entries) {
		return false
	}
	for i := range a.Entries {
		if (a.Entries[i] == nil) != (b.Entries[i] == nil) || !bytes.Equal(a.Entries[i], b.Entries[i]) {
			return false
		}
	}
	return true
}

// falsePair returns the first write log entry that is not a pair of the model.
func falsePair(md *model, wl writelog.WriteLog) (string, bool) {
	for _, e := range wl {
		v, ok := md.m[string(e.Key)]
		if !ok {
			return fmt.Sprintf("key %x (value %x) is not in the tree", e.Key, trunc(e.Value)), true
		}
		if !bytes.Equal(v, e.Value) {
			return fmt.Sprintf("key %x has value %x in the tree, the proof yields %x", e.Key, trunc(v), trunc(e.Value)), true
		}
	}
	return "", false
}

func trunc(b []byte) []byte {
	if len(b) > 24 {
		return b[:24]
	}
	return b
}

func wlHas(wl writelog.WriteLog, k []byte) bool {
	for _, e := range wl {
		if bytes.Equal(e.Key, k) {
			return true
		}
	}
	return false
}

// setup generates the trees of the case. It returns false if the case could
// not be built (reported by the caller).
func (c *caseCtx) setup(rng *rand.Rand, content map[string][]byte) error {
	if content == nil {
		content = genContent(rng)
	}
	c.M = newModel(content)
	c.Mold = newModel(derive(rng, c.M, 1+rng.IntN(3)))
	// "Another tree": shares keys with M but many values differ, plus unrelated keys.
	oth := derive(rng, c.M, 2+len(c.M.keys)/2)
	c.Mother = newModel(oth)
	var err error
	if c.server, c.root, err = buildTree(c.ctx, rng, c.M, 1); err != nil {
		return err
	}
	if c.oldSrv, c.oldRoot, err = buildTree(c.ctx, rng, c.Mold, 0); err != nil {
		return err
	}
	if c.otherSrv, c.otherRoot, err = buildTree(c.ctx, rng, c.Mother, 1); err != nil {
		return err
	}
	c.probes = genProbes(rng, c.M)
	return nil
}

func (c *caseCtx) close() {
	for _, t := range []mkvs.Tree{c.server, c.oldSrv, c.otherSrv} {
		if t != nil {
			t.Close()
		}
	}
}

func runCase(r *evid.Run, rep reporter, sz sizes, idx int, verbose bool) {
	c := &caseCtx{r: r, rep: rep, sz: sz, idx: idx, ctx: context.Background(), cnt: map[string]int64{}, set: map[string]map[string]struct{}{}}
	defer c.flush()
	rng := r.Rand(uint64(idx), 0)
	var serr error
	if msg, stack := guard(func() { serr = c.setup(rng, nil) }); msg != "" {
		w := &witness{Seed: r.Seed, Tier: r.Tier, Case: idx, Half: "setup", Detail: msg, Stack: stack}
		rep.Violation("panic/tree-build", "panic while building the server tree: "+msg, w)
		return
	}
	if serr != nil {
		rep.Inconclusive("case %d: could not build the server tree: %v", idx, serr)
		return
	}
	defer c.close()
	rep.Eval(1)
	c.count("trees", 1)
	c.count("tree_keys_total", int64(len(c.M.keys)))
	c.distinct("tree_sizes", fmt.Sprint(len(c.M.keys)))
	shape := c.shapeFeatures()
	for _, f := range shape {
		c.count("trees_with/"+f, 1)
	}

	if !c.completeness(r.Rand(uint64(idx), 1)) {
		return // the full tree could not even be read back; soundness needs it
	}
	c.soundness(verbose)
	c.localWrites(r.Rand(uint64(idx), 7))

	rep.Sample(map[string]any{
		"case": idx, "keys": len(c.M.keys), "root": hex.EncodeToString(c.root.Hash[:]),
		"tree_hex_first8": firstN(c.M.hex(), 8), "shape": shape, "probes": len(c.probes),
	})
}

func firstN(x [][2]string, n int) [][2]string {
	if len(x) > n {
		x = x[:n]
	}
	out := make([][2]string, len(x))
	for i, p := range x {
		if len(p[1]) > 32 {
			p[1] = p[1][:32] + "..."
		}
		out[i] = p
	}
	return out
}

func (c *caseCtx) shapeFeatures() []string {
	var f []string
	prefixPair, empty, large := false, false, false
	for i, k := range c.M.keys {
		if k == "" {
			empty = true
		}
		if len(c.M.m[k]) > 64 {
			large = true
		}
		if i+1 < len(c.M.keys) && len(k) < len(c.M.keys[i+1]) && c.M.keys[i+1][:len(k)] == k {
			prefixPair = true
		}
	}
	if prefixPair {
		f = append(f, "prefix-key-pair")
	}
	if empty {
		f = append(f, "empty-key")
	}
	if large {
		f = append(f, "large-value")
	}
	switch len(c.M.keys) {
	case 0:
		f = append(f, "empty-tree")
	case 1:
		f = append(f, "single-leaf")
	}
	return f
}

// cacheDefectProbe is the fixed minimal history for the client-cache defect
// the random runs found (see diag.go): tree {"", "a", "b"}, honest peer, node
// capacity 1. Get("a") fails with "cache too small" (legitimate), after which
// Get("") silently answers "absent" although the key is present. It is run at
// the start of every run so that the finding is reported deterministically and
// disappears when the defect is repaired.
func cacheDefectProbe(r *evid.Run, sz sizes) {
	c := &caseCtx{r: r, rep: r, sz: sz, idx: -1, ctx: context.Background(), cnt: map[string]int64{}, set: map[string]map[string]struct{}{}}
	defer c.flush()
	content := map[string][]byte{"": []byte("v0"), "a": []byte("v1"), "b": []byte("v2")}
	var serr error
	if msg, _ := guard(func() { serr = c.setup(r.Rand(^uint64(0), 0), content) }); msg != "" || serr != nil {
		r.Inconclusive("cache defect probe: cannot build tree: %v %s", serr, msg)
		return
	}
	defer c.close()
	if !c.readBack() {
		return
	}
	pe := &peer{c: c, ci: 0, rng: r.Rand(^uint64(0), 1), prof: peerProfile{name: "honest-v0"}}
	cr := &clientRun{c: c, ci: 0, pe: pe, cap: cacheCap{name: "1/unlimited", nodes: 1}, rng: r.Rand(^uint64(0), 2), honest: true}
	pe.onViolation = func(sig, what string, failing any, p *syncer.Proof, stack string) {
		cr.violation(sig, what, failing, p, stack)
	}
	cr.tree = mkvs.NewWithRoot(pe, nil, c.root, mkvs.Capacity(1, 0))
	defer cr.tree.Close()
	cr.doGet([]byte("a")) // legitimately fails: cache too small
	if !cr.dead && cr.restarts == 0 {
		cr.doGet([]byte{})
	}
	c.count("cache_defect_probe/runs", 1)
	if cr.restarts == 0 && !cr.dead {
		c.count("cache_defect_probe/answers_correct", 1)
	} else {
		c.count("cache_defect_probe/defect_reproduced", 1)
	}
}
