package main

import (
	"bytes"
	"fmt"
	"math/rand/v2"

	"github.com/oasisprotocol/oasis-core/go/storage/mkvs"
	"github.com/oasisprotocol/oasis-core/go/storage/mkvs/syncer"
)

// opRecord is one operation of the client workload.
type opRecord struct {
	N        int      `json:"n"`
	Op       string   `json:"op"`
	Key      string   `json:"key_hex,omitempty"`
	Prefixes []string `json:"prefixes_hex,omitempty"`
	Prefetch int      `json:"prefetch_or_limit,omitempty"`
	Steps    int      `json:"max_items,omitempty"`
	Result   string   `json:"result"`
}

type cacheCap struct {
	name         string
	nodes, bytes uint64
	deflt        bool
}

var cacheCaps = []cacheCap{
	{name: "1/1", nodes: 1, bytes: 1},
	{name: "1/unlimited", nodes: 1, bytes: 0},
	{name: "unlimited/1", nodes: 0, bytes: 1},
	{name: "2/16", nodes: 2, bytes: 16},
	{name: "3/100", nodes: 3, bytes: 100},
	{name: "8/300", nodes: 8, bytes: 300},
	{name: "16/4096", nodes: 16, bytes: 4096},
	{name: "default", deflt: true},
	{name: "unlimited", nodes: 0, bytes: 0},
}

var evilProfiles = []peerProfile{
	{name: "evil-15", pCorrupt: 0.15, pError: 0.03},
	{name: "evil-40", pCorrupt: 0.40, pError: 0.05},
	{name: "evil-70", pCorrupt: 0.70, pError: 0.05},
	{name: "evil-40-v1", pCorrupt: 0.40, pError: 0.03, v1: true},
}

// clientRun is one (tree, schedule) pair: a client tree over a peer.
type clientRun struct {
	c    *caseCtx
	ci   int
	pe   *peer
	tree mkvs.Tree
	cap  cacheCap
	rng  *rand.Rand
	ops  []opRecord

	honest       bool // all-honest schedule: this is the completeness client
	strictErrors bool // honest, version 0, cache large enough: errors are violations
	answers      int
	answersAfter int // non-error answers obtained after a corrupted response was served
	dead         bool
	restarts     int
}

func (cr *clientRun) half() string {
	if cr.honest {
		return "completeness"
	}
	return "soundness"
}

func (cr *clientRun) blame() string {
	switch {
	case cr.pe.acceptedCorrupted > 0:
		return cr.pe.lastAcceptedKind
	case cr.pe.corrupted > 0:
		return "unaccepted-" + cr.pe.lastCorruptKind
	}
	return "honest-only"
}

func (cr *clientRun) violation(sig, what string, failing any, p *syncer.Proof, stack string) {
	w := cr.c.baseWitness(cr.half())
	w.Client = cr.ci
	w.Cache = cr.cap.name
	w.Schedule = cr.pe.sched
	w.Ops = cr.ops
	w.Failing = failing
	w.Detail = what
	w.Proof = hexProof(p)
	w.Stack = stack
	w.OtherHex = cr.c.Mother.hex()
	w.OldHex = cr.c.Mold.hex()
	w.Extra = map[string]any{"peer_profile": cr.pe.prof.name, "served": cr.pe.served, "corrupted": cr.pe.corrupted, "accepted_corrupted": cr.pe.acceptedCorrupted}
	cr.c.rep.Violation(sig, what, w)
	cr.dead = true
}

// answer counts one non-error answer.
func (cr *clientRun) answer(kind string) {
	cr.answers++
	cr.c.count("answers/"+cr.half()+"/"+kind, 1)
	if cr.pe.corrupted > 0 {
		cr.answersAfter++
		cr.c.count("soundness/answers_after_corruption", 1)
	}
	if cr.pe.acceptedCorrupted > 0 {
		cr.c.count("soundness/answers_after_accepted_corruption", 1)
	}
}

// judgeGet compares a non-error Get answer with the model.
func judgeGet(key, val, exp []byte, present bool) (sig, what string) {
	switch {
	case present && val == nil:
		return "wrong-absence", fmt.Sprintf("Get(%x) answers absent, the tree under the trusted root has value %x", key, trunc(exp))
	case !present && val != nil:
		return "wrong-value", fmt.Sprintf("Get(%x) answers %x, the key is absent under the trusted root", key, trunc(val))
	case present && !bytes.Equal(val, exp):
		return "wrong-value", fmt.Sprintf("Get(%x) answers %x, the tree under the trusted root has %x", key, trunc(val), trunc(exp))
	}
	return "", ""
}

func (cr *clientRun) errSig(op string) string {
	return "c04/completeness/client-error/" + op
}

func (cr *clientRun) mismatchSig(kind, op string) string {
	if cr.honest {
		return "c04/completeness/client-answer-mismatch/" + op
	}
	return "c04/soundness/" + kind + "/" + cr.blame()
}

func (cr *clientRun) doGet(key []byte) {
	c := cr.c
	rec := opRecord{N: len(cr.ops), Op: "get", Key: hx(key)}
	var val []byte
	var err error
	msg, st := guard(func() { val, err = cr.tree.Get(c.ctx, key) })
	switch {
	case msg != "":
		rec.Result = "panic"
		cr.ops = append(cr.ops, rec)
		cr.violation("panic/client-get", "client Get panics: "+msg, rec, nil, st)
		return
	case err != nil:
		rec.Result = "error: " + err.Error()
		cr.ops = append(cr.ops, rec)
		c.count("errors/"+cr.half()+"/get", 1)
		if cr.strictErrors {
			cr.violation(cr.errSig("get"), fmt.Sprintf("client (cache %s) over an honest peer fails Get(%x): %v", cr.cap.name, key, err), rec, nil, "")
		}
		return
	}
	exp, present := c.M.m[string(key)]
	rec.Result = fmt.Sprintf("value %x nil=%v", trunc(val), val == nil)
	cr.ops = append(cr.ops, rec)
	if present {
		cr.answer("get-present")
	} else {
		cr.answer("get-absent")
	}
	if sig, what := judgeGet(key, val, exp, present); sig != "" {
		cr.reportWrong(sig, "get", key, what, rec)
	}
}

// reportWrong reports a wrong non-error answer. The client's cache is dumped
// and examined along the true path of the key concerned (diag.go): a wrong
// answer that is explained by a verified node having lost a child pointer in
// the client's own cache gets the signature of that defect, everything else the
// soundness (or, over an honest peer, completeness) signature.
func (cr *clientRun) reportWrong(kind, op string, key []byte, what string, rec opRecord) {
	if cr.dead || cr.pe.dead {
		// The response that caused this answer was already reported by the peer's
		// own interrogation (accepted forged subtree / false pair); this wrong
		// answer is its consequence in the client, not a separate cause.
		cr.c.count("wrong_answers/after_reported_forgery", 1)
		cr.c.count("soundness/client_answers_wrong_after_reported_forgery/"+kind, 1)
		cr.violation(cr.mismatchSig(kind, op), what+fmt.Sprintf(" (cache %s, peer %s; end-to-end consequence of the accepted forged proof reported for this response)", cr.cap.name, cr.pe.prof.name), rec, nil, "")
		return
	}
	class, detail := "unexplained", "no key to examine"
	if key != nil {
		class, detail = cr.c.diagnose(cr.tree, key)
	}
	what += fmt.Sprintf(" (cache %s, peer %s; cache diagnosis for key %x: %s: %s)", cr.cap.name, cr.pe.prof.name, key, class, detail)
	cr.c.count("wrong_answers/"+class, 1)
	boundedNodes := cr.cap.nodes > 0 && !cr.cap.deflt
	sig := ""
	switch {
	case class == "dropped-child-pointer":
		// Proven from the dump: a verified node of the trusted tree sits in the
		// cache with a nil child pointer on the key's path.
		sig = "c04/client-cache/failed-eviction-drops-child-pointer/" + op
	case boundedNodes && class != "foreign-node":
		// Bounded node capacity, and the cache holds no node on the key's path
		// that differs from the trusted tree: the answer was computed from
		// verified nodes while evictions were going on (cache.tryRemoveNode
		// clears the child pointers of nodes an ongoing traversal still uses).
		sig = "c04/client-cache/wrong-answer-under-node-eviction/" + op
	}
	if sig == "" {
		cr.violation(cr.mismatchSig(kind, op), what, rec, nil, "")
		return
	}
	cr.c.count("client_cache_defect/wrong_answers", 1)
	cr.violation(sig, what, rec, nil, "")
	// The cache of this client is damaged by its own eviction code. Keep
	// exploring with a fresh client tree of the same capacity over the same peer.
	cr.dead = false
	cr.restarts++
	if cr.restarts > 20 {
		cr.dead = true
		return
	}
	cr.tree.Close()
	cr.tree = cr.newTree()
	cr.c.count("client_cache_defect/client_restarts", 1)
}

func (cr *clientRun) newTree() mkvs.Tree {
	var opts []mkvs.Option
	if !cr.cap.deflt {
		opts = append(opts, mkvs.Capacity(cr.cap.nodes, cr.cap.bytes))
	}
	return mkvs.NewWithRoot(cr.pe, nil, cr.c.root, opts...)
}

func (cr *clientRun) doIterate(seek []byte, prefetch, maxItems int) {
	c := cr.c
	rec := opRecord{N: len(cr.ops), Op: "iterate", Key: hx(seek), Prefetch: prefetch, Steps: maxItems}
	j := c.M.lowerBound(seek)
	start := j
	var bad, ierrS string
	var badKey []byte // the key the tree has at the point where the iteration went wrong
	stopped := false
	msg, st := guard(func() {
		it := cr.tree.NewIterator(c.ctx, mkvs.IteratorPrefetch(uint16(prefetch)))
		defer it.Close()
		it.Seek(seek)
		for it.Valid() {
			k, v := []byte(it.Key()), it.Value()
			switch {
			case j >= len(c.M.keys):
				bad = fmt.Sprintf("iteration from %x yields key %x after the last key of the tree", seek, k)
			case string(k) != c.M.keys[j]:
				bad = fmt.Sprintf("iteration from %x yields key %x as item %d, the tree has %x there", seek, k, j-start, c.M.keys[j])
			case !bytes.Equal(v, c.M.m[c.M.keys[j]]):
				bad = fmt.Sprintf("iteration from %x yields value %x for key %x, the tree has %x", seek, trunc(v), k, trunc(c.M.m[c.M.keys[j]]))
			}
			if bad != "" {
				if j < len(c.M.keys) {
					badKey = []byte(c.M.keys[j])
				}
				return
			}
			cr.answer("iter-item")
			j++
			if j-start >= maxItems {
				stopped = true
				return
			}
			it.Next()
		}
		if e := it.Err(); e != nil {
			ierrS = e.Error()
		} else if j < len(c.M.keys) {
			bad = fmt.Sprintf("iteration from %x ends without error after %d items, the tree has %d more (next %x)", seek, j-start, len(c.M.keys)-j, c.M.keys[j])
			badKey = []byte(c.M.keys[j])
		}
	})
	switch {
	case msg != "":
		rec.Result = "panic"
		cr.ops = append(cr.ops, rec)
		cr.violation("panic/client-iterate", "client iteration panics: "+msg, rec, nil, st)
	case bad != "":
		rec.Result = "WRONG after " + fmt.Sprint(j-start) + " items"
		cr.ops = append(cr.ops, rec)
		cr.reportWrong("iter-wrong", "iterate", badKey, bad, rec)
	case ierrS != "":
		rec.Result = fmt.Sprintf("%d items then error: %s", j-start, ierrS)
		cr.ops = append(cr.ops, rec)
		c.count("errors/"+cr.half()+"/iterate", 1)
		if j > start {
			c.count("answers/"+cr.half()+"/iter-prefix-then-error", 1)
		}
		if cr.strictErrors {
			cr.violation(cr.errSig("iterate"), fmt.Sprintf("client (cache %s) over an honest peer fails iterating from %x after %d items: %s", cr.cap.name, seek, j-start, ierrS), rec, nil, "")
		}
	case stopped:
		rec.Result = fmt.Sprintf("%d items ok (stopped)", j-start)
		cr.ops = append(cr.ops, rec)
	default:
		rec.Result = fmt.Sprintf("%d items ok, end of tree", j-start)
		cr.ops = append(cr.ops, rec)
		cr.answer("iter-end-of-tree")
	}
}

func (cr *clientRun) doPrefetch(prefixes [][]byte, limit int) {
	c := cr.c
	rec := opRecord{N: len(cr.ops), Op: "prefetch", Prefetch: limit}
	for _, p := range prefixes {
		rec.Prefixes = append(rec.Prefixes, hx(p))
	}
	var err error
	msg, st := guard(func() { err = cr.tree.PrefetchPrefixes(c.ctx, prefixes, uint16(limit)) })
	switch {
	case msg != "":
		rec.Result = "panic"
		cr.ops = append(cr.ops, rec)
		cr.violation("panic/client-prefetch", "client PrefetchPrefixes panics: "+msg, rec, nil, st)
	case err != nil:
		rec.Result = "error: " + err.Error()
		cr.ops = append(cr.ops, rec)
		c.count("errors/"+cr.half()+"/prefetch", 1)
		if cr.strictErrors {
			cr.violation(cr.errSig("prefetch"), fmt.Sprintf("client (cache %s) over an honest peer fails PrefetchPrefixes: %v", cr.cap.name, err), rec, nil, "")
		}
	default:
		rec.Result = "ok"
		cr.ops = append(cr.ops, rec)
		c.count("prefetch_ok/"+cr.half(), 1)
	}
}

func (cr *clientRun) run() {
	c := cr.c
	n := len(c.M.keys)
	for op := 0; op < c.sz.maxOpsPerClient && cr.pe.served < c.sz.responsesPerPeer && !cr.dead && !cr.pe.dead; op++ {
		cr.pe.curOp = op
		switch x := cr.rng.IntN(100); {
		case x < 55:
			cr.doGet(c.probes[cr.rng.IntN(len(c.probes))].Key)
		case x < 85:
			seek := c.probes[cr.rng.IntN(len(c.probes))].Key
			if cr.rng.IntN(4) == 0 {
				seek = genKey(cr.rng)
			}
			prefetch := []int{0, 0, 1, 2, 5, 20}[cr.rng.IntN(6)]
			maxItems := 1 + cr.rng.IntN(n+2)
			if cr.rng.IntN(3) == 0 {
				maxItems = n + 2 // run to the end of the tree
			}
			cr.doIterate(seek, prefetch, maxItems)
		default:
			cr.doPrefetch(c.genPrefixes(cr.rng), []int{1, 2, 5, 100}[cr.rng.IntN(4)])
		}
	}
}

// soundness runs the client trees of the case: client 0 (and 1) over an honest
// peer (the long-lived completeness clients), the others over evil peers.
func (c *caseCtx) soundness(verbose bool) {
	for ci := 0; ci < c.sz.clientsPerTree; ci++ {
		rng := c.r.Rand(uint64(c.idx), 2, uint64(ci))
		var prof peerProfile
		var cc cacheCap
		switch ci {
		case 0: // what the Go client does, cache large enough: no error allowed
			prof = peerProfile{name: "honest-v0"}
			cc = cacheCaps[len(cacheCaps)-1-rng.IntN(2)]
		case 1: // honest, but small caches and/or version 1 proofs: errors allowed, lies not
			prof = peerProfile{name: "honest-v0-smallcache"}
			if rng.IntN(2) == 0 {
				prof = peerProfile{name: "honest-v1", v1: true}
			}
			cc = cacheCaps[rng.IntN(len(cacheCaps))]
		default:
			prof = evilProfiles[rng.IntN(len(evilProfiles))]
			cc = cacheCaps[rng.IntN(len(cacheCaps))]
		}
		pe := &peer{c: c, ci: ci, rng: c.r.Rand(uint64(c.idx), 3, uint64(ci)), prof: prof}
		cr := &clientRun{c: c, ci: ci, pe: pe, cap: cc, rng: rng}
		cr.honest = prof.pCorrupt == 0 && prof.pError == 0
		cr.strictErrors = ci == 0
		pe.onViolation = func(sig, what string, failing any, p *syncer.Proof, stack string) {
			cr.violation(sig, what, failing, p, stack)
			pe.dead = true
		}
		cr.tree = cr.newTree()
		cr.run()
		cr.tree.Close()

		c.count("clients/"+cr.half(), 1)
		c.count("clients_by_cache/"+cc.name, 1)
		c.count("client_ops", int64(len(cr.ops)))
		if !cr.honest {
			c.count("soundness/schedules", 1)
			if pe.corrupted > 0 && cr.answersAfter > 0 {
				c.rep.Nontrivial(fmt.Sprintf("t%d/c%d", c.idx, ci))
				c.count("soundness/nontrivial_schedules", 1)
				if pe.acceptedCorrupted > 0 {
					c.count("soundness/schedules_with_accepted_corruption", 1)
				}
			}
		}
		if verbose {
			fmt.Printf("case %d client %d peer=%s cache=%s ops=%d served=%d corrupted=%d accepted=%d answers=%d after=%d\n",
				c.idx, ci, prof.name, cc.name, len(cr.ops), pe.served, pe.corrupted, pe.acceptedCorrupted, cr.answers, cr.answersAfter)
		}
		if ci == 2 && c.idx%64 == 0 {
			c.rep.Sample(map[string]any{"case": c.idx, "client": ci, "peer": prof.name, "cache": cc.name,
				"schedule_first12": headSched(pe.sched, 12), "ops_first12": headOps(cr.ops, 12)})
		}
	}
}

func headSched(s []schedEntry, n int) []schedEntry {
	if len(s) > n {
		return s[:n]
	}
	return s
}

func headOps(s []opRecord, n int) []opRecord {
	if len(s) > n {
		return s[:n]
	}
	return s
}
