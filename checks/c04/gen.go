package main

import (
	"bytes"
	"context"
	"encoding/hex"
	"fmt"
	"math/rand/v2"
	"sort"

	"github.com/oasisprotocol/oasis-core/go/common"
	"github.com/oasisprotocol/oasis-core/go/storage/mkvs"
	"github.com/oasisprotocol/oasis-core/go/storage/mkvs/node"
)

// Adversarial key alphabet (DESIGN.md E2): keys share arbitrary bit prefixes,
// are proper prefixes of each other and include the empty key.
var alphabet = []byte{0x00, 0x01, 0x7f, 0x80, 0xff, 'a', 'b'}

const maxKeyLen = 6

var testNs = common.NewTestNamespaceFromSeed([]byte("verif c04 namespace"), 0)

func genKey(rng *rand.Rand) []byte {
	l := 0
	if rng.IntN(20) != 0 {
		l = 1 + rng.IntN(maxKeyLen)
	}
	k := make([]byte, l) // non-nil also for the empty key
	for i := range k {
		k[i] = alphabet[rng.IntN(len(alphabet))]
	}
	return k
}

func genValue(rng *rand.Rand) []byte {
	if rng.IntN(12) == 0 {
		v := make([]byte, 100+rng.IntN(3000))
		for i := range v {
			v[i] = byte(rng.IntN(256))
		}
		return v
	}
	v := make([]byte, rng.IntN(4)) // always non-nil
	for i := range v {
		v[i] = byte(rng.IntN(256))
	}
	return v
}

// model is the reference ordered map.
type model struct {
	m    map[string][]byte
	keys []string // sorted
}

func newModel(m map[string][]byte) *model {
	md := &model{m: m}
	for k := range m {
		md.keys = append(md.keys, k)
	}
	sort.Strings(md.keys)
	return md
}

func (m *model) lowerBound(k []byte) int {
	return sort.SearchStrings(m.keys, string(k))
}

func (m *model) hex() [][2]string {
	out := make([][2]string, 0, len(m.keys))
	for _, k := range m.keys {
		out = append(out, [2]string{hex.EncodeToString([]byte(k)), hex.EncodeToString(m.m[k])})
	}
	return out
}

func pickSize(rng *rand.Rand) int {
	switch x := rng.IntN(100); {
	case x < 2:
		return 0
	case x < 5:
		return 1
	case x < 10:
		return 2
	case x < 40:
		return 3 + rng.IntN(6)
	case x < 85:
		return 9 + rng.IntN(16)
	default:
		return 25 + rng.IntN(24)
	}
}

func genContent(rng *rand.Rand) map[string][]byte {
	n := pickSize(rng)
	m := map[string][]byte{}
	var keys [][]byte // insertion order, deterministic
	for attempts := 0; len(m) < n && attempts < 40*n+40; attempts++ {
		var k []byte
		switch x := rng.IntN(4); {
		case x < 2 || len(keys) == 0:
			k = genKey(rng)
		case x == 2: // extension of a present key
			base := keys[rng.IntN(len(keys))]
			if len(base) >= maxKeyLen {
				continue
			}
			k = append([]byte{}, base...)
			for e := 1 + rng.IntN(2); e > 0 && len(k) < maxKeyLen; e-- {
				k = append(k, alphabet[rng.IntN(len(alphabet))])
			}
		default: // proper prefix of a present key
			base := keys[rng.IntN(len(keys))]
			if len(base) == 0 {
				continue
			}
			k = append([]byte{}, base[:rng.IntN(len(base))]...)
		}
		if _, ok := m[string(k)]; ok {
			continue
		}
		m[string(k)] = genValue(rng)
		keys = append(keys, k)
	}
	return m
}

// derive returns a copy of m with a few changes (value change, removal, addition).
func derive(rng *rand.Rand, base *model, changes int) map[string][]byte {
	m := map[string][]byte{}
	for k, v := range base.m {
		m[k] = v
	}
	for i := 0; i < changes; i++ {
		switch x := rng.IntN(3); {
		case x == 0 && len(base.keys) > 0: // change a value
			k := base.keys[rng.IntN(len(base.keys))]
			if _, ok := m[k]; ok {
				nv := genValue(rng)
				if bytes.Equal(nv, m[k]) {
					nv = append(append([]byte{}, nv...), 0x5a)
				}
				m[k] = nv
			}
		case x == 1 && len(base.keys) > 0: // remove
			delete(m, base.keys[rng.IntN(len(base.keys))])
		default:
			m[string(genKey(rng))] = genValue(rng)
		}
	}
	return m
}

type probe struct {
	Key  []byte
	Kind string // how it was generated: present, absent, prefix, extension, empty
}

func genProbes(rng *rand.Rand, md *model) []probe {
	seen := map[string]bool{}
	var out []probe
	add := func(k []byte, kind string) {
		if len(k) > maxKeyLen+2 || seen[string(k)] {
			return
		}
		seen[string(k)] = true
		out = append(out, probe{Key: append([]byte{}, k...), Kind: kind})
	}
	add([]byte{}, "empty")
	for _, k := range md.keys {
		add([]byte(k), "present")
	}
	for _, k := range md.keys {
		kb := []byte(k)
		if len(kb) > 0 && rng.IntN(2) == 0 {
			add(kb[:rng.IntN(len(kb))], "prefix")
		}
		if rng.IntN(2) == 0 {
			add(append(append([]byte{}, kb...), alphabet[rng.IntN(len(alphabet))]), "extension")
		}
		if rng.IntN(6) == 0 && len(kb) > 0 { // neighbour: last byte changed
			nb := append([]byte{}, kb...)
			nb[len(nb)-1] = alphabet[rng.IntN(len(alphabet))]
			add(nb, "absent")
		}
	}
	for i := 0; i < 6; i++ {
		add(genKey(rng), "absent")
	}
	for i := range out { // fix up the label of keys that happen to be present
		if _, ok := md.m[string(out[i].Key)]; ok {
			out[i].Kind = "present"
		} else if out[i].Kind == "present" {
			out[i].Kind = "absent"
		}
	}
	rng.Shuffle(len(out), func(i, j int) { out[i], out[j] = out[j], out[i] })
	return out
}

// buildTree creates a committed in-memory server tree with the given contents.
func buildTree(ctx context.Context, rng *rand.Rand, md *model, version uint64) (mkvs.Tree, node.Root, error) {
	t := mkvs.New(nil, nil, node.RootTypeState)
	order := append([]string{}, md.keys...)
	rng.Shuffle(len(order), func(i, j int) { order[i], order[j] = order[j], order[i] })
	// A few extra keys that are inserted and removed again.
	var extras [][]byte
	for i := rng.IntN(4); i > 0; i-- {
		k := genKey(rng)
		if _, ok := md.m[string(k)]; !ok {
			extras = append(extras, k)
		}
	}
	for _, k := range extras {
		if err := t.Insert(ctx, k, []byte("x")); err != nil {
			return nil, node.Root{}, fmt.Errorf("insert extra: %w", err)
		}
	}
	for _, k := range order {
		if err := t.Insert(ctx, []byte(k), md.m[k]); err != nil {
			return nil, node.Root{}, fmt.Errorf("insert: %w", err)
		}
	}
	for _, k := range extras {
		if err := t.Remove(ctx, k); err != nil {
			return nil, node.Root{}, fmt.Errorf("remove extra: %w", err)
		}
	}
	_, rh, err := t.Commit(ctx, testNs, version)
	if err != nil {
		return nil, node.Root{}, fmt.Errorf("commit: %w", err)
	}
	return t, node.Root{Namespace: testNs, Version: version, Type: node.RootTypeState, Hash: rh}, nil
}
