package main

import (
	"bytes"
	"context"
	"errors"
	"fmt"
	"math/rand/v2"
	"regexp"
	"strings"

	"github.com/oasisprotocol/oasis-core/go/common/crypto/hash"
	"github.com/oasisprotocol/oasis-core/go/storage/mkvs"
	"github.com/oasisprotocol/oasis-core/go/storage/mkvs/node"
	"github.com/oasisprotocol/oasis-core/go/storage/mkvs/syncer"
)

var errEvil = errors.New("c04: evil peer refuses")

// schedEntry is one response of the peer (the seeded schedule as it unfolded).
type schedEntry struct {
	N        int    `json:"n"`
	Op       string `json:"op"`
	Key      string `json:"key_hex,omitempty"`
	Position string `json:"position"`
	Action   string `json:"action"`
	Detail   string `json:"detail,omitempty"`
	Corrupt  bool   `json:"corrupted"`
	Accepted string `json:"verifier,omitempty"` // accepted | rejected (checker's own VerifyProof)
	AfterOp  int    `json:"during_client_op"`
}

type peerProfile struct {
	name     string
	pCorrupt float64
	pError   float64
	v1       bool // honest answers are produced as version 1 proofs
}

// peer is the (possibly) evil ReadSyncer between a client tree and the honest server.
type peer struct {
	c    *caseCtx
	ci   int
	rng  *rand.Rand
	prof peerProfile

	sched   []schedEntry
	history []*syncer.Proof // earlier responses, for replays
	curOp   int

	served            int
	corrupted         int
	acceptedCorrupted int
	lastCorruptKind   string
	lastAcceptedKind  string
	reinterrogated    int
	dead              bool // a violation inside the peer already reported

	onViolation func(sig, what string, failing any, p *syncer.Proof, stack string)
}

type reqInfo struct {
	op       string
	key      []byte
	prefixes [][]byte
	limit    uint16
	position hash.Hash
	version  uint16
	siblings bool
}

// fetch asks tree `which` (main, old, other) the same question.
func (pe *peer) fetch(which string, ri reqInfo) (*syncer.Proof, error) {
	var srv mkvs.Tree
	var root node.Root
	pos := ri.position
	switch which {
	case "old-root":
		srv, root = pe.c.oldSrv, pe.c.oldRoot
		pos = root.Hash
	case "other-tree":
		srv, root = pe.c.otherSrv, pe.c.otherRoot
		pos = root.Hash
	default:
		srv, root = pe.c.server, pe.c.root
	}
	tid := syncer.TreeID{Root: root, Position: pos}
	var rsp *syncer.ProofResponse
	var err error
	switch ri.op {
	case "get":
		rsp, err = srv.SyncGet(pe.c.ctx, &syncer.GetRequest{Tree: tid, Key: ri.key, IncludeSiblings: ri.siblings, ProofVersion: ri.version})
	case "prefixes":
		rsp, err = srv.SyncGetPrefixes(pe.c.ctx, &syncer.GetPrefixesRequest{Tree: tid, Prefixes: ri.prefixes, Limit: ri.limit, ProofVersion: ri.version})
	default:
		rsp, err = srv.SyncIterate(pe.c.ctx, &syncer.IterateRequest{Tree: tid, Key: ri.key, Prefetch: ri.limit, ProofVersion: ri.version})
	}
	if err != nil {
		return nil, err
	}
	return copyProof(&rsp.Proof), nil
}

// respond produces the response for one request.
func (pe *peer) respond(ri reqInfo) (*syncer.ProofResponse, error) {
	pe.served++
	c := pe.c
	c.count("soundness/served/"+ri.op, 1)
	ent := schedEntry{N: pe.served, Op: ri.op, Key: hx(ri.key), Position: hshort(ri.position), AfterOp: pe.curOp}
	if ri.op == "prefixes" {
		ent.Key = ""
		for _, p := range ri.prefixes {
			ent.Key += hx(p) + ","
		}
		ent.Detail = fmt.Sprintf("limit=%d ", ri.limit)
	} else if ri.op == "iterate" {
		ent.Detail = fmt.Sprintf("prefetch=%d ", ri.limit)
	}
	if _, ok := c.full[ri.position]; !ok && !ri.position.Equal(&c.root.Hash) {
		// The client asks at a position that is not a node of the trusted tree.
		c.count("soundness/requests_at_unknown_position", 1)
	}
	if pe.prof.v1 {
		ri.version = 1
	}
	honest, herr := pe.fetch("main", ri)
	if herr != nil {
		ent.Action = "honest-error"
		ent.Detail += herr.Error()
		pe.sched = append(pe.sched, ent)
		c.count("soundness/action/honest-error", 1)
		return nil, herr
	}

	x := pe.rng.Float64()
	switch {
	case x < pe.prof.pError:
		ent.Action = "error"
		pe.sched = append(pe.sched, ent)
		c.count("soundness/action/error", 1)
		return nil, errEvil
	case x >= pe.prof.pError+pe.prof.pCorrupt:
		ent.Action = "honest"
		if pe.prof.v1 {
			ent.Action = "honest-v1"
		}
		pe.sched = append(pe.sched, ent)
		pe.history = append(pe.history, copyProof(honest))
		c.count("soundness/action/"+ent.Action, 1)
		return &syncer.ProofResponse{Proof: *honest}, nil
	}

	// Corrupt. Try until a mutation applies and changes the proof.
	mc := &mutCtx{pe: pe, ri: ri, honest: honest}
	var out *syncer.Proof
	var kind, detail string
	for try := 0; try < 12 && out == nil; try++ {
		m := pickMutation(pe.rng)
		p := copyProof(honest)
		var d string
		var ok bool
		var q *syncer.Proof
		if msg, _ := guard(func() { q, d, ok = m.f(mc, p) }); msg != "" || !ok || q == nil {
			continue
		}
		// Optionally stack a second (editing) mutation on top.
		name := m.name
		if pe.rng.IntN(6) == 0 {
			m2 := pickMutation(pe.rng)
			var q2 *syncer.Proof
			var d2 string
			var ok2 bool
			if !m2.replaces {
				if msg, _ := guard(func() { q2, d2, ok2 = m2.f(mc, copyProof(q)) }); msg == "" && ok2 && q2 != nil {
					q, d = q2, d+" + "+m2.name+"("+d2+")"
					name = "stacked:" + m.name + "+" + m2.name
				}
			}
		}
		if proofEqual(q, honest) {
			continue
		}
		out, kind, detail = q, name, d
	}
	if out == nil {
		ent.Action = "honest"
		ent.Detail += "(no mutation applied)"
		pe.sched = append(pe.sched, ent)
		pe.history = append(pe.history, copyProof(honest))
		c.count("soundness/action/honest", 1)
		return &syncer.ProofResponse{Proof: *honest}, nil
	}

	pe.corrupted++
	pe.lastCorruptKind = kind
	ent.Action, ent.Corrupt = kind, true
	ent.Detail += detail
	c.count("soundness/corrupted_served", 1)
	ckind := kind // counter name: all stacked mutations together
	if len(kind) > 8 && kind[:8] == "stacked:" {
		ckind = "stacked"
	}
	c.count("soundness/action/"+ckind, 1)
	c.distinct("mutation_kinds_served", ckind)

	// What would a correct verifier say? The client accepts a proof for the
	// requested position or for the sync root.
	accepted := pe.interrogate(out, ri, kind, &ent)
	if accepted {
		pe.acceptedCorrupted++
		pe.lastAcceptedKind = kind
		ent.Accepted = "accepted"
		c.count("soundness/accepted_corrupted", 1)
		c.count("soundness/accepted_corrupted/"+ckind, 1)
		c.distinct("mutation_kinds_accepted", ckind)
	} else {
		ent.Accepted = "rejected"
		c.count("soundness/rejected_corrupted", 1)
	}
	pe.sched = append(pe.sched, ent)
	pe.history = append(pe.history, copyProof(out))
	return &syncer.ProofResponse{Proof: *copyProof(out)}, nil
}

// interrogate runs the checker's own VerifyProof on a corrupted response and,
// if it is accepted, re-interrogates it: the write log must consist of true
// pairs and a client fed only by this proof must answer every probe key
// correctly or fail.
func (pe *peer) interrogate(p *syncer.Proof, ri reqInfo, kind string, ent *schedEntry) bool {
	c := pe.c
	var trusted hash.Hash
	switch {
	case p.UntrustedRoot.Equal(&ri.position):
		trusted = ri.position
		if _, ok := c.full[trusted]; !ok && !trusted.Equal(&c.root.Hash) {
			return false // position itself is not trusted data; nothing to conclude
		}
	case p.UntrustedRoot.Equal(&c.root.Hash):
		trusted = c.root.Hash
	default:
		return false
	}
	var pv syncer.ProofVerifier
	var err error
	var subtree *node.Pointer
	if msg, st := guard(func() { subtree, err = pv.VerifyProof(c.ctx, trusted, copyProof(p)) }); msg != "" {
		pe.onViolation("panic/verify-proof/"+kind, "VerifyProof panics on a corrupted proof: "+msg, *ent, p, st)
		return false
	}
	if err != nil {
		c.distinct("verifier_reject_reasons", rejectClass(err))
		return false
	}
	wl, err := pv.VerifyProofToWriteLog(c.ctx, trusted, copyProof(p))
	if err != nil {
		pe.onViolation("c04/soundness/verify-disagree/"+kind, "VerifyProof accepts a corrupted proof that VerifyProofToWriteLog rejects: "+err.Error(), *ent, p, "")
		return true
	}
	if msg, bad := falsePair(c.M, wl); bad {
		pe.onViolation("c04/soundness/accepted-false-pair/"+kind,
			fmt.Sprintf("corrupted proof (%s) is accepted by VerifyProof against the trusted root and yields a false pair: %s", kind, msg), *ent, p, "")
		return true
	}
	c.count("soundness/accepted_writelog_pairs_checked", int64(len(wl)))

	// The accepted subtree must be a part of the trusted tree: every node in it
	// carries a hash; the node of the trusted tree with that hash must have
	// exactly this content (kind, key/value, child hashes). Anything else means
	// the verifier vouches, under a true hash, for content it did not hash.
	if what := pe.c.forgedNode(subtree, trusted); what != "" {
		pe.onViolation("c04/soundness/accepted-forged-subtree/"+kind,
			fmt.Sprintf("corrupted proof (%s) is accepted by VerifyProof against the trusted hash but its subtree is not part of the trusted tree: %s", kind, what), *ent, p, "")
		return true
	}

	// What does the accepted subtree tell a caller of the verifier API that
	// holds only the trusted hash? Interpret it with the monitor's own
	// partial-tree lookup: whatever it DETERMINES (value or absence) about a
	// probe key must be true; "undetermined" is always fine.
	depth := 0
	if ni := c.full[trusted]; ni != nil {
		depth = ni.depth
	}
	atRoot := trusted.Equal(&c.root.Hash)
	for _, pr := range c.probes {
		if !atRoot {
			// A sub-tree proof speaks only about keys whose lookup path passes through it.
			var path []hash.Hash
			c.pathOf(pr.Key, &path)
			on := false
			for _, h := range path {
				on = on || h.Equal(&trusted)
			}
			if !on {
				continue
			}
		}
		exp, present := c.M.m[string(pr.Key)]
		res, val := ptGet(subtree, depth, pr.Key, nil)
		switch {
		case res == getUndetermined:
			continue
		case res == getAbsent && present:
			pe.onViolation("c04/soundness/accepted-false-absence/"+kind,
				fmt.Sprintf("corrupted proof (%s) is accepted by VerifyProof against the trusted hash and its subtree proves key %x absent; the tree has value %x", kind, pr.Key, trunc(exp)), *ent, p, "")
			return true
		case res == getPresent && (!present || !bytes.Equal(val, exp)):
			pe.onViolation("c04/soundness/accepted-false-value/"+kind,
				fmt.Sprintf("corrupted proof (%s) is accepted by VerifyProof against the trusted hash and its subtree proves key %x = %x; the tree has present=%v value %x", kind, pr.Key, trunc(val), present, trunc(exp)), *ent, p, "")
			return true
		}
		c.count("soundness/accepted_subtree_determinations_checked", 1)
	}

	if trusted.Equal(&c.root.Hash) && pe.reinterrogated < 6 {
		pe.reinterrogated++
		fp := &fixedPeer{proof: p}
		cl := mkvs.NewWithRoot(fp, nil, c.root, mkvs.Capacity(0, 0))
		for _, pr := range c.probes {
			var val []byte
			var gerr error
			if msg, st := guard(func() { val, gerr = cl.Get(c.ctx, pr.Key) }); msg != "" {
				pe.onViolation("panic/client-get-reinterrogate/"+kind, "client Get panics when fed an accepted corrupted proof: "+msg, *ent, p, st)
				break
			}
			if gerr != nil {
				c.count("soundness/reinterrogate/errors", 1)
				continue
			}
			exp, present := c.M.m[string(pr.Key)]
			if sig, what := judgeGet(pr.Key, val, exp, present); sig != "" {
				pe.onViolation("c04/soundness/reinterrogate-"+sig+"/"+kind,
					"client fed only by an accepted corrupted proof: "+what, *ent, p, "")
				break
			}
			c.count("soundness/reinterrogate/answers", 1)
		}
		cl.Close()
	}
	return true
}

var (
	reHexRun = regexp.MustCompile(`[0-9a-f]{6,}`)
	reDigits = regexp.MustCompile(`[0-9]+`)
)

// rejectClass normalises a verifier error to its kind (no hashes, no numbers).
func rejectClass(err error) string {
	s := err.Error()
	if i := strings.IndexByte(s, '('); i >= 0 {
		s = s[:i]
	}
	s = reDigits.ReplaceAllString(reHexRun.ReplaceAllString(s, "#"), "N")
	if len(s) > 60 {
		s = s[:60]
	}
	return strings.TrimSpace(s)
}

// fixedPeer answers every request with the same proof.
type fixedPeer struct{ proof *syncer.Proof }

func (f *fixedPeer) SyncGet(context.Context, *syncer.GetRequest) (*syncer.ProofResponse, error) {
	return &syncer.ProofResponse{Proof: *copyProof(f.proof)}, nil
}

func (f *fixedPeer) SyncGetPrefixes(context.Context, *syncer.GetPrefixesRequest) (*syncer.ProofResponse, error) {
	return &syncer.ProofResponse{Proof: *copyProof(f.proof)}, nil
}

func (f *fixedPeer) SyncIterate(context.Context, *syncer.IterateRequest) (*syncer.ProofResponse, error) {
	return &syncer.ProofResponse{Proof: *copyProof(f.proof)}, nil
}

func (pe *peer) SyncGet(_ context.Context, req *syncer.GetRequest) (*syncer.ProofResponse, error) {
	return pe.respond(reqInfo{op: "get", key: req.Key, position: req.Tree.Position, version: req.ProofVersion, siblings: req.IncludeSiblings})
}

func (pe *peer) SyncGetPrefixes(_ context.Context, req *syncer.GetPrefixesRequest) (*syncer.ProofResponse, error) {
	return pe.respond(reqInfo{op: "prefixes", prefixes: req.Prefixes, limit: req.Limit, position: req.Tree.Position, version: req.ProofVersion})
}

func (pe *peer) SyncIterate(_ context.Context, req *syncer.IterateRequest) (*syncer.ProofResponse, error) {
	return pe.respond(reqInfo{op: "iterate", key: req.Key, limit: req.Prefetch, position: req.Tree.Position, version: req.ProofVersion})
}

// forgedNode compares a verified subtree with the trusted tree node by node.
// It returns a description of the first difference, or "".
func (c *caseCtx) forgedNode(sub *node.Pointer, trusted hash.Hash) string {
	if sub == nil {
		if trusted.IsEmpty() {
			return ""
		}
		return "the verifier returns an empty tree for the non-empty trusted hash " + hshort(trusted)
	}
	if !sub.Hash.Equal(&trusted) {
		return fmt.Sprintf("the subtree root has hash %s, the trusted hash is %s", hshort(sub.Hash), hshort(trusted))
	}
	var bad string
	var walk func(p *node.Pointer)
	same := func(p *node.Pointer, h hash.Hash) bool {
		if p == nil {
			return h.IsEmpty()
		}
		return p.Hash.Equal(&h)
	}
	walk = func(p *node.Pointer) {
		if bad != "" || p == nil || p.Node == nil {
			return
		}
		ni := c.full[p.Hash]
		if ni == nil {
			bad = "node " + hshort(p.Hash) + " is not a node of the trusted tree"
			return
		}
		switch n := p.Node.(type) {
		case *node.LeafNode:
			if !ni.leaf || !bytes.Equal(n.Key, ni.key) || !bytes.Equal(n.Value, c.M.m[string(ni.key)]) {
				bad = fmt.Sprintf("leaf %s carries key %x value %x, the trusted tree has key %x there", hshort(p.Hash), []byte(n.Key), trunc(n.Value), ni.key)
			}
		case *node.InternalNode:
			switch {
			case ni.leaf:
				bad = "internal node under the hash of leaf " + hshort(p.Hash)
			case !same(n.LeafNode, ni.childV1[0]):
				bad = fmt.Sprintf("node %s (bit depth %d): leaf pointer %s, trusted tree has %s", hshort(p.Hash), ni.depth, hshort(ptrHash(n.LeafNode)), hshort(ni.childV1[0]))
			case !same(n.Left, ni.childV1[1]):
				bad = fmt.Sprintf("node %s (bit depth %d): left child %s, trusted tree has %s", hshort(p.Hash), ni.depth, hshort(ptrHash(n.Left)), hshort(ni.childV1[1]))
			case !same(n.Right, ni.childV1[2]):
				bad = fmt.Sprintf("node %s (bit depth %d): right child %s, trusted tree has %s", hshort(p.Hash), ni.depth, hshort(ptrHash(n.Right)), hshort(ni.childV1[2]))
			case n.LabelBitLength != ni.internal.LabelBitLength || !bytes.Equal(n.Label, ni.internal.Label):
				bad = "node " + hshort(p.Hash) + " carries a different label"
			default:
				walk(n.LeafNode)
				walk(n.Left)
				walk(n.Right)
			}
		}
	}
	walk(sub)
	return bad
}
