package main

import (
	"bufio"
	"encoding/json"
	"fmt"
	"os"
	"path/filepath"
	"regexp"
	"runtime"
	"strconv"
	"strings"
	"sync"
	"time"

	"verif/engine/evid"
)

// The cases run in worker processes (re-executions of this binary): a fatal
// runtime error of the code under test (stack overflow, concurrent map write,
// out of memory), which recover() cannot catch, must become a violation with a
// witness naming the case, not a dead run. Each worker runs its cases one after
// the other and appends one JSON line per case to a result file; the parent
// merges the lines into the Run.

// reporter is the part of evid.Run the cases report to.
type reporter interface {
	Count(name string, n int64)
	Distinct(set, key string)
	Nontrivial(key string)
	Violation(signature, what string, witness any)
	Sample(v any)
	Eval(n int)
	Inconclusive(format string, a ...any)
}

type recViolation struct {
	Sig     string          `json:"sig"`
	What    string          `json:"what"`
	Witness json.RawMessage `json:"witness"`
}

// caseRecord is one line of a worker's result file.
type caseRecord struct {
	Start        *int                `json:"start,omitempty"` // written before a case begins
	Case         int                 `json:"case"`
	Done         bool                `json:"done,omitempty"`
	Evals        int                 `json:"evals,omitempty"`
	Counters     map[string]int64    `json:"counters,omitempty"`
	Sets         map[string][]string `json:"sets,omitempty"`
	Nontrivial   []string            `json:"nontrivial,omitempty"`
	Violations   []recViolation      `json:"violations,omitempty"`
	Samples      []json.RawMessage   `json:"samples,omitempty"`
	Inconclusive []string            `json:"inconclusive,omitempty"`
}

// recorder collects what one case reports.
type recorder struct{ rec caseRecord }

func newRecorder(idx int) *recorder {
	return &recorder{rec: caseRecord{Case: idx, Done: true, Counters: map[string]int64{}, Sets: map[string][]string{}}}
}

func (r *recorder) Count(name string, n int64) { r.rec.Counters[name] += n }
func (r *recorder) Distinct(set, key string)   { r.rec.Sets[set] = append(r.rec.Sets[set], key) }
func (r *recorder) Nontrivial(key string)      { r.rec.Nontrivial = append(r.rec.Nontrivial, key) }
func (r *recorder) Eval(n int)                 { r.rec.Evals += n }
func (r *recorder) Inconclusive(format string, a ...any) {
	r.rec.Inconclusive = append(r.rec.Inconclusive, fmt.Sprintf(format, a...))
}

func (r *recorder) Violation(sig, what string, w any) {
	b, err := json.Marshal(w)
	if err != nil {
		b, _ = json.Marshal(map[string]string{"marshal_error": err.Error()})
	}
	r.rec.Violations = append(r.rec.Violations, recViolation{Sig: sig, What: what, Witness: b})
}

func (r *recorder) Sample(v any) {
	if len(r.rec.Samples) >= 2 {
		return
	}
	if b, err := json.Marshal(v); err == nil {
		r.rec.Samples = append(r.rec.Samples, b)
	}
}

// workerMain runs cases first, first+stride, ... < n and writes the result file.
func workerMain(r *evid.Run, sz sizes, spec string) {
	parts := strings.Split(spec, ":")
	if len(parts) != 4 {
		fmt.Fprintln(os.Stderr, "bad worker spec")
		os.Exit(3)
	}
	first, _ := strconv.Atoi(parts[0])
	stride, _ := strconv.Atoi(parts[1])
	n, _ := strconv.Atoi(parts[2])
	f, err := os.OpenFile(parts[3], os.O_CREATE|os.O_WRONLY|os.O_APPEND, 0o644)
	if err != nil {
		fmt.Fprintln(os.Stderr, err)
		os.Exit(3)
	}
	w := bufio.NewWriter(f)
	put := func(rec *caseRecord) {
		b, _ := json.Marshal(rec)
		w.Write(b)
		w.WriteByte('\n')
		w.Flush()
	}
	for i := first; i < n; i += stride {
		idx := i
		put(&caseRecord{Start: &idx, Case: idx})
		rec := newRecorder(idx)
		runCase(r, rec, sz, idx, false)
		put(&rec.rec)
	}
	f.Close()
	os.Exit(0)
}

var reFatal = regexp.MustCompile(`(?m)^(fatal error: .*|panic: .*|runtime: .*exceeds.*|SIGSEGV.*|signal: .*)$`)

func crashClass(out []byte) string {
	m := reFatal.Find(out)
	if m == nil {
		return "unknown"
	}
	s := strings.ToLower(string(m))
	switch {
	case strings.Contains(s, "stack"):
		return "stack-overflow"
	case strings.Contains(s, "out of memory"):
		return "out-of-memory"
	case strings.Contains(s, "concurrent map"):
		return "concurrent-map-access"
	case strings.HasPrefix(s, "panic:"):
		return "unrecovered-panic"
	}
	s = strings.TrimPrefix(s, "fatal error: ")
	s = regexp.MustCompile(`[^a-z0-9]+`).ReplaceAllString(s, "-")
	if len(s) > 40 {
		s = s[:40]
	}
	return strings.Trim(s, "-")
}

func tail(b []byte, n int) string {
	if len(b) > n {
		b = b[len(b)-n:]
	}
	return string(b)
}

func head(b []byte, n int) string {
	if len(b) > n {
		b = b[:n]
	}
	return string(b)
}

// runWorkers distributes the cases over worker processes and merges their results.
func runWorkers(r *evid.Run, nTrees int, timeout time.Duration) {
	workers := runtime.NumCPU()
	if workers > nTrees {
		workers = nTrees
	}
	dir := r.Scratch()
	type result struct {
		recs    []caseRecord
		crashes []map[string]any
		incon   []string
	}
	results := make([]result, workers)
	var wg sync.WaitGroup
	for wi := 0; wi < workers; wi++ {
		wg.Add(1)
		go func(wi int) {
			defer wg.Done()
			res := &results[wi]
			first := wi
			for attempt := 0; first < nTrees && attempt < 40; attempt++ {
				file := filepath.Join(dir, fmt.Sprintf("w%d-%d.jsonl", wi, attempt))
				spec := fmt.Sprintf("%d:%d:%d:%s", first, workers, nTrees, file)
				cr := evid.Child([]string{"-tier", r.Tier, "-seed", strconv.FormatInt(r.Seed, 10)}, []string{"C04_WORKER=" + spec}, timeout)
				started := -1
				lastDone := first - workers
				if fh, err := os.Open(file); err == nil {
					sc := bufio.NewScanner(fh)
					sc.Buffer(make([]byte, 1<<20), 1<<28)
					for sc.Scan() {
						var rec caseRecord
						if json.Unmarshal(sc.Bytes(), &rec) != nil {
							continue
						}
						if rec.Start != nil {
							started = *rec.Start
							continue
						}
						res.recs = append(res.recs, rec)
						lastDone = rec.Case
					}
					fh.Close()
				}
				if cr.ExitCode == 0 && !cr.TimedOut {
					return
				}
				if cr.TimedOut {
					res.incon = append(res.incon, fmt.Sprintf("worker %d: watchdog (%v) fired in case %d", wi, timeout, started))
					return
				}
				if started < 0 || started <= lastDone {
					res.incon = append(res.incon, fmt.Sprintf("worker %d died outside a case (exit %d, signal %d): %s", wi, cr.ExitCode, cr.Signal, tail(cr.Out, 600)))
					return
				}
				// The process died inside case `started`.
				res.crashes = append(res.crashes, map[string]any{
					"seed": r.Seed, "tier": r.Tier, "case": started, "exit_code": cr.ExitCode, "signal": int(cr.Signal),
					"class": crashClass(cr.Out), "output_head": head(cr.Out, 6000), "output_tail": tail(cr.Out, 3000),
					"replay_cmd": fmt.Sprintf("cd /verif && ./run.sh C04 replay <this file>   (re-runs case %d of seed %d, tier %s in-process; it is expected to crash)", started, r.Seed, r.Tier),
				})
				first = started + workers
			}
		}(wi)
	}
	wg.Wait()
	for wi := range results {
		res := &results[wi]
		for _, rec := range res.recs {
			r.Eval(rec.Evals)
			for k, v := range rec.Counters {
				r.Count(k, v)
			}
			for s, ks := range rec.Sets {
				for _, k := range ks {
					r.Distinct(s, k)
				}
			}
			for _, k := range rec.Nontrivial {
				r.Nontrivial(k)
			}
			for _, v := range rec.Violations {
				r.Violation(v.Sig, v.What, v.Witness)
			}
			for _, s := range rec.Samples {
				r.Sample(s)
			}
			for _, s := range rec.Inconclusive {
				r.Inconclusive("%s", s)
			}
		}
		for _, cr := range res.crashes {
			r.Count("worker_crashes", 1)
			r.Violation("panic/fatal/"+fmt.Sprint(cr["class"]),
				fmt.Sprintf("the process running case %v died with a fatal runtime error (%v) that recover() cannot catch", cr["case"], cr["class"]), cr)
		}
		for _, s := range res.incon {
			r.Inconclusive("%s", s)
		}
	}
	r.Set("worker_processes", workers)
}
