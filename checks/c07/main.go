// Check C07: the node database survives a crash at any point of a write operation.
//
// Fault enumeration (DESIGN.md "C07"). The parent generates NodeDB histories
// (engine/ndblab). For every history and backend a counting child runs the
// whole history on an on-disk NoFsync database with a counting H3 hook and
// reports, per operation, every (crash point, hit index) reached inside it.
// Every (operation, point, hit) is one case: child A re-runs the prefix and
// kills itself with SIGKILL inside the hook at exactly that hit; child B
// reopens the directory and checks the oracle (child.go). A randomised layer
// kills child A from the parent after a seeded number of hook hits plus a
// small delay, to sample instants between the hook points.
package main

import (
	"bufio"
	"encoding/json"
	"flag"
	"fmt"
	"os"
	"os/exec"
	"path/filepath"
	"sort"
	"strings"
	"sync"
	"syscall"
	"time"

	"verif/engine/evid"
	"verif/engine/ndblab"
)

var (
	flagChild = flag.Bool("child", false, "run as child process (internal)")
	flagSpec  = flag.String("spec", "", "child spec file (internal)")
)

// childSpec is what a child process is asked to do.
type childSpec struct {
	Mode    string            `json:"mode"` // count | crash | random | recover
	Backend string            `json:"backend"`
	Dir     string            `json:"dir"`
	Tmp     string            `json:"tmp"`
	History *ndblab.History   `json:"history"`
	Hashes  map[string]string `json:"hashes,omitempty"`  // op index -> root hash (hex) of the reference run
	Classes []string          `json:"classes,omitempty"` // result class per op of the reference run
	UpTo    int               `json:"up_to"`             // number of usable ops (reference run healthy before)
	Op      int               `json:"op"`                // crash / recover: the interrupted op
	Point   string            `json:"point,omitempty"`
	Hit     int               `json:"hit,omitempty"`
	Final   *ndblab.Snapshot  `json:"final,omitempty"` // recover: final state of the reference run
	Out     string            `json:"out"`
}

// casePoint is one (operation, crash point, hit index) reached by the reference run.
type casePoint struct {
	Op    int    `json:"op"`
	Kind  string `json:"kind"`
	Point string `json:"point"`
	Hit   int    `json:"hit"`
}

// countResult is the output of the counting child.
type countResult struct {
	Points    []casePoint       `json:"points"`
	Hashes    map[string]string `json:"hashes"`
	Classes   []string          `json:"classes"`
	UpTo      int               `json:"up_to"`
	Truncated string            `json:"truncated,omitempty"`
	Final     *ndblab.Snapshot  `json:"final"`
	OpsByKind map[string]int64  `json:"ops_by_kind"`
	Err       string            `json:"err,omitempty"`
}

// recoverResult is the output of the recovering child.
type recoverResult struct {
	Reopened bool             `json:"reopened"`
	Findings []ndblab.Finding `json:"findings"`
	Applied  string           `json:"applied"` // "applied" | "not-applied" | "limbo"
	Reads    int64            `json:"reads"`
	Err      string           `json:"err,omitempty"`
}

type witness struct {
	Seed    int64           `json:"seed"`
	Tier    string          `json:"tier"`
	Case    string          `json:"case"`
	Backend string          `json:"backend"`
	Op      int             `json:"op"`
	OpText  string          `json:"op_text"`
	Point   string          `json:"point"`
	Hit     int             `json:"hit"`
	Layer   string          `json:"layer"`
	Detail  map[string]any  `json:"detail,omitempty"`
	Ops     []string        `json:"ops"`
	History *ndblab.History `json:"history"`
}

func writeJSON(path string, v any) error {
	b, err := json.Marshal(v)
	if err != nil {
		return err
	}
	return os.WriteFile(path, b, 0o644)
}

func readJSON(path string, v any) error {
	b, err := os.ReadFile(path)
	if err != nil {
		return err
	}
	return json.Unmarshal(b, v)
}

const childTimeout = 300 * time.Second

// runChildOnce runs a child once under the watchdog.
func runChildOnce(r *evid.Run, spec *childSpec, name string) (evid.ChildResult, bool) {
	specFile := filepath.Join(spec.Tmp, name+".spec.json")
	if err := writeJSON(specFile, spec); err != nil {
		r.Inconclusive("cannot write child spec: %v", err)
		return evid.ChildResult{}, false
	}
	return evid.Child([]string{"-child", "-spec", specFile}, nil, childTimeout), true
}

// runChild runs a child that starts from an empty database directory, with
// retries (from scratch) when the watchdog fires. A recovering child is never
// retried on the directory it has already touched: see runCase.
func runChild(r *evid.Run, spec *childSpec, name string) (evid.ChildResult, bool) {
	var res evid.ChildResult
	for attempt := 0; attempt < 3; attempt++ {
		var ok bool
		if res, ok = runChildOnce(r, spec, name); !ok {
			return res, false
		}
		if !res.TimedOut {
			return res, true
		}
		r.Count("watchdog.child_timeouts."+spec.Mode, 1)
		_ = os.RemoveAll(spec.Dir)
	}
	r.Inconclusive("child %s (%s) timed out three times", name, spec.Mode)
	return res, false
}

type caseStats struct {
	mu     sync.Mutex
	points map[string]int64
}

func main() {
	for _, a := range os.Args[1:] {
		if a == "-child" || a == "--child" {
			flag.Parse()
			childMain(*flagSpec)
			return
		}
	}
	r := evid.Start("C07", "fault_enumeration")
	r.Rule = "per backend and PRNG-generated history (commits of several state/IO candidates per version, finalize, lagging prune, a checkpoint restore with optional abort/restart): a counting child lists every (H3 crash point, hit index) reached inside every operation; each is one case: child A runs the prefix on an on-disk NoFsync database and SIGKILLs itself inside the hook at that hit, child B reopens and checks (1) every previously finalized version intact, (2) the interrupted operation fully applied or not visible (no partially restored checkpoint finalized), (3) repeating it succeeds or reports already-done, the rest of the history runs, (4) the final API-visible state equals the uninterrupted run. A case is non-trivial (and distinct by backend/op kind/point/hit/op-kind-prefix shape) when child A really died by SIGKILL at the point and the reopen succeeded."
	r.Assume("fault model: process death (SIGKILL); the page cache survives, which is what NoFsync relies on; power loss is out of scope")
	r.Assume("the enumeration is complete w.r.t. the H3 hook points (between successive durable writes), instants inside a badger flush are only sampled by the randomised layer")
	r.Assume("contents of roots come from the pure model, root hashes from the uninterrupted reference run of the same history")
	if r.ReplayFile != "" {
		replay(r)
		return
	}
	scratch := r.Scratch()
	st := &caseStats{points: map[string]int64{}}

	// Histories: witnesses first (deterministic), then generated ones.
	type job struct {
		h       *ndblab.History
		backend string
		only    *casePoint // witness: a single fixed case
	}
	var jobs []job
	for _, w := range witnessHistories() {
		jobs = append(jobs, job{h: w.h, backend: w.backend, only: &w.cp})
	}
	nHist := r.Pick(12, 200)
	for i := 0; i < nHist; i++ {
		rng := r.Rand(7, uint64(i))
		cfg := ndblab.GenConfig{Versions: 5, MaxLag: 2, Restore: i%3 != 2, Small: true, Clean: i%3 != 1}
		if !r.Quick() && i%5 == 0 {
			cfg.Versions = 7
		}
		h := ndblab.Generate(rng, cfg)
		h.Name = fmt.Sprintf("gen-%d", i)
		for _, b := range ndblab.Backends {
			jobs = append(jobs, job{h: h, backend: b})
		}
		if i < 2 {
			r.Sample(map[string]any{"case": h.Name, "ops": h.OpStrings()})
		}
	}

	// Phase 1: counting children (parallel).
	type counted struct {
		job
		res *countResult
	}
	cs := make([]counted, len(jobs))
	evid.Parallel(len(jobs), 0, func(i int) {
		j := jobs[i]
		cs[i].job = j
		tmp := filepath.Join(scratch, fmt.Sprintf("count-%d", i))
		_ = os.MkdirAll(tmp, 0o755)
		defer os.RemoveAll(tmp)
		spec := &childSpec{Mode: "count", Backend: j.backend, Dir: filepath.Join(tmp, "db"), Tmp: tmp, History: j.h, Out: filepath.Join(tmp, "out.json")}
		cres, ok := runChild(r, spec, "count")
		if !ok {
			return
		}
		var out countResult
		if err := readJSON(spec.Out, &out); err != nil || out.Err != "" {
			r.Inconclusive("counting child for %s/%s failed: %v %s (exit %d signal %d): %s", j.backend, j.h.Name, err, out.Err, cres.ExitCode, cres.Signal, tail(cres.Out))
			return
		}
		cs[i].res = &out
		r.Count("reference_runs", 1)
		if out.Truncated != "" {
			r.Count("reference_runs_truncated_by_sequential_finding", 1)
			r.Count("reference_truncated_by."+j.backend+"."+out.Truncated, 1)
			fmt.Fprintf(os.Stderr, "reference run %s/%s truncated at op %d (%s): %s\n", j.backend, j.h.Name, out.UpTo, j.h.Ops[min(out.UpTo, len(j.h.Ops)-1)].String(), out.Truncated)
		}
		for k, v := range out.OpsByKind {
			r.Count("reference."+k, v)
		}
	})

	// Phase 2: one case per (op, point, hit).
	type kase struct {
		c  *counted
		cp casePoint
		id int
	}
	var cases []kase
	for i := range cs {
		c := &cs[i]
		if c.res == nil {
			continue
		}
		for _, cp := range c.res.Points {
			if cp.Op >= c.res.UpTo {
				continue
			}
			if c.only != nil && (cp.Op != c.only.Op || cp.Point != c.only.Point || cp.Hit != c.only.Hit) {
				continue
			}
			cases = append(cases, kase{c: c, cp: cp, id: len(cases)})
		}
	}
	r.Count("cases_enumerated", int64(len(cases)))
	evid.Parallel(len(cases), 0, func(i int) {
		k := cases[i]
		runCase(r, st, scratch, fmt.Sprintf("case-%d", k.id), k.c.h, k.c.backend, k.c.res, k.cp, "enumeration", nil)
	})

	// Phase 3: randomised layer.
	nRand := r.Pick(3, 6)
	type rjob struct {
		c *counted
		n int
	}
	var rjobs []rjob
	for i := range cs {
		if cs[i].res == nil || cs[i].only != nil {
			continue
		}
		for n := 0; n < nRand; n++ {
			rjobs = append(rjobs, rjob{&cs[i], n})
		}
	}
	evid.Parallel(len(rjobs), 0, func(i int) {
		j := rjobs[i]
		runRandom(r, st, scratch, i, j.c.h, j.c.backend, j.c.res, j.n)
	})

	st.mu.Lock()
	var names []string
	for k := range st.points {
		names = append(names, k)
	}
	sort.Strings(names)
	pts := map[string]int64{}
	for _, k := range names {
		pts[k] = st.points[k]
	}
	r.Set("crash_points_reached", pts)
	r.Set("distinct_crash_points", len(pts))
	st.mu.Unlock()
	for _, b := range ndblab.Backends {
		// A backend whose reference runs are all cut early (by a sequential finding) would
		// otherwise go unnoticed behind the cases of the other backend.
		if n := r.Counter("nontrivial_cases." + b); n < int64(r.Pick(20, 500)) {
			r.Inconclusive("backend %s: only %d crash cases were executed (reference runs cut early?)", b, n)
		}
	}
	r.Exhaustive(false)
	r.Finish(r.Pick(40, 1000))
}

func tail(b []byte) string {
	s := string(b)
	if len(s) > 600 {
		s = s[len(s)-600:]
	}
	return strings.ReplaceAll(s, "\n", " | ")
}

func shapeOf(h *ndblab.History, upTo int) string {
	var sb strings.Builder
	for i := 0; i <= upTo && i < len(h.Ops); i++ {
		sb.WriteString(h.Ops[i].Kind[:2])
		if h.Ops[i].Kind == ndblab.KCommit {
			fmt.Fprintf(&sb, "%d", h.Ops[i].Type)
		}
	}
	return sb.String()
}

// runCase runs one crash case: child A dies at (op, point, hit) (or was killed
// by the parent in the randomised layer, then killed != nil), child B recovers.
func runCase(r *evid.Run, st *caseStats, scratch, name string, h *ndblab.History, backend string, ref *countResult, cp casePoint, layer string, prepared *string) {
	tmp := filepath.Join(scratch, name)
	_ = os.MkdirAll(tmp, 0o755)
	defer os.RemoveAll(tmp)
	dir := filepath.Join(tmp, "db")
	wit := func(detail map[string]any) witness {
		return witness{Seed: r.Seed, Tier: r.Tier, Case: h.Name, Backend: backend, Op: cp.Op, OpText: h.Ops[cp.Op].String(), Point: cp.Point, Hit: cp.Hit,
			Layer: layer, Detail: detail, Ops: h.OpStrings(), History: h}
	}
	r.Eval(1)
	var res evid.ChildResult
	var spec *childSpec
	for attempt := 0; ; attempt++ {
		if attempt == 3 {
			r.Inconclusive("%s/%s op %d: the recovering child timed out three times", backend, h.Name, cp.Op)
			return
		}
		if prepared == nil {
			_ = os.RemoveAll(dir)
			cspec := &childSpec{Mode: "crash", Backend: backend, Dir: dir, Tmp: tmp, History: h, Hashes: ref.Hashes, Classes: ref.Classes, UpTo: ref.UpTo,
				Op: cp.Op, Point: cp.Point, Hit: cp.Hit, Out: filepath.Join(tmp, "crash.json")}
			cres, ok := runChild(r, cspec, "crash")
			if !ok {
				return
			}
			if cres.Signal != syscall.SIGKILL {
				r.Count("cases.crash_point_not_reached", 1)
				r.Inconclusive("%s/%s op %d %s: child A did not die at %s hit %d (exit %d): %s", backend, h.Name, cp.Op, h.Ops[cp.Op].String(), cp.Point, cp.Hit, cres.ExitCode, tail(cres.Out))
				return
			}
		} else {
			dir = *prepared
		}
		spec = &childSpec{Mode: "recover", Backend: backend, Dir: dir, Tmp: tmp, History: h, Hashes: ref.Hashes, Classes: ref.Classes, UpTo: ref.UpTo,
			Op: cp.Op, Point: cp.Point, Hit: cp.Hit, Final: ref.Final, Out: filepath.Join(tmp, "recover.json")}
		_ = os.Remove(spec.Out)
		var ok bool
		if res, ok = runChildOnce(r, spec, "recover"); !ok {
			return
		}
		if !res.TimedOut {
			break
		}
		// The watchdog fired while the recovering child was working on the directory: the
		// directory is no longer the state left by the crash, so the whole case starts over
		// (a parent-killed directory of the randomised layer cannot be reproduced: skipped).
		r.Count("watchdog.child_timeouts.recover", 1)
		if prepared != nil {
			r.Count("random.skipped_after_recover_timeout", 1)
			return
		}
	}
	r.Count("cases.child_died_by_sigkill", 1)
	r.Count("cases.layer."+layer, 1)
	r.Count("cases.opkind."+cp.Kind, 1)
	if cp.Point != "" {
		st.mu.Lock()
		st.points[cp.Point]++
		st.mu.Unlock()
	}
	var out recoverResult
	if err := readJSON(spec.Out, &out); err != nil {
		// The recovering child itself died (panic / fatal error in the code under test).
		r.Violation(fmt.Sprintf("%s/%s/crash-at-%s/recovering-process-died", backend, cp.Kind, pointSuffix(cp.Point)),
			fmt.Sprintf("after a crash of %s at %s (hit %d) the process that reopens the database died (exit %d signal %d): %s", h.Ops[cp.Op].String(), cp.Point, cp.Hit, res.ExitCode, res.Signal, tail(res.Out)),
			wit(map[string]any{"output": tail(res.Out)}))
		return
	}
	r.Sample(map[string]any{"backend": backend, "history": h.Name, "op": fmt.Sprintf("%d:%s", cp.Op, h.Ops[cp.Op].String()), "point": cp.Point, "hit": cp.Hit,
		"layer": layer, "child_a": "died by SIGKILL", "reopened": out.Reopened, "target_after_reopen": out.Applied, "findings": len(out.Findings)})
	r.Count("recover.reads", out.Reads)
	r.Count("recover.target_"+out.Applied, 1)
	if out.Reopened {
		r.Nontrivial(fmt.Sprintf("%s/%s/%s/%d/%s", backend, cp.Kind, cp.Point, cp.Hit, shapeOf(h, cp.Op)))
		r.Count("nontrivial_cases."+backend, 1)
		r.Distinct("backend_opkind_point", backend+"/"+cp.Kind+"/"+cp.Point)
	}
	for _, f := range out.Findings {
		if f.Detail == nil {
			f.Detail = map[string]any{}
		}
		f.Detail["layer"] = layer
		r.Violation(f.Signature, fmt.Sprintf("[%s %s, crash in op %d %s at %s hit %d] %s", backend, h.Name, cp.Op, h.Ops[cp.Op].String(), cp.Point, cp.Hit, f.What), wit(f.Detail))
	}
}

func pointSuffix(p string) string {
	if i := strings.Index(p, "."); i >= 0 {
		return p[i+1:]
	}
	if p == "" {
		return "random-instant"
	}
	return p
}

// runRandom: the parent kills child A after a seeded number of hook hits of
// any point plus a small seeded delay.
func runRandom(r *evid.Run, st *caseStats, scratch string, idx int, h *ndblab.History, backend string, ref *countResult, n int) {
	rng := r.Rand(9, uint64(idx))
	total := 0
	for _, p := range ref.Points {
		if p.Op < ref.UpTo {
			total++
		}
	}
	if total == 0 {
		return
	}
	target := 1 + rng.IntN(total)
	delay := time.Duration(rng.IntN(400)) * time.Microsecond
	name := fmt.Sprintf("rand-%d", idx)
	tmp := filepath.Join(scratch, name)
	_ = os.MkdirAll(tmp, 0o755)
	defer os.RemoveAll(tmp)
	dir := filepath.Join(tmp, "db")
	spec := &childSpec{Mode: "random", Backend: backend, Dir: dir, Tmp: tmp, History: h, Hashes: ref.Hashes, Classes: ref.Classes, UpTo: ref.UpTo, Out: filepath.Join(tmp, "rand.json")}
	specFile := filepath.Join(tmp, "rand.spec.json")
	if err := writeJSON(specFile, spec); err != nil {
		return
	}
	cmd := exec.Command(os.Args[0], "-child", "-spec", specFile)
	cmd.Stderr = nil
	pipe, err := cmd.StdoutPipe()
	if err != nil {
		return
	}
	if err := cmd.Start(); err != nil {
		r.Inconclusive("cannot start random-kill child: %v", err)
		return
	}
	watchdog := time.AfterFunc(childTimeout, func() { _ = cmd.Process.Kill() })
	defer watchdog.Stop()
	sc := bufio.NewScanner(pipe)
	hits, lastBegin, lastEnd := 0, -1, -1
	lastPoint := ""
	killed := false
	for sc.Scan() {
		ln := sc.Text()
		var i int
		var p string
		switch {
		case strings.HasPrefix(ln, "B "):
			fmt.Sscanf(ln, "B %d", &i)
			lastBegin = i
		case strings.HasPrefix(ln, "E "):
			fmt.Sscanf(ln, "E %d", &i)
			lastEnd = i
		case strings.HasPrefix(ln, "H "):
			fmt.Sscanf(ln, "H %d %s", &i, &p)
			hits++
			lastPoint = p
			if hits == target && !killed {
				killed = true
				if delay > 0 {
					time.Sleep(delay)
				}
				_ = cmd.Process.Kill()
			}
		}
	}
	err = cmd.Wait()
	ws, _ := cmd.ProcessState.Sys().(syscall.WaitStatus)
	if !killed || !ws.Signaled() {
		r.Count("random.child_finished_before_kill", 1)
		return
	}
	_ = err
	op := lastBegin
	if lastEnd == lastBegin {
		op = lastEnd + 1 // killed between two operations
	}
	if op < 0 || op >= ref.UpTo || op >= len(h.Ops) {
		r.Count("random.killed_after_last_usable_op", 1)
		return
	}
	r.Count("random.kills", 1)
	cp := casePoint{Op: op, Kind: h.Ops[op].Kind, Point: "", Hit: 0}
	_ = lastPoint
	runCase(r, st, scratch, name+"-rec", h, backend, ref, cp, "random-kill", &dir)
}

// replay re-runs the case of a witness file.
func replay(r *evid.Run) {
	var doc struct {
		Witness witness `json:"witness"`
	}
	if err := readJSON(r.ReplayFile, &doc); err != nil || doc.Witness.History == nil {
		fmt.Println("INCONCLUSIVE property=C07 replay file has no history:", err)
		os.Exit(2)
	}
	w := doc.Witness
	scratch := r.Scratch()
	st := &caseStats{points: map[string]int64{}}
	tmp := filepath.Join(scratch, "count")
	_ = os.MkdirAll(tmp, 0o755)
	spec := &childSpec{Mode: "count", Backend: w.Backend, Dir: filepath.Join(tmp, "db"), Tmp: tmp, History: w.History, Out: filepath.Join(tmp, "out.json")}
	if _, ok := runChild(r, spec, "count"); !ok {
		r.Finish(0)
	}
	var ref countResult
	if err := readJSON(spec.Out, &ref); err != nil {
		r.Inconclusive("counting child failed: %v", err)
		r.Finish(0)
	}
	for _, cp := range ref.Points {
		if cp.Op == w.Op && (w.Point == "" || (cp.Point == w.Point && cp.Hit == w.Hit)) {
			runCase(r, st, scratch, fmt.Sprintf("replay-%s-%d", pointSuffix(cp.Point), cp.Hit), w.History, w.Backend, &ref, cp, "replay", nil)
		}
	}
	r.Nontrivial("replay-a")
	r.Nontrivial("replay-b")
	r.Finish(0)
}
