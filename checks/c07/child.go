package main

import (
	"fmt"
	"os"
	"sort"
	"syscall"
	"time"

	"github.com/oasisprotocol/oasis-core/go/common/crypto/hash"
	dbapi "github.com/oasisprotocol/oasis-core/go/storage/mkvs/db/api"

	"verif/engine/ndblab"
)

func hashesFromHex(m map[string]string) map[int]hash.Hash {
	out := map[int]hash.Hash{}
	for k, v := range m {
		var i int
		fmt.Sscan(k, &i)
		var h hash.Hash
		if err := h.UnmarshalHex(v); err == nil {
			out[i] = h
		}
	}
	return out
}

func childMain(specFile string) {
	var spec childSpec
	if err := readJSON(specFile, &spec); err != nil {
		fmt.Fprintln(os.Stderr, "child: bad spec:", err)
		os.Exit(3)
	}
	switch spec.Mode {
	case "count":
		childCount(&spec)
	case "crash":
		childCrash(&spec, false)
	case "random":
		childCrash(&spec, true)
	case "recover":
		childRecover(&spec)
	default:
		os.Exit(3)
	}
}

// childCount: the uninterrupted reference run with a counting hook.
func childCount(spec *childSpec) {
	out := countResult{Hashes: map[string]string{}, OpsByKind: map[string]int64{}}
	defer func() {
		if p := recover(); p != nil {
			out.Err = fmt.Sprintf("panic: %v", p)
		}
		_ = writeJSON(spec.Out, &out)
	}()
	lab, err := ndblab.NewLab(spec.Backend, spec.Dir, spec.History)
	if err != nil {
		out.Err = err.Error()
		return
	}
	defer lab.Close()
	lab.TmpDir = spec.Tmp
	cur := -1
	hits := map[string]int{}
	dbapi.VerifCrashHook = func(name string) {
		if cur < 0 {
			return
		}
		hits[name]++
		out.Points = append(out.Points, casePoint{Op: cur, Kind: spec.History.Ops[cur].Kind, Point: name, Hit: hits[name]})
	}
	lab.BeforeOp = func(i int) { cur = i; hits = map[string]int{} }
	lab.AfterOp = func(i int) { cur = -1 }
	out.UpTo = len(spec.History.Ops)
	for i := range spec.History.Ops {
		res := lab.Do(i)
		out.Classes = append(out.Classes, res.Class)
		if res.Root != nil && res.Class == "" {
			out.Hashes[fmt.Sprint(i)] = res.Root.Hash.String()
		}
		// The C06 oracle decides whether the reference run is still healthy: a history whose
		// uninterrupted run already damages a root (sequential findings of C06) is cut there.
		fatal := res.Unexpected()
		for _, f := range lab.CheckAll(res) {
			if f.Fatal {
				fatal = true
				out.Truncated = f.Signature
			}
		}
		if fatal {
			if out.Truncated == "" {
				out.Truncated = "unexpected:" + res.Class
			}
			out.UpTo = i
			break
		}
	}
	dbapi.VerifCrashHook = nil
	if out.Truncated == "" {
		// (The state after a cut is not comparable: the op at the cut was executed.)
		out.Final = lab.Snapshot()
	}
	for k, v := range lab.Stats {
		if len(k) > 3 && k[:3] == "op." {
			out.OpsByKind[k] = v
		}
	}
	// Points of ops at or after the cut are unusable.
	var keep []casePoint
	for _, p := range out.Points {
		if p.Op < out.UpTo {
			keep = append(keep, p)
		}
	}
	out.Points = keep
}

// childCrash runs the prefix and dies inside op spec.Op at (point, hit). In
// random mode it reports progress on stdout and runs until the parent kills it.
func childCrash(spec *childSpec, random bool) {
	lab, err := ndblab.NewLab(spec.Backend, spec.Dir, spec.History)
	if err != nil {
		fmt.Fprintln(os.Stderr, "child: open:", err)
		os.Exit(4)
	}
	lab.TmpDir = spec.Tmp
	lab.Hashes = hashesFromHex(spec.Hashes)
	cur := -1
	hits := 0
	say := func(s string) { _, _ = os.Stdout.Write([]byte(s)) }
	dbapi.VerifCrashHook = func(name string) {
		if random {
			if cur >= 0 {
				say(fmt.Sprintf("H %d %s\n", cur, name))
				// Stay roughly in step with the parent, which kills this process a little
				// after one of these lines (at an arbitrary instant of the following work).
				time.Sleep(150 * time.Microsecond)
			}
			return
		}
		if cur == spec.Op && name == spec.Point {
			hits++
			if hits == spec.Hit {
				// Die without unwinding: no deferred code, no badger close.
				_ = syscall.Kill(os.Getpid(), syscall.SIGKILL)
				select {}
			}
		}
	}
	lab.BeforeOp = func(i int) {
		cur = i
		if random {
			say(fmt.Sprintf("B %d\n", i))
		}
	}
	lab.AfterOp = func(i int) {
		cur = -1
		if random {
			say(fmt.Sprintf("E %d\n", i))
		}
	}
	last := spec.Op
	if random {
		last = spec.UpTo - 1
	}
	for i := 0; i <= last && i < len(spec.History.Ops); i++ {
		res := lab.Do(i)
		want := ""
		if i < len(spec.Classes) {
			want = spec.Classes[i]
		}
		if res.Class != want {
			fmt.Fprintf(os.Stderr, "child: op %d %s gave %q, reference run gave %q (%s)\n", i, res.Op.String(), res.Class, want, res.ErrText)
			os.Exit(5)
		}
	}
	// Not killed: the point was not reached (crash mode) / the parent was too slow (random mode).
	lab.Close()
	os.Exit(0)
}

// childRecover reopens the database after the crash and checks the oracle.
func childRecover(spec *childSpec) {
	out := recoverResult{Applied: "limbo"}
	h := spec.History
	T := spec.Op
	op := h.Ops[T]
	kind := op.Kind
	add := func(symptom, what string, detail map[string]any) {
		if detail == nil {
			detail = map[string]any{}
		}
		sig := fmt.Sprintf("%s/%s/crash-at-%s/%s", spec.Backend, kind, pointSuffix(spec.Point), symptom)
		// Shapes whose signature does not depend on the exact crash point: the state found
		// after the reopen identifies the window (so that a randomly timed kill landing in
		// the same window gets the same signature).
		switch {
		case spec.Backend == ndblab.Badger && kind == ndblab.KPrune && symptom == "retry-fails-ErrRootNotFound":
			// DESIGN.md section 6, D6: batch flushed (root-node key of a root without derived
			// roots deleted), metadata not committed (version still earliest).
			sig = sigD6
		case kind == ndblab.KMPFinal && symptom == "restored-checkpoint-finalized-but-not-readable":
			sig = spec.Backend + "/mp-finalize/crash-after-finalize-meta-before-multipart-cleanup/restored-checkpoint-deleted-on-reopen"
		case symptom == "restored-root-not-readable-after-restarted-restore":
			sig = spec.Backend + "/restore/restarted-at-same-version-after-crash/restored-root-not-readable-after-finalize"
		}
		out.Findings = append(out.Findings, ndblab.Finding{Signature: sig, What: what, Detail: detail})
	}
	defer func() {
		if p := recover(); p != nil {
			add("panic-during-recovery", fmt.Sprintf("panic while checking/continuing after the crash: %v", p), nil)
		}
		_ = writeJSON(spec.Out, &out)
	}()

	hashes := hashesFromHex(spec.Hashes)
	G := h.GroupStart(T)
	m0 := ndblab.ReplayModel(h, hashes, spec.Classes, G)

	lab, err := ndblab.NewLab(spec.Backend, spec.Dir, h)
	if err != nil {
		add("reopen-fails", "reopening the database after the crash fails: "+err.Error(), nil)
		return
	}
	defer lab.Close()
	out.Reopened = true
	lab.TmpDir = spec.Tmp
	lab.Hashes = hashes
	lab.M = m0
	// After the crash the chunks of a repeated restore arrive in the opposite order (every order is
	// legitimate), except for every third hit index, which keeps the order of the first attempt.
	lab.ReverseChunks = spec.Hit%3 != 2
	isMP := kind == ndblab.KMPStart || kind == ndblab.KMPChunk || kind == ndblab.KMPAbort || kind == ndblab.KMPFinal

	// --- (1) every version finalized before the operation is intact; metadata is M0's or the target's.
	latest, hasLatest := lab.DB.GetLatestVersion()
	earliest := lab.DB.GetEarliestVersion()
	okLatest := hasLatest == m0.HasLatest && (!hasLatest || latest == m0.Latest)
	applied := false
	switch kind {
	case ndblab.KFinalize, ndblab.KMPFinal:
		if hasLatest && latest == op.Ver {
			okLatest, applied = true, true
		}
	}
	if !okLatest {
		sym := "latest-version-wrong-after-reopen"
		if isMP && kind != ndblab.KMPFinal && hasLatest && latest >= op.Ver {
			sym = "partially-restored-checkpoint-visible-as-finalized"
		}
		add(sym, fmt.Sprintf("after the crash GetLatestVersion = (%d,%v); before the operation it was (%d,%v)", latest, hasLatest, m0.Latest, m0.HasLatest), nil)
	}
	okEarliest := !m0.HasLatest || earliest == m0.Earliest
	if kind == ndblab.KPrune && earliest == op.Ver+1 {
		okEarliest, applied = true, true
	}
	if (kind == ndblab.KFinalize || kind == ndblab.KMPFinal) && !m0.HasLatest {
		okEarliest = true
	}
	if !okEarliest {
		add("earliest-version-wrong-after-reopen", fmt.Sprintf("after the crash GetEarliestVersion = %d; before the operation it was %d", earliest, m0.Earliest), nil)
	}
	for _, ri := range m0.Retained() {
		if ri.Hash.IsEmpty() {
			continue
		}
		if kind == ndblab.KPrune && ri.Ver == op.Ver {
			continue // the version being pruned may be in limbo
		}
		has := lab.DB.HasRoot(ri.Root())
		rr := ndblab.ReadRoot(lab.DB, ri.Root(), ri.Content, 2)
		out.Reads++
		if !has || !rr.OK() {
			add("previously-finalized-version-damaged", fmt.Sprintf("root %s, finalized before the interrupted operation, after reopen: HasRoot=%v read error=%q mismatch=%q", ri, has, rr.Err, rr.Mismatch),
				map[string]any{"root": ri.String()})
			return
		}
	}

	// --- (2) the target is fully applied or not visible.
	switch kind {
	case ndblab.KCommit:
		if hh, ok := hashes[T]; ok {
			root := ndblab.NodeRoot(op.Ver, op.Type, hh)
			if !hh.IsEmpty() && lab.DB.HasRoot(root) {
				applied = true
				_, content, _ := m0.ParentOf(op)
				want := map[string]string{}
				for k, v := range content {
					want[k] = v
				}
				for _, w := range op.W {
					if w.Del {
						delete(want, string(w.K))
					} else {
						want[string(w.K)] = string(w.V)
					}
				}
				// If the same root had been committed before by another candidate it is in M0 already.
				rr := ndblab.ReadRoot(lab.DB, root, want, 2)
				out.Reads++
				if !rr.OK() {
					add("committed-root-visible-but-not-intact", fmt.Sprintf("after the crash HasRoot(%s) = true but the read-back gives err=%q mismatch=%q", hh.String()[:8], rr.Err, rr.Mismatch), nil)
					return
				}
			}
		}
	case ndblab.KMPFinal:
		if applied {
			// The restore is finalized: the checkpoint root must be completely there.
			var cpRoot *ndblab.RootInfo
			full := ndblab.ReplayModel(h, hashes, spec.Classes, T+1)
			for _, ri := range full.ByVer[op.Ver] {
				if ri.Restored {
					cpRoot = ri
				}
			}
			if cpRoot != nil {
				has := lab.DB.HasRoot(cpRoot.Root())
				rr := ndblab.ReadRoot(lab.DB, cpRoot.Root(), cpRoot.Content, 2)
				out.Reads++
				if !has || !rr.OK() {
					add("restored-checkpoint-finalized-but-not-readable", fmt.Sprintf("after the crash GetLatestVersion = %d (the restore is finalized) but the restored root %s: HasRoot=%v read error=%q mismatch=%q", latest, cpRoot, has, rr.Err, rr.Mismatch), nil)
					return
				}
			}
		}
	case ndblab.KPrune:
		if applied {
			for _, ri := range m0.ByVer[op.Ver] {
				if !ri.Hash.IsEmpty() && lab.DB.HasRoot(ri.Root()) {
					add("pruned-version-root-still-present", fmt.Sprintf("earliest advanced to %d but HasRoot(%s) = true", earliest, ri), nil)
				}
			}
		}
	}
	if applied {
		out.Applied = "applied"
	} else if kind == ndblab.KCommit || okLatest && okEarliest {
		out.Applied = "not-applied-or-limbo"
	}

	// --- (3) repeat the interrupted call, then (4) run the rest of the history.
	start := G
	if kind == ndblab.KMPFinal && applied {
		// The restore was finalized; nothing of the group has to be redone.
		lab.M = ndblab.ReplayModel(h, hashes, spec.Classes, T+1)
		start = T + 1
	}
	for i := start; i < spec.UpTo && i < len(h.Ops); i++ {
		res := lab.Do(i)
		want := ""
		if i < len(spec.Classes) {
			want = spec.Classes[i]
		}
		got := res.Class
		if i == T && got != want {
			// "Already done" answers are fine for the repeated call.
			switch {
			case kind == ndblab.KFinalize && got == "ErrAlreadyFinalized" && applied,
				kind == ndblab.KPrune && got == "ErrNotEarliest" && applied:
				lab.ApplyModel(i)
				got = want
				res.Class = res.Expect
			}
		}
		if res.Panic != "" {
			add("panic-on-"+stage(i, T), fmt.Sprintf("op %d %s panics after the crash recovery: %s", i, res.Op.String(), res.Panic), nil)
			return
		}
		if res.Skipped && h.Ops[i].Kind != ndblab.KProbe {
			add("cannot-continue-"+stage(i, T), fmt.Sprintf("op %d %s cannot be executed after the crash recovery: %s", i, res.Op.String(), res.ErrText), nil)
			return
		}
		if got != want {
			sym := fmt.Sprintf("%s-fails-%s", stage(i, T), orOK(got))
			what := fmt.Sprintf("op %d %s returns %q (%s) after the crash recovery; the uninterrupted run got %q", i, res.Op.String(), got, res.ErrText, want)
			if i <= T {
				what = fmt.Sprintf("repeating the interrupted %s returns %q (%s); the uninterrupted run got %q (target state after reopen: %s)", res.Op.String(), got, res.ErrText, want, out.Applied)
				if i < T {
					what = "while redoing the restore group from its StartMultipartInsert: " + what
				}
			}
			add(sym, what, map[string]any{"failing_op": fmt.Sprintf("%d:%s", i, res.Op.String())})
			return
		}
		if i <= T || i == spec.UpTo-1 || res.Op.Kind == ndblab.KFinalize || res.Op.Kind == ndblab.KPrune || res.Op.Kind == ndblab.KMPFinal {
			// Full C06 oracle at the interesting points of the continuation.
			for _, f := range lab.CheckAll(res) {
				if !f.Fatal {
					continue
				}
				if isMP && kind != ndblab.KMPFinal && res.Op.Kind == ndblab.KMPFinal && i > T {
					add("restored-root-not-readable-after-restarted-restore", fmt.Sprintf("the restore interrupted in %s was restarted from StartMultipartInsert after the reopen and ran to its Finalize without an error, but then: %s", op.String(), f.What), f.Detail)
					return
				}
				add("after-recovery-"+stage(i, T)+"/"+lastSeg(f.Signature), fmt.Sprintf("after the crash recovery, following op %d %s: %s", i, res.Op.String(), f.What), f.Detail)
				return
			}
		}
	}
	out.Reads += lab.Stats["reads.roots"]

	// --- (4) final API-visible state equals the uninterrupted run's.
	if spec.Final != nil {
		final := lab.Snapshot()
		diffs := ndblab.DiffSnapshots(spec.Final, final)
		sort.Slice(diffs, func(a, b int) bool { return diffs[a].Field < diffs[b].Field })
		for _, d := range diffs {
			add("final-state-differs/"+d.Field, fmt.Sprintf("after recovery and the rest of the history the API-visible state differs from the uninterrupted run: %s %s: uninterrupted=%s recovered=%s", d.Field, d.Key, d.A, d.B), nil)
			break
		}
	}
}

func stage(i, T int) string {
	switch {
	case i < T:
		return "redo"
	case i == T:
		return "retry"
	}
	return "continue"
}

func lastSeg(s string) string {
	for i := len(s) - 1; i >= 0; i-- {
		if s[i] == '/' {
			return s[i+1:]
		}
	}
	return s
}

func orOK(s string) string {
	if s == "" {
		return "ok"
	}
	out := []byte(s)
	for i, c := range out {
		if c == ' ' || c == '/' || c == ':' {
			out[i] = '_'
		}
	}
	if len(out) > 48 {
		out = out[:48]
	}
	return string(out)
}

const sigD6 = "badger/prune/crash-after-batch-flush/retry-fails"

type fixedCase struct {
	h       *ndblab.History
	backend string
	cp      casePoint
}

// witnessHistories: deterministic minimal cases replayed at the start.
func witnessHistories() []fixedCase {
	p := func(k, v string) ndblab.WOp { return ndblab.WOp{K: ndblab.Hex(k), V: ndblab.Hex(v)} }
	d6 := &ndblab.History{
		// D6 (DESIGN.md section 6): badger Prune deletes the root-node key of a root without
		// derived roots in the batch; a crash after the batch flush and before the metadata
		// commit leaves the version "earliest" with that key gone.
		Name: "witness-d6-prune-crash-after-batch-flush",
		Ops: []ndblab.Op{
			{Kind: ndblab.KCommit, Ver: 1, Type: ndblab.TState, Cand: 0, Parent: ndblab.ParentPrev, W: []ndblab.WOp{p("a", "v")}},
			{Kind: ndblab.KCommit, Ver: 1, Type: ndblab.TIO, Cand: 1, Parent: ndblab.ParentEmpty, W: []ndblab.WOp{p("Tx", "y")}},
			{Kind: ndblab.KFinalize, Ver: 1, Final: []int{0, 1}},
			{Kind: ndblab.KCommit, Ver: 2, Type: ndblab.TState, Cand: 0, Parent: ndblab.ParentPrev, W: []ndblab.WOp{p("b", "w")}},
			{Kind: ndblab.KFinalize, Ver: 2, Final: []int{0}},
			{Kind: ndblab.KPrune, Ver: 1},
			{Kind: ndblab.KCommit, Ver: 3, Type: ndblab.TState, Cand: 0, Parent: ndblab.ParentPrev, W: []ndblab.WOp{p("c", "x")}},
			{Kind: ndblab.KFinalize, Ver: 3, Final: []int{0}},
		},
	}
	cp := []ndblab.CPSpec{{Ver: 3, Content: []ndblab.KV{
		{K: ndblab.Hex(""), V: ndblab.Hex("e")}, {K: ndblab.Hex("a"), V: ndblab.Hex("v")}, {K: ndblab.Hex("ab"), V: ndblab.Hex("w")},
		{K: ndblab.Hex("abc"), V: ndblab.Hex("x")}, {K: ndblab.Hex("b"), V: ndblab.Hex("value-2")}, {K: ndblab.Hex("ba"), V: ndblab.Hex("y")},
		{K: ndblab.Hex("c"), V: ndblab.Hex("z")}, {K: ndblab.Hex("key-long-0000000000000000000000000000000000000001"), V: ndblab.Hex("l")},
	}}}
	restoreOps := []ndblab.Op{
		{Kind: ndblab.KCommit, Ver: 1, Type: ndblab.TState, Cand: 0, Parent: ndblab.ParentPrev, W: []ndblab.WOp{p("a", "v")}},
		{Kind: ndblab.KFinalize, Ver: 1, Final: []int{0}},
		{Kind: ndblab.KMPStart, Ver: 3, CP: 0},
		{Kind: ndblab.KMPChunk, Ver: 3, CP: 0, Chunk: -1},
		{Kind: ndblab.KMPFinal, Ver: 3, CP: 0},
		{Kind: ndblab.KPrune, Ver: 1},
		{Kind: ndblab.KPrune, Ver: 2},
		{Kind: ndblab.KCommit, Ver: 4, Type: ndblab.TState, Cand: 0, Parent: ndblab.ParentPrev, W: []ndblab.WOp{p("d", "x")}},
		{Kind: ndblab.KFinalize, Ver: 4, Final: []int{0}},
	}
	// Crash between the metadata commit of the Finalize that ends a checkpoint restore and
	// the clean-up of the multipart log: the next open removes the restored nodes.
	mpfin := &ndblab.History{Name: "witness-restore-finalize-crash-before-multipart-cleanup", Ops: restoreOps, Checkpoints: cp}
	// Crash right after StartMultipartInsert; the restore is started again after the reopen.
	restart := &ndblab.History{Name: "witness-restore-restarted-after-crash", Ops: restoreOps, Checkpoints: cp}
	return []fixedCase{
		{h: mpfin, backend: ndblab.Badger, cp: casePoint{Op: 4, Kind: ndblab.KMPFinal, Point: "badger.finalize.post-meta", Hit: 1}},
		{h: restart, backend: ndblab.PathBadger, cp: casePoint{Op: 2, Kind: ndblab.KMPStart, Point: "pathbadger.startmp.post-meta", Hit: 1}},
		{h: d6, backend: ndblab.Badger, cp: casePoint{Op: 5, Kind: ndblab.KPrune, Point: "badger.prune.post-flush", Hit: 1}},
	}
}
