// C09 — only authentic, correctly sequenced transactions execute, once.
//
// History monitor over H1 taps (DESIGN.md, C09): every delivered transaction's
// state diff is recorded on the reference replica; a transaction that took
// effect must verify under an independent ed25519 check of this chain's
// transaction context, carry the signer's current nonce, advance exactly that
// nonce, and its bytes must never take effect twice. The generator adds
// replays, single-bit flips over whole envelopes and forgeries under every
// signature context found in the repository sources.
package main

import (
	"bytes"
	"encoding/hex"
	"fmt"
	"github.com/oasisprotocol/oasis-core/go/common/entity"
	registry "github.com/oasisprotocol/oasis-core/go/registry/api"
	"os"
	"path/filepath"
	"regexp"
	"sort"
	"strings"
	"time"

	"github.com/oasisprotocol/oasis-core/go/common/cbor"
	"github.com/oasisprotocol/oasis-core/go/consensus/api/transaction"

	"verif/engine/chainsim"
	"verif/engine/evid"
)

// Encodings of the points of small order on edwards25519 (canonical and two non-canonical ones).
var smallOrderKeys = []string{
	"0100000000000000000000000000000000000000000000000000000000000000",
	"ecffffffffffffffffffffffffffffffffffffffffffffffffffffffffffff7f",
	"0000000000000000000000000000000000000000000000000000000000000000",
	"0000000000000000000000000000000000000000000000000000000000000080",
	"26e8958fc2b227b045c3f489f2ef98f0d5dfac05d3c63339b13802886d53fc05",
	"c7176a703d4dd84fba3c0b760d10670f2a2053fa2c39ccc64ec7fd7792ac037a",
	"26e8958fc2b227b045c3f489f2ef98f0d5dfac05d3c63339b13802886d53fc85",
	"c7176a703d4dd84fba3c0b760d10670f2a2053fa2c39ccc64ec7fd7792ac03fa",
	"0100000000000000000000000000000000000000000000000000000000000080",
	"edffffffffffffffffffffffffffffffffffffffffffffffffffffffffffff7f",
}

// Message-independent signature candidates (R || S): R = base point, S = 1; R = identity, S = 0.
var forgedSigs = []string{
	"5866666666666666666666666666666666666666666666666666666666666666" + "0100000000000000000000000000000000000000000000000000000000000000",
	"0100000000000000000000000000000000000000000000000000000000000000" + "0000000000000000000000000000000000000000000000000000000000000000",
}

var ctxLit = regexp.MustCompile(`signature\.NewContext\(\s*"([^"]+)"((?:\s*,\s*signature\.With[A-Za-z]+\(\))*)`)

// repoContexts scans the repository sources for registered signature contexts.
func repoContexts() (plain []string, chainSep []string) {
	seen := map[string]bool{}
	_ = filepath.Walk("/repo/go", func(p string, info os.FileInfo, err error) error {
		if err != nil || info.IsDir() || !strings.HasSuffix(p, ".go") || strings.HasSuffix(p, "_test.go") {
			return nil
		}
		b, err := os.ReadFile(p)
		if err != nil {
			return nil
		}
		for _, m := range ctxLit.FindAllStringSubmatch(string(b), -1) {
			if seen[m[1]] {
				continue
			}
			seen[m[1]] = true
			if strings.Contains(m[2], "WithChainSeparation") {
				chainSep = append(chainSep, m[1])
			} else {
				plain = append(plain, m[1])
			}
		}
		return nil
	})
	sort.Strings(plain)
	sort.Strings(chainSep)
	return
}

func runCase(c chainsim.Case, rep chainsim.Reporter, scratch string) {
	if c.Mode == "readfault" {
		runReadFaultCase(c, rep, scratch)
		return
	}
	am := &chainsim.AuthMonitor{Rep: rep}
	rec := &chainsim.Recorder{TxSubs: []chainsim.TxMonitor{am}}
	// One test replica takes the proposer / validator / round-change paths, so altered copies of
	// its own proposals are also offered to the proposer (ProcessProposal after PrepareProposal).
	h, err := chainsim.NewHistory(chainsim.HistoryConfig{Seed: c.Seed, Profile: c.Profile, Blocks: c.Blocks, Paths: true,
		Replicas: []chainsim.ReplicaConfig{{Name: "p0", Backend: "pathbadger"}}}, rec)
	if err != nil {
		rep.Inconclusive("setup failed: " + err.Error())
		return
	}
	plain, sep := repoContexts()
	chain := h.Sc.Doc.ChainContext()
	var forgeCtx []string
	for _, p := range plain {
		forgeCtx = append(forgeCtx, p, p+" for chain "+chain)
	}
	for _, p := range sep {
		if p == string(transaction.SignatureContext) {
			forgeCtx = append(forgeCtx, p) // without chain separation
			continue
		}
		forgeCtx = append(forgeCtx, p, p+" for chain "+chain)
	}
	forgeCtx = append(forgeCtx, string(transaction.SignatureContext)+" for chain "+strings.Repeat("0", 64),
		string(transaction.SignatureContext)+" for chain "+chain[:63]+"0", "")
	attacks := map[string]int{}
	h.Gen.Extra = func(g *chainsim.TxGen, height int64, base []*chainsim.GenTx) []*chainsim.GenTx {
		rng := g.Rng()
		var out []*chainsim.GenTx
		if height < 3 || rng.IntN(3) != 0 {
			return nil
		}
		// Victim: a valid transaction of this block.
		var victim *chainsim.GenTx
		for _, b := range base {
			if b.Intent == "valid" && b.Tx != nil && b.Signer != nil {
				victim = b
				break
			}
		}
		if victim == nil {
			return nil
		}
		switch rng.IntN(4) {
		case 3:
			// Envelopes nobody signed: low-order public keys with message-independent
			// "signatures" (accepted by lax, cofactored verification for any bytes).
			for _, pkh := range smallOrderKeys {
				for _, sgh := range forgedSigs {
					for v := 0; v < 2; v++ {
						var st transaction.SignedTransaction
						_ = st.Signature.PublicKey.UnmarshalHex(pkh)
						sb, _ := hex.DecodeString(sgh)
						copy(st.Signature.Signature[:], sb)
						tx := transaction.Transaction{Nonce: uint64(v) * 0, Method: victim.Tx.Method, Body: victim.Tx.Body}
						if v == 1 {
							f := transaction.Fee{Gas: 5000}
							tx.Fee = &f
						}
						st.Blob = cbor.Marshal(&tx)
						out = append(out, &chainsim.GenTx{Raw: cbor.Marshal(st), Method: victim.Method, Intent: "forged-without-key"})
					}
				}
			}
			attacks["forged-without-key"] += len(out)
		case 0:
			// One PRNG-chosen bit flipped in every byte of the envelope.
			for i := range victim.Raw {
				m := append([]byte(nil), victim.Raw...)
				m[i] ^= 1 << uint(rng.IntN(8))
				out = append(out, &chainsim.GenTx{Raw: m, Method: victim.Method, Intent: "bitflip", Signer: victim.Signer})
			}
			// Every bit of the stated public key (256 variants): key bits have meanings of their
			// own (the top bit of the last byte is the sign of x), so none is left to the PRNG.
			if i := bytes.Index(victim.Raw, victim.Signer.PK[:]); i >= 0 {
				for b := 0; b < 256; b++ {
					m := append([]byte(nil), victim.Raw...)
					m[i+b/8] ^= 1 << uint(b%8)
					out = append(out, &chainsim.GenTx{Raw: m, Method: victim.Method, Intent: "bitflip", Signer: victim.Signer})
				}
			}
			attacks["bitflip"] += len(out)
		case 1:
			// The same blob signed under every other context.
			tx := *victim.Tx
			if rng.IntN(2) == 0 {
				tx.Nonce++ // would be the next valid nonce after the victim executed
			}
			for _, fc := range forgeCtx {
				raw := chainsim.ForgeSignedTx(victim.Signer, &tx, fc)
				// A signature made for the entity registration domain is first shown to the handler
				// that verifies that domain (inside somebody else's transaction, where it verifies
				// and then fails to decode as an entity), and only then presented as an envelope.
				if strings.Contains(fc, "register entity") {
					var st transaction.SignedTransaction
					if cbor.Unmarshal(raw, &st) == nil {
						out = append(out, g.CarrierTx(registry.MethodRegisterEntity, &entity.SignedEntity{Signed: st.Signed}))
						attacks["cross-context-primed"]++
					}
				}
				out = append(out, &chainsim.GenTx{Raw: raw, Method: victim.Method, Intent: "cross-context", Signer: victim.Signer, Note: fc})
			}
			attacks["cross-context"] += len(out)
		case 2:
			// Byte-identical replays in the same block, and re-signed copies with stale nonce.
			for i := 0; i < 3; i++ {
				cp := *victim
				cp.Intent = "replay"
				cp.OnSuccess = nil
				out = append(out, &cp)
			}
			// Signature of the victim transplanted onto an altered blob.
			var st transaction.SignedTransaction
			if cbor.Unmarshal(victim.Raw, &st) == nil {
				tx := *victim.Tx
				tx.Nonce++
				st.Blob = cbor.Marshal(&tx)
				out = append(out, &chainsim.GenTx{Raw: cbor.Marshal(st), Method: victim.Method, Intent: "transplanted-signature", Signer: victim.Signer})
			}
			attacks["replay"] += len(out)
		}
		return out
	}
	h.Run()
	chainsim.ReportCommon(h, rep)
	rep.Count("transactions_took_effect", int64(am.TookEffect))
	rep.Count("transactions_without_effect", int64(am.NoEffect))
	rep.Count("signature_contexts_forged", int64(len(forgeCtx)))
	for k, n := range attacks {
		rep.Count("attack."+k, int64(n))
	}
	for k, v := range am.ByIntent {
		rep.Count("intent."+k+".took_effect", int64(v[0]))
		rep.Count("intent."+k+".no_effect", int64(v[1]))
	}
	rep.Count("tampered_own_proposals_offered", int64(h.TamperedProposals))
	for _, d := range h.Divergences {
		if d.What == "tampered-own-proposal-accepted" {
			rep.Violation("c09/altered-transaction-accepted/proposer-process-proposal", fmt.Sprintf("%+v", *d), map[string]any{"params": h.Sc.P, "height": d.Height})
		}
	}
	for _, p := range h.Panics {
		rep.Inconclusive("history ended by a panic (see C10): " + p.Error())
	}
	if am.TookEffect >= 20 && attacks["bitflip"] > 0 && attacks["cross-context"] > 0 && attacks["replay"] > 0 && attacks["forged-without-key"] > 0 {
		rep.Nontrivial(fmt.Sprintf("%s/%d", c.Profile, c.Seed))
	}
	if c.Index < 2 {
		rep.Sample(map[string]any{"params": h.Sc.P, "blocks": h.Height, "took_effect": am.TookEffect, "no_effect": am.NoEffect, "attacks": attacks, "contexts": len(forgeCtx)})
	}
	h.Close()
	h.CloseBuilder()
}

func main() {
	chainsim.Main(chainsim.CheckSpec{
		ID:    "C09",
		Level: "exploration",
		Rule: "each case is one generated block history with fresh, replayed, reordered, nonce-gapped transactions plus, in a third of the blocks, an attack on a valid transaction: one flipped bit in every byte of its envelope, its blob signed under every signature context found in the repository sources (with and without chain separation, other chain ids), byte-identical replays, transplanted signatures, and envelopes nobody signed (small-order public keys with message-independent signatures); " +
			"'took effect' = non-empty state diff or code OK at the delivery tap; such a transaction must verify under the harness's own ed25519/sha512-256 check of this chain's transaction context, carry the signer's pre-state nonce, advance exactly that nonce, and its bytes must be new; non-trivial = history with >=20 effective transactions and all four attack kinds",
		Cases: func(r *evid.Run) []chainsim.Case {
			cs := chainsim.StdCases(r.Seed, r.Pick(64, 1600), r.Pick(50, 100), []string{"default", "registry", "hostile"})
			cs = chainsim.WithExtraCases(cs, r.Seed, r.Pick(4, 100), "keymanager") // key manager transactions
			cs = chainsim.WithExtraCases(cs, r.Seed, r.Pick(4, 100), "vrf")        // VRF beacon backend: proof transactions
			// Read-fault twins (hook H6): the nonce discipline on a node whose store fails single reads.
			n0 := len(cs)
			cs = chainsim.WithExtraCases(cs, r.Seed, r.Pick(32, 400), "default")
			for i := n0; i < len(cs); i++ {
				cs[i].Mode = "readfault"
				cs[i].Profile = []string{"default", "hostile", "registry"}[i%3]
			}
			return cs
		},
		RunCase: runCase,
		Floor:   10,
		Timeout: 10 * time.Minute,
	})
}
