package main

import (
	"fmt"
	"os"
	"path/filepath"
	"sort"

	"github.com/oasisprotocol/oasis-core/go/common/cbor"
	"github.com/oasisprotocol/oasis-core/go/consensus/api/transaction"
	staking "github.com/oasisprotocol/oasis-core/go/staking/api"

	"verif/engine/chainsim"
)

// runReadFaultCase: one history with read-fault twins (engine/chainsim/readfault.go). The generator's
// own stale, replayed and nonce-gapped transactions are the material; the attack blocks of the main
// cases are left out (hundreds of envelopes that never reach a state read).
func runReadFaultCase(c chainsim.Case, rep chainsim.Reporter, scratch string) {
	backend := []string{"pathbadger", "badger"}[c.Index%2]
	h, err := chainsim.NewHistory(chainsim.HistoryConfig{Seed: c.Seed, Profile: c.Profile, Blocks: c.Blocks, FaultRead: true,
		Replicas: []chainsim.ReplicaConfig{
			{Name: "count", Backend: backend, Dir: filepath.Join(scratch, "count")},
			{Name: "fault", Backend: backend, Dir: filepath.Join(scratch, "fault")},
		}})
	if err != nil {
		rep.Inconclusive("setup failed: " + err.Error())
		return
	}
	// Stale transactions of signers that have nothing else in the block (so their account is not in the
	// node cache of a freshly started node): nonce 0 and the nonce just used, with and without a fee.
	stale := 0
	h.Gen.Extra = func(g *chainsim.TxGen, height int64, base []*chainsim.GenTx) []*chainsim.GenTx {
		rng := g.Rng()
		busy := map[staking.Address]bool{}
		for _, b := range base {
			if b.Signer != nil {
				busy[b.Signer.Addr] = true
			}
		}
		var out []*chainsim.GenTx
		signers := g.History().Sc.Signers
		for try := 0; try < 8 && len(out) < 3; try++ {
			a := signers[rng.IntN(len(signers))]
			acct := g.History().View.Accounts[a.Addr]
			if busy[a.Addr] || acct == nil || acct.General.Nonce == 0 {
				continue
			}
			busy[a.Addr] = true
			nonce := uint64(0)
			if rng.IntN(4) == 0 {
				nonce = acct.General.Nonce - 1
			}
			var fee *transaction.Fee
			// Mostly transactions that cost nothing (no fee, or a gas limit at price zero): what an
			// account that looks empty could still afford.
			switch rng.IntN(4) {
			case 0:
				fee = &transaction.Fee{Gas: transaction.Gas(2000 + rng.IntN(500))}
				_ = fee.Amount.FromUint64(uint64(fee.Gas) * g.History().Sc.P.MinGasPrice)
			case 1:
				fee = &transaction.Fee{Gas: transaction.Gas(2000 + rng.IntN(500))}
			}
			tx := staking.NewTransferTx(nonce, fee, &staking.Transfer{To: signers[rng.IntN(len(signers))].Addr})
			st, err := transaction.Sign(a.Signer, tx)
			if err != nil {
				panic(err)
			}
			out = append(out, &chainsim.GenTx{Raw: cbor.Marshal(st), Signer: a, Tx: tx, Method: string(tx.Method), Intent: "stale-nonce", Note: "readfault"})
			stale++
		}
		return out
	}
	h.Run()
	chainsim.ReportCommon(h, rep)
	rep.Count("readfault.stale_transactions_of_idle_signers_generated", int64(stale))
	st := h.ReadFault
	rep.Count("readfault.histories", 1)
	rep.Count("readfault.histories."+backend, 1)
	rep.Count("readfault.blocks_with_armed_fault", int64(st.Blocks))
	rep.Count("readfault.faults_reached", int64(st.Fired))
	rep.Count("readfault.block_aborted", int64(st.Aborted))
	rep.Count("readfault.aborted_then_restarted_and_replayed_equal", int64(st.RecoveredEqual))
	rep.Count("readfault.aborted_after_the_block_was_committed", int64(st.AbortedAfterCommit))
	rep.Count("readfault.not_aborted_result_equal", int64(st.SilentEqual))
	rep.Count("readfault.not_aborted_result_differs", int64(st.SilentDifferent))
	rep.Count("readfault.fault_inside_delivertx", int64(st.InTx))
	rep.Count("readfault.fault_inside_delivertx_of_nonce_refused_tx", int64(st.InStaleTx))
	rep.Count("readfault.fault_aimed_at_free_nonce_refused_tx", int64(st.InFreeStaleTx))
	rep.Count("readfault.node_reads_counted", int64(st.ReadsCounted))
	rep.Count("readfault.twin_resynced_after_silent_difference", int64(st.Resynced))
	if st.Dead {
		rep.Count("readfault.twins_given_up", 1)
		rep.Distinct("readfault.twins_given_up_why", st.DeadWhy)
	}
	for k := range st.Sites {
		rep.Distinct("readfault.fault_sites", k)
	}
	for k, n := range st.AbortSites {
		rep.Count("readfault.abort_site."+k, int64(n))
	}
	for k, n := range st.SilentSites {
		rep.Count("readfault.silent_difference_site."+k, int64(n))
	}
	for k, n := range st.EqualSites {
		rep.Count("readfault.not_aborted_equal_site."+k, int64(n))
	}
	for _, f := range h.ReadFaultFindings {
		rep.Violation(f.Signature, f.What, map[string]any{"params": h.Sc.P, "detail": f.Detail})
	}
	for i, d := range h.ReadFaultSilent {
		if i < 2 || os.Getenv("VERIF_DEBUG_RF") != "" {
			rep.Sample(map[string]any{"readfault_silent_difference": d})
		}
	}
	for _, d := range h.Divergences {
		// A twin that differs from the reference WITHOUT a fault (counting run, replay after an aborted
		// block) is not this property's business unless it follows an aborted block.
		if len(d.What) > 20 && d.What[:20] == "after-aborted-block/" {
			rep.Violation("c09/readfault/replay-after-aborted-block-differs/"+d.What[20:], fmt.Sprintf("%+v", *d), map[string]any{"params": h.Sc.P, "height": d.Height})
		} else {
			rep.Inconclusive(fmt.Sprintf("read-fault twin differs from the reference without a fault (see C01): %+v", *d))
		}
	}
	for _, p := range h.Panics {
		rep.Inconclusive("history ended by a panic (see C10): " + p.Error())
	}
	if st.Fired >= 5 && st.Aborted > 0 {
		rep.Nontrivial(fmt.Sprintf("readfault/%s/%d", c.Profile, c.Seed))
	}
	if c.Index%8 == 0 {
		var sites []string
		for k, n := range st.Sites {
			sites = append(sites, fmt.Sprintf("%s x%d", k, n))
		}
		sort.Strings(sites)
		rep.Sample(map[string]any{"readfault": st, "sites": sites})
	}
	h.Close()
	h.CloseBuilder()
}
