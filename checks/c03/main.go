// Check C03: an MKVS tree and any stack of overlays on top of it behave as an
// ordered map.
//
// Online reference-model monitor: every generated history is executed on the
// real tree (nop / badger / pathbadger node database, write log on or off,
// several cache capacities) with up to three stacked overlays (mkvs.NewOverlay
// directly, or through the consensus api.Context NewTransaction/Commit/Close
// mechanism); after every operation the returned value is compared with the
// reference ordered map, and after mutations a full iteration from a random
// seek key is compared element by element.
package main

import (
	"bytes"
	"context"
	"encoding/hex"
	"encoding/json"
	"errors"
	"fmt"
	"math/rand/v2"
	"os"
	"runtime/debug"
	"strings"
	"sync"
	"sync/atomic"
	"time"

	"github.com/oasisprotocol/oasis-core/go/common/crypto/hash"
	cmtapi "github.com/oasisprotocol/oasis-core/go/consensus/cometbft/api"
	staking "github.com/oasisprotocol/oasis-core/go/staking/api"
	"github.com/oasisprotocol/oasis-core/go/storage/mkvs"
	dbApi "github.com/oasisprotocol/oasis-core/go/storage/mkvs/db/api"
	"github.com/oasisprotocol/oasis-core/go/storage/mkvs/node"

	"verif/engine/evid"
	lab "verif/engine/mkvslab"
)

// op is one operation of a history. Operations that are not applicable in the
// state they meet (e.g. overlay commit at depth 0) are skipped, so any
// sub-sequence of a history is again a history (used by the shrinker).
type op struct {
	Op string  `json:"op"`
	K  *string `json:"k,omitempty"` // hex; "" is the empty key
	V  *string `json:"v,omitempty"` // hex; "" is the empty value
	K2 *string `json:"k2,omitempty"`
	N  int     `json:"n,omitempty"`
	// Fault is an injected fault under which the operation is attempted first: "db@i" = the
	// (i+1)-th NodeDB.GetNode of the operation fails once with a transient error, "ctx@i" = the
	// context reports cancellation after ctx.Err() has been consulted i times. If the operation
	// returns the injected error the map must be unchanged (compared by a full iteration) and the
	// operation is retried without fault; if the fault is not reached the operation just succeeds.
	Fault string `json:"fault,omitempty"`

	k, v, k2 []byte
	fk       string // "", "db", "ctx"
	fat      int
}

const (
	opInsert         = "insert"
	opRemove         = "remove"
	opRemoveExisting = "remove-existing"
	opGet            = "get"
	opGetLower       = "get-lower-layer"
	opIter           = "iter-seek"   // Seek(K) then N x Next
	opIterRewind     = "iter-rewind" // Rewind then N x Next
	opPush           = "overlay-push"
	opOvCommit       = "overlay-commit"
	opOvDiscard      = "overlay-discard"
	opCopySwitch     = "overlay-copy-switch" // continue on the copy, close the original
	opCopyProbe      = "overlay-copy-probe"  // mutate the copy, check isolation, close the copy
	opCommit         = "tree-commit"
	opReopen         = "tree-commit-reopen"
	opFullIter       = "full-iteration" // Seek(K) and iterate to the end
)

type config struct {
	Backend    string `json:"backend"`
	NoWriteLog bool   `json:"without_write_log"`
	Capacity   string `json:"capacity"`
	CapClass   string `json:"capacity_class"`
	CapSet     bool   `json:"capacity_set"`
	CapNodes   uint64 `json:"capacity_nodes"`
	CapValues  uint64 `json:"capacity_value_bytes"`
	// WorkingSetNodes is 2D+4 for this history; class "tiny" iff 0 < CapNodes < WorkingSetNodes.
	WorkingSetNodes uint64 `json:"working_set_nodes"`
	Mechanism       string `json:"overlay_mechanism"` // raw | ctx
	// CtxMode is the mode of the base api.Context (ctx mechanism): the overlay stack must behave
	// as a map in every mode (InitChain, CheckTx, DeliverTx, SimulateTx, BeginBlock, EndBlock).
	CtxMode  string `json:"context_mode,omitempty"`
	StartVer uint64 `json:"start_version"`
	Finalize bool   `json:"finalize_every_version"`
}

func (c *config) tag(layer string) string {
	return layer + "/" + c.Backend + "/cap-" + c.CapClass
}

type failure struct {
	Sig    string `json:"signature"`
	Coarse string `json:"symptom_class,omitempty"` // wrong-answer | panic | error
	// Raw is the signature the failure has when it does not qualify for a family.
	Raw    string `json:"unclassified_signature,omitempty"`
	What   string `json:"what"`
	Step   int    `json:"step"`
	Got    string `json:"got,omitempty"`
	Want   string `json:"want,omitempty"`
	Detail string `json:"detail,omitempty"`
}

type witness struct {
	Seed           int64    `json:"seed"`
	Case           int      `json:"case"`
	Config         config   `json:"config"`
	Ops            []op     `json:"ops"`
	Step           int      `json:"failing_step"`
	Failure        *failure `json:"failure"`
	Minimal        []op     `json:"minimal_history,omitempty"`
	MinimalFailure *failure `json:"minimal_history_failure,omitempty"`
}

type stats struct {
	ops           map[string]int64
	faults        map[string]int64
	nestedCommit  bool
	reopened      bool
	refetch       int64
	gets          int64
	maxDepth      int
	iterSteps     int64
	fullIters     int64
	overlayShadow int64
}

var (
	run *evid.Run
	bg  = context.Background()
)

func main() {
	run = evid.Start("C03", "exploration")
	run.Rule = "history i from PRNG(seed,i): configuration (backend nop/badger/pathbadger in-memory; write log on / WithoutWriteLog; cache default, unlimited, fit classes sized from the key universe, tiny = node capacity below 2D+4: (1,1),(2,16); (0,1); overlays through mkvs.NewOverlay or api.Context.NewTransaction) and a list of " +
		"100 operations over a universe of 6..40 adversarial keys (alphabet {00,01,7f,80,ff,a,b}, lengths 0..6 incl. the empty key, prefix keys) plus probe keys: Insert, Remove, RemoveExisting, Get (top and lower layers), iterator Seek/Rewind/Next, overlay push (depth<=3)/commit/discard/copy, Tree.Commit at the next version, close + NewWithRoot. " +
		"In the capacity classes default/unlimited/node-only-small about a quarter of Insert/Remove/RemoveExisting/Get and a sixth of the iterations are attempted under an injected transient NodeDB.GetNode error or a context cancelled after i Err() checks first (i from the PRNG); an operation that returns the injected error must leave the map unchanged (full iteration) and is retried. " +
		"Every returned value is compared with the reference ordered map; after a mutation a full iteration from a random seek key is compared (quick: 1/4 of the mutations). " +
		"non-trivial = history with an overlay commit at depth >= 2, a close/reopen and at least one node re-fetched after eviction (counted by a GetNode-counting NodeDB wrapper)."
	run.Assume("reference model: Go map + sorted key slice (engine/mkvslab/model.go); absence is nil, a present empty value is a non-nil empty slice")
	run.Assume("values are non-nil, keys are non-nil byte slices (the empty key is []byte{}); iterators are closed before the next mutation; overlays are used strictly as a stack (only the top layer is mutated)")
	run.Assume("nop node database only with the default/unlimited cache and never reopened; close+NewWithRoot only with no overlay open")

	// The heap is dominated by short-lived 64 MiB badger arenas; collect eagerly.
	debug.SetGCPercent(20)

	if run.ReplayFile != "" {
		replay(run.ReplayFile)
		return
	}

	runCanaries()
	longKeyProbe()

	n := run.Pick(8000, 60000)
	deadline := time.Now().Add(time.Duration(run.Pick(20, 90)) * time.Minute)
	var skipped atomic.Int64
	evid.Parallel(n, 0, func(i int) {
		if time.Now().After(deadline) {
			skipped.Add(1)
			return
		}
		runCase(i)
	})
	if s := skipped.Load(); s > 0 {
		run.Inconclusive("watchdog: %d of %d histories not executed before the deadline", s, n)
	}
	run.Finish(run.Pick(30, 600))
}

// ---------------------------------------------------------------------------
// Generation.

type capChoice struct {
	name, class string
	set         bool
	nodes, vals uint64
}

// ctxModes are all valid context modes.
var ctxModes = []cmtapi.ContextMode{
	cmtapi.ContextDeliverTx, cmtapi.ContextSimulateTx, cmtapi.ContextCheckTx,
	cmtapi.ContextBeginBlock, cmtapi.ContextEndBlock, cmtapi.ContextInitChain,
}

// ctxMode derives the base context's mode from the other configuration values (no PRNG draw).
func ctxMode(c *config) cmtapi.ContextMode {
	i := len(c.Backend) + int(c.StartVer%7) + len(c.Capacity)
	if c.NoWriteLog {
		i += 3
	}
	if c.Finalize {
		i += 5
	}
	return ctxModes[i%len(ctxModes)]
}

func genConfig(rng *rand.Rand) config {
	c := config{}
	switch x := rng.IntN(10); {
	case x < 2:
		c.Backend = lab.BackendNop
	case x < 6:
		c.Backend = lab.BackendBadger
	default:
		c.Backend = lab.BackendPathBadger
	}
	c.NoWriteLog = rng.IntN(2) == 0
	if rng.IntN(3) == 0 {
		c.Mechanism = "ctx"
	} else {
		c.Mechanism = "raw"
	}
	c.StartVer = []uint64{0, 1, 1000}[rng.IntN(3)]
	c.Finalize = rng.IntN(2) == 0
	caps := []capChoice{
		{name: "default", class: "default"},
		{name: "unlimited", class: "unlimited", set: true},
		{name: "fit-nodes-only", class: "fitn", set: true},
		{name: "fit-nodes-only", class: "fitn", set: true},
		{name: "fit-values-only", class: "fitv", set: true},
		{name: "fit", class: "fit", set: true},
		{name: "fit2", class: "fit2", set: true},
		{name: "n1v1", class: "tiny", set: true, nodes: 1, vals: 1},
		{name: "n2v16", class: "tiny", set: true, nodes: 2, vals: 16},
		{name: "n0v1", class: "fitv", set: true, nodes: 0, vals: 1},
	}
	ch := caps[rng.IntN(len(caps))]
	if c.Backend == lab.BackendNop {
		ch = caps[rng.IntN(2)]
	}
	c.Capacity, c.CapClass, c.CapSet, c.CapNodes, c.CapValues = ch.name, ch.class, ch.set, ch.nodes, ch.vals
	return c
}

// sizeFit fills in the numbers of the fit classes: nodes = 2D+4 (4D+8), values = 4 (8) x largest leaf
// where D is the longest path (internal nodes) of the trie over the universe of insertable keys,
// and decides the class "tiny": a configured node capacity N is below the working set of one
// operation iff 0 < N < 2D+4 (an operation visits at most D path nodes and Remove dereferences
// both children of each of them). This is the only way a failure gets a
// c03/cache-below-working-set/... signature.
func sizeFit(c *config, universe [][]byte, maxValue int) {
	if !c.CapSet {
		return
	}
	u := map[string]struct{}{}
	maxKey := 0
	for _, k := range universe {
		u[string(k)] = struct{}{}
		if len(k) > maxKey {
			maxKey = len(k)
		}
	}
	d := uint64(lab.UniverseDepth(u))
	ws := 2*d + 4
	c.WorkingSetNodes = ws
	maxLeaf := node.LeafNodeSize + uint64(maxKey+maxValue)
	switch c.Capacity {
	case "fit":
		c.CapNodes, c.CapValues = ws, 4*maxLeaf
	case "fit2":
		c.CapNodes, c.CapValues = 2*ws, 8*maxLeaf
	case "fit-nodes-only":
		c.CapNodes, c.CapValues = ws, 0
	case "fit-values-only":
		c.CapNodes, c.CapValues = 0, 4*maxLeaf
	}
	c.CapClass = classOf(c.CapSet, c.CapNodes, c.CapValues, ws, c.Capacity)
}

// classOf is the single rule that maps a configured capacity Capacity(N, V) to its class
// (ws = 2D+4 is the working set of one operation in nodes):
//
//	not configured        default
//	N == 0 && V == 0      unlimited
//	0 < N < ws            tiny   (candidate for the family cache-below-working-set)
//	otherwise, V > 0      fit / fit2 / fitv: finite value capacity, so clean leaves get evicted
//	                      (candidate for the family value-cache-eviction)
//	otherwise (V == 0)    fitn
func classOf(set bool, n, v, ws uint64, name string) string {
	switch {
	case !set:
		return "default"
	case n == 0 && v == 0:
		return "unlimited"
	case n > 0 && n < ws:
		return "tiny"
	case v > 0 && n == 0:
		return "fitv"
	case v > 0 && name == "fit2":
		return "fit2"
	case v > 0:
		return "fit"
	}
	return "fitn"
}

// familyOf returns the known-finding family a failure under this capacity class is a candidate
// for. Membership additionally requires that the same history passes with Capacity(0,0), see
// confirmFamily.
func familyOf(class string) string {
	switch class {
	case "tiny":
		return "c03/cache-below-working-set/"
	case "fit", "fit2", "fitv":
		return "c03/value-cache-eviction/"
	}
	return ""
}

// confirmFamily decides membership in a known-finding family. f.Sig is a family signature only
// as a candidate (by the capacity class); it is kept iff the very same history PASSES when it is
// replayed once with Capacity(0,0) (no eviction at all), i.e. the failure is caused by eviction.
// Otherwise the failure gets its ordinary signature, so a defect that also breaks trees with
// unlimited caches can never hide in a family.
func confirmFamily(cfg *config, ops []op, f *failure) string {
	fam := familyOf(cfg.CapClass)
	if fam == "" || !strings.HasPrefix(f.Sig, fam) {
		return f.Sig
	}
	u := *cfg
	u.Capacity, u.CapClass, u.CapSet, u.CapNodes, u.CapValues = "unlimited", "unlimited", true, 0, 0
	run.Count("family_candidates_replayed_with_unlimited_cache", 1)
	if g := execute(&u, ops, nil); g != nil {
		run.Count("family_candidates_failing_with_unlimited_cache_too", 1)
		return f.Raw
	}
	return f.Sig
}

func mk(kind string, k, v, k2 []byte, n int) op {
	o := op{Op: kind, N: n, k: k, v: v, k2: k2}
	hexp := func(b []byte) *string {
		if b == nil {
			return nil
		}
		s := lab.Hex(b)
		return &s
	}
	o.K, o.V, o.K2 = hexp(k), hexp(v), hexp(k2)
	return o
}

func genHistory(rng *rand.Rand, cfg *config, nOps int) []op {
	nKeys := 6 + rng.IntN(35)
	set := lab.GenSet(rng, nKeys, 65)
	var universe [][]byte
	for _, k := range set.Keys() {
		universe = append(universe, []byte(k))
	}
	if rng.IntN(3) == 0 && !set.Has([]byte{}) {
		universe = append(universe, []byte{})
	}
	// Probe keys: never inserted, used for lookups, removes of absent keys and seeks.
	var probes [][]byte
	for len(probes) < 8 {
		var k []byte
		if rng.IntN(3) > 0 {
			k = lab.GenKeyNear(rng, universe[rng.IntN(len(universe))])
		} else {
			k = lab.GenKey(rng)
		}
		probes = append(probes, k)
	}
	maxValue := 0
	value := func() []byte {
		v := lab.GenValue(rng)
		if len(v) > maxValue {
			maxValue = len(v)
		}
		return v
	}
	ukey := func() []byte { return universe[rng.IntN(len(universe))] }
	anykey := func() []byte {
		if rng.IntN(4) == 0 {
			return probes[rng.IntN(len(probes))]
		}
		return ukey()
	}

	var ops []op
	// Warm-up so that most histories start from a populated, committed tree.
	if rng.IntN(4) > 0 {
		for i := 0; i < len(universe)/2+1; i++ {
			ops = append(ops, mk(opInsert, ukey(), value(), nil, 0))
		}
		ops = append(ops, mk(opCommit, nil, nil, nil, 0))
	}
	for len(ops) < nOps {
		switch x := rng.IntN(100); {
		case x < 24:
			ops = append(ops, mk(opInsert, ukey(), value(), nil, 0))
		case x < 33:
			ops = append(ops, mk(opRemove, anykey(), nil, nil, 0))
		case x < 42:
			ops = append(ops, mk(opRemoveExisting, anykey(), nil, nil, 0))
		case x < 54:
			ops = append(ops, mk(opGet, anykey(), nil, nil, 0))
		case x < 57:
			ops = append(ops, mk(opGetLower, anykey(), nil, nil, rng.IntN(4)))
		case x < 65:
			ops = append(ops, mk(opIter, anykey(), nil, nil, rng.IntN(8)))
		case x < 68:
			ops = append(ops, mk(opIterRewind, nil, nil, nil, rng.IntN(8)))
		case x < 76:
			ops = append(ops, mk(opPush, nil, nil, nil, 0))
		case x < 82:
			ops = append(ops, mk(opOvCommit, nil, nil, nil, 0))
		case x < 85:
			ops = append(ops, mk(opOvDiscard, nil, nil, nil, 0))
		case x < 87:
			ops = append(ops, mk(opCopySwitch, nil, nil, nil, 0))
		case x < 89:
			ops = append(ops, mk(opCopyProbe, ukey(), value(), anykey(), 0))
		case x < 96:
			ops = append(ops, mk(opCommit, nil, nil, nil, 0))
		default:
			ops = append(ops, mk(opReopen, nil, nil, nil, 0))
		}
		// Full iteration after a mutation (quick: sampled 1/4).
		last := ops[len(ops)-1].Op
		mut := last == opInsert || last == opRemove || last == opRemoveExisting || last == opOvCommit || last == opOvDiscard ||
			last == opCommit || last == opReopen || last == opCopySwitch
		if mut && (!run.Quick() || rng.IntN(4) == 0) {
			ops = append(ops, mk(opFullIter, anykey(), nil, nil, 0))
		}
	}
	// Fault injection (only in capacity classes outside the known-finding families): about a
	// quarter of the tree operations are attempted under a transient NodeDB read error or a
	// context cancelled mid-descent first. PRNG-determined.
	if cfg.Capacity == "default" || cfg.Capacity == "unlimited" || cfg.Capacity == "fit-nodes-only" {
		for i := range ops {
			o := &ops[i]
			switch o.Op {
			case opInsert, opRemove, opRemoveExisting, opGet:
				if rng.IntN(4) == 0 {
					o.fk = "ctx"
					if cfg.Backend != lab.BackendNop && rng.IntN(5) < 3 {
						o.fk = "db"
					}
					o.fat = rng.IntN(7)
				}
			case opIter, opIterRewind, opFullIter:
				if cfg.Backend != lab.BackendNop && rng.IntN(6) == 0 {
					o.fk, o.fat = "db", rng.IntN(7)
				}
			}
			if o.fk != "" {
				o.Fault = fmt.Sprintf("%s@%d", o.fk, o.fat)
			}
		}
	}
	sizeFit(cfg, universe, maxValue)
	return ops
}

// ---------------------------------------------------------------------------
// Execution.

type layer struct {
	kind  string // tree | overlay | ctx
	kv    mkvs.KeyValueTree
	ov    mkvs.OverlayTree // raw overlays
	ctx   *cmtapi.Context  // ctx mechanism (also for the base layer)
	model *lab.Model
}

func same(got, want []byte) bool {
	if want == nil {
		return got == nil
	}
	return got != nil && bytes.Equal(got, want)
}

func show(v []byte) string {
	if v == nil {
		return "<absent>"
	}
	return "0x" + lab.Hex(v)
}

func errClass(err error) string {
	switch {
	case errors.Is(err, dbApi.ErrNodeNotFound):
		return "node-not-found"
	case errors.Is(err, mkvs.ErrClosed):
		return "closed"
	case errors.Is(err, dbApi.ErrRootNotFound):
		return "root-not-found"
	}
	s := err.Error()
	if i := strings.Index(s, ":"); i > 0 && i < 40 {
		s = s[:i]
	}
	s = strings.Map(func(r rune) rune {
		if r >= 'a' && r <= 'z' || r >= 'A' && r <= 'Z' || r >= '0' && r <= '9' {
			return r
		}
		return '-'
	}, s)
	if len(s) > 40 {
		s = s[:40]
	}
	return s
}

// classifyLostNode: known trigger of a lost node on the nop database with a cache that should
// never evict: an Insert overwriting a committed leaf with a longer value.
func classifyLostNode(ops []op) string {
	// Approximation on the flat op list: an insert of a key that was inserted before with a
	// shorter value and a tree commit in between.
	lastLen := map[string]int{}
	committed := map[string]bool{}
	for i := range ops {
		o := &ops[i]
		switch o.Op {
		case opInsert, opCopyProbe:
			if l, ok := lastLen[string(o.k)]; ok && committed[string(o.k)] && len(o.v) > l {
				return "after-overwrite-of-committed-leaf-with-longer-value"
			}
			lastLen[string(o.k)] = len(o.v)
			committed[string(o.k)] = false
		case opCommit, opReopen:
			for k := range lastLen {
				committed[k] = true
			}
		}
	}
	return "other"
}

// execute runs a history; nil means every answer matched the model.
func execute(cfg *config, ops []op, st *stats) (f *failure) {
	var (
		tree    mkvs.Tree
		ndb     dbApi.NodeDB
		cdb     *lab.CountingDB
		layers  []*layer
		step    int
		curOp   = "open"
		curKind = "tree"
		version = cfg.StartVer
		first   = true
	)
	family := familyOf(cfg.CapClass)
	mkfail := func(symptom, what, got, want string) *failure {
		coarse := "wrong-answer"
		if strings.HasPrefix(symptom, "error-") {
			coarse = "error"
		}
		raw := "c03/" + symptom + "/" + cfg.tag(curKind)
		sig := raw
		if family != "" {
			sig = family + coarse
		}
		return &failure{Sig: sig, Raw: raw, Coarse: coarse, What: fmt.Sprintf("step %d (%s on %s, depth %d): %s", step, curOp, curKind, len(layers)-1, what), Step: step, Got: got, Want: want}
	}
	failErr := func(err error) *failure {
		if family == "" && cfg.Backend == lab.BackendNop && errors.Is(err, dbApi.ErrNodeNotFound) {
			return &failure{Sig: "c03/nop-db-lost-node/" + classifyLostNode(ops[:step+1]), Coarse: "error", What: fmt.Sprintf("step %d (%s): %v", step, curOp, err), Step: step, Detail: err.Error()}
		}
		g := mkfail("error-"+curOp+"-"+errClass(err), err.Error(), "", "")
		g.Detail = err.Error()
		return g
	}
	defer func() {
		if p := recover(); p != nil {
			raw := "panic/" + curOp + "/" + cfg.tag(curKind)
			sig := raw
			if family != "" {
				sig = family + "panic"
			}
			f = &failure{Sig: sig, Raw: raw, Coarse: "panic", What: fmt.Sprintf("panic at step %d (%s on %s): %v", step, curOp, curKind, p), Step: step, Detail: fmt.Sprintf("%v\n%s", p, debug.Stack())}
		}
		if cdb != nil && st != nil {
			st.refetch += cdb.Refetch.Load()
			st.gets += cdb.Gets.Load()
		}
		func() {
			defer func() { _ = recover() }()
			if tree != nil {
				tree.Close()
			}
		}()
		if ndb != nil {
			ndb.Close()
		}
	}()

	var err error
	ndb, err = lab.OpenDB(cfg.Backend, "")
	if err != nil {
		return &failure{Sig: "harness/open-db", What: err.Error()}
	}
	var treeDB dbApi.NodeDB
	if ndb != nil {
		cdb = lab.NewCountingDB(ndb)
		treeDB = cdb
	}
	var opts []mkvs.Option
	if cfg.CapSet {
		opts = append(opts, mkvs.Capacity(cfg.CapNodes, cfg.CapValues))
	}
	if cfg.NoWriteLog {
		opts = append(opts, mkvs.WithoutWriteLog())
	}
	tree = mkvs.New(nil, treeDB, node.RootTypeState, opts...)
	newBase := func(m *lab.Model) *layer {
		l := &layer{kind: "tree", kv: tree, model: m}
		if cfg.Mechanism == "ctx" {
			l.ctx = cmtapi.NewContext(bg, ctxMode(cfg), time.Unix(1, 0), nil, nil, tree, nil, 0, 1)
			l.kv = l.ctx.State()
		}
		return l
	}
	layers = []*layer{newBase(lab.NewModel())}
	top := func() *layer { return layers[len(layers)-1] }
	count := func(name string) {
		if st != nil {
			st.ops[name]++
		}
	}

	// iterate compares the iterator of layer l from seek (nil = Rewind) for at most n Next calls
	// (n < 0: to the end) with the model.
	iterate := func(l *layer, seek []byte, rewind bool, n int) *failure {
		it := l.kv.NewIterator(bg)
		defer it.Close()
		keys := l.model.Keys()
		// scan positions the SAME iterator (Seek or Rewind) and compares at most n+1 items.
		scan := func(seek []byte, rewind bool, again string) *failure {
			var idx int
			if rewind {
				it.Rewind()
				idx = 0
			} else {
				it.Seek(seek)
				idx = l.model.From(seek)
			}
			for i := 0; ; i++ {
				if e := it.Err(); e != nil {
					return failErr(e)
				}
				wantValid := idx < len(keys)
				if it.Valid() != wantValid {
					want := "<end>"
					if wantValid {
						want = "0x" + lab.Hex([]byte(keys[idx]))
					}
					got := "<end>"
					if it.Valid() {
						got = "0x" + lab.Hex(it.Key())
					}
					return mkfail("iter-mismatch/validity"+again, fmt.Sprintf("iterator position %d after seek %s: valid=%v, model says %v", i, show(seek), it.Valid(), wantValid), got, want)
				}
				if !wantValid {
					return nil
				}
				if !bytes.Equal(it.Key(), []byte(keys[idx])) {
					return mkfail("iter-mismatch/key"+again, fmt.Sprintf("iterator position %d after seek %s", i, show(seek)), "0x"+lab.Hex(it.Key()), "0x"+lab.Hex([]byte(keys[idx])))
				}
				if !bytes.Equal(it.Value(), l.model.Get([]byte(keys[idx]))) {
					return mkfail("iter-mismatch/value"+again, fmt.Sprintf("iterator position %d (key %x) after seek %s", i, keys[idx], show(seek)), show(it.Value()), show(l.model.Get([]byte(keys[idx]))))
				}
				if st != nil {
					st.iterSteps++
				}
				if n >= 0 && i >= n {
					return nil
				}
				it.Next()
				idx++
			}
		}
		if g := scan(seek, rewind, ""); g != nil {
			return g
		}
		// A partial scan leaves the iterator positioned on an item: the same iterator is then
		// sought again (to a model key chosen from the first seek key, then rewound), as prefix
		// scans of the applications do.
		if n >= 0 && it.Valid() && len(keys) > 0 {
			h := 0
			for _, b := range seek {
				h = h*31 + int(b)
			}
			k2 := []byte(keys[(h+len(seek)+n)%len(keys)])
			if h%3 == 0 && len(k2) > 0 {
				k2 = k2[:len(k2)-1] // a proper prefix of a key
			}
			if st != nil {
				st.ops["iter-reseek-while-positioned"]++
			}
			if g := scan(k2, false, "/re-seek-while-positioned"); g != nil {
				g.What = "same iterator sought again while positioned: " + g.What
				return g
			}
			if it.Valid() {
				if g := scan(nil, true, "/rewind-while-positioned"); g != nil {
					g.What = "same iterator rewound while positioned: " + g.What
					return g
				}
			}
		}
		return nil
	}

	fstat := func(name string) {
		if st != nil {
			st.faults[name]++
		}
	}
	// changed turns a full-iteration mismatch found right after a failed operation into the
	// failure "an operation that returned an error changed the map".
	changed := func(why string, l *layer) *failure {
		g := iterate(l, nil, true, -1)
		if g == nil {
			return nil
		}
		g.Sig = "c03/failed-op-changed-contents/" + why
		g.Raw, g.Coarse = g.Sig, "wrong-answer"
		g.What = why + " returned the injected fault but changed the map: " + g.What
		return g
	}
	// withFault runs do under the fault of o first (if any); an operation that returns the
	// injected fault must have left the map unchanged and is retried without fault.
	withFault := func(o *op, l *layer, do func(ctx context.Context) error) *failure {
		if o.fk != "" && !(o.fk == "db" && cdb == nil) {
			ctx := context.Context(bg)
			if o.fk == "db" {
				cdb.FailGetNode(o.fat)
			} else {
				ctx = lab.NewCountdownCtx(bg, o.fat)
			}
			fstat("armed/" + o.fk)
			e := do(ctx)
			if cdb != nil {
				cdb.Disarm()
			}
			if e == nil {
				fstat("not_reached_op_succeeded")
				return nil
			}
			if !lab.IsInjected(e) {
				return failErr(e)
			}
			why := o.Op + "/" + o.fk
			fstat("failed_ops/" + why)
			if g := changed(why, l); g != nil {
				return g
			}
			if e = do(bg); e != nil {
				return failErr(e)
			}
			fstat("retried_ok/" + o.Op)
			return nil
		}
		if e := do(bg); e != nil {
			return failErr(e)
		}
		return nil
	}
	// iterFault runs an iterator comparison under a NodeDB fault; an iteration that stops with
	// the injected error must not have changed the map and is repeated without fault.
	iterFault := func(o *op, l *layer, seek []byte, rewind bool, n int) *failure {
		if o.fk == "db" && cdb != nil {
			cdb.FailGetNode(o.fat)
			fstat("armed/db")
			g := iterate(l, seek, rewind, n)
			cdb.Disarm()
			if g == nil {
				fstat("not_reached_op_succeeded")
				return nil
			}
			if g.Detail != lab.ErrInjected.Error() {
				return g
			}
			why := "iterate/db"
			fstat("failed_ops/" + why)
			if g := changed(why, l); g != nil {
				return g
			}
			fstat("retried_ok/iterate")
		}
		return iterate(l, seek, rewind, n)
	}

	commitTree := func() (hash.Hash, *failure) {
		if !first {
			version++
		}
		first = false
		_, root, cerr := tree.Commit(bg, lab.Namespace, version)
		if cerr != nil {
			return root, failErr(cerr)
		}
		if ndb != nil && cfg.Finalize {
			if ferr := ndb.Finalize([]node.Root{lab.Root(version, root)}); ferr != nil {
				curOp = "finalize"
				return root, failErr(ferr)
			}
		}
		return root, nil
	}

	for step = 0; step < len(ops); step++ {
		o := &ops[step]
		l := top()
		curOp, curKind = o.Op, l.kind
		switch o.Op {
		case opInsert:
			if g := withFault(o, l, func(ctx context.Context) error { return l.kv.Insert(ctx, o.k, nilIfEmpty(o.k, o.v)) }); g != nil {
				return g
			}
			if len(layers) > 1 && layers[len(layers)-2].model.Has(o.k) && st != nil {
				st.overlayShadow++
			}
			l.model.Insert(o.k, o.v)
		case opRemove:
			if g := withFault(o, l, func(ctx context.Context) error { return l.kv.Remove(ctx, o.k) }); g != nil {
				return g
			}
			l.model.Remove(o.k)
		case opRemoveExisting:
			var got []byte
			if g := withFault(o, l, func(ctx context.Context) (e error) { got, e = l.kv.RemoveExisting(ctx, o.k); return e }); g != nil {
				return g
			}
			want := l.model.Remove(o.k)
			if !same(got, want) {
				return mkfail("remove-existing-mismatch", fmt.Sprintf("RemoveExisting(%x)", o.k), show(got), show(want))
			}
		case opGet, opGetLower:
			if o.Op == opGetLower {
				l = layers[o.N%len(layers)]
				curKind = l.kind
			}
			var got []byte
			if g := withFault(o, l, func(ctx context.Context) (e error) { got, e = l.kv.Get(ctx, o.k); return e }); g != nil {
				return g
			}
			if want := l.model.Get(o.k); !same(got, want) {
				sym := "get-mismatch"
				if want != nil && len(want) == 0 && got == nil {
					sym = "get-mismatch/empty-value-reported-absent"
				}
				return mkfail(sym, fmt.Sprintf("Get(%x)", o.k), show(got), show(want))
			}
		case opIter:
			if g := iterFault(o, l, o.k, false, o.N); g != nil {
				return g
			}
		case opIterRewind:
			if g := iterFault(o, l, nil, true, o.N); g != nil {
				return g
			}
		case opFullIter:
			if g := iterFault(o, l, o.k, false, -1); g != nil {
				return g
			}
			if st != nil {
				st.fullIters++
			}
		case opPush:
			if len(layers) > 3 {
				continue
			}
			nl := &layer{model: l.model.Clone()}
			if cfg.Mechanism == "ctx" {
				nl.kind = "ctx"
				// The transaction is opened the ways the applications do it: directly, or on a
				// child context that shares the parent's state (plain child, simulation child,
				// child with another caller address). Chosen from the operation's key so that
				// the operation stream of a seed does not move.
				parent := l.ctx
				switch len(o.k) % 4 {
				case 1:
					parent = parent.NewChild()
					count("ctx-push-via-NewChild")
				case 2:
					parent = parent.WithSimulation()
					count("ctx-push-via-WithSimulation")
				case 3:
					parent = parent.WithCallerAddress(staking.CommonPoolAddress)
					count("ctx-push-via-WithCallerAddress")
				}
				nl.ctx = parent.NewTransaction()
				nl.kv = nl.ctx.State()
			} else {
				nl.kind = "overlay"
				nl.ov = mkvs.NewOverlay(l.kv)
				nl.kv = nl.ov
			}
			layers = append(layers, nl)
			if st != nil && len(layers)-1 > st.maxDepth {
				st.maxDepth = len(layers) - 1
			}
		case opOvCommit:
			if len(layers) == 1 {
				continue
			}
			if l.ctx != nil {
				l.ctx.Commit()
				l.ctx.Close()
			} else {
				if _, err = l.ov.Commit(bg); err != nil {
					return failErr(err)
				}
				l.ov.Close()
			}
			if st != nil && len(layers) > 2 {
				st.nestedCommit = true
			}
			layers[len(layers)-2].model = l.model
			layers = layers[:len(layers)-1]
		case opOvDiscard:
			if len(layers) == 1 {
				continue
			}
			if l.ctx != nil {
				l.ctx.Close()
			} else {
				l.ov.Close()
			}
			layers = layers[:len(layers)-1]
		case opCopySwitch:
			if len(layers) == 1 || l.ov == nil {
				continue
			}
			cp := l.ov.Copy(nil)
			l.ov.Close()
			l.ov, l.kv = cp, cp
		case opCopyProbe:
			if len(layers) == 1 || l.ov == nil {
				continue
			}
			cp := l.ov.Copy(nil)
			cm := l.model.Clone()
			if err = cp.Insert(bg, o.k, o.v); err != nil {
				return failErr(err)
			}
			cm.Insert(o.k, o.v)
			if err = cp.Remove(bg, o.k2); err != nil {
				return failErr(err)
			}
			cm.Remove(o.k2)
			if g := iterate(&layer{kind: "overlay-copy", kv: cp, model: cm}, nil, true, -1); g != nil {
				g.Sig = strings.Replace(g.Sig, "iter-mismatch", "copy-iter-mismatch", 1)
				g.What = "iteration of the overlay copy: " + g.What
				return g
			}
			cp.Close()
			// The original must be unaffected.
			if g := iterate(l, nil, true, -1); g != nil {
				g.Sig = strings.Replace(g.Sig, "iter-mismatch", "copy-leak-iter-mismatch", 1)
				g.What = "iteration of the original overlay after mutating and closing its copy: " + g.What
				return g
			}
		case opCommit:
			curKind = "tree"
			if _, g := commitTree(); g != nil {
				return g
			}
		case opReopen:
			if len(layers) != 1 || ndb == nil {
				continue
			}
			curKind = "tree"
			root, g := commitTree()
			if g != nil {
				return g
			}
			if l.ctx != nil {
				l.ctx.Close()
			}
			tree.Close()
			cdb.ResetSeen()
			tree = mkvs.NewWithRoot(nil, treeDB, lab.Root(version, root), opts...)
			layers[0] = newBase(l.model)
			if st != nil {
				st.reopened = true
			}
		}
		count(o.Op)
	}
	return nil
}

// ---------------------------------------------------------------------------

// Shrinking is done for the first two failures of a signature (and for reclassification
// candidates). evid keeps the first three witnesses per signature in arrival order, so later
// failures of the same signature wait until the shrinking ones have been reported.
type sigState struct{ n, inflight int }

var (
	sigMu   sync.Mutex
	sigCond = sync.NewCond(&sigMu)
	sigTab  = map[string]*sigState{}
)

func enterReport(sig string, force bool) (doShrink bool) {
	sigMu.Lock()
	defer sigMu.Unlock()
	st := sigTab[sig]
	if st == nil {
		st = &sigState{}
		sigTab[sig] = st
	}
	st.n++
	doShrink = st.n <= 2 || force
	if doShrink {
		st.inflight++
		return true
	}
	for st.inflight > 0 {
		sigCond.Wait()
	}
	return false
}

func leaveReport(sig string, didShrink bool) {
	if !didShrink {
		return
	}
	sigMu.Lock()
	sigTab[sig].inflight--
	sigCond.Broadcast()
	sigMu.Unlock()
}

func runCase(i int) {
	rng := run.Rand(uint64(i))
	cfg := genConfig(rng)
	ops := genHistory(rng, &cfg, 100)
	run.Eval(1)

	st := &stats{ops: map[string]int64{}, faults: map[string]int64{}}
	f := execute(&cfg, ops, st)

	for k, v := range st.ops {
		run.Count("op/"+k, v)
	}
	for k, v := range st.faults {
		run.Count("fault/"+k, v)
	}
	run.Count("iterator_positions_compared", st.iterSteps)
	run.Count("full_iterations", st.fullIters)
	run.Count("db_get_node", st.gets)
	run.Count("evictions_refetched", st.refetch)
	run.Count("overlay_inserts_shadowing_lower_layer", st.overlayShadow)
	run.Count("histories/"+cfg.Backend, 1)
	run.Count("histories/mechanism-"+cfg.Mechanism, 1)
	if cfg.Mechanism == "ctx" {
		run.Count("histories/ctx-mode-"+ctxMode(&cfg).String(), 1)
	}
	run.Count("histories/cap-"+cfg.CapClass, 1)
	if cfg.NoWriteLog {
		run.Count("histories/without-write-log", 1)
	}
	run.Distinct("configs", fmt.Sprintf("%s/%v/%s/%s/%v", cfg.Backend, cfg.NoWriteLog, cfg.Capacity, cfg.Mechanism, cfg.Finalize))
	if st.nestedCommit {
		run.Count("histories_with_nested_overlay_commit", 1)
	}
	if st.reopened {
		run.Count("histories_with_reopen", 1)
	}
	if st.refetch > 0 {
		run.Count("histories_with_eviction", 1)
	}
	run.Distinct("max_overlay_depth", fmt.Sprint(st.maxDepth))
	if st.nestedCommit && st.reopened && st.refetch > 0 {
		run.Nontrivial(fmt.Sprintf("case-%d", i))
	}
	if i < 2 {
		run.Sample(map[string]any{"case": i, "config": cfg, "ops": ops})
	}

	if f == nil || strings.HasPrefix(f.Sig, "harness/") {
		if f != nil {
			run.Inconclusive("%s: %s", f.Sig, f.What)
		}
		return
	}
	w := witness{Seed: run.Seed, Case: i, Config: cfg, Ops: ops, Step: f.Step, Failure: f}
	// A failure on a database-backed tree with the DEFAULT cache whose history contains the
	// trigger of the value-size accounting underflow (overwrite of a committed leaf with a
	// longer value, after which the cache evicts everything) is always shrunk; if the trigger
	// survives in the minimal history the failure is filed under its own family.
	underflowCandidate := cfg.CapClass == "default" && cfg.Backend != lab.BackendNop &&
		strings.HasPrefix(classifyLostNode(ops[:f.Step+1]), "after-overwrite")
	sig := confirmFamily(&cfg, ops, f)
	doShrink := enterReport(sig, underflowCandidate)
	defer leaveReport(sig, doShrink)
	if doShrink {
		w.Minimal = shrink(ops, func(h []op) bool {
			g := execute(&cfg, h, nil)
			return g != nil && g.Sig == f.Sig
		})
		w.MinimalFailure = execute(&cfg, w.Minimal, nil)
		if underflowCandidate && strings.HasPrefix(classifyLostNode(w.Minimal), "after-overwrite") {
			sig = "c03/value-size-underflow/" + f.Coarse
		}
	}
	run.Violation(sig, f.What+fmt.Sprintf(" got=%s want=%s", f.Got, f.Want), w)
}

// shrink is a small delta-debugging loop over the operations.
func shrink(hist []op, fails func([]op) bool) []op {
	cur := append([]op{}, hist...)
	budget := 800
	n := 2
	for len(cur) >= 2 && budget > 0 {
		chunk := (len(cur) + n - 1) / n
		reduced := false
		for start := 0; start < len(cur) && budget > 0; start += chunk {
			end := start + chunk
			if end > len(cur) {
				end = len(cur)
			}
			cand := append(append([]op{}, cur[:start]...), cur[end:]...)
			budget--
			if fails(cand) {
				cur = cand
				if n > 2 {
					n--
				}
				reduced = true
				break
			}
		}
		if !reduced {
			if chunk == 1 {
				break
			}
			n *= 2
			if n > len(cur) {
				n = len(cur)
			}
		}
	}
	return cur
}

// ---------------------------------------------------------------------------
// Canary: a fixed minimal witness (badger backend, tree-level symptom) of the open finding "node cache capacity below the working
// set of one operation", executed at start-up so that its signatures are reported by every run
// independently of the seed. They go through the same classification rule as generated
// histories (class "tiny" iff 0 < node capacity < 2D+4) and are silent once the defect is gone.

func runCanaries() {
	h := func(s string) []byte {
		b, _ := hex.DecodeString(s)
		if b == nil {
			b = []byte{}
		}
		return b
	}
	type canary struct {
		name string
		cfg  config
		ops  []op
	}
	canaries := []canary{
		{"tiny-cache-wrong-answer",
			config{Backend: lab.BackendBadger, Capacity: "custom", CapSet: true, CapNodes: 2, CapValues: 16, Mechanism: "raw", StartVer: 1000},
			[]op{
				mk(opInsert, h("7f21"), h("807f80"), nil, 0), mk(opInsert, h("62"), h("7f62"), nil, 0),
				mk(opInsert, h("01ff7f7f"), h("627f"), nil, 0), mk(opInsert, h("8062"), h("62"), nil, 0),
				mk(opCommit, nil, nil, nil, 0), mk(opInsert, h("6100"), h("7f"), nil, 0), mk(opFullIter, h("8062"), nil, nil, 0),
			}},
		{"value-cache-wrong-answer",
			config{Backend: lab.BackendBadger, Capacity: "custom", CapSet: true, CapNodes: 0, CapValues: 150, NoWriteLog: true, Mechanism: "raw", StartVer: 0, Finalize: true},
			[]op{
				mk(opInsert, h("61"), h("ff6180"), nil, 0), mk(opInsert, h("62"), h("01"), nil, 0), mk(opCommit, nil, nil, nil, 0),
				mk(opInsert, h("627f7f"), h("7f01"), nil, 0), mk(opFullIter, h("617f806201ff"), nil, nil, 0),
			}},
	}
	for ci := range canaries {
		c := &canaries[ci]
		var universe [][]byte
		maxValue := 0
		for i := range c.ops {
			if c.ops[i].Op == opInsert {
				universe = append(universe, c.ops[i].k)
				if len(c.ops[i].v) > maxValue {
					maxValue = len(c.ops[i].v)
				}
			}
		}
		sizeFit(&c.cfg, universe, maxValue)
		run.Eval(1)
		run.Count("canary_cases", 1)
		f := execute(&c.cfg, c.ops, nil)
		if f == nil {
			run.Count("canary_cases_passed", 1)
			continue
		}
		run.Violation(confirmFamily(&c.cfg, c.ops, f), "canary "+c.name+": "+f.What+fmt.Sprintf(" got=%s want=%s", f.Got, f.Want),
			witness{Seed: run.Seed, Case: -1 - ci, Config: c.cfg, Ops: c.ops, Step: f.Step, Failure: f, Minimal: c.ops, MinimalFailure: f})
	}
}

// replay re-runs the history named in a witness file (histories are functions of
// (seed, case index, tier) only).
func replay(file string) {
	b, err := os.ReadFile(file)
	if err != nil {
		fmt.Fprintln(os.Stderr, err)
		os.Exit(2)
	}
	var doc struct {
		Tier    string `json:"tier"`
		Witness struct {
			Seed int64 `json:"seed"`
			Case int   `json:"case"`
		} `json:"witness"`
	}
	if err := json.Unmarshal(b, &doc); err != nil {
		fmt.Fprintln(os.Stderr, err)
		os.Exit(2)
	}
	run.Seed = doc.Witness.Seed
	if doc.Tier != "" {
		run.Tier = doc.Tier
	}
	if doc.Witness.Case < 0 {
		fmt.Println("replaying the canaries")
		runCanaries()
	} else {
		fmt.Printf("replaying history %d of seed %d\n", doc.Witness.Case, run.Seed)
		runCase(doc.Witness.Case)
	}
	run.Nontrivial("replay-1")
	run.Nontrivial("replay-2")
	run.Finish(0)
}

// nilIfEmpty passes an empty value as a NIL slice for the keys of even length: Insert documents a nil
// value as the empty value, so the model is unchanged (a function of the key, no PRNG draw).
func nilIfEmpty(k, v []byte) []byte {
	if v != nil && len(v) == 0 && len(k)%2 == 0 {
		return nil
	}
	return v
}
