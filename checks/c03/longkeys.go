package main

// Long-key probe of check C03: keys up to the longest length the node format can express
// (8191 bytes: the bit length must fit 16 bits) must behave like any other key; longer keys
// must be refused (or handled) without a panic and without changing the map.

import (
	"bytes"
	"context"
	"fmt"
	"sort"

	"github.com/oasisprotocol/oasis-core/go/storage/mkvs"
	"github.com/oasisprotocol/oasis-core/go/storage/mkvs/node"

	lab "verif/engine/mkvslab"
)

func longKeyProbe() {
	ctx := context.Background()
	for _, backend := range []string{lab.BackendNop, lab.BackendBadger, lab.BackendPathBadger} {
		for _, n := range []int{4096, 8190, 8191, 8192, 8193, 16384, 65535, 65536} {
			run.Eval(1)
			w := map[string]any{"backend": backend, "key_bytes": n}
			viol := func(sig, what string) {
				run.Violation("c03/long-keys/"+sig, fmt.Sprintf("%s, keys of %d bytes: %s", backend, n, what), w)
			}
			func() {
				defer func() {
					if p := recover(); p != nil {
						viol("panic", fmt.Sprint(p))
					}
				}()
				ndb, err := lab.OpenDB(backend, "")
				if err != nil {
					run.Inconclusive("long-key probe: open %s: %v", backend, err)
					return
				}
				if ndb != nil {
					defer ndb.Close()
				}
				t := mkvs.New(nil, ndb, node.RootTypeState)
				defer func() { t.Close() }()
				model := map[string]string{}
				put := func(k []byte, v string) error {
					err := t.Insert(ctx, k, []byte(v))
					if err == nil {
						model[string(k)] = v
					}
					return err
				}
				for _, k := range []string{"a", "xa", "xb", "xxxxxxx", "y"} {
					if err := put([]byte(k), "short-"+k); err != nil {
						viol("short-key-refused", err.Error())
						return
					}
				}
				k1 := bytes.Repeat([]byte{'x'}, n)
				k2 := append(bytes.Repeat([]byte{'x'}, n-1), 'y')
				k3 := append(bytes.Repeat([]byte{'x'}, n/2), 'z')
				accepted := 0
				for i, k := range [][]byte{k1, k2, k3} {
					err := put(k, fmt.Sprintf("long-%d", i))
					if err == nil {
						accepted++
					} else if len(k) <= 8191 {
						viol("representable-key-refused", fmt.Sprintf("Insert of a %d-byte key failed: %v", len(k), err))
						return
					}
				}
				run.Count(fmt.Sprintf("long_keys/%d_bytes/accepted", n), int64(accepted))
				check := func(tr mkvs.Tree, stage string) bool {
					keys := make([]string, 0, len(model))
					for k := range model {
						keys = append(keys, k)
					}
					sort.Strings(keys)
					for _, k := range keys {
						v, err := tr.Get(ctx, []byte(k))
						if err != nil || string(v) != model[k] {
							viol("get-mismatch", fmt.Sprintf("%s: Get of a %d-byte key returned %q, %v; the map holds %q", stage, len(k), v, err, model[k]))
							return false
						}
					}
					it := tr.NewIterator(ctx)
					defer it.Close()
					i := 0
					for it.Rewind(); it.Valid(); it.Next() {
						if i >= len(keys) || string(it.Key()) != keys[i] || string(it.Value()) != model[keys[i]] {
							viol("iteration-mismatch", fmt.Sprintf("%s: iteration position %d yields a %d-byte key that is not the map's", stage, i, len(it.Key())))
							return false
						}
						i++
					}
					if it.Err() != nil || i != len(keys) {
						viol("iteration-mismatch", fmt.Sprintf("%s: iteration ended after %d of %d keys, err %v", stage, i, len(keys), it.Err()))
						return false
					}
					// Seek to the long keys (present or not): first key >= the seek key, or an error.
					for _, sk := range [][]byte{k1, k2, append(append([]byte{}, k1...), 0)} {
						it2 := tr.NewIterator(ctx)
						it2.Seek(sk)
						if it2.Err() == nil {
							j := sort.SearchStrings(keys, string(sk))
							switch {
							case j == len(keys) && it2.Valid():
								viol("seek-mismatch", fmt.Sprintf("%s: Seek(%d-byte key) is valid past the end", stage, len(sk)))
							case j < len(keys) && (!it2.Valid() || string(it2.Key()) != keys[j]):
								viol("seek-mismatch", fmt.Sprintf("%s: Seek(%d-byte key) does not stand on the first key >= it", stage, len(sk)))
							}
						} else if len(sk) <= 8191 {
							viol("seek-of-representable-key-failed", fmt.Sprintf("%s: %v", stage, it2.Err()))
						}
						it2.Close()
					}
					return true
				}
				if !check(t, "before commit") {
					return
				}
				_, h, err := t.Commit(ctx, lab.Namespace, 1)
				if err != nil {
					viol("commit-failed", err.Error())
					return
				}
				want := lab.RefRoot(func() map[string][]byte {
					m := map[string][]byte{}
					for k, v := range model {
						m[k] = []byte(v)
					}
					return m
				}())
				if hh := [32]byte(h); hh != [32]byte(want) {
					viol("root-differs-from-reference", fmt.Sprintf("commit root %s != reference hasher's root %x", h, want))
					return
				}
				if !check(t, "after commit") {
					return
				}
				if backend != lab.BackendNop {
					t.Close()
					t = mkvs.NewWithRoot(nil, ndb, lab.Root(1, h))
					if !check(t, "after reopen") {
						return
					}
				}
				// removal of the long keys
				for _, k := range [][]byte{k1, k2} {
					if err := t.Remove(ctx, k); err != nil {
						viol("remove-failed", err.Error())
						return
					}
					delete(model, string(k))
				}
				if check(t, "after removing the long keys") && accepted > 0 {
					run.Nontrivial(fmt.Sprintf("long-keys/%s/%d", backend, n))
				}
			}()
		}
	}
}
