// C14 — elections are deterministic and elect only eligible nodes.
//
// At every election (H2 taps elect.pre / elect.post on the reference replica)
// the oracle recomputes eligibility from the registry / staking / scheduler
// state the election read and checks the validator set it wrote; the validator
// updates of the block must turn the simulated consensus-engine validator set
// into exactly the elected one; a second replica (other backend, validator
// path) must reach the same state (determinism).
package main

import (
	"fmt"
	"time"

	"verif/engine/chainsim"
	"verif/engine/evid"
)

func runCase(c chainsim.Case, rep chainsim.Reporter, scratch string) {
	em := &chainsim.ElectionMonitor{Rep: rep}
	cfg := chainsim.HistoryConfig{Seed: c.Seed, Profile: c.Profile, Blocks: c.Blocks, Paths: true,
		Replicas: []chainsim.ReplicaConfig{{Name: "twin", Backend: "pathbadger"}}}
	h, err := chainsim.NewHistory(cfg, em)
	if err != nil {
		rep.Inconclusive("setup failed: " + err.Error())
		return
	}
	h.Run()
	for _, d := range h.Divergences {
		rep.Violation("c14/nondeterministic/"+d.What, fmt.Sprintf("%+v", *d), map[string]any{"params": h.Sc.P, "height": d.Height})
	}
	chainsim.ReportCommon(h, rep)
	rep.Count("elections_checked", int64(em.Elections))
	rep.Count("elections_with_full_validator_set", int64(em.FullSets))
	rep.Count("stake_ties_among_eligible_entities", int64(em.Ties))
	for k, n := range em.Excluded {
		rep.Count("nodes_excluded."+k, int64(n))
	}
	for _, p := range h.Panics {
		rep.Inconclusive("history ended by a panic (see C10): " + p.Error())
	}
	excl := 0
	for _, n := range em.Excluded {
		if n > 0 {
			excl++
		}
	}
	if em.Elections >= 4 && excl >= 2 {
		rep.Nontrivial(fmt.Sprintf("%s/%d", c.Profile, c.Seed))
	}
	if c.Index < 2 {
		rep.Sample(map[string]any{"params": h.Sc.P, "blocks": h.Height, "elections": em.Elections, "full_sets": em.FullSets, "excluded": em.Excluded})
	}
	h.Close()
	h.CloseBuilder()
}

func main() {
	chainsim.Main(chainsim.CheckSpec{
		ID:    "C14",
		Level: "exploration",
		Rule: "each case is one generated block history with short epochs, entities with 1-2 validator nodes, equal and boundary stakes, nodes expiring / re-registering / frozen by evidence / unfrozen, entities slashed below their stake claims, new entities joining; at every election the oracle recomputes the eligible validator nodes (registered, not expired at the epoch, not frozen, validator role, entity escrow covers all its stake claims) from the state at elect.pre and checks the set written at elect.post: only eligible nodes, <= max, >= min, <= max per entity, voting power derived from and monotone in stake, no higher-stake eligible entity left out of a full set, nobody left out of a non-full set; " +
			"the block's validator updates applied to the simulated consensus-engine set must give exactly the elected set; a second replica must agree; non-trivial = history with >=4 elections in which nodes were excluded for >=2 different reasons",
		Cases: func(r *evid.Run) []chainsim.Case {
			return chainsim.StdCases(r.Seed, r.Pick(128, 3200), r.Pick(60, 100), []string{"election", "election", "hostile", "registry"})
		},
		RunCase: runCase,
		Floor:   10,
		Timeout: 10 * time.Minute,
	})
}
