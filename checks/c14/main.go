// C14 — elections are deterministic and elect only eligible nodes.
//
// At every election (H2 taps elect.pre / elect.post on the reference replica)
// the oracle recomputes eligibility from the registry / staking / scheduler
// state the election read and checks the validator set it wrote; the validator
// updates of the block must turn the simulated consensus-engine validator set
// into exactly the elected one; a second replica (other backend, validator
// path) must reach the same state (determinism).
//
// Executor committees: in histories with a compute runtime (profile "runtime"
// and about a third of the other histories) the CommitteeMonitor recomputes, from
// the same pre-election state, which nodes are eligible for each role of the
// runtime's executor committee and checks the committee the election wrote.
package main

import (
	"fmt"
	"strings"
	"time"

	"verif/engine/chainsim"
	"verif/engine/evid"
)

func runCase(c chainsim.Case, rep chainsim.Reporter, scratch string) {
	em := &chainsim.ElectionMonitor{Rep: rep}
	cm := &chainsim.CommitteeMonitor{Rep: rep}
	cfg := chainsim.HistoryConfig{Seed: c.Seed, Profile: c.Profile, Blocks: c.Blocks, Paths: true,
		Replicas: []chainsim.ReplicaConfig{{Name: "twin", Backend: "pathbadger"}}}
	km := &chainsim.KeyManagerMonitor{Rep: rep, Sig: "c14/keymanager"}
	vm := &chainsim.VRFMonitor{Rep: rep, Sig: "c14/vrf", Recompute: true}
	h, err := chainsim.NewHistory(cfg, em, cm, km, vm)
	if err != nil {
		rep.Inconclusive("setup failed: " + err.Error())
		return
	}
	h.Run()
	for _, d := range h.Divergences {
		rep.Violation("c14/nondeterministic/"+d.What, fmt.Sprintf("%+v", *d), map[string]any{"params": h.Sc.P, "height": d.Height})
	}
	chainsim.ReportCommon(h, rep)
	rep.Count("elections_checked", int64(em.Elections))
	rep.Count("elections_with_full_validator_set", int64(em.FullSets))
	rep.Count("stake_ties_among_eligible_entities", int64(em.Ties))
	for k, n := range em.Excluded {
		rep.Count("nodes_excluded."+k, int64(n))
	}
	rep.Count("validator_elections_restricted_to_nodes_with_vrf_proof", int64(em.VRFFiltered))
	rep.Count("validator_elections_under_vrf_falling_back_to_entropy", int64(em.VRFFallback))
	if h.Sc.Runtime != nil {
		rep.Count("histories_with_runtime", 1)
		cm.Report(rep)
		for k := range cm.Shapes {
			rep.Distinct("committee_shapes", k)
		}
		for k := range cm.Constraints {
			rep.Distinct("committee_constraints_exercised", k)
		}
		for k := range cm.Excluded {
			rep.Distinct("committee_exclusion_reasons", k)
		}
	}
	for _, p := range h.Panics {
		// The reference replica executes the block another replica (builder / twin) proposed. When it
		// rejects that block's state root in the very block in which it ran an election, the two
		// replicas computed different results from identical inputs in an election block.
		if p.Height == em.ElectedAt() && strings.Contains(p.Error(), "invalid state root in block metadata") {
			rep.Violation("c14/nondeterministic/election-block-state-differs-between-replicas",
				"the reference replica ran an election in this block and computed another state root than the replica that proposed the block: "+p.Error(),
				map[string]any{"params": h.Sc.P, "height": p.Height})
			continue
		}
		rep.Inconclusive("history ended by a panic (see C10): " + p.Error())
	}
	excl := 0
	for _, n := range em.Excluded {
		if n > 0 {
			excl++
		}
	}
	if em.Elections >= 4 && excl >= 2 {
		rep.Nontrivial(fmt.Sprintf("%s/%d", c.Profile, c.Seed))
	}
	if cm.Committees >= 3 && len(cm.Excluded) >= 2 {
		rep.Nontrivial(fmt.Sprintf("committees/%s/%d", c.Profile, c.Seed))
	}
	if c.Index < 2 {
		rep.Sample(map[string]any{"params": h.Sc.P, "blocks": h.Height, "elections": em.Elections, "full_sets": em.FullSets, "excluded": em.Excluded,
			"committees": cm.Committees, "elections_without_committee": cm.NoCommittee, "committee_excluded": cm.Excluded, "committee_shapes": cm.Shapes})
	}
	h.Close()
	h.CloseBuilder()
}

func main() {
	chainsim.Main(chainsim.CheckSpec{
		ID:    "C14",
		Level: "exploration",
		Rule: "each case is one generated block history with short epochs, entities with 1-2 validator nodes, equal and boundary stakes, nodes expiring / re-registering / frozen by evidence / unfrozen, entities slashed below their stake claims, new entities joining; at every election the oracle recomputes the eligible validator nodes (registered, not expired at the epoch, not frozen, validator role, entity escrow covers all its stake claims) from the state at elect.pre and checks the set written at elect.post: only eligible nodes, <= max, >= min, <= max per entity, voting power derived from and monotone in stake, no higher-stake eligible entity left out of a full set, nobody left out of a non-full set; " +
			"the block's validator updates applied to the simulated consensus-engine set must give exactly the elected set; a second replica must agree; " +
			"histories with a compute runtime (profile runtime and ~1/3 of the others: group size 2-3, backup size 0-2, max-nodes-per-entity / min-pool-size / validator-set constraints from a PRNG menu, nodes that are compute workers, compute-only nodes, nodes registered for a wrong or not yet active runtime version, nodes suspended or frozen by the runtime's liveness rule, expired nodes) additionally check every executor committee written at elect.post against eligibility recomputed from elect.pre (registered, not expired, not frozen, compute role, registered for the active deployment version, not suspended for the runtime, entity stake covers its claims, validator-set membership where demanded): members eligible, exactly group size workers and backup size backup workers or no committee, no node twice in a role, per-entity maximum, minimum pool size, committee valid for the election epoch; " +
			"non-trivial = history with >=4 elections in which nodes were excluded for >=2 different reasons, or history with >=3 elected committees and >=2 exclusion reasons",
		Cases: func(r *evid.Run) []chainsim.Case {
			cs := chainsim.StdCases(r.Seed, r.Pick(256, 3200), r.Pick(60, 100), []string{"election", "runtime", "hostile", "registry", "election", "runtime", "runtime", "election"})
			// Key manager committees (the node list of the key manager status is rebuilt at every epoch transition).
			cs = chainsim.WithExtraCases(cs, r.Seed, r.Pick(8, 100), "keymanager")
			// VRF beacon backend (validators ordered and committees elected by VRF proofs, weak alphas).
			return chainsim.WithExtraCases(cs, r.Seed, r.Pick(8, 200), "vrf")
		},
		RunCase: runCase,
		Floor:   10,
		Timeout: 10 * time.Minute,
	})
}
