// C17 — registry records change only with authority; keys stay unique.
//
// After every block of registry-heavy histories the registry and staking state
// of the reference replica is re-derived from the primary records (DESIGN.md,
// C17): every node resolves under each of its current keys, keys are unique,
// indexes and stake claims equal what the records imply; the per-transaction
// state diff (H1 taps) shows who changed which record.
package main

import (
	"fmt"
	"time"

	"verif/engine/chainsim"
	"verif/engine/evid"
)

func runCase(c chainsim.Case, rep chainsim.Reporter, scratch string) {
	// Witness case of the listed finding: the genesis document carries a CHURP instance.
	chainsim.KeyManagerGenesisChurp = c.Mode == "genesis-churp"
	rm := &chainsim.RegistryMonitor{Rep: rep}
	rec := &chainsim.Recorder{TxSubs: []chainsim.TxMonitor{rm}}
	km := &chainsim.KeyManagerMonitor{Rep: rep, Sig: "c17/keymanager"}
	h, err := chainsim.NewHistory(chainsim.HistoryConfig{Seed: c.Seed, Profile: c.Profile, Blocks: c.Blocks}, rm, rec, km)
	if err != nil {
		rep.Inconclusive("setup failed: " + err.Error())
		return
	}
	if c.Mode == "genesis-churp" {
		// The witness case also replays the minimal history of the second listed finding.
		h.Gen.Extra = func(g *chainsim.TxGen, height int64, _ []*chainsim.GenTx) []*chainsim.GenTx {
			if height == 3 {
				if gt := g.MkIdentityAsSubKey(); gt != nil {
					return []*chainsim.GenTx{gt}
				}
			}
			return nil
		}
	}
	h.Run()
	chainsim.ReportCommon(h, rep)
	rep.Count("registry_state_checks", int64(rm.Checked))
	rep.Count("node_record_updates_seen", int64(rm.NodeUpdates))
	rep.Count("runtime_owner_index_checks", int64(rm.OwnerIndexChecks))
	rep.Count("churp_stake_claims_implied_max", int64(rm.ChurpClaims))
	rot := h.Gen.Stats["registry.RegisterNode/valid/ok"]
	for _, p := range h.Panics {
		rep.Inconclusive("history ended by a panic (see C10): " + p.Error())
	}
	swaps := 0
	for k, n := range h.Gen.Notes {
		if n > 0 && len(k) > 0 {
			swaps += n
		}
	}
	rep.Count("successful_key_rotations_or_swaps", int64(swaps))
	if rot >= 10 && swaps >= 1 && h.EpochTransitions >= 3 {
		rep.Nontrivial(fmt.Sprintf("%s/%d", c.Profile, c.Seed))
	}
	for _, k := range chainsim.TxOutcomeKinds(h) {
		rep.Distinct("tx_method_intent_outcome", k)
	}
	if c.Index < 2 {
		rep.Sample(map[string]any{"params": h.Sc.P, "blocks": h.Height, "epochs": h.EpochTransitions, "node_registrations_ok": rot, "key_rotations_ok": swaps})
	}
	h.Close()
	h.CloseBuilder()
}

func main() {
	chainsim.Main(chainsim.CheckSpec{
		ID:    "C17",
		Level: "exploration",
		Rule: "each case is one generated block history biased to the registry: entity (re-)registration with changing node lists, deregistration, node registration/renewal, rotation and exchange of P2P/TLS/VRF keys among themselves, stolen sub-keys, missing/extra descriptor signatures, wrong transaction signers, expiry and re-registration after expiry; " +
			"after every block: every node found under each current key and its consensus address, no key shared by two nodes, nodes-by-entity index = records, no node/runtime without entity, stake claims = exactly those implied by registered entities/nodes/runtimes and (histories with a key manager) stored CHURP instances; per transaction: entity/node records change only in transactions signed by that entity/node, stored node descriptors carry valid signatures of all their keys and are listed by their entity; " +
			"non-trivial = history with >=10 successful node registrations, >=1 successful key rotation/swap and >=3 epoch transitions",
		Cases: func(r *evid.Run) []chainsim.Case {
			cs := chainsim.StdCases(r.Seed, r.Pick(192, 2400), r.Pick(60, 120), []string{"registry", "runtime", "registry", "election", "default"})
			// Key manager runtime, key manager nodes and CHURP stake claims.
			cs = chainsim.WithExtraCases(cs, r.Seed, r.Pick(16, 200), "keymanager")
			// Start-up witness of the listed finding c17/missing-stake-claim/churp-instance-of-the-genesis-document
			// (fixed seed: independent of VERIF_SEED; last case, so the other cases keep their indices).
			cs = append(cs, chainsim.Case{Index: len(cs), Seed: 5, Profile: "keymanager", Blocks: 8, Mode: "genesis-churp"})
			// VRF beacon backend (VRF key rotations in the middle of an epoch, election eligibility reset);
			// after the witness case, so that every earlier case keeps its index and seed.
			vs := chainsim.WithExtraCases(cs, r.Seed, r.Pick(8, 150), "vrf")
			for i := len(cs); i < len(vs); i++ {
				vs[i].Blocks = r.Pick(60, 120)
			}
			return vs
		},
		RunCase: runCase,
		Floor:   10,
		Timeout: 10 * time.Minute,
	})
}
