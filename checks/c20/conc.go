// Concurrent phase of check C20: the production wrapper mainQueue (hook H4
// VerifMainQueue) is shared by several goroutines, as in the transaction pool
// (check workers add, the block handler reports used transactions, the
// scheduler of the executor asks for batches). The binary is built with the race
// detector, which decides whether mainQueue's mutex covers every access.
//
// Oracle. The pool's capacity is never reached, and every worker only touches
// its own senders; under these two conditions the operations of different
// workers commute on the pool's content, so every worker can compare the pool
// restricted to its own transactions with its own sequential reference model
// after each of its operations, whatever the other goroutines do. The scheduling
// goroutine checks each pass against what holds for every interleaving: batch
// size within the limit, only transactions that were added, none twice in a
// pass, a sender's sequence numbers strictly ascending within a pass. At the end
// (quiescent) the whole content must equal the union of the workers' models and
// Drain must return exactly that set.
package main

import (
	"encoding/json"
	"fmt"
	"os"
	"strings"
	"sync"
	"sync/atomic"
	"time"

	"github.com/oasisprotocol/oasis-core/go/common/crypto/hash"
	"github.com/oasisprotocol/oasis-core/go/runtime/txpool"

	"verif/engine/evid"
)

const concCapacity = 1 << 20

type concTx struct {
	sender string
	seq    uint64
}

// sharedView is one worker's view of the shared queue: its own transactions only.
type sharedView struct {
	q    *txpool.VerifMainQueue
	mu   sync.Mutex
	mine map[hash.Hash]struct{}
	reg  *sync.Map // hash -> concTx, filled before the transaction is offered
}

func (v *sharedView) Add(tx *txpool.TxQueueMeta, sender string, seq, priority, stateSeq uint64) error {
	v.mu.Lock()
	v.mine[tx.Hash()] = struct{}{}
	v.mu.Unlock()
	v.reg.Store(tx.Hash(), concTx{sender, seq})
	return v.q.Add(tx, sender, seq, priority, stateSeq)
}
func (v *sharedView) Forward(string, uint64)             {}
func (v *sharedView) Reset()                             { panic("worker must not reset") }
func (v *sharedView) Schedule(int) []*txpool.TxQueueMeta { panic("worker must not schedule") }
func (v *sharedView) Drain() []*txpool.TxQueueMeta       { panic("worker must not drain") }
func (v *sharedView) HandleTxUsed(h hash.Hash)           { v.q.HandleTxsUsed([]hash.Hash{h}) }
func (v *sharedView) Has(h hash.Hash) bool               { _, ok := v.q.Get(h); return ok }
func (v *sharedView) Size() int                          { return len(v.All()) }
func (v *sharedView) All() []*txpool.TxQueueMeta {
	all := v.q.All()
	out := all[:0:0]
	v.mu.Lock()
	for _, t := range all {
		if _, ok := v.mine[t.Hash()]; ok {
			out = append(out, t)
		}
	}
	v.mu.Unlock()
	return out
}

// concFinding is one violation found by a concurrent case (reported by the parent process).
type concFinding struct {
	Sig     string  `json:"sig"`
	What    string  `json:"what"`
	Witness Witness `json:"witness"`
}

// concResult is what a child process running concurrent cases hands back.
type concResult struct {
	Stats      stats         `json:"stats"`
	Findings   []concFinding `json:"findings"`
	Nontrivial []string      `json:"nontrivial"`
	Cases      int           `json:"cases"`
}

// runConc executes one concurrent case.
func runConc(r *evid.Run, idx int64, st stats, res *concResult) {
	violation := func(sig, what string, w Witness) {
		res.Findings = append(res.Findings, concFinding{sig, what, w})
	}
	rng := r.Rand(21, uint64(idx))
	q := txpool.VerifNewMainQueue(concCapacity)
	var reg sync.Map
	nWorkers := 2 + rng.IntN(3)
	nops := 30 + rng.IntN(50)
	type worker struct {
		rn  *runner
		g   *gen
		ops int
	}
	ws := make([]*worker, nWorkers)
	lsts := make([]stats, nWorkers)
	for i := range ws {
		lsts[i] = stats{}
		v := &sharedView{q: q, mine: map[hash.Hash]struct{}{}, reg: &reg}
		rn := &runner{
			m: newModel(concCapacity), v: v, mq: true,
			txs: map[int]*txRec{}, byHash: map[hash.Hash]*txRec{}, st: lsts[i], salt: fmt.Sprintf("conc%d/w%d", idx, i),
		}
		g := newGen(r.Rand(22, uint64(idx), uint64(i)), rn)
		// sender names unique per worker
		for k, s := range g.senders {
			n := fmt.Sprintf("w%d%s", i, s)
			g.zone[n], g.nonce[n] = g.zone[s], g.nonce[s]
			delete(g.zone, s)
			delete(g.nonce, s)
			g.senders[k] = n
		}
		ws[i] = &worker{rn: rn, g: g}
	}

	var done atomic.Bool
	var wg sync.WaitGroup
	for _, w := range ws {
		wg.Add(1)
		go func(w *worker) {
			defer wg.Done()
			for i := 0; i < nops && !w.rn.stop(); i++ {
				o := w.g.toMQ(w.g.next())
				switch o.Kind {
				case "used":
					// a used transaction was included in a block: the sender's account
					// nonce is past it from now on (no stale state sequence reports in
					// this phase, so a sender's current sequence never moves backwards)
					if t := w.rn.txs[o.Tx]; t != nil && t.seq < maxU64 && w.g.nonce[t.sender] < t.seq+1 {
						w.g.nonce[t.sender] = t.seq + 1
					}
					fallthrough
				case "add":
					w.rn.step(o)
					w.ops++
				}
			}
		}(w)
	}

	// the scheduling goroutine
	type schedFinding struct{ sig, what string }
	var sf []schedFinding
	var passes, batches, scheduled int64
	sdone := make(chan struct{})
	go func() {
		defer close(sdone)
		defer func() {
			if p := recover(); p != nil {
				done.Store(true)
				sf = append(sf, schedFinding{"panic/conc-schedule/" + panicClass(p), fmt.Sprintf("Schedule/ScheduleExtra panicked while other goroutines used the queue: %v", p)})
			}
		}()
		srng := r.Rand(23, uint64(idx))
		for !done.Load() {
			inPass := map[hash.Hash]bool{}
			last := map[string]uint64{}
			seen := map[string]bool{}
			nb := 1 + srng.IntN(4)
			for b := 0; b < nb; b++ {
				limit := srng.IntN(9)
				var got []*txpool.TxQueueMeta
				if b == 0 {
					got = q.Schedule(limit)
				} else {
					got = q.ScheduleExtra(limit)
				}
				batches++
				if len(got) > limit {
					sf = append(sf, schedFinding{"c20/conc/limit-exceeded", fmt.Sprintf("batch of %d transactions for limit %d", len(got), limit)})
				}
				for _, t := range got {
					scheduled++
					h := t.Hash()
					x, ok := reg.Load(h)
					if !ok {
						sf = append(sf, schedFinding{"c20/conc/scheduled-tx-never-added", "a scheduled transaction was never offered to Add"})
						continue
					}
					if inPass[h] {
						sf = append(sf, schedFinding{"c20/conc/scheduled-twice-in-pass", fmt.Sprintf("%v scheduled twice in one pass", x)})
					}
					inPass[h] = true
					ct := x.(concTx)
					if seen[ct.sender] && ct.seq <= last[ct.sender] {
						sf = append(sf, schedFinding{"c20/conc/sender-order-not-ascending-in-pass", fmt.Sprintf("sender %s: sequence %d scheduled after %d in the same pass", ct.sender, ct.seq, last[ct.sender])})
					}
					seen[ct.sender], last[ct.sender] = true, ct.seq
				}
			}
			passes++
		}
	}()
	wg.Wait()
	done.Store(true)
	<-sdone
	for _, f := range sf {
		if strings.HasPrefix(f.sig, "panic/") {
			// the queue's state is undefined after a panic: report and stop
			violation(f.sig, fmt.Sprintf("concurrent case %d: %s", idx, f.what), Witness{Kind: "conc", Case: idx, Seed: r.Seed, Capacity: concCapacity, MQ: true})
			return
		}
	}

	st["conc.cases"]++
	st["conc.workers"] += int64(nWorkers)
	st["conc.schedule_passes"] += passes
	st["conc.schedule_batches"] += batches
	st["conc.transactions_scheduled"] += scheduled
	for i, w := range ws {
		st["conc.worker_ops"] += int64(w.ops)
		for k, v := range lsts[i] {
			st["conc."+k] += v
		}
		for _, f := range w.rn.findings {
			ops := w.rn.ops
			if f.At+1 <= len(ops) {
				ops = ops[:f.At+1]
			}
			violation("conc/"+f.Sig, fmt.Sprintf("concurrent case %d, worker %d of %d (other goroutines adding/using their own senders and scheduling): %s", idx, i, nWorkers, f.What),
				Witness{Kind: "conc", Case: idx, Seed: r.Seed, Capacity: concCapacity, FailedAt: f.At, Ops: ops, OpsText: opsText(ops), MQ: true})
		}
	}
	if len(sf) > 0 {
		violation(sf[0].sig, fmt.Sprintf("concurrent case %d: %s (%d scheduling findings)", idx, sf[0].what, len(sf)), Witness{Kind: "conc", Case: idx, Seed: r.Seed, Capacity: concCapacity, MQ: true})
	}

	// quiescent: whole content = union of the workers' models
	want := map[hash.Hash]bool{}
	for _, w := range ws {
		if w.rn.tainted || w.rn.dead {
			return
		}
		for id := range w.rn.m.pool {
			want[w.rn.txs[id].hash] = true
		}
	}
	check := func(where string, metas []*txpool.TxQueueMeta) {
		got := map[hash.Hash]bool{}
		for _, t := range metas {
			got[t.Hash()] = true
		}
		missing, extra := 0, 0
		for h := range want {
			if !got[h] {
				missing++
			}
		}
		for h := range got {
			if !want[h] {
				extra++
			}
		}
		if missing+extra > 0 || len(metas) != len(got) {
			violation("c20/conc/"+where+"-differs-from-union-of-models", fmt.Sprintf("concurrent case %d: after all goroutines stopped %s has %d entries (%d distinct), the workers' models hold %d; missing %d, unexpected %d", idx, where, len(metas), len(got), len(want), missing, extra),
				Witness{Kind: "conc", Case: idx, Seed: r.Seed, Capacity: concCapacity, MQ: true})
		}
	}
	check("All()", q.All())
	if n := q.Size(); n != len(want) {
		violation("c20/conc/size-differs-from-union-of-models", fmt.Sprintf("concurrent case %d: Size()=%d, models hold %d", idx, n, len(want)), Witness{Kind: "conc", Case: idx, Seed: r.Seed, MQ: true})
	}
	check("Drain()", q.Drain())
	if n := q.Size(); n != 0 {
		violation("c20/conc/not-empty-after-drain", fmt.Sprintf("concurrent case %d: Size()=%d after Drain", idx, n), Witness{Kind: "conc", Case: idx, Seed: r.Seed, MQ: true})
	}
	st["conc.final_content_checks"]++
	st["conc.final_pool_size_total"] += int64(len(want))
	if passes > 0 && scheduled > 0 && len(want) > 0 {
		res.Nontrivial = append(res.Nontrivial, fmt.Sprintf("conc/%d", idx))
	}
}

// runConcStatic: several goroutines call Schedule(k) at the same time on a pool that nobody
// changes. Schedule = reset + schedule(k) is one atomic operation of the queue, and with
// pairwise distinct priorities its answer is unique: every call must return exactly what the
// sequential model schedules in a fresh pass, whatever the other callers do.
func runConcStatic(r *evid.Run, idx int64, st stats, res *concResult) {
	rng := r.Rand(24, uint64(idx))
	lst := stats{}
	rn := newRunnerMQ(concCapacity, fmt.Sprintf("static%d", idx), lst)
	nSenders := 2 + rng.IntN(3)
	var ops []Op
	id := 1
	for s := 0; s < nSenders; s++ {
		base := around(rng, zoneCenters[rng.IntN(len(zoneCenters))], -2, 0)
		if base > maxU64-6 {
			base = maxU64 - 6
		}
		n := 1 + rng.IntN(4)
		for k := 0; k < n; k++ {
			seq := base + uint64(k)
			if k > 0 && rng.IntN(6) == 0 {
				seq++ // a gap: the rest of the chain is never ready
				base++
			}
			ops = append(ops, Op{Kind: "add", Tx: id, Sender: string(rune('A' + s)), Seq: seq, StateSeq: base - uint64(min(k, 0))})
			id++
		}
	}
	// pairwise distinct priorities
	perm := rng.Perm(len(ops))
	for i := range ops {
		ops[i].Prio = uint64(perm[i] + 1)
	}
	// state sequence: the sender's first sequence number for all its adds
	first := map[string]uint64{}
	for _, o := range ops {
		if _, ok := first[o.Sender]; !ok {
			first[o.Sender] = o.Seq
		}
	}
	for i := range ops {
		ops[i].StateSeq = first[ops[i].Sender]
	}
	for _, o := range ops {
		rn.step(o)
	}
	if len(rn.findings) > 0 || rn.dead {
		return // reported by the sequential phases; nothing to add here
	}
	// expected answer of a fresh pass for every limit
	maxK := len(ops) + 1
	expected := make([][]int, maxK+1)
	for k := 0; k <= maxK; k++ {
		rn.m.reset()
		var ids []int
		for len(ids) < k {
			rs := rn.m.mustReady()
			if len(rs) == 0 {
				break
			}
			best := rs[0]
			for _, c := range rs {
				if c.t.prio > best.t.prio {
					best = c
				}
			}
			rn.m.markScheduled(best.t)
			ids = append(ids, best.t.id)
		}
		expected[k] = ids
	}
	rn.m.reset()
	q := rn.v.(*mqAdapter).q
	nG := 3 + rng.IntN(5)
	iters := 150
	type bad struct {
		k    int
		got  []int
		want []int
	}
	bads := make([][]bad, nG)
	var calls atomic.Int64
	var wg sync.WaitGroup
	for g := 0; g < nG; g++ {
		wg.Add(1)
		go func(g int) {
			defer wg.Done()
			defer func() {
				if p := recover(); p != nil {
					bads[g] = append(bads[g], bad{k: -1, got: nil, want: nil})
				}
			}()
			grng := r.Rand(25, uint64(idx), uint64(g))
			for i := 0; i < iters && len(bads[g]) == 0; i++ {
				k := grng.IntN(maxK + 1)
				metas := q.Schedule(k)
				calls.Add(1)
				got := make([]int, 0, len(metas))
				for _, mt := range metas {
					if t := rn.byHash[mt.Hash()]; t != nil {
						got = append(got, t.id)
					} else {
						got = append(got, -1)
					}
				}
				same := len(got) == len(expected[k])
				for j := 0; same && j < len(got); j++ {
					same = got[j] == expected[k][j]
				}
				if !same {
					bads[g] = append(bads[g], bad{k, got, expected[k]})
				}
			}
		}(g)
	}
	wg.Wait()
	st["conc.static_cases"]++
	st["conc.static_schedule_calls"] += calls.Load()
	st["conc.static_goroutines"] += int64(nG)
	for g := range bads {
		if len(bads[g]) == 0 {
			continue
		}
		b := bads[g][0]
		sig, what := "c20/conc-static/schedule-differs-from-fresh-pass-of-model", fmt.Sprintf("concurrent Schedule(%d) on an unchanging pool returned %s, a fresh pass must return %s (pool %s; %d goroutines calling Schedule concurrently)", b.k, rn.descr(b.got), rn.descr(b.want), rn.descr(rn.m.ids()), nG)
		if b.k < 0 {
			sig, what = "panic/conc-static-schedule", "Schedule panicked under concurrent callers on an unchanging pool"
		}
		res.Findings = append(res.Findings, concFinding{sig, fmt.Sprintf("static concurrent case %d: %s", idx, what), Witness{Kind: "conc-static", Case: idx, Seed: r.Seed, Capacity: concCapacity, Ops: ops, OpsText: opsText(ops), MQ: true}})
		break
	}
	if len(ops) >= 3 {
		res.Nontrivial = append(res.Nontrivial, fmt.Sprintf("conc-static/%d", idx))
	}
}

// concChild runs the concurrent cases [lo, hi) and prints the result as one JSON
// line; every case index is printed before the case starts, so that the parent
// can attribute a fatal error (unrecoverable: concurrent map access, deadlock) to a case.
func concChild(r *evid.Run, lo, hi int) {
	res := &concResult{Stats: stats{}}
	for i := lo; i < hi; i++ {
		fmt.Printf("CONC-CASE %d\n", i)
		runConc(r, int64(i), res.Stats, res)
		runConcStatic(r, int64(i), res.Stats, res)
		res.Cases++
	}
	b, _ := json.Marshal(res)
	fmt.Printf("CONC-RESULT %s\n", b)
	os.Exit(0)
}

// runConcPhase splits the concurrent cases over child processes (a data race on a
// Go map ends the process with an unrecoverable fatal error) and merges their results.
func runConcPhase(r *evid.Run, ncases int) {
	const perChild = 50
	nchildren := (ncases + perChild - 1) / perChild
	evid.Parallel(nchildren, 6, func(c int) {
		lo, hi := c*perChild, min((c+1)*perChild, ncases)
		var out evid.ChildResult
		var res concResult
		ok := false
		for attempt := 0; attempt < 3 && !ok; attempt++ {
			out = evid.Child([]string{"-tier", r.Tier, "-seed", fmt.Sprint(r.Seed), "-concchild", fmt.Sprintf("%d:%d", lo, hi)}, nil, 20*time.Minute)
			if out.TimedOut {
				continue // watchdog: retried, inconclusive if it keeps firing
			}
			break
		}
		text := string(out.Out)
		lastCase := int64(-1)
		for _, ln := range strings.Split(text, "\n") {
			if strings.HasPrefix(ln, "CONC-CASE ") {
				fmt.Sscanf(ln, "CONC-CASE %d", &lastCase)
			}
			if strings.HasPrefix(ln, "CONC-RESULT ") {
				if json.Unmarshal([]byte(ln[len("CONC-RESULT "):]), &res) == nil {
					ok = true
				}
			}
		}
		if !ok {
			w := map[string]any{"kind": "conc-child", "cases": []int{lo, hi}, "last_case_started": lastCase, "seed": r.Seed, "output_tail": tail(text, 6000)}
			switch {
			case strings.Contains(text, "fatal error: concurrent map"):
				r.Violation("conc/fatal/concurrent-map-access", fmt.Sprintf("concurrent case %d: the Go runtime stopped the process: concurrent map access inside the queue", lastCase), w)
			case strings.Contains(text, "all goroutines are asleep"):
				r.Violation("conc/fatal/deadlock", fmt.Sprintf("concurrent case %d: all goroutines blocked (deadlock)", lastCase), w)
			case strings.Contains(text, "fatal error:") || strings.Contains(text, "panic:"):
				r.Violation("conc/fatal/other", fmt.Sprintf("concurrent case %d: child process died: %s", lastCase, firstLineWith(text, "fatal error:", "panic:")), w)
			case out.TimedOut:
				if strings.Contains(text, "sync.(*Mutex).Lock") && strings.Contains(text, "txpool.(*mainQueue)") {
					r.Violation("conc/stall/blocked-on-queue-mutex", fmt.Sprintf("concurrent case %d did not finish; goroutines are blocked on the queue's mutex", lastCase), w)
				} else {
					r.Inconclusive("concurrent cases %d..%d: watchdog fired three times (last case started %d)", lo, hi, lastCase)
				}
			default:
				r.Inconclusive("concurrent cases %d..%d: child ended without result (exit %d, signal %v)", lo, hi, out.ExitCode, out.Signal)
			}
			return
		}
		r.Eval(res.Cases)
		for k, v := range res.Stats {
			r.Count(k, v)
		}
		for _, k := range res.Nontrivial {
			r.Nontrivial(k)
		}
		for _, f := range res.Findings {
			r.Violation(f.Sig, f.What, f.Witness)
		}
	})
}

func tail(s string, n int) string {
	if len(s) > n {
		return s[len(s)-n:]
	}
	return s
}

func firstLineWith(s string, pats ...string) string {
	for _, ln := range strings.Split(s, "\n") {
		for _, p := range pats {
			if strings.Contains(ln, p) {
				return ln
			}
		}
	}
	return ""
}
