package main

// Reference model of the runtime transaction pool main queue and the online
// checker that compares the real scheduler (hook H4, txpool.VerifScheduler)
// against it after every operation.
//
// The model is deliberately naive: per sender a map seq -> tx and the
// sender's current sequence number; per scheduling pass the chain of sequence
// numbers already scheduled for each sender. No heaps.

import (
	"fmt"
	"math"
	"sort"
	"strings"

	"github.com/oasisprotocol/oasis-core/go/common/crypto/hash"
	"github.com/oasisprotocol/oasis-core/go/runtime/txpool"
)

const (
	maxU64 = uint64(math.MaxUint64)
	maxI64 = uint64(math.MaxInt64) // 2^63-1
)

// Op is one operation of a sequence (also the replay format).
type Op struct {
	Kind     string `json:"op"` // add | schedule | extra | used | drain | reset | forward
	Tx       int    `json:"tx,omitempty"`
	Sender   string `json:"sender,omitempty"`
	Seq      uint64 `json:"seq,omitempty"`
	Prio     uint64 `json:"prio,omitempty"`
	StateSeq uint64 `json:"state_seq,omitempty"`
	Limit    int    `json:"limit,omitempty"`
}

func symSeq(v uint64) string {
	switch {
	case v <= 1<<20:
		return fmt.Sprintf("%d", v)
	case v >= maxU64-(1<<20):
		if v == maxU64 {
			return "2^64-1"
		}
		return fmt.Sprintf("2^64-%d", maxU64-v+1)
	case v >= 1<<63:
		if v == 1<<63 {
			return "2^63"
		}
		return fmt.Sprintf("2^63+%d", v-(1<<63))
	case v >= 1<<63-(1<<20):
		return fmt.Sprintf("2^63-%d", (1<<63)-v)
	}
	return fmt.Sprintf("%d", v)
}

func symPrio(v uint64) string {
	if v == maxU64 {
		return "max"
	}
	return fmt.Sprintf("%d", v)
}

func (o Op) String() string {
	switch o.Kind {
	case "add":
		return fmt.Sprintf("add(tx%d %s seq=%s prio=%s stateSeq=%s)", o.Tx, o.Sender, symSeq(o.Seq), symPrio(o.Prio), symSeq(o.StateSeq))
	case "schedule", "extra":
		return fmt.Sprintf("%s(%d)", o.Kind, o.Limit)
	case "used":
		return fmt.Sprintf("used(tx%d)", o.Tx)
	case "forward":
		return fmt.Sprintf("forward(%s,%s)", o.Sender, symSeq(o.Seq))
	}
	return o.Kind + "()"
}

type mtx struct {
	id     int
	sender string
	seq    uint64
	prio   uint64
	// d2: this transaction (or the one it replaced) was in the pool as the
	// successor 2^63 at the moment sequence number 2^63-1 of its sender was
	// scheduled, i.e. the implementation consulted nextSchedulable for it.
	d2 bool
	// promoted: the transaction became the sender's first pending one through
	// a forward (transaction-used / state sequence of an add) while the sender
	// had nothing scheduled in the pass. Value = the operation kind.
	promoted string
}

type msender struct {
	cur uint64
	txs map[uint64]*mtx
}

type chain struct{ first, last uint64 }

type model struct {
	capacity int
	senders  map[string]*msender
	pool     map[int]*mtx
	pass     map[string]*chain // per pass: scheduled sequence numbers per sender (contiguous)
	done     map[int]bool      // per pass: scheduled transactions
	// followD9: the implementation has shown the "first pending after forward
	// is not schedulable" shape in this sequence (reported once); from then on
	// such transactions are not expected to be scheduled, so that the sequence
	// can be checked further for other violations.
	followD9 bool
}

func newModel(capacity int) *model {
	return &model{
		capacity: capacity,
		senders:  map[string]*msender{},
		pool:     map[int]*mtx{},
		pass:     map[string]*chain{},
		done:     map[int]bool{},
	}
}

func (m *model) remove(t *mtx) {
	delete(m.pool, t.id)
	s := m.senders[t.sender]
	if s == nil {
		return
	}
	delete(s.txs, t.seq)
	if len(s.txs) == 0 {
		// A sender without pooled transactions is forgotten; its current
		// sequence is given again by the next add.
		delete(m.senders, t.sender)
	}
}

// forward moves the sender's current sequence forward and drops expired
// transactions. Returns the number of removed transactions.
func (m *model) forward(sender string, seq uint64, why string) int {
	s := m.senders[sender]
	if s == nil || seq <= s.cur {
		return 0
	}
	s.cur = seq
	n := 0
	for q, t := range s.txs {
		if q < seq {
			m.remove(t)
			n++
		}
	}
	if s2 := m.senders[sender]; s2 != nil {
		if _, inPass := m.pass[sender]; !inPass {
			if t := s2.txs[seq]; t != nil && t.promoted == "" {
				t.promoted = why
			}
		}
	}
	return n
}

func (m *model) reset() {
	clear(m.pass)
	clear(m.done)
}

type ready struct {
	t    *mtx
	kind string // head | successor
}

// mustReady: the transactions the documented scheduler rule makes ready: the
// sender's first pending transaction (seq == current sequence) when nothing
// of the sender was scheduled in this pass, else the successor of the last
// scheduled sequence number.
func (m *model) mustReady() []ready {
	var out []ready
	for name, s := range m.senders {
		if ch, ok := m.pass[name]; ok {
			if ch.last < maxU64 {
				if t := s.txs[ch.last+1]; t != nil && !m.done[t.id] {
					out = append(out, ready{t, "successor"})
				}
			}
			continue
		}
		if t := s.txs[s.cur]; t != nil && !m.done[t.id] {
			if m.followD9 && t.promoted != "" {
				continue
			}
			out = append(out, ready{t, "head"})
		}
	}
	return out
}

// mayReady: what the statement allows to be scheduled: not yet scheduled in
// the pass and every sequence number of the sender from its current sequence
// up to the transaction's own was scheduled before in this pass.
func (m *model) mayReady(t *mtx) (bool, string) {
	if m.done[t.id] {
		return false, "tx-scheduled-twice-in-pass"
	}
	s := m.senders[t.sender]
	if s == nil {
		return false, "returned-tx-not-in-pool"
	}
	if t.seq < s.cur {
		return false, "sender-order/below-current-sequence"
	}
	if t.seq == s.cur {
		return true, ""
	}
	ch, ok := m.pass[t.sender]
	if ok && s.cur >= ch.first && t.seq-1 <= ch.last {
		return true, ""
	}
	if !ok {
		return false, "sender-order/not-first-pending-and-nothing-scheduled-before"
	}
	return false, "sender-order/predecessor-sequence-not-scheduled-in-pass"
}

func (m *model) markScheduled(t *mtx) {
	m.done[t.id] = true
	t.d2 = false // a transaction that does get scheduled is not left out of the max heap
	ch, ok := m.pass[t.sender]
	switch {
	case !ok || (ch.last < maxU64 && t.seq > ch.last+1) || t.seq < ch.first:
		m.pass[t.sender] = &chain{t.seq, t.seq}
	case ch.last < maxU64 && t.seq == ch.last+1:
		ch.last = t.seq
	}
	if t.seq == maxI64 {
		if s := m.senders[t.sender]; s != nil {
			if n := s.txs[maxI64+1]; n != nil {
				n.d2 = true
			}
		}
	}
}

func (m *model) ids() []int {
	out := make([]int, 0, len(m.pool))
	for id := range m.pool {
		out = append(out, id)
	}
	sort.Ints(out)
	return out
}

// ---------------------------------------------------------------------------

// finding is one violation found in a sequence.
type finding struct {
	Sig  string
	What string
	At   int // index of the operation
}

type txRec struct {
	id     int
	sender string
	seq    uint64
	prio   uint64
	meta   *txpool.TxQueueMeta
	hash   hash.Hash
}

// stats are per-sequence observation counters (merged into evid counters).
type stats map[string]int64

// runner drives one scheduler instance and the model in lock step.
type runner struct {
	m      *model
	v      sched
	mq     bool // driven through the mutex-guarded mainQueue wrapper instead of the bare scheduler
	txs    map[int]*txRec
	byHash map[hash.Hash]*txRec
	st     stats
	ops    []Op
	salt   string

	findings []finding
	// tainted: a first violation was recorded; the model and the
	// implementation may have diverged, so only the known follow-up of the
	// D2 shape (panic in reset) is still looked for.
	tainted bool
	dead    bool // a panic happened: the scheduler's state is undefined, stop

	d9Reported bool
	// nontrivial facts
	sawSuccessor bool
	sawChoice    bool
}

// sched is what the runner needs from the implementation under test. The bare
// scheduler (hook H4 VerifScheduler) provides it directly; mqAdapter provides it
// through the production wrapper mainQueue (hook H4 VerifMainQueue).
type sched interface {
	Add(tx *txpool.TxQueueMeta, sender string, seq, priority, stateSeq uint64) error
	Forward(sender string, seq uint64)
	Reset()
	Schedule(limit int) []*txpool.TxQueueMeta
	HandleTxUsed(h hash.Hash)
	All() []*txpool.TxQueueMeta
	Drain() []*txpool.TxQueueMeta
	Size() int
	Has(h hash.Hash) bool
}

// mqAdapter maps the runner's calls onto mainQueue's public methods: Add
// performs the forward itself, Schedule = reset + schedule, ScheduleExtra =
// schedule. The runner issues Reset() only directly before Schedule() in this
// mode (raw reset / forward operations are rewritten by toMQ).
type mqAdapter struct {
	q            *txpool.VerifMainQueue
	pendingReset bool
}

func (a *mqAdapter) Add(tx *txpool.TxQueueMeta, sender string, seq, priority, stateSeq uint64) error {
	return a.q.Add(tx, sender, seq, priority, stateSeq)
}
func (a *mqAdapter) Forward(string, uint64) {}
func (a *mqAdapter) Reset()                 { a.pendingReset = true }
func (a *mqAdapter) Schedule(limit int) []*txpool.TxQueueMeta {
	if a.pendingReset {
		a.pendingReset = false
		return a.q.Schedule(limit)
	}
	return a.q.ScheduleExtra(limit)
}
func (a *mqAdapter) HandleTxUsed(h hash.Hash)     { a.q.HandleTxsUsed([]hash.Hash{h}) }
func (a *mqAdapter) All() []*txpool.TxQueueMeta   { return a.q.All() }
func (a *mqAdapter) Drain() []*txpool.TxQueueMeta { return a.q.Drain() }
func (a *mqAdapter) Size() int                    { return a.q.Size() }
func (a *mqAdapter) Has(h hash.Hash) bool         { _, ok := a.q.Get(h); return ok }

func newRunner(capacity int, salt string, st stats) *runner {
	return &runner{
		m: newModel(capacity), v: txpool.VerifNewScheduler(capacity),
		txs: map[int]*txRec{}, byHash: map[hash.Hash]*txRec{}, st: st, salt: salt,
	}
}

// newRunnerMQ drives the production wrapper mainQueue.
func newRunnerMQ(capacity int, salt string, st stats) *runner {
	return &runner{
		m: newModel(capacity), v: &mqAdapter{q: txpool.VerifNewMainQueue(capacity)}, mq: true,
		txs: map[int]*txRec{}, byHash: map[hash.Hash]*txRec{}, st: st, salt: salt,
	}
}

func (r *runner) report(sig, what string) {
	at := len(r.ops) - 1
	if r.tainted {
		r.st["suppressed_followup_findings"]++
		return
	}
	r.tainted = true
	r.findings = append(r.findings, finding{sig, what, at})
}

func panicClass(p any) string {
	s := fmt.Sprint(p)
	switch {
	case strings.Contains(s, "index out of range [-1]"):
		return "index-out-of-range-minus-1"
	case strings.Contains(s, "index out of range"):
		return "index-out-of-range"
	case strings.Contains(s, "nil pointer"):
		return "nil-pointer"
	case strings.Contains(s, "slice bounds"):
		return "slice-bounds"
	case strings.Contains(s, "nil map"):
		return "nil-map"
	}
	return "other"
}

// call runs f against the implementation, converting a panic into a finding.
func (r *runner) call(where string, f func()) (ok bool) {
	defer func() {
		if p := recover(); p != nil {
			ok = false
			r.dead = true
			cls := panicClass(p)
			sig := "panic/" + where + "/" + cls
			what := fmt.Sprintf("%s panicked: %v", where, p)
			if where == "reset" && cls == "index-out-of-range-minus-1" {
				if s, t := r.d2ResetFacts(); t != nil {
					sig = "panic/reset/after-seq-2^63-1-successor-skipped"
					what = fmt.Sprintf("reset() panicked (%v): sender %s had sequence 2^63-1 scheduled last in the pass while its successor tx%d (seq 2^63) was pooled and had been passed over by nextSchedulable", p, s, t.id)
				}
			}
			// A panic is always reported, also in a tainted sequence, but only
			// when it is the first panic finding of that sequence.
			r.findings = append(r.findings, finding{sig, what, len(r.ops) - 1})
			r.tainted = true
		}
	}()
	f()
	return true
}

// d2ResetFacts: is there a sender whose last scheduled sequence number in the
// pass is 2^63-1 and whose successor is pooled and D2-marked?
func (r *runner) d2ResetFacts() (string, *mtx) {
	for name, ch := range r.m.pass {
		if ch.last != maxI64 {
			continue
		}
		if s := r.m.senders[name]; s != nil {
			if t := s.txs[maxI64+1]; t != nil && t.d2 {
				return name, t
			}
		}
	}
	return "", nil
}

func (r *runner) newTx(o Op) *txRec {
	if t := r.txs[o.Tx]; t != nil {
		return t
	}
	raw := []byte(fmt.Sprintf("c20/%s/tx%d", r.salt, o.Tx))
	meta := txpool.VerifNewTx(raw)
	t := &txRec{id: o.Tx, sender: o.Sender, seq: o.Seq, prio: o.Prio, meta: meta, hash: meta.Hash()}
	r.txs[o.Tx] = t
	r.byHash[t.hash] = t
	return t
}

// promotedNote explains the trigger of the "first pending after forward" shape.
func (r *runner) promotedNote(rs []ready) string {
	var parts []string
	for _, c := range rs {
		if c.kind == "head" && c.t.promoted != "" {
			parts = append(parts, fmt.Sprintf("tx%d became its sender's first pending transaction through a forward (%s) while nothing of the sender was scheduled in the pass", c.t.id, c.t.promoted))
		}
	}
	if len(parts) == 0 {
		return ""
	}
	return " [" + strings.Join(parts, "; ") + "]"
}

func (r *runner) descr(ids []int) string {
	var b strings.Builder
	b.WriteString("[")
	for i, id := range ids {
		if i > 0 {
			b.WriteString(" ")
		}
		if t := r.txs[id]; t != nil {
			fmt.Fprintf(&b, "tx%d(%s seq=%s prio=%s)", id, t.sender, symSeq(t.seq), symPrio(t.prio))
		} else {
			fmt.Fprintf(&b, "tx%d", id)
		}
	}
	b.WriteString("]")
	return b.String()
}

// implContent reads the implementation's content through All().
func (r *runner) implContent(where string) (ids []int, unknown int, ok bool) {
	var metas []*txpool.TxQueueMeta
	var size int
	if !r.call(where+"-all", func() { metas = r.v.All(); size = r.v.Size() }) {
		return nil, 0, false
	}
	seen := map[int]bool{}
	for _, mt := range metas {
		t := r.byHash[mt.Hash()]
		if t == nil {
			unknown++
			continue
		}
		if seen[t.id] {
			r.report("c20/"+where+"/all-returns-duplicate", fmt.Sprintf("All() lists tx%d twice", t.id))
		}
		seen[t.id] = true
		ids = append(ids, t.id)
	}
	sort.Ints(ids)
	if unknown > 0 {
		r.report("c20/"+where+"/all-returns-unknown-tx", "All() lists a transaction that was never added")
	}
	if size != len(metas) {
		r.report("c20/"+where+"/size-differs-from-all", fmt.Sprintf("Size()=%d, All() has %d", size, len(metas)))
	}
	if size > r.m.capacity {
		r.report("c20/"+where+"/over-capacity", fmt.Sprintf("Size()=%d > capacity %d", size, r.m.capacity))
	}
	return ids, unknown, true
}

func diff(a, b []int) (onlyA, onlyB []int) {
	in := map[int]bool{}
	for _, x := range b {
		in[x] = true
	}
	inA := map[int]bool{}
	for _, x := range a {
		inA[x] = true
		if !in[x] {
			onlyA = append(onlyA, x)
		}
	}
	for _, x := range b {
		if !inA[x] {
			onlyB = append(onlyB, x)
		}
	}
	return
}

// checkContent: the implementation's content must equal the model's.
func (r *runner) checkContent(where string) bool {
	got, _, ok := r.implContent(where)
	if !ok {
		return false
	}
	want := r.m.ids()
	missing, extra := diff(want, got)
	if len(missing)+len(extra) == 0 {
		return true
	}
	kind := "missing-and-extra"
	if len(missing) == 0 {
		kind = "extra"
	} else if len(extra) == 0 {
		kind = "missing"
	}
	r.report("c20/"+where+"/content-differs-from-model/"+kind,
		fmt.Sprintf("after %s: pool should hold %s, holds %s (missing %s, unexpected %s)", r.ops[len(r.ops)-1], r.descr(want), r.descr(got), r.descr(missing), r.descr(extra)))
	return false
}

// step executes one operation on both sides and checks it.
func (r *runner) step(o Op) {
	if r.dead {
		return
	}
	r.ops = append(r.ops, o)
	r.st["op."+o.Kind]++
	switch o.Kind {
	case "add":
		r.stepAdd(o)
	case "schedule":
		r.stepReset()
		if !r.dead {
			r.stepSchedule(o, "schedule")
		}
	case "extra":
		r.stepSchedule(o, "extra")
	case "reset":
		r.stepReset()
		if !r.dead {
			r.checkContent("reset")
		}
	case "used":
		r.stepUsed(o)
	case "forward":
		n := r.m.forward(o.Sender, o.Seq, "forward")
		r.st["forward.removed"] += int64(n)
		if r.call("forward", func() { r.v.Forward(o.Sender, o.Seq) }) {
			r.checkContent("forward")
		}
	case "drain":
		r.stepDrain()
	default:
		panic("unknown op " + o.Kind)
	}
}

func (r *runner) stepReset() {
	// facts for the classifier must be read before the model's pass is cleared
	ok := r.call("reset", func() { r.v.Reset() })
	if ok {
		// The D2 shape (successor 2^63 left out of the max heap) either makes
		// reset panic or survives only through restoreMaxHeap's early return
		// (sender already forwarded to 2^63). A reset that returned normally in
		// the other case proves the transaction is not affected: unmark it, so
		// that a later different cause is not attributed to D2.
		for name, ch := range r.m.pass {
			if ch.last != maxI64 {
				continue
			}
			if s := r.m.senders[name]; s != nil && s.cur != maxI64+1 {
				if t := s.txs[maxI64+1]; t != nil {
					t.d2 = false
				}
			}
		}
	}
	r.m.reset()
}

func (r *runner) stepDrain() {
	var metas []*txpool.TxQueueMeta
	if !r.call("drain", func() { metas = r.v.Drain() }) {
		return
	}
	var got []int
	for _, mt := range metas {
		if t := r.byHash[mt.Hash()]; t != nil {
			got = append(got, t.id)
		} else {
			got = append(got, -1)
		}
	}
	sort.Ints(got)
	want := r.m.ids()
	if missing, extra := diff(want, got); len(missing)+len(extra) > 0 {
		r.report("c20/drain/returned-set-differs-from-model", fmt.Sprintf("drain returned %s, pool held %s", r.descr(got), r.descr(want)))
	}
	r.st["drain.txs"] += int64(len(got))
	clear(r.m.pool)
	clear(r.m.senders)
	r.checkContent("drain")
}

func (r *runner) stepUsed(o Op) {
	t := r.txs[o.Tx]
	if t == nil {
		return
	}
	if mt := r.m.pool[t.id]; mt != nil {
		r.st["used.in_pool"]++
		if r.m.done[t.id] {
			r.st["used.scheduled_in_pass"]++
		}
		r.m.remove(mt)
		if mt.seq < maxU64 {
			n := r.m.forward(mt.sender, mt.seq+1, "used")
			r.st["used.forward_removed"] += int64(n)
		}
	} else {
		r.st["used.not_in_pool"]++
	}
	if r.call("used", func() { r.v.HandleTxUsed(t.hash) }) {
		r.checkContent("used")
	}
}

func (r *runner) stepAdd(o Op) {
	t := r.newTx(o)
	m := r.m
	// mainQueue.Add: forward(sender, stateSeq), then add(tx, stateSeq).
	n := m.forward(t.sender, o.StateSeq, "add-stateseq")
	r.st["add.forward_removed"] += int64(n)

	pre := m.ids() // after forward
	s := m.senders[t.sender]
	cur := o.StateSeq
	if s != nil {
		cur = s.cur
	}
	// what the model expects
	type exp int
	const (
		expExpired exp = iota
		expReplRejected
		expReplaced
		expInserted
		expInsertedEvict
	)
	var e exp
	var old *mtx
	switch {
	case m.pool[t.id] != nil:
		// the very same transaction is pooled: same sender, seq, priority ->
		// an underpriced replacement of itself
		e, old = expReplRejected, m.pool[t.id]
	case t.seq < cur:
		e = expExpired
	case s != nil && s.txs[t.seq] != nil:
		old = s.txs[t.seq]
		if old.prio >= t.prio {
			e = expReplRejected
		} else {
			e = expReplaced
		}
	case len(m.pool)+1 > m.capacity:
		e = expInsertedEvict
	default:
		e = expInserted
	}

	var err error
	if !r.call("add", func() {
		r.v.Forward(t.sender, o.StateSeq)
		err = r.v.Add(t.meta, t.sender, t.seq, t.prio, o.StateSeq)
	}) {
		return
	}
	got, _, ok := r.implContent("add")
	if !ok {
		return
	}
	has := func(ids []int, id int) bool {
		i := sort.SearchInts(ids, id)
		return i < len(ids) && ids[i] == id
	}
	present := has(got, t.id)
	errs := "nil"
	if err != nil {
		errs = err.Error()
	}
	lastOp := r.ops[len(r.ops)-1]
	newM := &mtx{id: t.id, sender: t.sender, seq: t.seq, prio: t.prio}

	if e != expReplRejected || old.id != t.id {
		if (err == nil) != present {
			r.report("c20/add/result-contradicts-content", fmt.Sprintf("%s returned %s but transaction present=%v", lastOp, errs, present))
			return
		}
	}

	switch e {
	case expExpired:
		r.st["add.expired"]++
		if err == nil {
			r.report("c20/add/expired-sequence-accepted", fmt.Sprintf("%s accepted although the sender's current sequence is %s", lastOp, symSeq(cur)))
			return
		}
		r.expectContent("add", pre, got, "expired add must not change the pool")
	case expReplRejected:
		r.st["add.replacement_rejected"]++
		if err == nil {
			if old.prio == t.prio {
				r.report("c20/add/replacement-by-equal-priority-accepted", fmt.Sprintf("%s replaced tx%d of equal priority %s", lastOp, old.id, symPrio(old.prio)))
			} else {
				r.report("c20/add/replacement-by-lower-priority-accepted", fmt.Sprintf("%s replaced tx%d of higher priority %s", lastOp, old.id, symPrio(old.prio)))
			}
			return
		}
		r.expectContent("add", pre, got, "rejected replacement must not change the pool")
	case expReplaced:
		r.st["add.replaced"]++
		if err != nil {
			r.report("c20/add/replacement-by-higher-priority-rejected", fmt.Sprintf("%s returned %q although tx%d has lower priority %s", lastOp, errs, old.id, symPrio(old.prio)))
			return
		}
		newM.d2, newM.promoted = old.d2, old.promoted
		m.remove(old)
		r.insertModel(newM, cur)
		r.expectContent("add", m.ids(), got, "replacement must swap exactly the same-sequence transaction")
	case expInserted:
		r.st["add.inserted"]++
		if err != nil {
			r.report("c20/add/valid-transaction-rejected", fmt.Sprintf("%s returned %q although there is room (%d/%d) and the sequence is not expired (current %s)", lastOp, errs, len(pre), m.capacity, symSeq(cur)))
			return
		}
		r.insertModel(newM, cur)
		r.expectContent("add", m.ids(), got, "insert must add exactly the new transaction")
	case expInsertedEvict:
		// exactly one transaction of minimal priority among pool+new leaves
		minPrio := t.prio
		for _, x := range m.pool {
			if x.prio < minPrio {
				minPrio = x.prio
			}
		}
		all := append(append([]int{}, pre...), t.id)
		sort.Ints(all)
		gone, extra := diff(all, got)
		if len(extra) > 0 || len(gone) != 1 {
			sig := "c20/add/full-pool/not-exactly-one-eviction"
			if len(got) > m.capacity {
				sig = "c20/add/over-capacity"
			}
			r.report(sig, fmt.Sprintf("%s on a full pool %s: now holds %s (gone %s, unexpected %s)", lastOp, r.descr(pre), r.descr(got), r.descr(gone), r.descr(extra)))
			return
		}
		ev := gone[0]
		evPrio := t.prio
		if ev != t.id {
			evPrio = m.pool[ev].prio
		}
		if evPrio != minPrio {
			which := "pooled"
			if ev == t.id {
				which = "new"
			}
			r.report("c20/add/evicted-not-lowest-priority/"+which, fmt.Sprintf("%s on a full pool evicted tx%d of priority %s although the lowest priority is %s; before: %s", lastOp, ev, symPrio(evPrio), symPrio(minPrio), r.descr(pre)))
			return
		}
		if ev == t.id {
			r.st["add.rejected_underpriced"]++
			// sender entry may have been virtual; nothing changes
		} else {
			r.st["add.evicted_other"]++
			if m.done[ev] {
				r.st["add.evicted_scheduled_in_pass"]++
			}
			m.remove(m.pool[ev])
			r.insertModel(newM, cur)
		}
	}
}

func (r *runner) insertModel(t *mtx, cur uint64) {
	m := r.m
	s := m.senders[t.sender]
	if s == nil {
		s = &msender{cur: cur, txs: map[uint64]*mtx{}}
		m.senders[t.sender] = s
	}
	s.txs[t.seq] = t
	m.pool[t.id] = t
}

func (r *runner) expectContent(where string, want, got []int, rule string) {
	missing, extra := diff(want, got)
	if len(missing)+len(extra) == 0 {
		return
	}
	kind := "missing-and-extra"
	if len(missing) == 0 {
		kind = "extra"
	} else if len(extra) == 0 {
		kind = "missing"
	}
	r.report("c20/"+where+"/content-differs-from-model/"+kind,
		fmt.Sprintf("%s: after %s the pool should hold %s, holds %s", rule, r.ops[len(r.ops)-1], r.descr(want), r.descr(got)))
}

const (
	sigD2Miss = "c20/successor-of-seq-2^63-1-not-scheduled"
	sigD9     = "c20/first-pending-after-forward-not-schedulable"
)

// skipped handles "ready transactions were passed over". Every passed-over
// transaction is explained on its own:
//   - D9 shape (first pending through a forward outside a pass): reported once
//     per sequence without ending it; the model then follows the implementation;
//   - D2 shape (successor of 2^63-1 consulted through nextSchedulable);
//   - anything else: generic signature prefix/<head|successor> of the
//     highest-priority unexplained transaction.
//
// It returns true when the caller must stop checking this step.
func (r *runner) skipped(prefix string, sk []ready, what func(ids []int) string) bool {
	var d9, d2, rest []ready
	for _, c := range sk {
		switch {
		case c.kind == "head" && c.t.promoted != "":
			d9 = append(d9, c)
		case c.t.d2 && c.t.seq == maxI64+1:
			d2 = append(d2, c)
		default:
			rest = append(rest, c)
		}
	}
	idsOf := func(rs []ready) []int {
		var ids []int
		for _, c := range rs {
			ids = append(ids, c.t.id)
		}
		sort.Ints(ids)
		return ids
	}
	if len(d9) > 0 {
		r.m.followD9 = true
		if !r.d9Reported && !r.tainted {
			r.d9Reported = true
			r.findings = append(r.findings, finding{sigD9, what(idsOf(d9)) + r.promotedNote(d9), len(r.ops) - 1})
		}
	}
	switch {
	case len(rest) > 0:
		top := rest[0]
		for _, c := range rest {
			if c.t.prio > top.t.prio || (c.t.prio == top.t.prio && c.t.id < top.t.id) {
				top = c
			}
		}
		r.report(prefix+"/"+top.kind, what(idsOf(rest)))
		return true
	case len(d2) > 0:
		r.report(sigD2Miss, what(idsOf(d2)))
		return !r.d2Tainted()
	}
	return false
}

func (r *runner) stepSchedule(o Op, where string) {
	var metas []*txpool.TxQueueMeta
	if !r.call(where, func() { metas = r.v.Schedule(o.Limit) }) {
		return
	}
	m := r.m
	lastOp := r.ops[len(r.ops)-1]
	if len(metas) > o.Limit {
		r.report("c20/"+where+"/limit-exceeded", fmt.Sprintf("%s returned %d transactions", lastOp, len(metas)))
		return
	}
	var got []int
	for _, mt := range metas {
		if t := r.byHash[mt.Hash()]; t != nil {
			got = append(got, t.id)
		} else {
			got = append(got, -1)
		}
	}
	for i, id := range got {
		if r.tainted && !r.d2Tainted() {
			return
		}
		mt := m.pool[id]
		if mt == nil {
			r.report("c20/"+where+"/returned-tx-not-in-pool", fmt.Sprintf("%s returned %s; position %d is not a pooled transaction (pool %s)", lastOp, r.descr(got), i, r.descr(m.ids())))
			return
		}
		must := m.mustReady()
		isMust := false
		for _, c := range must {
			if c.t == mt {
				isMust = true
			}
		}
		if ok, why := m.mayReady(mt); !ok && !isMust {
			s := m.senders[mt.sender]
			r.report("c20/"+where+"/"+why, fmt.Sprintf("%s returned %s; position %d (tx%d, %s seq %s) is not schedulable: sender's current sequence %s, scheduled in this pass %s", lastOp, r.descr(got), i, id, mt.sender, symSeq(mt.seq), symSeq(s.cur), r.passDescr(mt.sender)))
			return
		}
		for _, c := range must {
			if c.t.prio != must[0].t.prio {
				r.sawChoice = true
			}
		}
		var skipped []ready
		for _, c := range must {
			if c.t.prio > mt.prio {
				skipped = append(skipped, c)
			}
		}
		if len(skipped) > 0 {
			if r.skipped("c20/"+where+"/higher-priority-ready-tx-passed-over", skipped, func(ids []int) string {
				return fmt.Sprintf("%s returned %s; at position %d tx%d (prio %s) was taken although ready %s have higher priority; pool %s", lastOp, r.descr(got), i, id, symPrio(mt.prio), r.descr(ids), r.descr(m.ids()))
			}) {
				return
			}
		}
		if ch, ok := m.pass[mt.sender]; ok && ch.last < maxU64 && mt.seq == ch.last+1 {
			r.sawSuccessor = true
			r.st["schedule.successor_steps"]++
		} else {
			r.st["schedule.head_steps"]++
		}
		m.markScheduled(mt)
		r.st["schedule.steps"]++
	}
	if len(got) < o.Limit && len(got) < 100 {
		if must := m.mustReady(); len(must) > 0 {
			r.skipped("c20/"+where+"/ready-tx-not-scheduled", must, func(ids []int) string {
				return fmt.Sprintf("%s returned only %s (limit %d) although %s are ready; pool %s; scheduled before in this pass: %s", lastOp, r.descr(got), o.Limit, r.descr(ids), r.descr(m.ids()), r.passAll())
			})
		}
	}
	if len(got) == 0 {
		r.st["schedule.empty_results"]++
	}
	if !r.dead {
		r.checkContent(where)
	}
}

// d2Tainted: the only finding so far is the D2 missed-successor shape; the
// sequence is continued to observe the documented follow-up (panic in reset).
func (r *runner) d2Tainted() bool {
	n := 0
	for _, f := range r.findings {
		switch f.Sig {
		case sigD9:
		case sigD2Miss:
			n++
		default:
			return false
		}
	}
	return n > 0
}

func (r *runner) passDescr(sender string) string {
	ch, ok := r.m.pass[sender]
	if !ok {
		return "nothing"
	}
	return fmt.Sprintf("seq %s..%s", symSeq(ch.first), symSeq(ch.last))
}

func (r *runner) passAll() string {
	var names []string
	for n := range r.m.pass {
		names = append(names, n)
	}
	sort.Strings(names)
	var parts []string
	for _, n := range names {
		parts = append(parts, n+": "+r.passDescr(n))
	}
	if len(parts) == 0 {
		return "nothing"
	}
	return strings.Join(parts, ", ")
}

// stop reports whether the sequence should not be continued.
func (r *runner) stop() bool {
	if r.dead {
		return true
	}
	if r.tainted && !r.d2Tainted() {
		return true
	}
	return false
}
