// Check C20: the runtime transaction pool main queue scheduler respects
// sender order, priority and capacity (DESIGN.md "C20").
//
// The real scheduler (go/runtime/txpool, hook H4 VerifScheduler) is driven
// with generated operation sequences in exactly the compositions the
// production caller mainQueue uses, and compared after every operation with a
// naive reference model (model.go).
package main

import (
	"crypto/sha256"
	"encoding/hex"
	"encoding/json"
	"flag"
	"fmt"
	"math/rand/v2"
	"os"
	"sort"
	"strings"

	"verif/engine/evid"
)

// Witness is what is written to the replay file of a violation.
type Witness struct {
	Kind     string   `json:"kind"` // builtin | random | exhaustive | replay
	Case     int64    `json:"case"`
	Seed     int64    `json:"seed"`
	Capacity int      `json:"capacity"`
	FailedAt int      `json:"failed_at"`
	Ops      []Op     `json:"ops"`
	OpsText  []string `json:"ops_text"`
	Note     string   `json:"note,omitempty"`
	MQ       bool     `json:"through_mainqueue,omitempty"`
}

func opsText(ops []Op) []string {
	out := make([]string, len(ops))
	for i, o := range ops {
		out[i] = o.String()
	}
	return out
}

func digest(capacity int, ops []Op) string {
	h := sha256.New()
	fmt.Fprintf(h, "%d|", capacity)
	for _, o := range ops {
		fmt.Fprintf(h, "%s,%d,%s,%d,%d,%d,%d;", o.Kind, o.Tx, o.Sender, o.Seq, o.Prio, o.StateSeq, o.Limit)
	}
	return hex.EncodeToString(h.Sum(nil)[:12])
}

func flush(r *evid.Run, st stats) {
	for k, v := range st {
		r.Count(k, v)
	}
	clear(st)
}

func reportFindings(r *evid.Run, rn *runner, kind string, idx int64) {
	for _, f := range rn.findings {
		ops := rn.ops
		if f.At+1 <= len(ops) {
			ops = ops[:f.At+1]
		}
		w := Witness{Kind: kind, Case: idx, Seed: r.Seed, Capacity: rn.m.capacity, FailedAt: f.At, Ops: ops, OpsText: opsText(ops), MQ: rn.mq}
		r.Violation(f.Sig, f.What+" || sequence (capacity "+fmt.Sprint(rn.m.capacity)+"): "+strings.Join(w.OpsText, " ; "), w)
	}
}

// ---------------------------------------------------------------------------
// built-in witnesses (replayed first, deterministic)

type builtin struct {
	name     string
	capacity int
	ops      []Op
}

func builtins() []builtin {
	return []builtin{
		{
			// D2: nextSchedulable compares with MaxInt64 instead of MaxUint64.
			name: "d2-successor-of-2^63-1", capacity: 2,
			ops: []Op{
				{Kind: "add", Tx: 1, Sender: "A", Seq: maxI64, Prio: 0, StateSeq: maxI64},
				{Kind: "add", Tx: 2, Sender: "A", Seq: maxI64 + 1, Prio: 0, StateSeq: maxI64},
				{Kind: "schedule", Limit: 2},
				{Kind: "schedule", Limit: 1},
			},
		},
		{
			// forward()/handleTxUsed() remove the first pending transaction of a
			// sender that has nothing scheduled in the pass without putting the
			// new first pending one into the max heap.
			name: "first-pending-after-txused", capacity: 2,
			ops: []Op{
				{Kind: "add", Tx: 1, Sender: "A", Seq: 0, Prio: 0, StateSeq: 0},
				{Kind: "add", Tx: 2, Sender: "A", Seq: 1, Prio: 0, StateSeq: 0},
				{Kind: "used", Tx: 1},
				{Kind: "schedule", Limit: 1},
			},
		},
	}
}

// ---------------------------------------------------------------------------
// random sequences

var zoneCenters = []uint64{0, 0, 1000, maxI64, maxI64, maxI64 + 1, maxU64 - 1, maxU64}
var prios = []uint64{0, 1, 1, 2, 2, maxU64}

func around(rng *rand.Rand, c uint64, lo, hi int) uint64 {
	d := lo + rng.IntN(hi-lo+1)
	if d < 0 {
		if uint64(-d) > c {
			return 0
		}
		return c - uint64(-d)
	}
	if uint64(d) > maxU64-c {
		return maxU64
	}
	return c + uint64(d)
}

type gen struct {
	rng     *rand.Rand
	senders []string
	zone    map[string]uint64
	nonce   map[string]uint64
	nextID  int
	rn      *runner
}

func newGen(rng *rand.Rand, rn *runner) *gen {
	g := &gen{rng: rng, zone: map[string]uint64{}, nonce: map[string]uint64{}, nextID: 1, rn: rn}
	n := 1 + rng.IntN(4)
	shared := zoneCenters[rng.IntN(len(zoneCenters))]
	mix := rng.IntN(3) == 0
	for i := 0; i < n; i++ {
		s := string(rune('A' + i))
		g.senders = append(g.senders, s)
		z := shared
		if mix {
			z = zoneCenters[rng.IntN(len(zoneCenters))]
		}
		g.zone[s] = z
		g.nonce[s] = around(rng, z, -2, 0)
	}
	return g
}

func (g *gen) bump(s string) {
	switch x := g.rng.IntN(100); {
	case x < 10:
		g.nonce[s] = around(g.rng, g.nonce[s], 1, 1)
	case x < 14:
		g.nonce[s] = around(g.rng, g.nonce[s], 2, 3)
	case x < 15:
		if z := zoneCenters[g.rng.IntN(len(zoneCenters))]; z > g.nonce[s] {
			g.nonce[s] = z
			g.zone[s] = z
		}
	}
}

// heads lists, per sender in name order, the lowest-sequence pooled
// transaction (the one a block would use next).
func (g *gen) heads() []*mtx {
	var out []*mtx
	for _, name := range g.senders {
		s := g.rn.m.senders[name]
		if s == nil {
			continue
		}
		var lo *mtx
		for _, t := range s.txs {
			if lo == nil || t.seq < lo.seq {
				lo = t
			}
		}
		if lo != nil {
			out = append(out, lo)
		}
	}
	return out
}

func (g *gen) next() Op {
	rng, m := g.rng, g.rn.m
	x := rng.IntN(100)
	switch {
	case x < 48: // add a new transaction
		s := g.senders[rng.IntN(len(g.senders))]
		g.bump(s)
		var seq uint64
		ms := m.senders[s]
		switch y := rng.IntN(100); {
		case y < 40: // next in the sender's chain
			seq = g.nonce[s]
			if ms != nil {
				mx := uint64(0)
				for q := range ms.txs {
					if q > mx {
						mx = q
					}
				}
				if mx < maxU64 {
					seq = mx + 1
				} else {
					seq = mx
				}
			}
		case y < 58 && ms != nil && len(ms.txs) > 0: // duplicate sequence number
			k := rng.IntN(len(ms.txs))
			qs := make([]uint64, 0, len(ms.txs))
			for q := range ms.txs {
				qs = append(qs, q)
			}
			sort.Slice(qs, func(i, j int) bool { return qs[i] < qs[j] })
			seq = qs[k]
		case y < 80:
			seq = around(rng, g.nonce[s], -1, 3)
		case y < 92:
			seq = around(rng, g.zone[s], -3, 3)
		default:
			// a far-future transaction of the same sender (gaps of 2^63 and more between the
			// sender's lowest and highest pooled sequence number)
			seq = around(rng, zoneCenters[rng.IntN(len(zoneCenters))], -3, 3)
		}
		o := Op{Kind: "add", Tx: g.nextID, Sender: s, Seq: seq, Prio: prios[rng.IntN(len(prios))], StateSeq: g.nonce[s]}
		g.nextID++
		return o
	case x < 52: // add again a transaction seen before (recheck / resubmission)
		if g.nextID > 1 {
			id := 1 + rng.IntN(g.nextID-1)
			if t := g.rn.txs[id]; t != nil {
				g.bump(t.sender)
				return Op{Kind: "add", Tx: id, Sender: t.sender, Seq: t.seq, Prio: t.prio, StateSeq: g.nonce[t.sender]}
			}
		}
		return Op{Kind: "extra", Limit: rng.IntN(7)}
	case x < 66:
		return Op{Kind: "schedule", Limit: rng.IntN(7)}
	case x < 76:
		return Op{Kind: "extra", Limit: rng.IntN(7)}
	case x < 91: // transaction used
		// The choice must not depend on the order in which the implementation
		// scheduled equal-priority transactions (reset() walks a Go map, so
		// that order differs from run to run): it is made from the model's
		// pool content only, which is independent of such ties.
		y := rng.IntN(100)
		if heads := g.heads(); y < 65 && len(heads) > 0 {
			if y < 30 { // the highest-priority first pending transaction (most likely scheduled first)
				best := heads[0]
				for _, h := range heads {
					if h.prio > best.prio {
						best = h
					}
				}
				return Op{Kind: "used", Tx: best.id}
			}
			return Op{Kind: "used", Tx: heads[rng.IntN(len(heads))].id}
		}
		if y < 90 && len(m.pool) > 0 {
			ids := m.ids()
			return Op{Kind: "used", Tx: ids[rng.IntN(len(ids))]}
		}
		if g.nextID > 1 {
			return Op{Kind: "used", Tx: 1 + rng.IntN(g.nextID-1)}
		}
		return Op{Kind: "schedule", Limit: rng.IntN(7)}
	case x < 95:
		s := g.senders[rng.IntN(len(g.senders))]
		g.bump(s)
		return Op{Kind: "forward", Sender: s, Seq: g.nonce[s]}
	case x < 98:
		return Op{Kind: "reset"}
	default:
		return Op{Kind: "drain"}
	}
}

func finishSeq(r *evid.Run, rn *runner, kind string, idx int64, registerKey bool, st stats) {
	if len(rn.findings) > 0 {
		reportFindings(r, rn, kind, idx)
	}
	if rn.sawSuccessor && rn.sawChoice {
		st[kind+".nontrivial_sequences"]++
		if registerKey {
			r.Nontrivial(digest(rn.m.capacity, rn.ops))
		}
	}
}

// toMQ rewrites the two operations mainQueue does not offer on their own into
// the mainQueue calls that contain them: a raw reset becomes Schedule(0)
// (reset + schedule(0)), a raw forward(sender, n) becomes the Add of a fresh
// transaction with sequence n-1 reported with state sequence n (forwarded, then
// rejected as expired); forward(sender, 0) never does anything.
func (g *gen) toMQ(o Op) Op {
	switch o.Kind {
	case "reset":
		return Op{Kind: "schedule", Limit: 0}
	case "forward":
		if o.Seq == 0 {
			return Op{Kind: "extra", Limit: 0}
		}
		n := Op{Kind: "add", Tx: g.nextID, Sender: o.Sender, Seq: o.Seq - 1, Prio: prios[g.rng.IntN(len(prios))], StateSeq: o.Seq}
		g.nextID++
		return n
	}
	return o
}

func runRandom(r *evid.Run, idx int64, nops int, st stats) {
	rng := r.Rand(20, uint64(idx))
	capacity := 1 + rng.IntN(6)
	// every other sequence goes through the production wrapper mainQueue
	mq := idx%2 == 1
	var rn *runner
	if mq {
		rn = newRunnerMQ(capacity, fmt.Sprintf("r%d", idx), st)
		st["random.sequences_through_mainqueue"]++
	} else {
		rn = newRunner(capacity, fmt.Sprintf("r%d", idx), st)
	}
	g := newGen(rng, rn)
	for i := 0; i < nops && !rn.stop(); i++ {
		o := g.next()
		if mq {
			o = g.toMQ(o)
		}
		rn.step(o)
	}
	st["random.sequences"]++
	st[fmt.Sprintf("random.capacity_%d", capacity)]++
	st[fmt.Sprintf("random.senders_%d", len(g.senders))]++
	finishSeq(r, rn, "random", idx, true, st)
	if idx < 3 {
		r.Sample(map[string]any{"kind": "random", "case": idx, "capacity": capacity, "ops": opsText(rn.ops)})
	}
}

// ---------------------------------------------------------------------------
// exhaustive short sequences over a 2-sender alphabet

type letter struct {
	kind         string
	sender       string
	dseq, dstate uint64
	prio         uint64
	limit, k     int
}

func alphabet() []letter {
	var a []letter
	for _, s := range []string{"A", "B"} {
		for d := uint64(0); d < 2; d++ {
			for p := uint64(0); p < 2; p++ {
				a = append(a, letter{kind: "add", sender: s, dseq: d, prio: p})
			}
		}
	}
	a = append(a, letter{kind: "add", sender: "A", dseq: 1, dstate: 1, prio: 1}) // forwards A by one
	a = append(a,
		letter{kind: "schedule", limit: 1}, letter{kind: "schedule", limit: 2},
		letter{kind: "extra", limit: 1}, letter{kind: "extra", limit: 2},
		letter{kind: "used", k: 0}, letter{kind: "used", k: 1}, letter{kind: "used", k: 2},
		letter{kind: "drain"})
	return a
}

var exhBases = []uint64{0, maxI64, maxU64 - 1}

// runExhaustive enumerates all sequences of exactly `length` letters that
// start with letter `first` (all shorter sequences are prefixes and are
// checked on the way, the checker being online).
func runExhaustive(r *evid.Run, base uint64, capacity, length, first int, mq bool, st stats) {
	alpha := alphabet()
	idxs := make([]int, length)
	idxs[0] = first
	nEval := 0
	defer func() { r.Eval(nEval) }()
	for {
		// well-formed: used(k) only after k+1 adds (decided before running, so
		// that the set of executed sequences does not depend on the outcome)
		valid, nadds := true, 0
		for i := 0; i < length; i++ {
			l := alpha[idxs[i]]
			if l.kind == "add" {
				nadds++
			} else if l.kind == "used" && l.k >= nadds {
				valid = false
				break
			}
		}
		if valid {
			rn := newRunner(capacity, "x", st)
			if mq {
				rn = newRunnerMQ(capacity, "x", st)
				st["exhaustive.sequences_through_mainqueue"]++
			}
			adds := []int{}
			for i := 0; i < length && !rn.stop(); i++ {
				l := alpha[idxs[i]]
				var o Op
				switch l.kind {
				case "add":
					o = Op{Kind: "add", Tx: i + 1, Sender: l.sender, Seq: base + l.dseq, Prio: l.prio, StateSeq: base + l.dstate}
					adds = append(adds, i+1)
				case "schedule", "extra":
					o = Op{Kind: l.kind, Limit: l.limit}
				case "used":
					o = Op{Kind: "used", Tx: adds[l.k]}
				case "drain":
					o = Op{Kind: "drain"}
				}
				rn.step(o)
			}
			st["exhaustive.sequences"]++
			key := int64(first)
			for _, x := range idxs[1:] {
				key = key*int64(len(alpha)) + int64(x)
			}
			finishSeq(r, rn, "exhaustive", key, false, st)
			nEval++
		} else {
			st["exhaustive.skipped_illformed"]++
		}
		// next
		i := length - 1
		for ; i >= 1; i-- {
			idxs[i]++
			if idxs[i] < len(alpha) {
				break
			}
			idxs[i] = 0
		}
		if i < 1 {
			return
		}
	}
}

// ---------------------------------------------------------------------------

func replay(r *evid.Run) {
	b, err := os.ReadFile(r.ReplayFile)
	if err != nil {
		r.Inconclusive("replay file: %v", err)
		r.Finish(0)
	}
	var doc struct {
		Witness Witness `json:"witness"`
	}
	if err := json.Unmarshal(b, &doc); err != nil || len(doc.Witness.Ops) == 0 {
		r.Inconclusive("replay file %s: no operation list (%v)", r.ReplayFile, err)
		r.Finish(0)
	}
	st := stats{}
	rn := newRunner(doc.Witness.Capacity, "replay", st)
	if doc.Witness.MQ {
		rn = newRunnerMQ(doc.Witness.Capacity, "replay", st)
	}
	for _, o := range doc.Witness.Ops {
		if rn.dead {
			break
		}
		rn.step(o)
		fmt.Printf("  %s\n", o)
	}
	r.Eval(1)
	reportFindings(r, rn, "replay", doc.Witness.Case)
	flush(r, st)
	if len(rn.findings) == 0 {
		fmt.Println("replayed sequence: no violation")
	}
	// a replay is not a coverage run: do not let the non-trivial floor decide
	r.Nontrivial("replay/a")
	r.Nontrivial("replay/b")
	r.Finish(0)
}

func main() {
	concArg := flag.String("concchild", "", "internal: run the concurrent cases lo:hi and print the result")
	r := evid.Start("C20", "exploration")
	if *concArg != "" {
		var lo, hi int
		fmt.Sscanf(*concArg, "%d:%d", &lo, &hi)
		concChild(r, lo, hi)
		return
	}
	r.Rule = "operation sequences add/schedule(reset+schedule)/scheduleExtra/txUsed/forward/reset/drain on the real main queue scheduler, " +
		"1-4 senders, capacity 1-6, limits 0-6, priorities {0,1,2,max}, sequence numbers dense around 0, 1000, 2^63-1, 2^63, 2^64-2, 2^64-1 with gaps and duplicates; " +
		"every operation's result and the pool content are compared with a naive reference model. A sequence is non-trivial when a schedule pass " +
		"took a sender's successor transaction (chain of length >= 2) and at least once had to choose between ready transactions of different priority. " +
		"The operation lists are a function of (seed, tier) only; which of several equal-priority ready transactions the implementation takes first depends on Go map iteration order inside reset(), so the counters of schedule steps (and the non-trivial count) vary slightly between runs of the same seed."
	r.Assume("The scheduler is driven only in the compositions of the production caller mainQueue: Add = forward(sender, stateSeq) then add; Schedule = reset then schedule(limit); ScheduleExtra = schedule(limit); raw reset() and raw forward(sender, seq) are used only where they equal such a composition (Schedule(0), Add of an expired transaction). A scheduler-level add without the preceding forward is never issued.")
	r.Assume("In the random sequences the sender state sequence number reported with Add (and used for raw forward) never decreases per sender (account nonces only grow), but it may lag behind the pool's own current sequence after transaction-used (stale check result). The exhaustive alphabet has one letter reporting state sequence base+1 for sender A while all others report base (a stale report after a fresh one); forward never moves backwards, the model treats it alike.")
	r.Assume("When a sender was forgotten (no pooled transactions) and re-created from a stale state sequence, its current sequence can lie below sequence numbers already scheduled in the running pass. The successor of the last scheduled sequence number then stays schedulable (rule documented at isSchedulable) and is not reported as an order violation, although the statement read literally ('all lower sequence numbers from the current sequence onward scheduled before it in the same pass') would forbid it; the real account nonce is past those numbers.")
	r.Assume("A transaction hash is never added while the same hash is pooled with different sender/sequence/priority (txpool's seen-cache and hash derivation); re-adding a pooled transaction unchanged and re-adding a removed one are exercised.")
	r.Assume("Model rule for a sender without pooled transactions: it is forgotten, its current sequence is the state sequence of the next Add (as in the implementation); the statement does not define this.")
	r.Assume("Ready (must be considered by 'highest priority ready next'): the sender's transaction at its current sequence when nothing of the sender was scheduled in the pass, else the successor of the last scheduled sequence number (the rule documented at isSchedulable). Allowed to be scheduled (safety): any not yet scheduled transaction all of whose lower sequence numbers from the current sequence on were scheduled before in the pass. Ties in priority and the choice among equal lowest-priority eviction candidates follow the implementation.")
	r.Assume("Error texts of add are not compared; only error/no error and the resulting content.")

	if r.ReplayFile != "" {
		replay(r)
		return
	}

	st := stats{}
	// 1. built-in witnesses
	for i, b := range builtins() {
		rn := newRunner(b.capacity, "b"+b.name, st)
		for _, o := range b.ops {
			if rn.dead {
				break
			}
			rn.step(o)
		}
		r.Eval(1)
		st["builtin.sequences"]++
		reportFindings(r, rn, "builtin", int64(i))
	}
	flush(r, st)

	// 2. random sequences
	nseq := r.Pick(40000, 2000000)
	nops := 40
	const chunk = 500
	nchunks := (nseq + chunk - 1) / chunk
	evid.Parallel(nchunks, 0, func(c int) {
		lst := stats{}
		n := 0
		for i := c * chunk; i < (c+1)*chunk && i < nseq; i++ {
			runRandom(r, int64(i), nops, lst)
			n++
		}
		r.Eval(n)
		flush(r, lst)
	})

	// 3. exhaustive short sequences
	length := r.Pick(4, 5)
	alpha := alphabet()
	type job struct {
		base     uint64
		capacity int
		first    int
		mq       bool
	}
	var jobs []job
	for _, b := range exhBases {
		for c := 1; c <= 3; c++ {
			for f := range alpha {
				jobs = append(jobs, job{b, c, f, false}, job{b, c, f, true})
			}
		}
	}
	evid.Parallel(len(jobs), 0, func(i int) {
		lst := stats{}
		runExhaustive(r, jobs[i].base, jobs[i].capacity, length, jobs[i].first, jobs[i].mq, lst)
		flush(r, lst)
	})
	// 4. concurrent cases on the shared mainQueue (race detector build)
	runConcPhase(r, r.Pick(400, 20000))
	if sc := os.Getenv("VERIF_SCRATCH"); sc != "" {
		reps := evid.RaceReports(sc + "/race")
		r.Count("race_reports_distinct", int64(len(reps)))
		for _, rep := range reps {
			frames := strings.Split(rep.Key, "|")
			short := rep.Key
			if len(frames) > 2 {
				short = frames[0] + "|" + frames[len(frames)/2]
			}
			r.Violation("race/"+short, fmt.Sprintf("data race reported %d times", rep.Count), map[string]any{"report": rep.Text, "count": rep.Count})
		}
	} else {
		r.Assume("VERIF_SCRATCH not set: race detector log not parsed in this run")
	}

	r.Set("exhaustive_part", map[string]any{
		"alphabet_letters": len(alpha), "length": length, "bases": []string{"0", "2^63-1", "2^64-2"}, "capacities": []int{1, 2, 3},
		"note": "all sequences of exactly this length (prefixes checked online); sequences using 'used(k)' before k+1 adds are skipped as ill-formed",
	})
	r.Finish(r.Pick(2000, 200000))
}
