package main

// Concurrent-use family. A tree object serialises its users with its own lock, and a tree that is
// shared between goroutines (as the consensus state tree and the storage workers' trees are) must
// keep the statement: the root is a function of the contents. The one window in which another
// user could slip in is a Commit: hashes are computed, the batch is written to the node database,
// then the nodes are marked clean. A node database wrapper starts a second user of the same tree
// right before the batch's Commit (a mutation or a reader), gives it time to run if nothing
// stops it, and lets the commit proceed. The verdict is taken from final states only:
//   * the commit in progress returns the reference root of the contents before the second user's
//     operation;
//   * after both have finished, every key reads as the model says and the NEXT commit returns the
//     reference root of the model with the second user's operation applied;
//   * a reader sees exactly the contents (it has no effect).
// The pause inside the hook only widens the window; no verdict depends on it.

import (
	"bytes"
	"context"
	"fmt"
	"math/rand/v2"
	"runtime/debug"
	"sort"
	"strings"
	"time"

	"github.com/oasisprotocol/oasis-core/go/common/crypto/hash"
	"github.com/oasisprotocol/oasis-core/go/storage/mkvs"
	dbApi "github.com/oasisprotocol/oasis-core/go/storage/mkvs/db/api"
	"github.com/oasisprotocol/oasis-core/go/storage/mkvs/node"

	"verif/engine/evid"
	lab "verif/engine/mkvslab"
)

type hookDB struct {
	dbApi.NodeDB
	onCommit func()
}

func (h *hookDB) NewBatch(oldRoot node.Root, version uint64, chunk bool) (dbApi.Batch, error) {
	b, err := h.NodeDB.NewBatch(oldRoot, version, chunk)
	if err != nil {
		return nil, err
	}
	return &hookBatch{Batch: b, h: h}, nil
}

type hookBatch struct {
	dbApi.Batch
	h *hookDB
}

func (b *hookBatch) Commit(root node.Root) error {
	if f := b.h.onCommit; f != nil {
		b.h.onCommit = nil
		f()
	}
	return b.Batch.Commit(root)
}

type concWitness struct {
	Seed     int64    `json:"seed"`
	Tier     string   `json:"tier"`
	Case     int      `json:"case"`
	Backend  string   `json:"backend"`
	Initial  []lab.KV `json:"initial_contents"`
	Batch    []string `json:"second_batch"`
	Second   string   `json:"second_user_operation"`
	Detail   string   `json:"detail"`
	Observed string   `json:"observed"`
}

// runConcurrentUseChild runs the family in a child process: a tree that is damaged by two users can
// end the process with a fatal error of the Go runtime (concurrent map access), which no recover()
// sees. The child is this binary restricted to the family; its violations are reported again here.
func runConcurrentUseChild() {
	res := evid.Child([]string{"-tier", run.Tier, "-seed", fmt.Sprint(run.Seed)}, []string{"VERIF_C02_FAMILY=concurrent", "VERIF_NO_EVIDENCE=1"}, 30*time.Minute)
	out := string(res.Out)
	tail := out
	if len(tail) > 6000 {
		tail = tail[len(tail)-6000:]
	}
	n := 0
	for _, l := range strings.Split(out, "\n") {
		if rest, ok := strings.CutPrefix(l, "  signature="); ok {
			sig, what, _ := strings.Cut(rest, " ")
			run.Violation(sig, what, map[string]any{"reported_by": "child process running the concurrent-use family", "seed": run.Seed, "tier": run.Tier})
			n++
		}
		if strings.HasPrefix(l, "SUMMARY") {
			var ev, nt int
			for _, f := range strings.Fields(l) {
				fmt.Sscanf(f, "evaluations=%d", &ev)
				fmt.Sscanf(f, "distinct_nontrivial=%d", &nt)
			}
			run.Eval(ev)
			run.Count("concurrent_use.cases", int64(ev))
			run.Count("concurrent_use.distinct_kinds_completed", int64(nt))
		}
	}
	switch {
	case res.TimedOut:
		run.Inconclusive("concurrent-use family: child process watchdog fired")
	case res.ExitCode == 0 || (res.ExitCode == 1 && n > 0):
	case res.ExitCode == 2 && strings.Contains(out, "INCONCLUSIVE"):
		run.Inconclusive("concurrent-use family: child inconclusive: %s", tail)
	case res.Signal == 9 && !strings.Contains(out, "fatal error") && !strings.Contains(out, "goroutine "):
		run.Inconclusive("concurrent-use family: child killed from outside")
	default:
		what := "fatal error"
		if i := strings.Index(out, "fatal error:"); i >= 0 {
			what, _, _ = strings.Cut(out[i:], "\n")
		} else if i := strings.Index(out, "panic:"); i >= 0 {
			what, _, _ = strings.Cut(out[i:], "\n")
		}
		run.Violation("c02/concurrent-use/process-died", "a tree used by two goroutines around a commit ended the process: "+what,
			map[string]any{"seed": run.Seed, "tier": run.Tier, "exit": res.ExitCode, "signal": int(res.Signal), "output_tail": tail})
	}
}

func runConcurrentUse() {
	n := run.Pick(1500, 40000)
	evid.Parallel(n, 0, func(i int) {
		rng := rand.New(rand.NewPCG(uint64(run.Seed)^0xc02c0c, uint64(i)))
		backend := []string{lab.BackendBadger, lab.BackendPathBadger, lab.BackendNop}[i%3]
		defer func() {
			if p := recover(); p != nil {
				run.Violation("c02/concurrent-use/panic/"+backend, fmt.Sprintf("a tree used by two goroutines around a commit panicked: %v", p),
					concWitness{Seed: run.Seed, Tier: run.Tier, Case: i, Backend: backend, Detail: "panic", Observed: fmt.Sprint(p) + "\n" + string(debug.Stack())})
			}
		}()
		concurrentCase(i, rng, backend)
	})
}

func concurrentCase(idx int, rng *rand.Rand, backend string) {
	ctx := context.Background()
	run.Eval(1)
	run.Count("concurrent_use.cases."+backend, 1)
	inner, err := lab.OpenDB(backend, "")
	if err != nil {
		run.Inconclusive("concurrent-use: cannot open %s: %v", backend, err)
		return
	}
	if inner == nil {
		inner, _ = dbApi.NewNopNodeDB()
	}
	defer inner.Close()
	hdb := &hookDB{NodeDB: inner}
	model := lab.GenSet(rng, 4+rng.IntN(28), 60)
	initial := lab.HexPairs(model)
	tree := mkvs.New(nil, hdb, node.RootTypeState)
	defer tree.Close()
	for _, k := range lab.Shuffle(rng, model.Keys()) {
		if err = tree.Insert(ctx, []byte(k), model.Get([]byte(k))); err != nil {
			run.Inconclusive("concurrent-use: insert: %v", err)
			return
		}
	}
	_, r1, err := tree.Commit(ctx, lab.Namespace, 1)
	if err != nil {
		run.Inconclusive("concurrent-use: first commit: %v", err)
		return
	}
	w := concWitness{Seed: run.Seed, Tier: run.Tier, Case: idx, Backend: backend, Initial: initial}
	viol := func(sig, detail, observed string) {
		w.Detail, w.Observed = detail, observed
		run.Violation("c02/concurrent-use/"+sig+"/"+backend, detail+": "+observed, w)
	}
	if ref := hash.Hash(lab.RefRoot(model.Map())); r1 != ref {
		viol("first-commit-root-differs-from-reference", "sequential first commit", fmt.Sprintf("root %s, reference %s", r1, ref))
		return
	}

	// Second batch: a few mutations near existing keys, so that the commit has dirty paths.
	var touched [][]byte
	for j := 0; j < 1+rng.IntN(5); j++ {
		keys := model.Keys()
		var base []byte
		if len(keys) > 0 {
			base = []byte(keys[rng.IntN(len(keys))])
		}
		switch rng.IntN(3) {
		case 0:
			if base != nil {
				_ = tree.Remove(ctx, base)
				model.Remove(base)
				w.Batch = append(w.Batch, "rem "+lab.Hex(base))
				touched = append(touched, base)
				continue
			}
			fallthrough
		default:
			k := lab.GenKeyNear(rng, base)
			v := lab.GenValue(rng)
			_ = tree.Insert(ctx, k, v)
			model.Insert(k, v)
			w.Batch = append(w.Batch, "ins "+lab.Hex(k)+"="+lab.Hex(v))
			touched = append(touched, k)
		}
	}
	before := model.Clone()

	// The second user's operation: on or next to a key the batch touched (a dirty path).
	base := touched[rng.IntN(len(touched))]
	kind := []string{"insert-new", "overwrite", "remove", "read"}[rng.IntN(4)]
	var k2, v2 []byte
	switch kind {
	case "insert-new":
		k2, v2 = lab.GenKeyNear(rng, base), lab.GenValue(rng)
	case "overwrite":
		k2, v2 = base, append(lab.GenValue(rng), 0x5a)
	case "remove":
		k2 = base
		if !model.Has(k2) && model.Len() > 0 {
			k2 = []byte(model.Keys()[rng.IntN(model.Len())])
		}
	case "read":
	}
	w.Second = kind + " " + lab.Hex(k2) + "=" + lab.Hex(v2)
	type readRes struct {
		keys []string
		vals [][]byte
		err  error
	}
	done := make(chan readRes, 1)
	hdb.onCommit = func() {
		go func() {
			var rr readRes
			switch kind {
			case "insert-new", "overwrite":
				rr.err = tree.Insert(ctx, k2, v2)
			case "remove":
				rr.err = tree.Remove(ctx, k2)
			case "read":
				it := tree.NewIterator(ctx)
				for it.Rewind(); it.Valid(); it.Next() {
					rr.keys = append(rr.keys, string(it.Key()))
					rr.vals = append(rr.vals, append([]byte{}, it.Value()...))
				}
				rr.err = it.Err()
				it.Close()
			}
			done <- rr
		}()
		time.Sleep(time.Duration(200+rng.IntN(1800)) * time.Microsecond)
	}
	_, r2, err := tree.Commit(ctx, lab.Namespace, 2)
	if err != nil {
		run.Inconclusive("concurrent-use: second commit: %v", err)
		return
	}
	var rr readRes
	select {
	case rr = <-done:
	case <-time.After(60 * time.Second):
		run.Inconclusive("concurrent-use: the second user of the tree did not finish within 60 s (case %d, %s)", idx, backend)
		return
	}
	if rr.err != nil {
		run.Count("concurrent_use.second_user_error", 1)
		return
	}
	if ref := hash.Hash(lab.RefRoot(before.Map())); r2 != ref {
		viol("commit-in-progress-root-differs-from-reference", "the commit during which a second goroutine used the tree",
			fmt.Sprintf("returned %s, the reference root of the contents committed is %s", r2, ref))
		return
	}
	switch kind {
	case "insert-new", "overwrite":
		model.Insert(k2, v2)
	case "remove":
		model.Remove(k2)
	case "read":
		keys := before.Keys()
		sort.Strings(keys)
		ok := len(keys) == len(rr.keys)
		for j := 0; ok && j < len(keys); j++ {
			ok = keys[j] == rr.keys[j] && bytes.Equal(before.Get([]byte(keys[j])), rr.vals[j])
		}
		if !ok {
			viol("reader-during-commit-saw-other-contents", "an iteration started during the commit",
				fmt.Sprintf("yielded %d items that are not the %d pairs of the tree", len(rr.keys), len(keys)))
			return
		}
	}
	// Every key reads as the model says, then the next commit must give the reference root.
	probe := model.Keys()
	if !model.Has(k2) && k2 != nil {
		probe = append(probe, string(k2))
	}
	for _, k := range probe {
		got, gerr := tree.Get(ctx, []byte(k))
		if gerr != nil {
			viol("get-fails-after-concurrent-use", "Get("+lab.Hex([]byte(k))+") after both users finished", gerr.Error())
			return
		}
		want := model.Get([]byte(k))
		if !model.Has([]byte(k)) {
			want = nil
		}
		if !bytes.Equal(got, want) || (got == nil) != (want == nil) {
			viol("get-mismatch-after-concurrent-use", "Get("+lab.Hex([]byte(k))+") after both users finished", fmt.Sprintf("got %x, the contents say %x", got, want))
			return
		}
	}
	_, r3, err := tree.Commit(ctx, lab.Namespace, 3)
	if err != nil {
		viol("commit-fails-after-concurrent-use", "the commit after both users finished", err.Error())
		return
	}
	if ref := hash.Hash(lab.RefRoot(model.Map())); r3 != ref {
		viol("root-after-concurrent-use-differs-from-contents", "the commit after a second goroutine's "+kind+" ran next to a commit",
			fmt.Sprintf("returned %s, the reference root of the contents (which every Get confirms) is %s", r3, ref))
		return
	}
	run.Count("concurrent_use.completed."+kind, 1)
	run.Nontrivial("concurrent-use/" + backend + "/" + kind)
}
