// Check C02: the MKVS root hash depends only on the key/value contents.
//
// For every generated content set S the root is computed along many
// independent routes (operation histories x commit batching x backend x cache
// capacity x reopen x write-log replay x checkpoint restore). All routes must
// give the byte-identical root, that root must equal the value of the
// independent reference hasher (engine/mkvslab/refhash.go), every intermediate
// commit of every route must equal the reference root of the contents at that
// point, and neighbour sets must give a different root.
package main

import (
	"bytes"
	"context"
	"encoding/hex"
	"encoding/json"
	"errors"
	"fmt"
	"math/rand/v2"
	"os"
	"path/filepath"
	"runtime/debug"
	"strings"
	"sync"
	"sync/atomic"
	"time"

	"github.com/oasisprotocol/oasis-core/go/common/crypto/hash"
	"github.com/oasisprotocol/oasis-core/go/storage/mkvs"
	"github.com/oasisprotocol/oasis-core/go/storage/mkvs/checkpoint"
	dbApi "github.com/oasisprotocol/oasis-core/go/storage/mkvs/db/api"
	"github.com/oasisprotocol/oasis-core/go/storage/mkvs/node"
	"github.com/oasisprotocol/oasis-core/go/storage/mkvs/writelog"

	"verif/engine/evid"
	lab "verif/engine/mkvslab"
)

// hop is one step of a history.
type hop struct {
	Op string  `json:"op"`          // ins | rem | commit | get | iter (the last two only in the fault route)
	K  *string `json:"k,omitempty"` // hex; "" is the empty key; absent for commit
	V  *string `json:"v,omitempty"` // hex; "" is the empty value; absent for rem/commit
	N  int     `json:"n,omitempty"` // iter: number of Next calls after Seek(K)
	// Fault is an injected fault under which the operation is attempted first: "db@i" = the
	// (i+1)-th NodeDB.GetNode of the operation fails once with a transient error, "ctx@i" = the
	// context reports cancellation after ctx.Err() has been consulted i times. If the operation
	// returns the injected error it must have left the tree unchanged and is then retried without
	// fault; if the fault is not reached the operation simply succeeds.
	Fault string `json:"fault,omitempty"`
	// Check: compare the full contents with the model right after the failed attempt.
	Check bool `json:"check_contents_after_failure,omitempty"`

	k, v []byte
	fk   string // "", "db", "ctx"
	fat  int
}

func (h *hop) setFault(kind string, at int, check bool) {
	h.fk, h.fat, h.Check = kind, at, check
	h.Fault = fmt.Sprintf("%s@%d", kind, at)
}

// capacity is a cache capacity choice. The classes:
//
//	default / unlimited  mkvs defaults (5000 nodes, 16 MiB) / Capacity(0,0)
//	fit, fit2            small enough to force evictions but not smaller than the working set of
//	                     one operation: nodes = 2D+4 (4D+8; Remove dereferences both children at
//	                     every level of the path), values = 4 (8) times the largest leaf,
//	                     D = longest path (internal nodes) of the trie over all keys of the history
//	fitn, fitv           only the node (value) capacity of fit, the other one unlimited
//	tiny                 node capacity N with 0 < N < 2D+4, i.e. below the working set of a single
//	                     operation: (1,1), (2,16), (1,0). This rule (see fitCapacity) is the only
//	                     way a failure gets a c02/cache-below-working-set/... signature.
//	n0v1                 (0,1): nodes unlimited, value capacity below one leaf; class fitv
type capacity struct {
	name        string
	class       string
	set         bool
	nodes, vals uint64
}

var capacities = []capacity{
	{name: "default", class: "default"},
	{name: "unlimited", class: "unlimited", set: true, nodes: 0, vals: 0},
	{name: "fit", class: "fit", set: true},
	{name: "fit2", class: "fit2", set: true},
	{name: "fit-nodes-only", class: "fitn", set: true},
	{name: "fit-values-only", class: "fitv", set: true},
	{name: "n1v1", class: "tiny", set: true, nodes: 1, vals: 1},
	{name: "n2v16", class: "tiny", set: true, nodes: 2, vals: 16},
	{name: "n1v0", class: "tiny", set: true, nodes: 1, vals: 0},
	{name: "n0v1", class: "fitv", set: true, nodes: 0, vals: 1},
}

// fitCapacity computes the numbers of the fit classes for a history and decides the class "tiny":
// a configured node capacity N is below the working set of one operation iff 0 < N < 2D+4, where D
// is the number of internal nodes on the longest path of the canonical trie over all keys the
// history uses (an operation visits at most D path nodes and Remove dereferences both children of
// each of them). Returns the capacity and 2D+4.
func fitCapacity(c capacity, hist []hop) (capacity, uint64) {
	if !c.set {
		return c, 0
	}
	universe := map[string]struct{}{}
	maxLeaf := uint64(0)
	for i := range hist {
		h := &hist[i]
		if h.Op == "commit" {
			continue
		}
		universe[string(h.k)] = struct{}{}
		if sz := node.LeafNodeSize + uint64(len(h.k)+len(h.v)); sz > maxLeaf {
			maxLeaf = sz
		}
	}
	d := uint64(lab.UniverseDepth(universe))
	ws := 2*d + 4
	switch c.name {
	case "fit":
		c.nodes, c.vals = ws, 4*maxLeaf
	case "fit2":
		c.nodes, c.vals = 2*ws, 8*maxLeaf
	case "fit-nodes-only":
		c.nodes, c.vals = ws, 0
	case "fit-values-only":
		c.nodes, c.vals = 0, 4*maxLeaf
	}
	c.class = classOf(c.set, c.nodes, c.vals, ws, c.name)
	return c, ws
}

// classOf is the single rule that maps a configured capacity Capacity(N, V) to its class
// (ws = 2D+4 is the working set of one operation in nodes):
//
//	not configured        default
//	N == 0 && V == 0      unlimited
//	0 < N < ws            tiny   (candidate for the family cache-below-working-set)
//	otherwise, V > 0      fit / fit2 / fitv: finite value capacity, so clean leaves get evicted
//	                      (candidate for the family value-cache-eviction)
//	otherwise (V == 0)    fitn
func classOf(set bool, n, v, ws uint64, name string) string {
	switch {
	case !set:
		return "default"
	case n == 0 && v == 0:
		return "unlimited"
	case n > 0 && n < ws:
		return "tiny"
	case v > 0 && n == 0:
		return "fitv"
	case v > 0 && name == "fit2":
		return "fit2"
	case v > 0:
		return "fit"
	}
	return "fitn"
}

// familyOf returns the known-finding family a failure under this capacity class is a candidate
// for. Membership additionally requires that the same history passes with Capacity(0,0), see report.
func familyOf(class string) string {
	switch class {
	case "tiny":
		return "c02/cache-below-working-set/"
	case "fit", "fit2", "fitv":
		return "c02/value-cache-eviction/"
	}
	return ""
}

// routeSpec describes one route; everything needed to replay it.
type routeSpec struct {
	Name      string `json:"name"`
	Backend   string `json:"backend"`
	Style     string `json:"style"`
	Batching  string `json:"batching"`
	Capacity  string `json:"capacity"`
	CapClass  string `json:"capacity_class"`
	CapNodes  uint64 `json:"capacity_nodes"`
	CapValues uint64 `json:"capacity_value_bytes"`
	// WorkingSetNodes is 2D+4 for this history; class "tiny" iff 0 < CapNodes < WorkingSetNodes.
	WorkingSetNodes uint64 `json:"working_set_nodes"`
	Reopen          bool   `json:"reopen_every_commit"`
	NoWriteLog      bool   `json:"without_write_log"`
	Finalize        bool   `json:"finalize_every_version"`
	StartVer        uint64 `json:"start_version"`
	History         []hop  `json:"history"`

	cap capacity
}

type routeResult struct {
	root      hash.Hash
	ok        bool
	writeLogs []writelog.WriteLog
	// servedLogs: for finalizing database routes, the log the node database serves for
	// (previous root, this root) instead of the one Commit returned (first commit: returned log).
	servedLogs  []writelog.WriteLog
	servedCount int
	ndb         dbApi.NodeDB // kept open for the checkpoint route (closed by caller)
	version   uint64
	commits   int
	collapse  int
	merges    int
	model     *lab.Model
}

type caseWitness struct {
	Seed     int64      `json:"seed"`
	Case     int        `json:"case"`
	Contents []lab.KV   `json:"contents"`
	RefRoot  string     `json:"reference_root"`
	Route    *routeSpec `json:"route,omitempty"`
	RouteB   *routeSpec `json:"route_b,omitempty"`
	RootA    string     `json:"root_a,omitempty"`
	RootB    string     `json:"root_b,omitempty"`
	Step     int        `json:"failing_step,omitempty"`
	Detail   string     `json:"detail,omitempty"`
	AtCommit []lab.KV   `json:"contents_at_failing_commit,omitempty"`

	Minimal        []hop    `json:"minimal_history,omitempty"`
	MinimalFailure *failure `json:"minimal_history_failure,omitempty"`
}

var (
	run      *evid.Run
	bg       = context.Background()
	ckptSeq  atomic.Int64
	emptyKey = []byte{}
)

func main() {
	run = evid.Start("C02", "exploration")
	run.Rule = "case i: content set S (0..48 keys, alphabet {00,01,7f,80,ff,a,b}, lengths 0..6, 60% of keys derived from existing keys as extension/prefix/sibling/bit flip; values 0..3 bytes, sometimes 40..800) from PRNG(seed,i); " +
		">= 9 routes per set (sorted/reverse/shuffled inserts, churn histories with extra keys removed later, overwrites, remove+reinsert, no-op rewrites and removes; commit once/every op/every k/random; nop, badger, pathbadger in-memory; capacities default, unlimited, fit classes (nodes=2D+4 / 4D+8, values = 4x / 8x largest leaf), tiny = node capacity below 2D+4: (1,1),(2,16),(1,0); (0,1); reopen with NewWithRoot at every commit; write-log replay; sampled checkpoint create->restore). " +
		"plus one fault-injection route per set (churn history on nop/badger/pathbadger with default, unlimited or node-only small cache, reopened at every commit; ~35% of the inserts/removes and added Get/iterator probes are attempted under an injected transient NodeDB.GetNode error or a context cancelled after i Err() checks, i from the PRNG; an operation that returns the injected error must leave the contents unchanged (full iteration) and is retried; every commit is compared with the reference root). " +
		"non-trivial = S has a prefix-key pair AND some route history contained a removal that collapsed an internal node (classified by the reference trie builder)."
	run.Assume("reference hasher (engine/mkvslab/refhash.go) is the canonical compressed Patricia trie built top-down from node.go's hash definitions; SHA-512/256 from Go's crypto/sha512")
	run.Assume("fault injection: a NodeDB wrapper fails one GetNode call with a transient error, or ctx.Err() reports cancellation after a PRNG-chosen number of checks; both are treated as legitimate transient failures after which the caller may retry")
	run.Assume("nop node database is used only with the default/unlimited cache (it cannot re-fetch evicted nodes) and without reopen")
	run.Assume("values are non-nil, keys are non-nil byte slices (the empty key is []byte{}); badger/pathbadger run in MemoryOnly mode, commits are a linear chain version+1")

	// The heap is dominated by short-lived 64 MiB badger arenas; collect eagerly.
	debug.SetGCPercent(20)

	if run.ReplayFile != "" {
		replay(run.ReplayFile)
		return
	}

	if os.Getenv("VERIF_C02_FAMILY") == "concurrent" { // debugging aid: the concurrent-use family alone
		runConcurrentUse()
		run.Finish(0)
		return
	}

	runCanaries()

	n := run.Pick(1500, 12000)
	deadline := time.Now().Add(time.Duration(run.Pick(20, 90)) * time.Minute)
	var skipped atomic.Int64
	evid.Parallel(n, 0, func(i int) {
		if time.Now().After(deadline) {
			skipped.Add(1)
			return
		}
		runCase(i)
	})
	runConcurrentUseChild()
	if s := skipped.Load(); s > 0 {
		run.Inconclusive("watchdog: %d of %d cases not executed before the deadline", s, n)
	}
	run.Finish(run.Pick(40, 1000))
}

// ---------------------------------------------------------------------------

func setSize(rng *rand.Rand) int {
	switch x := rng.IntN(20); {
	case x == 0:
		return rng.IntN(3) // 0..2
	case x < 8:
		return 3 + rng.IntN(8)
	case x < 15:
		return 8 + rng.IntN(17)
	default:
		return 24 + rng.IntN(25) // ..48
	}
}

func runCase(i int) {
	rng := run.Rand(uint64(i))
	set := lab.GenSet(rng, setSize(rng), 60)
	run.Eval(1)

	ref := hash.Hash(lab.RefRoot(set.Map()))
	wit := func() caseWitness {
		return caseWitness{Seed: run.Seed, Case: i, Contents: lab.HexPairs(set), RefRoot: ref.String()}
	}

	defer func() {
		if p := recover(); p != nil {
			w := wit()
			w.Detail = fmt.Sprintf("%v\n%s", p, debug.Stack())
			run.Violation("panic/c02-case-driver", fmt.Sprintf("panic outside a route: %v", p), w)
		}
	}()

	keys := set.Keys()
	prefixPair := lab.HasPrefixPair(keys)
	if prefixPair {
		run.Count("sets_with_prefix_pair", 1)
	}
	if set.Has(emptyKey) {
		run.Count("sets_with_empty_key", 1)
	}
	st := lab.BuildRef(set.Map()).Stats()
	run.Count("ref_internal_nodes", int64(st.Internal))
	run.Count("ref_internal_nodes_with_own_leaf", int64(st.WithLeaf))
	run.Count("ref_labels_not_byte_aligned", int64(st.OddLabels))
	run.Distinct("set_sizes", fmt.Sprint(set.Len()))

	routes := planRoutes(rng, set)
	var results []routeResult
	collapses, merges := 0, 0
	for ri := range routes {
		spec := &routes[ri]
		// Only one database is kept open per case (for the checkpoint route): every in-memory
		// badger instance holds a 64 MiB memtable arena.
		// (never for a route whose cache is below the working set: its database is not trusted).
		keep := i%3 == 0 && spec.Name == "db-a" && spec.cap.class != "tiny"
		res, f := runHistory(spec, spec.History, true, keep)
		if f == nil && !res.model.Equal(set) {
			// Harness self-check: the history must end at the content set.
			run.Inconclusive("harness bug: history of route %s (case %d) does not end at the content set", spec.Name, i)
			res.ok = false
		}
		if f != nil && !strings.HasPrefix(f.Sig, "harness/") {
			report(i, set, ref, spec, f, func(sp *routeSpec, h []hop) *failure {
				_, g := runHistory(sp, h, false, false)
				return g
			})
		}
		results = append(results, res)
		run.Count("routes_executed", 1)
		run.Count("route/"+spec.Name, 1)
		run.Count("route_backend/"+spec.Backend, 1)
		run.Count("route_capacity_class/"+spec.cap.class, 1)
		run.Distinct("route_configs", spec.Backend+"/"+spec.Style+"/"+spec.Batching+"/"+spec.Capacity+fmt.Sprintf("/reopen=%v/nowl=%v/fin=%v", spec.Reopen, spec.NoWriteLog, spec.Finalize))
		run.Count("commits", int64(res.commits))
		collapses += res.collapse
		merges += res.merges
	}
	run.Count("removals_collapsing_internal_node", int64(collapses))
	run.Count("removals_collapsing_with_label_merge", int64(merges))

	// Derived routes: write-log replay and checkpoint restore.
	for ri := range routes {
		res := &results[ri]
		spec := &routes[ri]
		if res.ok && len(res.writeLogs) > 0 && !spec.NoWriteLog && (spec.Name == "db-a" || spec.Name == "nop-churn-batched") {
			run.Count("routes_executed", 2)
			run.Count("route/writelog-replay-once", 1)
			run.Count("route/writelog-replay-commit-each", 1)
			if f := replayCheck(spec, nil, res.writeLogs, res.model); f != nil {
				report(i, set, ref, spec, f, func(sp *routeSpec, h []hop) *failure { return replayCheck(sp, h, nil, nil) })
			}
		}
		// The same replay with the logs the node database serves (GetWriteLog) for the pairs of
		// consecutive finalized roots of a finalizing database route.
		if res.ok && res.servedCount > 0 && len(res.servedLogs) == len(res.writeLogs) {
			run.Count("routes_executed", 1)
			run.Count("route/writelog-replay-served-by-db", 1)
			run.Count("served_write_logs_fetched", int64(res.servedCount))
			if f := servedReplayCheck(spec, nil, res.servedLogs, res.model); f != nil {
				report(i, set, ref, spec, f, func(sp *routeSpec, h []hop) *failure { return servedReplayCheck(sp, h, nil, nil) })
			}
		}
	}
	for ri := range routes {
		res := &results[ri]
		if res.ndb == nil {
			continue
		}
		if res.ok && set.Len() > 0 && res.version > 0 && i%3 == 0 {
			checkpointRoute(i, rng, set, ref, &routes[ri], res)
		}
		res.ndb.Close()
		res.ndb = nil
	}

	// Pairwise agreement (against the first successful route).
	base := -1
	for ri := range results {
		if !results[ri].ok {
			continue
		}
		if base < 0 {
			base = ri
			continue
		}
		if !results[ri].root.Equal(&results[base].root) {
			w := wit()
			w.Route, w.RouteB = &routes[base], &routes[ri]
			w.RootA, w.RootB = results[base].root.String(), results[ri].root.String()
			run.Violation("c02/route-mismatch/"+routes[base].Name+"-vs-"+routes[ri].Name+suffix(set),
				fmt.Sprintf("same contents, different roots: %s (%s) vs %s (%s)", results[base].root, routes[base].Name, results[ri].root, routes[ri].Name), w)
		}
	}

	// Sensitivity: neighbours must hash differently (on the real tree, nop backend).
	if base >= 0 {
		sensitivity(i, rng, set, results[base].root)
	}

	if prefixPair && collapses > 0 {
		run.Nontrivial(fmt.Sprintf("case-%d", i))
	}
	if i < 3 {
		run.Sample(map[string]any{"case": i, "keys": len(keys), "contents": lab.HexPairs(set), "root": ref.String(), "routes": len(routes) + 2})
	}
}

func suffix(set *lab.Model) string {
	if set.Has(emptyKey) {
		return "/with-empty-key"
	}
	return ""
}

func errClass(err error) string {
	switch {
	case errors.Is(err, dbApi.ErrNodeNotFound):
		return "node-not-found"
	case errors.Is(err, mkvs.ErrClosed):
		return "closed"
	case errors.Is(err, dbApi.ErrRootNotFound):
		return "root-not-found"
	case errors.Is(err, dbApi.ErrRootMustFollowOld):
		return "root-must-follow-old"
	}
	s := err.Error()
	if i := strings.Index(s, ":"); i > 0 && i < 40 {
		s = s[:i]
	}
	s = strings.Map(func(r rune) rune {
		if r >= 'a' && r <= 'z' || r >= 'A' && r <= 'Z' || r >= '0' && r <= '9' {
			return r
		}
		return '-'
	}, s)
	if len(s) > 40 {
		s = s[:40]
	}
	return s
}

// ---------------------------------------------------------------------------
// Route planning and history generation.

func planRoutes(rng *rand.Rand, set *lab.Model) []routeSpec {
	pickCap := func(allowTiny bool) capacity {
		if !allowTiny {
			return capacities[rng.IntN(2)]
		}
		switch x := rng.IntN(10); {
		case x < 2:
			return capacities[x] // default, unlimited
		case x < 8:
			return capacities[2+rng.IntN(4)] // fit classes
		default:
			return capacities[6+rng.IntN(4)] // (1,1) (2,16) (1,0) (0,1)
		}
	}
	batchings := []string{"once", "every", "k2", "k3", "k5", "k7", "random"}
	dbBackends := []string{lab.BackendBadger, lab.BackendPathBadger}
	if rng.IntN(2) == 0 {
		dbBackends[0], dbBackends[1] = dbBackends[1], dbBackends[0]
	}
	startVers := []uint64{0, 1, 1000}

	mk := func(name, backend, style, batching string, c capacity) routeSpec {
		s := routeSpec{Name: name, Backend: backend, Style: style, Batching: batching, Capacity: c.name, cap: c}
		s.StartVer = startVers[rng.IntN(len(startVers))]
		return s
	}
	routes := []routeSpec{
		mk("nop-sorted-once", lab.BackendNop, "sorted", "once", pickCap(false)),
		mk("nop-reverse-once", lab.BackendNop, "reverse", "once", pickCap(false)),
		mk("nop-shuffle-once", lab.BackendNop, "shuffle", "once", pickCap(false)),
		mk("nop-churn-once", lab.BackendNop, "churn", "once", pickCap(false)),
		mk("nop-churn-batched", lab.BackendNop, "churn", batchings[1+rng.IntN(len(batchings)-1)], pickCap(false)),
		mk("db-a", dbBackends[0], "churn", batchings[rng.IntN(len(batchings))], pickCap(true)),
		mk("db-b", dbBackends[1], "churn", batchings[1+rng.IntN(len(batchings)-1)], pickCap(true)),
	}
	// A third database route that alternates its shape with the case PRNG.
	third := mk("db-c", dbBackends[rng.IntN(2)], []string{"shuffle", "churn", "sorted"}[rng.IntN(3)], "every", pickCap(true))
	routes = append(routes, third)
	// Fault-injection route: churn history on a tree that is reopened at every commit (so nodes
	// have to be fetched) with operations attempted under an injected transient NodeDB read error
	// or a context cancelled mid-descent first, then retried. Only capacity classes outside the
	// known-finding families are used here.
	faultBackend := []string{lab.BackendNop, lab.BackendBadger, lab.BackendBadger, lab.BackendPathBadger, lab.BackendPathBadger}[rng.IntN(5)]
	faultCap := []capacity{capacities[0], capacities[1], capacities[4]}[rng.IntN(3)]
	if faultBackend == lab.BackendNop {
		faultCap = capacities[rng.IntN(2)]
	}
	routes = append(routes, mk("fault-retry", faultBackend, "churn", []string{"every", "k3", "k5", "random"}[rng.IntN(4)], faultCap))
	for i := range routes {
		r := &routes[i]
		if r.Backend != lab.BackendNop {
			r.Reopen = rng.IntN(2) == 0
			r.Finalize = rng.IntN(2) == 0
			if r.Name != "db-a" {
				r.NoWriteLog = rng.IntN(3) == 0
			}
		} else if r.Name == "nop-shuffle-once" {
			r.NoWriteLog = rng.IntN(2) == 0
		}
		if r.Name == "db-c" {
			r.Reopen = true
		}
		r.History = genHistory(rng, set, r.Style, r.Batching)
		if r.Name == "fault-retry" {
			r.Reopen = r.Backend != lab.BackendNop && rng.IntN(4) > 0
			r.History = sprinkleFaults(rng, r.History, r.Backend)
		}
		r.cap, r.WorkingSetNodes = fitCapacity(r.cap, r.History)
		r.CapClass, r.CapNodes, r.CapValues = r.cap.class, r.cap.nodes, r.cap.vals
	}
	return routes
}

// sprinkleFaults annotates about a third of the inserts/removes of a history with a fault and
// adds Get / iterator probes (most of them under a fault too). Everything is PRNG-determined.
func sprinkleFaults(rng *rand.Rand, hist []hop, backend string) []hop {
	kind := func() string {
		if backend == lab.BackendNop || rng.IntN(5) < 2 {
			return "ctx"
		}
		return "db"
	}
	var keys [][]byte
	var out []hop
	for _, h := range hist {
		if h.Op == "ins" || h.Op == "rem" {
			keys = append(keys, h.k)
			if rng.IntN(100) < 35 {
				h.setFault(kind(), rng.IntN(7), true)
			}
		}
		out = append(out, h)
		if len(keys) == 0 || rng.IntN(100) >= 18 {
			continue
		}
		k := keys[rng.IntN(len(keys))]
		if rng.IntN(3) == 0 {
			k = lab.GenKeyNear(rng, k)
		}
		hk := lab.Hex(k)
		p := hop{Op: "get", k: k, K: &hk}
		if backend != lab.BackendNop && rng.IntN(4) == 0 {
			p.Op, p.N = "iter", rng.IntN(8)
			if rng.IntN(4) > 0 {
				p.setFault("db", rng.IntN(7), true)
			}
		} else if rng.IntN(4) > 0 {
			p.setFault(kind(), rng.IntN(7), true)
		}
		out = append(out, p)
	}
	return out
}

func mkIns(k string, v []byte) hop {
	kb := []byte(k)
	if kb == nil {
		kb = []byte{}
	}
	hk, hv := lab.Hex(kb), lab.Hex(v)
	return hop{Op: "ins", k: kb, v: v, K: &hk, V: &hv}
}

func mkRem(k string) hop {
	kb := []byte(k)
	if kb == nil {
		kb = []byte{}
	}
	hk := lab.Hex(kb)
	return hop{Op: "rem", k: kb, K: &hk}
}

func genHistory(rng *rand.Rand, set *lab.Model, style, batching string) []hop {
	keys := set.Keys()
	var steps []hop
	switch style {
	case "sorted":
		for _, k := range keys {
			steps = append(steps, mkIns(k, set.Get([]byte(k))))
		}
	case "reverse":
		for i := len(keys) - 1; i >= 0; i-- {
			steps = append(steps, mkIns(keys[i], set.Get([]byte(keys[i]))))
		}
	case "shuffle":
		for _, k := range lab.Shuffle(rng, keys) {
			steps = append(steps, mkIns(k, set.Get([]byte(k))))
		}
	case "churn":
		var tasks [][]hop
		for _, k := range keys {
			v := set.Get([]byte(k))
			switch rng.IntN(6) {
			case 0: // overwrite
				tasks = append(tasks, []hop{mkIns(k, wrongValue(rng, v)), mkIns(k, v)})
			case 1: // remove then reinsert
				tasks = append(tasks, []hop{mkIns(k, v), mkRem(k), mkIns(k, v)})
			case 2: // no-op rewrite
				tasks = append(tasks, []hop{mkIns(k, v), mkIns(k, v)})
			case 3: // remove of a not yet existing key, then insert
				tasks = append(tasks, []hop{mkRem(k), mkIns(k, v)})
			default:
				tasks = append(tasks, []hop{mkIns(k, v)})
			}
		}
		// Extra keys that are inserted and removed again.
		nExtra := 2 + rng.IntN(len(keys)/2+3)
		for e := 0; e < nExtra; e++ {
			var k []byte
			for tries := 0; tries < 50; tries++ {
				if len(keys) > 0 && rng.IntN(100) < 75 {
					k = lab.GenKeyNear(rng, []byte(keys[rng.IntN(len(keys))]))
				} else {
					k = lab.GenKey(rng)
				}
				if !set.Has(k) {
					break
				}
				k = nil
			}
			if k == nil {
				continue
			}
			t := []hop{mkIns(string(k), lab.GenValue(rng)), mkRem(string(k))}
			if rng.IntN(4) == 0 {
				t = append(t, mkIns(string(k), lab.GenValue(rng)), mkRem(string(k)))
			}
			if rng.IntN(6) == 0 {
				t = append(t, mkRem(string(k))) // remove of an absent key
			}
			tasks = append(tasks, t)
		}
		// Random interleaving preserving the order inside each task.
		for len(tasks) > 0 {
			ti := rng.IntN(len(tasks))
			steps = append(steps, tasks[ti][0])
			tasks[ti] = tasks[ti][1:]
			if len(tasks[ti]) == 0 {
				tasks[ti] = tasks[len(tasks)-1]
				tasks = tasks[:len(tasks)-1]
			}
		}
	}

	// Insert commit points.
	var out []hop
	k := 0
	if strings.HasPrefix(batching, "k") {
		fmt.Sscanf(batching[1:], "%d", &k)
	}
	for i, s := range steps {
		out = append(out, s)
		last := i == len(steps)-1
		commit := false
		switch {
		case last:
		case batching == "every":
			commit = true
		case k > 0:
			commit = (i+1)%k == 0
		case batching == "random":
			commit = rng.IntN(4) == 0
		}
		if commit {
			out = append(out, hop{Op: "commit"})
		}
	}
	out = append(out, hop{Op: "commit"})
	if batching != "once" && rng.IntN(4) == 0 {
		// A commit without changes at the next version.
		out = append(out, hop{Op: "commit"})
	}
	return out
}

func wrongValue(rng *rand.Rand, v []byte) []byte {
	for {
		w := lab.GenValue(rng)
		if !bytes.Equal(w, v) {
			return w
		}
		if len(v) > 0 && rng.IntN(2) == 0 {
			w = append([]byte{}, v...)
			w[rng.IntN(len(w))] ^= 1 << uint(rng.IntN(8))
			return w
		}
	}
}

// ---------------------------------------------------------------------------
// Route execution.

func treeOptions(spec *routeSpec) []mkvs.Option {
	var opts []mkvs.Option
	if spec.cap.set {
		opts = append(opts, mkvs.Capacity(spec.cap.nodes, spec.cap.vals))
	}
	if spec.NoWriteLog {
		opts = append(opts, mkvs.WithoutWriteLog())
	}
	return opts
}

// failure describes why a history failed on a route.
type failure struct {
	Sig    string `json:"signature"`
	Coarse string `json:"symptom_class,omitempty"`
	// Raw is the signature the failure has when it does not qualify for a family.
	Raw    string   `json:"unclassified_signature,omitempty"`
	What   string   `json:"what"`
	Step   int      `json:"step"`
	RootA  string   `json:"root_a,omitempty"`
	RootB  string   `json:"root_b,omitempty"`
	At     []lab.KV `json:"contents_at_failure,omitempty"`
	Detail string   `json:"detail,omitempty"`
}

// runHistory executes a history on the route's configuration. Every commit is
// compared with the reference root of the contents at that point. count
// selects whether evidence counters are updated (off while shrinking).
func runHistory(spec *routeSpec, hist []hop, count, keepDB bool) (res routeResult, f *failure) {
	var (
		tree  mkvs.Tree
		ndb   dbApi.NodeDB
		cdb   *lab.CountingDB
		step  int
		curOp = "open"
		model = lab.NewModel()
		// failedSince lists the operations ("insert/db", ...) that returned an injected fault
		// since the last commit whose root was verified.
		failedSince []string
	)
	cnt := func(name string, n int64) {
		if count {
			run.Count(name, n)
		}
	}
	tag := spec.Backend + "/cap-" + spec.cap.class
	// Failures under a finite value capacity / a capacity below the working set of one
	// operation are grouped into one signature family each (by symptom only).
	family := familyOf(spec.cap.class)
	defer func() {
		if p := recover(); p != nil {
			raw := "panic/" + curOp + "/" + tag
			if len(failedSince) > 0 {
				raw = "c02/panic-after-failed-op/" + failedSince[0] + "/in-" + curOp
			}
			sig := raw
			if family != "" {
				sig = family + "panic"
			}
			f = &failure{Sig: sig, Raw: raw, Coarse: "panic", What: fmt.Sprintf("panic in %s (route %s, step %d): %v", curOp, spec.Name, step, p),
				Step: step, Detail: fmt.Sprintf("%v\n%s", p, debug.Stack()), At: lab.HexPairs(model)}
		}
		if cdb != nil {
			cnt("db_get_node", cdb.Gets.Load())
			cnt("evictions_refetched", cdb.Refetch.Load())
		}
		if tree != nil {
			func() {
				defer func() { _ = recover() }()
				tree.Close()
			}()
		}
		res.model = model
		res.ok = f == nil
		if ndb != nil && (!res.ok || !keepDB) {
			ndb.Close()
			res.ndb = nil
		}
	}()
	fail := func(op string, err error) *failure {
		raw := "c02/route-error/" + op + "/" + tag + "/" + errClass(err)
		if len(failedSince) > 0 {
			raw = "c02/error-after-failed-op/" + failedSince[0] + "/in-" + op + "/" + errClass(err)
		}
		sig := raw
		if family != "" {
			sig = family + "error"
		} else if len(failedSince) > 0 {
			// keep raw
		} else if spec.Backend == lab.BackendNop && errors.Is(err, dbApi.ErrNodeNotFound) {
			sig = "c02/nop-db-lost-node/" + classifyLostNode(hist[:step+1])
		}
		return &failure{Sig: sig, Raw: raw, Coarse: "error", What: fmt.Sprintf("%s failed in route %s at step %d: %v", op, spec.Name, step, err),
			Step: step, Detail: err.Error(), At: lab.HexPairs(model)}
	}

	var err error
	ndb, err = lab.OpenDB(spec.Backend, "")
	if err != nil {
		run.Inconclusive("cannot open %s: %v", spec.Backend, err)
		return res, &failure{Sig: "harness/open-db", What: err.Error()}
	}
	var treeDB dbApi.NodeDB
	if ndb != nil {
		cdb = lab.NewCountingDB(ndb)
		treeDB = cdb
		res.ndb = ndb
	}
	opts := treeOptions(spec)
	tree = mkvs.New(nil, treeDB, node.RootTypeState, opts...)
	version := spec.StartVer
	first := true
	var (
		havePrev    bool
		prevRoot    hash.Hash
		prevVersion uint64
	)

	// compareContents iterates the whole tree and compares it with the model.
	compareContents := func(why string) *failure {
		it := tree.NewIterator(bg)
		defer it.Close()
		keys := model.Keys()
		idx := 0
		for it.Rewind(); ; it.Next() {
			if e := it.Err(); e != nil {
				return fail("iterate", e)
			}
			want := "<end>"
			if idx < len(keys) {
				want = lab.Hex([]byte(keys[idx])) + "=" + lab.Hex(model.Get([]byte(keys[idx])))
			}
			got := "<end>"
			if it.Valid() {
				got = lab.Hex(it.Key()) + "=" + lab.Hex(it.Value())
			}
			if got != want {
				sig := "c02/failed-op-changed-contents/" + why
				return &failure{Sig: sig, Raw: sig, Coarse: "wrong-contents", Step: step, At: lab.HexPairs(model),
					What:   fmt.Sprintf("route %s step %d: %s returned the injected fault but changed the tree: iteration position %d is %s, model (unchanged contents) says %s", spec.Name, step, why, idx, got, want),
					Detail: "an operation that returned an error must leave the tree as it was"}
			}
			if !it.Valid() {
				return nil
			}
			idx++
		}
	}
	// tryFaulted attempts an operation under the fault of h. done = the operation succeeded (the
	// fault was not reached); failed = it returned the injected fault (the caller retries).
	tryFaulted := func(h *hop, opName string, do func(ctx context.Context) error) (done, failed bool, g *failure) {
		if h.fk == "" || (h.fk == "db" && cdb == nil) {
			return false, false, nil
		}
		ctx := context.Context(bg)
		if h.fk == "db" {
			cdb.FailGetNode(h.fat)
		} else {
			ctx = lab.NewCountdownCtx(bg, h.fat)
		}
		cnt("fault/armed/"+h.fk, 1)
		ferr := do(ctx)
		if cdb != nil {
			cdb.Disarm()
		}
		if ferr == nil {
			cnt("fault/not_reached_op_succeeded", 1)
			return true, false, nil
		}
		if !lab.IsInjected(ferr) {
			return false, false, fail(opName, ferr)
		}
		why := opName + "/" + h.fk
		cnt("fault/failed_ops/"+why, 1)
		failedSince = append(failedSince, why)
		if h.Check {
			cnt("fault/contents_compared_after_failure", 1)
			if g := compareContents(why); g != nil {
				return false, true, g
			}
		}
		return false, true, nil
	}

	for step = 0; step < len(hist); step++ {
		h := &hist[step]
		switch h.Op {
		case "ins":
			curOp = "insert"
			done, failed, g := tryFaulted(h, "insert", func(ctx context.Context) error { return tree.Insert(ctx, h.k, nilIfEmpty(h.k, h.v)) })
			if g != nil {
				return res, g
			}
			if !done {
				if err = tree.Insert(bg, h.k, h.v); err != nil {
					return res, fail("insert", err)
				}
				if failed {
					cnt("fault/retried_ok/insert", 1)
				}
			}
			model.Insert(h.k, h.v)
			cnt("op/insert", 1)
		case "get":
			curOp = "get"
			var got []byte
			done, failed, g := tryFaulted(h, "get", func(ctx context.Context) (e error) { got, e = tree.Get(ctx, h.k); return e })
			if g != nil {
				return res, g
			}
			if !done {
				if got, err = tree.Get(bg, h.k); err != nil {
					return res, fail("get", err)
				}
				if failed {
					cnt("fault/retried_ok/get", 1)
				}
			}
			cnt("op/get", 1)
			if want := model.Get(h.k); (got == nil) != (want == nil) || !bytes.Equal(got, want) {
				sig := "c02/get-mismatch/" + tag
				if len(failedSince) > 0 {
					sig = "c02/get-after-failed-op/" + failedSince[0]
				}
				return res, &failure{Sig: sig, Raw: sig, Coarse: "wrong-contents", Step: step, At: lab.HexPairs(model),
					What: fmt.Sprintf("route %s step %d: Get(%x) = %x (nil=%v), model says %x (nil=%v)", spec.Name, step, h.k, got, got == nil, want, want == nil)}
			}
		case "iter":
			curOp = "iterate"
			why := "iterate/db"
			it := tree.NewIterator(bg)
			armed := h.fk == "db" && cdb != nil
			if armed {
				cdb.FailGetNode(h.fat)
				cnt("fault/armed/db", 1)
			}
			keys := model.Keys()
			idx := model.From(h.k)
			var g *failure
			injected := false
			it.Seek(h.k)
			for i := 0; ; i++ {
				if e := it.Err(); e != nil {
					if armed && lab.IsInjected(e) {
						injected = true
					} else {
						g = fail("iterate", e)
					}
					break
				}
				want, got := "<end>", "<end>"
				if idx < len(keys) {
					want = lab.Hex([]byte(keys[idx])) + "=" + lab.Hex(model.Get([]byte(keys[idx])))
				}
				if it.Valid() {
					got = lab.Hex(it.Key()) + "=" + lab.Hex(it.Value())
				}
				if got != want {
					sig := "c02/iter-mismatch/" + tag
					if len(failedSince) > 0 {
						sig = "c02/iter-after-failed-op/" + failedSince[0]
					}
					g = &failure{Sig: sig, Raw: sig, Coarse: "wrong-contents", Step: step, At: lab.HexPairs(model),
						What: fmt.Sprintf("route %s step %d: iterator position %d after Seek(%x) is %s, model says %s", spec.Name, step, i, h.k, got, want)}
					break
				}
				if !it.Valid() || i >= h.N {
					break
				}
				it.Next()
				idx++
			}
			it.Close()
			if armed {
				cdb.Disarm()
			}
			if g != nil {
				return res, g
			}
			cnt("op/iterate", 1)
			if injected {
				cnt("fault/failed_ops/"+why, 1)
				failedSince = append(failedSince, why)
				if h.Check {
					cnt("fault/contents_compared_after_failure", 1)
					if g := compareContents(why); g != nil {
						return res, g
					}
				}
			}
		case "rem":
			curOp = "remove"
			if count {
				if model.Has(h.k) {
					switch lab.ClassifyRemovalShape(model.Map(), h.k) {
					case lab.RemovalCollapseToLeaf:
						res.collapse++
					case lab.RemovalCollapseMerge:
						res.collapse++
						res.merges++
					}
				} else {
					cnt("op/remove_absent", 1)
				}
			}
			done, failed, g := tryFaulted(h, "remove", func(ctx context.Context) error { return tree.Remove(ctx, h.k) })
			if g != nil {
				return res, g
			}
			if !done {
				if err = tree.Remove(bg, h.k); err != nil {
					return res, fail("remove", err)
				}
				if failed {
					cnt("fault/retried_ok/remove", 1)
				}
			}
			model.Remove(h.k)
			cnt("op/remove", 1)
		case "commit":
			curOp = "commit"
			if !first {
				version++
			}
			first = false
			wl, root, cerr := tree.Commit(bg, lab.Namespace, version)
			if cerr != nil {
				return res, fail("commit", cerr)
			}
			res.commits++
			res.version = version
			res.root = root
			if !spec.NoWriteLog {
				res.writeLogs = append(res.writeLogs, wl)
			}
			want := hash.Hash(lab.RefRoot(model.Map()))
			if !root.Equal(&want) {
				raw := "c02/refhash-mismatch/" + tag + suffix(model)
				extra := ""
				if len(failedSince) > 0 {
					// The first commit after an operation that returned an injected fault and was retried.
					raw = "c02/root-after-failed-op/" + failedSince[0]
					extra = fmt.Sprintf(" (operations that returned an injected fault since the last verified commit: %v)", failedSince)
				}
				sig := raw
				if family != "" {
					sig = family + "wrong-root"
				}
				return res, &failure{Sig: sig, Raw: raw, Coarse: "wrong-root",
					What: fmt.Sprintf("route %s step %d: commit root %s != reference %s for %d keys%s", spec.Name, step, root, want, model.Len(), extra),
					Step: step, RootA: root.String(), RootB: want.String(), At: lab.HexPairs(model),
					Detail: "root returned by Commit (root_a) differs from the reference root of the contents at this commit (root_b)"}
			}
			if len(failedSince) > 0 {
				cnt("fault/commits_verified_after_failed_ops", 1)
			}
			failedSince = nil
			if ndb != nil && spec.Finalize {
				curOp = "finalize"
				if err = ndb.Finalize([]node.Root{lab.Root(version, root)}); err != nil {
					return res, fail("finalize", err)
				}
				if !spec.NoWriteLog {
					// The log the database serves for this pair of consecutive finalized roots.
					served := wl
					if havePrev && !prevRoot.Equal(&root) {
						curOp = "getwritelog"
						it, gerr := ndb.GetWriteLog(bg, lab.Root(prevVersion, prevRoot), lab.Root(version, root))
						if gerr != nil {
							return res, fail("getwritelog", gerr)
						}
						served = nil
						for {
							more, nerr := it.Next()
							if nerr != nil {
								return res, fail("getwritelog", nerr)
							}
							if !more {
								break
							}
							e, verr := it.Value()
							if verr != nil {
								return res, fail("getwritelog", verr)
							}
							served = append(served, e)
						}
						res.servedCount++
					}
					res.servedLogs = append(res.servedLogs, served)
				}
				havePrev, prevRoot, prevVersion = true, root, version
			}
			if ndb != nil && spec.Reopen {
				curOp = "reopen"
				tree.Close()
				cdb.ResetSeen()
				tree = mkvs.NewWithRoot(nil, treeDB, lab.Root(version, root), opts...)
				cnt("reopens", 1)
			}
		}
	}
	return res, nil
}

// replayCheck runs the history and then replays the returned write logs onto an
// empty tree; the replayed root must be the reference root of the final contents.
func replayCheck(spec *routeSpec, hist []hop, logs []writelog.WriteLog, final *lab.Model) *failure {
	if logs == nil {
		if len(hist) == 0 || hist[len(hist)-1].Op != "commit" {
			hist = append(append([]hop{}, hist...), hop{Op: "commit"})
		}
		res, f := runHistory(spec, hist, false, false)
		if f != nil {
			return nil // a different failure (reported by the route itself)
		}
		logs, final = res.writeLogs, res.model
	}
	want := hash.Hash(lab.RefRoot(final.Map()))
	for _, each := range []bool{true, false} {
		name := "writelog-replay-once"
		if each {
			name = "writelog-replay-commit-each"
		}
		root, err := replayWriteLogs(logs, each)
		if err != nil {
			raw := "c02/route-error/" + name + "/" + spec.Backend + "/cap-" + spec.cap.class + "/" + errClass(err)
			sig := raw
			if errors.Is(err, dbApi.ErrNodeNotFound) {
				// The replay tree has the nop database and the default cache.
				sig = "c02/nop-db-lost-node/" + classifyLostNode(logsAsHistory(logs))
			}
			// Write logs produced under an evicting value cache / a cache below the working set.
			if fam := familyOf(spec.cap.class); fam != "" {
				sig = fam + "wrong-write-log"
			}
			return &failure{Sig: sig, Raw: raw, Coarse: "wrong-write-log", What: "replaying the write logs returned by route " + spec.Name + " failed: " + err.Error(),
				Detail: err.Error(), At: lab.HexPairs(final)}
		}
		if !root.Equal(&want) {
			raw := "c02/refhash-mismatch/" + name + "/" + spec.Backend + "/cap-" + spec.cap.class + suffix(final)
			sig := raw
			if fam := familyOf(spec.cap.class); fam != "" {
				sig = fam + "wrong-write-log"
			}
			return &failure{Sig: sig, Raw: raw, Coarse: "wrong-write-log", What: fmt.Sprintf("write-log replay root %s != reference root %s", root, want),
				RootA: root.String(), RootB: want.String(), At: lab.HexPairs(final), Detail: name + " of the write logs returned by the route's commits"}
		}
	}
	return nil
}

// servedReplayCheck is replayCheck with the logs served by the node database.
func servedReplayCheck(spec *routeSpec, hist []hop, logs []writelog.WriteLog, final *lab.Model) *failure {
	if logs == nil {
		if len(hist) == 0 || hist[len(hist)-1].Op != "commit" {
			hist = append(append([]hop{}, hist...), hop{Op: "commit"})
		}
		res, f := runHistory(spec, hist, false, false)
		if f != nil || res.servedCount == 0 || len(res.servedLogs) != len(res.writeLogs) {
			return nil
		}
		logs, final = res.servedLogs, res.model
	}
	f := replayCheck(spec, nil, logs, final)
	if f != nil {
		f.Sig = strings.Replace(f.Sig, "writelog-replay-", "served-writelog-replay-", 1)
		f.Raw = strings.Replace(f.Raw, "writelog-replay-", "served-writelog-replay-", 1)
		f.What = "logs served by the node database (GetWriteLog) instead of the returned ones: " + f.What
	}
	return f
}

// classifyLostNode names the known trigger of a lost node on the nop database
// with a cache that should never need to evict: an Insert that overwrites a
// committed (clean) leaf with a longer value (cache value-size accounting).
func classifyLostNode(hist []hop) string {
	committed := map[string]int{} // key -> value length at the last commit
	cur := map[string]int{}
	for i := range hist {
		h := &hist[i]
		switch h.Op {
		case "ins":
			if l, ok := committed[string(h.k)]; ok && len(h.v) > l {
				if _, live := cur[string(h.k)]; live {
					return "after-overwrite-of-committed-leaf-with-longer-value"
				}
			}
			cur[string(h.k)] = len(h.v)
		case "rem":
			delete(cur, string(h.k))
		case "commit":
			committed = map[string]int{}
			for k, l := range cur {
				committed[k] = l
			}
		}
	}
	return "other"
}

func logsAsHistory(logs []writelog.WriteLog) []hop {
	var out []hop
	for _, wl := range logs {
		for _, e := range wl {
			if e.Value == nil {
				out = append(out, mkRem(string(e.Key)))
			} else {
				out = append(out, mkIns(string(e.Key), e.Value))
			}
		}
		out = append(out, hop{Op: "commit"})
	}
	return out
}

// Shrinking is done for the first two failures of a signature (and for reclassification
// candidates). evid keeps the first three witnesses per signature in arrival order, so later
// failures of the same signature wait until the shrinking ones have been reported.
type sigState struct{ n, inflight int }

var (
	sigMu   sync.Mutex
	sigCond = sync.NewCond(&sigMu)
	sigTab  = map[string]*sigState{}
)

func enterReport(sig string, force bool) (doShrink bool) {
	sigMu.Lock()
	defer sigMu.Unlock()
	st := sigTab[sig]
	if st == nil {
		st = &sigState{}
		sigTab[sig] = st
	}
	st.n++
	doShrink = st.n <= 2 || force
	if doShrink {
		st.inflight++
		return true
	}
	for st.inflight > 0 {
		sigCond.Wait()
	}
	return false
}

func leaveReport(sig string, didShrink bool) {
	if !didShrink {
		return
	}
	sigMu.Lock()
	sigTab[sig].inflight--
	sigCond.Broadcast()
	sigMu.Unlock()
}

// unlimitedSpec is the same route with Capacity(0,0).
func unlimitedSpec(spec *routeSpec) *routeSpec {
	u := *spec
	u.cap = capacities[1]
	u.Capacity, u.CapClass, u.CapNodes, u.CapValues = u.cap.name, u.cap.class, 0, 0
	return &u
}

// confirmFamily decides membership in a known-finding family. f.Sig is a family signature only
// as a candidate (by the capacity class, see classOf/familyOf); it is kept iff the very same
// history PASSES the same check when replayed once with Capacity(0,0) (no eviction at all), i.e.
// the failure is caused by eviction. Otherwise the failure gets its ordinary signature, so a
// defect that also breaks trees with unlimited caches can never hide in a family.
func confirmFamily(spec *routeSpec, f *failure, pred func(*routeSpec, []hop) *failure) string {
	if familyOf(spec.cap.class) == "" || !strings.HasPrefix(f.Sig, familyOf(spec.cap.class)) {
		return f.Sig
	}
	if pred == nil {
		return f.Raw
	}
	run.Count("family_candidates_replayed_with_unlimited_cache", 1)
	if g := pred(unlimitedSpec(spec), spec.History); g != nil {
		run.Count("family_candidates_failing_with_unlimited_cache_too", 1)
		return f.Raw
	}
	return f.Sig
}

// report raises a violation for a failed history, with a shrunk history when affordable.
func report(caseIdx int, set *lab.Model, ref hash.Hash, spec *routeSpec, f *failure, pred func(*routeSpec, []hop) *failure) {
	w := caseWitness{Seed: run.Seed, Case: caseIdx, Contents: lab.HexPairs(set), RefRoot: ref.String(), Route: spec,
		Step: f.Step, RootA: f.RootA, RootB: f.RootB, AtCommit: f.At, Detail: f.Detail}
	sig := confirmFamily(spec, f, pred)
	// A failure on a database-backed tree with the DEFAULT cache whose history contains the
	// trigger of the value-size accounting underflow (overwrite of a committed leaf with a
	// longer value, after which the cache evicts everything) is always shrunk; if the trigger
	// survives in the minimal history the failure is filed under its own family.
	underflowCandidate := spec.cap.class == "default" && spec.Backend != lab.BackendNop && f.Coarse != "" &&
		f.Coarse != "wrong-contents" && !strings.Contains(f.Sig, "failed-op") &&
		strings.HasPrefix(classifyLostNode(spec.History), "after-overwrite")
	entered := enterReport(sig, underflowCandidate)
	defer leaveReport(sig, entered)
	if entered && pred != nil {
		min := shrink(spec.History, func(h []hop) bool {
			g := pred(spec, h)
			return g != nil && g.Sig == f.Sig
		})
		w.Minimal = min
		w.MinimalFailure = pred(spec, min)
		if underflowCandidate && strings.HasPrefix(classifyLostNode(min), "after-overwrite") {
			sig = "c02/value-size-underflow/" + f.Coarse
		}
	}
	run.Violation(sig, f.What, w)
}

// shrink is a small delta-debugging loop over history steps.
func shrink(hist []hop, fails func([]hop) bool) []hop {
	cur := append([]hop{}, hist...)
	budget := 600
	n := 2
	for len(cur) >= 2 && budget > 0 {
		chunk := (len(cur) + n - 1) / n
		reduced := false
		for start := 0; start < len(cur) && budget > 0; start += chunk {
			end := start + chunk
			if end > len(cur) {
				end = len(cur)
			}
			cand := append(append([]hop{}, cur[:start]...), cur[end:]...)
			budget--
			if fails(cand) {
				cur = cand
				if n > 2 {
					n--
				}
				reduced = true
				break
			}
		}
		if !reduced {
			if chunk == 1 {
				break
			}
			n *= 2
			if n > len(cur) {
				n = len(cur)
			}
		}
	}
	return cur
}

func replayWriteLogs(logs []writelog.WriteLog, commitEach bool) (root hash.Hash, err error) {
	defer func() {
		if p := recover(); p != nil {
			err = fmt.Errorf("panic: %v", p)
		}
	}()
	tree := mkvs.New(nil, nil, node.RootTypeState)
	defer tree.Close()
	version := uint64(0)
	for _, wl := range logs {
		if err = tree.ApplyWriteLog(bg, writelog.NewStaticIterator(wl)); err != nil {
			return root, fmt.Errorf("ApplyWriteLog: %w", err)
		}
		if commitEach {
			if _, root, err = tree.Commit(bg, lab.Namespace, version); err != nil {
				return root, fmt.Errorf("Commit: %w", err)
			}
			version++
		}
	}
	if _, root, err = tree.Commit(bg, lab.Namespace, version); err != nil {
		return root, fmt.Errorf("Commit: %w", err)
	}
	return root, nil
}

// checkpointRoute creates a checkpoint of the final root of a database route
// and restores it into a fresh database of a random kind; the restored tree
// must hold exactly the content set and re-commit to the same root.
func checkpointRoute(caseIdx int, rng *rand.Rand, set *lab.Model, ref hash.Hash, spec *routeSpec, res *routeResult) {
	name := "checkpoint-restore"
	curOp := "checkpoint-create"
	dstKind := []string{lab.BackendBadger, lab.BackendPathBadger}[rng.IntN(2)]
	chunkSize := []uint64{64, 256, 1024, 1 << 20}[rng.IntN(4)]
	threads := uint16([]int{0, 0, 1, 3}[rng.IntN(4)])
	wit := func(detail string) caseWitness {
		return caseWitness{Seed: run.Seed, Case: caseIdx, Contents: lab.HexPairs(set), RefRoot: ref.String(), Route: spec,
			Detail: fmt.Sprintf("%s: src=%s dst=%s chunkSize=%d threads=%d: %s", name, spec.Backend, dstKind, chunkSize, threads, detail)}
	}
	tag := spec.Backend + "-to-" + dstKind
	defer func() {
		if p := recover(); p != nil {
			run.Violation("panic/"+curOp+"/"+tag, fmt.Sprintf("panic in %s: %v", curOp, p), wit(fmt.Sprintf("%v\n%s", p, debug.Stack())))
		}
	}()
	run.Count("routes_executed", 1)
	run.Count("route/"+name, 1)

	dir := filepath.Join(run.Scratch(), fmt.Sprintf("ckpt-%d", ckptSeq.Add(1)))
	defer os.RemoveAll(dir)
	root := lab.Root(res.version, res.root)
	creator, err := checkpoint.NewFileCreator(dir, res.ndb)
	if err != nil {
		run.Inconclusive("NewFileCreator: %v", err)
		return
	}
	cp, err := creator.CreateCheckpoint(bg, root, chunkSize, threads)
	if err != nil {
		run.Violation("c02/route-error/checkpoint-create/"+tag+"/"+errClass(err), "CreateCheckpoint failed: "+err.Error(), wit(err.Error()))
		return
	}
	run.Count("checkpoint_chunks", int64(len(cp.Chunks)))

	curOp = "checkpoint-restore"
	dst, err := lab.OpenDB(dstKind, "")
	if err != nil {
		run.Inconclusive("cannot open %s: %v", dstKind, err)
		return
	}
	defer dst.Close()
	failed := func(op string, err error) {
		run.Violation("c02/route-error/"+op+"/"+tag+"/"+errClass(err), op+" failed: "+err.Error(), wit(err.Error()))
	}
	if err = dst.StartMultipartInsert(root.Version); err != nil {
		failed("checkpoint-start-multipart", err)
		return
	}
	rs, err := checkpoint.NewRestorer(dst)
	if err != nil {
		run.Inconclusive("NewRestorer: %v", err)
		return
	}
	if err = rs.StartRestore(bg, cp); err != nil {
		failed("checkpoint-start-restore", err)
		return
	}
	for ci := range cp.Chunks {
		cm, err := cp.GetChunkMetadata(uint64(ci))
		if err != nil {
			failed("checkpoint-chunk-metadata", err)
			return
		}
		var buf bytes.Buffer
		if err = creator.GetCheckpointChunk(bg, cm, &buf); err != nil {
			failed("checkpoint-get-chunk", err)
			return
		}
		done, err := rs.RestoreChunk(bg, uint64(ci), &buf)
		if err != nil {
			failed("checkpoint-restore-chunk", err)
			return
		}
		if done != (ci == len(cp.Chunks)-1) {
			run.Violation("c02/checkpoint-done-flag/"+tag, "RestoreChunk done flag wrong", wit(fmt.Sprintf("chunk %d of %d done=%v", ci, len(cp.Chunks), done)))
			return
		}
	}
	// As in consensus/cometbft/abci/snapshots.go: Finalize directly ends the multipart insert.
	if err = dst.Finalize([]node.Root{root}); err != nil {
		failed("checkpoint-finalize", err)
		return
	}

	curOp = "checkpoint-readback"
	tree := mkvs.NewWithRoot(nil, dst, root)
	defer tree.Close()
	got := lab.NewModel()
	it := tree.NewIterator(bg)
	for it.Rewind(); it.Valid(); it.Next() {
		got.Insert(append([]byte{}, it.Key()...), append([]byte{}, it.Value()...))
	}
	ierr := it.Err()
	it.Close()
	if ierr != nil {
		failed("checkpoint-iterate", ierr)
		return
	}
	if !got.Equal(set) {
		w := wit("restored contents differ from the content set")
		w.AtCommit = lab.HexPairs(got)
		run.Violation("c02/checkpoint-contents-mismatch/"+tag+suffix(set), "restored tree holds different contents", w)
		return
	}
	_, h, err := tree.Commit(bg, lab.Namespace, root.Version+1)
	if err != nil {
		failed("checkpoint-recommit", err)
		return
	}
	if !h.Equal(&ref) {
		w := wit("re-commit of the restored tree")
		w.RootA = h.String()
		run.Violation("c02/refhash-mismatch/"+name+"/"+tag+suffix(set), fmt.Sprintf("restored tree commits to %s, reference %s", h, ref), w)
	}
}

// ---------------------------------------------------------------------------
// Sensitivity.

func sensitivity(caseIdx int, rng *rand.Rand, set *lab.Model, root hash.Hash) {
	type nb struct {
		kind string
		m    *lab.Model
		k    []byte
	}
	var nbs []nb
	keys := set.Keys()
	// one key added (near an existing key and a fresh one)
	for t := 0; t < 2; t++ {
		for tries := 0; tries < 50; tries++ {
			var k []byte
			if t == 0 && len(keys) > 0 {
				k = lab.GenKeyNear(rng, []byte(keys[rng.IntN(len(keys))]))
			} else {
				k = lab.GenKey(rng)
			}
			if !set.Has(k) {
				m := set.Clone()
				v := lab.GenValue(rng)
				if t == 1 {
					v = []byte{} // added key with the empty value
				}
				m.Insert(k, v)
				nbs = append(nbs, nb{"key-added", m, k})
				break
			}
		}
	}
	if len(keys) > 0 {
		// one key removed
		for t := 0; t < 2; t++ {
			k := []byte(keys[rng.IntN(len(keys))])
			m := set.Clone()
			m.Remove(k)
			nbs = append(nbs, nb{"key-removed", m, k})
		}
		// one value byte changed / value <-> empty value
		for t := 0; t < 3; t++ {
			k := []byte(keys[rng.IntN(len(keys))])
			v := set.Get(k)
			m := set.Clone()
			if len(v) == 0 {
				m.Insert(k, []byte{lab.Alphabet[rng.IntN(len(lab.Alphabet))]})
				nbs = append(nbs, nb{"empty-value-to-nonempty", m, k})
			} else if t == 2 {
				m.Insert(k, []byte{})
				nbs = append(nbs, nb{"value-to-empty", m, k})
			} else {
				w := append([]byte{}, v...)
				w[rng.IntN(len(w))] ^= 1 << uint(rng.IntN(8))
				m.Insert(k, w)
				nbs = append(nbs, nb{"value-bit-flipped", m, k})
			}
		}
		// value moved to a neighbouring key (same multiset of values, other keys)
		if len(keys) >= 2 {
			a, b := rng.IntN(len(keys)), rng.IntN(len(keys))
			ka, kb := []byte(keys[a]), []byte(keys[b])
			if a != b && !bytes.Equal(set.Get(ka), set.Get(kb)) {
				m := set.Clone()
				va, vb := set.Get(ka), set.Get(kb)
				m.Insert(ka, vb)
				m.Insert(kb, va)
				nbs = append(nbs, nb{"values-swapped", m, ka})
			}
		}
	}
	for _, n := range nbs {
		func() {
			defer func() {
				if p := recover(); p != nil {
					run.Violation("panic/sensitivity/"+n.kind, fmt.Sprintf("panic: %v", p), caseWitness{Seed: run.Seed, Case: caseIdx, Contents: lab.HexPairs(n.m), Detail: string(debug.Stack())})
				}
			}()
			// Build the neighbour on the real tree from the set's tree by one more operation
			// when possible (cheaper and a different history), else from scratch.
			tree := mkvs.New(nil, nil, node.RootTypeState)
			defer tree.Close()
			for _, k := range lab.Shuffle(rng, n.m.Keys()) {
				if err := tree.Insert(bg, []byte(k), n.m.Get([]byte(k))); err != nil {
					run.Violation("c02/route-error/insert/nop/sensitivity/"+errClass(err), err.Error(), caseWitness{Seed: run.Seed, Case: caseIdx, Contents: lab.HexPairs(n.m)})
					return
				}
			}
			_, h, err := tree.Commit(bg, lab.Namespace, 0)
			if err != nil {
				run.Violation("c02/route-error/commit/nop/sensitivity/"+errClass(err), err.Error(), caseWitness{Seed: run.Seed, Case: caseIdx, Contents: lab.HexPairs(n.m)})
				return
			}
			run.Count("neighbours_checked", 1)
			run.Count("neighbour/"+n.kind, 1)
			want := hash.Hash(lab.RefRoot(n.m.Map()))
			if !h.Equal(&want) {
				run.Violation("c02/refhash-mismatch/nop/neighbour-"+n.kind+suffix(n.m), fmt.Sprintf("neighbour root %s != reference %s", h, want),
					caseWitness{Seed: run.Seed, Case: caseIdx, Contents: lab.HexPairs(n.m), RootA: h.String(), RefRoot: want.String()})
			}
			if h.Equal(&root) {
				run.Violation("c02/insensitive/"+n.kind+suffix(set), fmt.Sprintf("different contents (%s, key %x) give the same root %s", n.kind, n.k, h),
					caseWitness{Seed: run.Seed, Case: caseIdx, Contents: lab.HexPairs(set), RootA: root.String(), RootB: h.String(), AtCommit: lab.HexPairs(n.m), Detail: n.kind + " key=" + lab.Hex(n.k)})
			}
		}()
	}
}

// ---------------------------------------------------------------------------
// Canary: a fixed minimal witness (badger backend, tree-level symptom) of the open finding "node cache capacity below the working
// set of one operation", executed at start-up so that its signatures are reported by every run
// independently of the seed. They go through the same classification rule as generated routes
// (class "tiny" iff 0 < node capacity < 2D+4) and are silent once the defect is gone.

type canaryStep struct{ op, k, v string }

func canaryHistory(steps []canaryStep) []hop {
	var out []hop
	for _, st := range steps {
		k, _ := hex.DecodeString(st.k)
		v, _ := hex.DecodeString(st.v)
		switch st.op {
		case "ins":
			out = append(out, mkIns(string(k), append([]byte{}, v...)))
		case "rem":
			out = append(out, mkRem(string(k)))
		default:
			out = append(out, hop{Op: "commit"})
		}
	}
	return out
}

func runCanaries() {
	type canary struct {
		name        string
		backend     string
		nodes, vals uint64 // mkvs.Capacity(nodes, vals)
		startVer    uint64
		finalize    bool
		reopen      bool
		noWriteLog  bool
		steps       []canaryStep
	}
	canaries := []canary{
		{"tiny-cache-wrong-root", lab.BackendBadger, 1, 1, 1000, true, false, false, []canaryStep{
			{"ins", "61ff007f7f", "7f7f"}, {"ins", "7f618000", "6162"}, {"ins", "", "ffff61"}, {"commit", "", ""},
			{"rem", "7f618000", ""}, {"commit", "", ""},
		}},
		{"value-cache-wrong-root", lab.BackendBadger, 0, 150, 1000, false, true, false, []canaryStep{
			{"ins", "7fff018001", "61"}, {"ins", "00", ""}, {"commit", "", ""},
			{"ins", "0080", "62"}, {"rem", "7f000080ff", ""}, {"commit", "", ""},
		}},
	}
	for ci, c := range canaries {
		spec := &routeSpec{Name: "canary-" + c.name, Backend: c.backend, Style: "fixed", Batching: "fixed", Capacity: "custom",
			StartVer: c.startVer, Finalize: c.finalize, Reopen: c.reopen, NoWriteLog: c.noWriteLog, History: canaryHistory(c.steps)}
		spec.cap, spec.WorkingSetNodes = fitCapacity(capacity{name: "custom", set: true, nodes: c.nodes, vals: c.vals}, spec.History)
		spec.CapClass, spec.CapNodes, spec.CapValues = spec.cap.class, spec.cap.nodes, spec.cap.vals
		run.Eval(1)
		run.Count("canary_cases", 1)
		pred := func(sp *routeSpec, h []hop) *failure {
			_, g := runHistory(sp, h, false, false)
			return g
		}
		f := pred(spec, spec.History)
		if f == nil {
			run.Count("canary_cases_passed", 1)
			continue
		}
		run.Violation(confirmFamily(spec, f, pred), "canary "+c.name+": "+f.What, caseWitness{Seed: run.Seed, Case: -1 - ci, Route: spec, Step: f.Step,
			RootA: f.RootA, RootB: f.RootB, AtCommit: f.At, Detail: f.Detail, Minimal: spec.History, MinimalFailure: f})
	}
}

// ---------------------------------------------------------------------------
// Replay: re-runs the case named in a witness file (cases are functions of
// (seed, case index) only).

func replay(file string) {
	b, err := os.ReadFile(file)
	if err != nil {
		fmt.Fprintln(os.Stderr, err)
		os.Exit(2)
	}
	var doc struct {
		Seed    int64  `json:"seed"`
		Tier    string `json:"tier"`
		Witness struct {
			Seed int64 `json:"seed"`
			Case int   `json:"case"`
		} `json:"witness"`
	}
	if err := jsonUnmarshal(b, &doc); err != nil {
		fmt.Fprintln(os.Stderr, err)
		os.Exit(2)
	}
	run.Seed = doc.Witness.Seed
	if doc.Tier != "" {
		run.Tier = doc.Tier
	}
	if doc.Witness.Case < 0 {
		fmt.Println("replaying the canaries")
		runCanaries()
	} else {
		fmt.Printf("replaying case %d of seed %d\n", doc.Witness.Case, run.Seed)
		runCase(doc.Witness.Case)
	}
	run.Nontrivial("replay-1")
	run.Nontrivial("replay-2")
	run.Finish(0)
}

func jsonUnmarshal(b []byte, v any) error { return json.Unmarshal(b, v) }

// nilIfEmpty passes an empty value as a NIL slice for the keys of even length: Insert documents a nil
// value as the empty value, so the model is unchanged (a function of the key, no PRNG draw).
func nilIfEmpty(k, v []byte) []byte {
	if v != nil && len(v) == 0 && len(k)%2 == 0 {
		return nil
	}
	return v
}
