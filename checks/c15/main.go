// C15 — escrow shares are fair: no value is created or taken by rounding.
//
// Level 1 (engine/sharelab): exact big-integer inequalities over random and
// boundary Deposit/Withdraw/reward/slash sequences on the SharePool API.
// Level 2 (this file + chainsim.EscrowMonitor): in generated chain histories,
// no other delegator's redeemable value falls through anybody's transaction,
// share price falls only with TakeEscrow events, slashing takes the same
// fraction of both pools, and every reclaimed delegation is paid exactly once,
// at the first epoch transition at or after its debonding end epoch, at the
// debonding pool's price.
package main

import (
	"fmt"
	"time"

	"verif/engine/chainsim"
	"verif/engine/evid"
	"verif/engine/sharelab"
)

func runCase(c chainsim.Case, rep chainsim.Reporter, scratch string) {
	em := &chainsim.EscrowMonitor{Rep: rep}
	rec := &chainsim.Recorder{Steps: true, TxSubs: []chainsim.TxMonitor{em}, StepSubs: []chainsim.StepMonitor{em}}
	h, err := chainsim.NewHistory(chainsim.HistoryConfig{Seed: c.Seed, Profile: c.Profile, Blocks: c.Blocks}, rec, em)
	if err != nil {
		rep.Inconclusive("setup failed: " + err.Error())
		return
	}
	h.Run()
	chainsim.ReportCommon(h, rep)
	rep.Count("l2.transactions_checked", int64(em.TxChecked))
	rep.Count("l2.delegator_pool_pairs_checked", int64(em.PairsChecked))
	rep.Count("l2.reclaims_tracked", int64(em.Reclaims))
	rep.Count("l2.debonding_payments", int64(em.Payments))
	rep.Count("l2.slashes", int64(em.Slashes))
	rep.Count("l2.slash_fraction_checks", int64(em.SlashFractionChecks))
	rep.Count("l2.share_price_drops_seen", int64(em.PriceDrops))
	for _, p := range h.Panics {
		rep.Inconclusive("history ended by a panic (see C10): " + p.Error())
	}
	if em.Reclaims >= 3 && em.Payments >= 2 && em.Slashes >= 1 {
		rep.Nontrivial(fmt.Sprintf("l2/%s/%d", c.Profile, c.Seed))
	}
	if c.Index < 2 {
		rep.Sample(map[string]any{"level": 2, "params": h.Sc.P, "blocks": h.Height, "reclaims": em.Reclaims, "payments": em.Payments, "slashes": em.Slashes})
	}
	h.Close()
	h.CloseBuilder()
}

func main() {
	chainsim.Main(chainsim.CheckSpec{
		ID:    "C15",
		Level: "exploration",
		Rule: "level 1: random/boundary sequences of SharePool.Deposit/Withdraw by many delegators with rewards and slashes, checked with exact integer cross-multiplication (mint and redemption at most pro rata, nobody else's floor(s*B/T) falls, sum of redeemable <= balance, money pump, conservation; non-trivial = sequence with an inexact floor and >=2 delegators); " +
			"level 2: generated chain histories (escrow, reclaim, rewards with commission, evidence slashing, debonding interval changes by governance) with state dumps around every transaction and staking step: other delegators' redeemable value never falls through a transaction, share price falls only in blocks with a TakeEscrow event for that account, a slash takes the same fraction of active and debonding balance (up to one base unit each), reclaimed delegations are paid once, at the first epoch transition with epoch >= debonding end, at floor(shares*balance/totalShares) of the debonding pool; non-trivial(l2) = history with >=3 reclaims, >=2 payments, >=1 slash",
		Cases: func(r *evid.Run) []chainsim.Case {
			return chainsim.StdCases(r.Seed, r.Pick(128, 1600), r.Pick(60, 120), []string{"hostile", "default", "hostile", "election"})
		},
		RunCase: runCase,
		Floor:   60,
		Timeout: 10 * time.Minute,
		Extra:   func(r *evid.Run) { sharelab.RunLevel1(r) },
	})
}
