package main

// Oracle (2): the reference decision function.
//
// Written from the statement of property C11 and from the doc comments of
// roothash/api/commitment (not from the control flow of pool.go). It sees only
// the event log summary (which submissions were accepted, whether a
// discrepancy was declared before) and the committee description.
//
// Where the statement leaves the behaviour free ("keeps waiting, starts
// discrepancy resolution, or fails") the documented semantics are followed;
// each such choice is listed as an assumption in main.go (assumptions A1-A5).

// Outcome classes.
const (
	clsFinalized = iota
	clsWaiting
	clsDiscrepancy
	clsFailed
	clsOther // impl only: an error outside the documented set
	clsPanic // impl only
)

var clsName = [...]string{"finalized", "waiting", "discrepancy", "failed", "other-error", "panic"}

// Vote kinds recorded in the log.
const (
	kNone = uint8(0)
	kA    = uint8(1) // result A
	kB    = uint8(2) // result B
	kF    = uint8(3) // failure-indicating commitment
)

// refDecision is what the rule says a processing call must answer.
type refDecision struct {
	class  int
	sched  int   // chosen scheduler (worker index), -1 if none
	result uint8 // kA / kB when finalized
}

// refDecide evaluates the rule over the accepted votes.
func refDecide(c *comm, l *logState, timeout bool) refDecision {
	// The chosen proposal: best rank among the schedulers whose own
	// commitment to their proposal was accepted.
	chosen := -1
	for w := 0; w < c.P; w++ {
		if v := l.votes[w][w]; v == kA || v == kB {
			if chosen < 0 || c.rank[w] < c.rank[chosen] {
				chosen = w
			}
		}
	}
	if chosen < 0 { // nothing proposed: wait, fail once the timer expired
		if timeout {
			return refDecision{clsFailed, -1, 0}
		}
		return refDecision{clsWaiting, -1, 0}
	}
	x := l.votes[chosen][chosen]

	if !l.disc {
		// Primary phase: unanimity among the primary workers.
		agree, dissent, fail := 0, 0, 0
		for w := 0; w < c.P; w++ {
			switch v := l.votes[chosen][w]; {
			case v == kNone:
			case v == kF:
				fail++
			case v == x:
				agree++
			default:
				dissent++
			}
		}
		switch {
		case dissent > 0 || fail > c.S:
			// Discrepancy; proposals of backup schedulers (rank > 0) have to
			// wait for the round timeout before it is declared.
			if c.rank[chosen] == 0 || timeout {
				return refDecision{clsDiscrepancy, chosen, 0}
			}
			return refDecision{clsWaiting, chosen, 0}
		case agree >= c.P-c.S:
			return refDecision{clsFinalized, chosen, x}
		case timeout:
			return refDecision{clsDiscrepancy, chosen, 0}
		}
		return refDecision{clsWaiting, chosen, 0}
	}

	// Resolution phase: strict majority of the backup workers.
	var cnt [4]int
	present := 0
	for n := 0; n < c.N; n++ {
		if v := l.votes[chosen][n]; c.isBackup[n] && v != kNone {
			cnt[v]++
			present++
		}
	}
	top := kA
	if cnt[kB] > cnt[kA] {
		top = kB
	}
	missing := c.B - present
	switch {
	case 2*cnt[top] > c.B:
		if top == x {
			return refDecision{clsFinalized, chosen, x}
		}
		return refDecision{clsFailed, chosen, 0} // majority contradicts the proposal
	case 2*(cnt[top]+missing) <= c.B:
		return refDecision{clsFailed, chosen, 0} // majority out of reach
	case timeout:
		return refDecision{clsFailed, chosen, 0}
	}
	return refDecision{clsWaiting, chosen, 0}
}
