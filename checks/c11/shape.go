package main

import (
	"context"
	"crypto/sha512"
	"fmt"

	"github.com/oasisprotocol/oasis-core/go/common"
	"github.com/oasisprotocol/oasis-core/go/common/crypto/hash"
	"github.com/oasisprotocol/oasis-core/go/common/crypto/signature"
	memorySigner "github.com/oasisprotocol/oasis-core/go/common/crypto/signature/signers/memory"
	registry "github.com/oasisprotocol/oasis-core/go/registry/api"
	"github.com/oasisprotocol/oasis-core/go/roothash/api/block"
	"github.com/oasisprotocol/oasis-core/go/roothash/api/commitment"
	"github.com/oasisprotocol/oasis-core/go/roothash/api/message"
	scheduler "github.com/oasisprotocol/oasis-core/go/scheduler/api"
)

const (
	maxNodes  = 8 // at most 4 + 3 distinct members plus one outsider
	maxScheds = 5 // at most 4 workers plus one "scheduler" that is not a worker
	lastRound = 2 // the commitments are for round 3, as in pool_test.go
)

// comm is the committee description both oracles use (no pool internals).
type comm struct {
	P, B, S  int
	Overlap  []int // worker indices that are backup workers as well
	N        int   // number of distinct member nodes; node index N is the outsider
	isBackup [maxNodes]bool
	rank     [maxScheds]int // scheduler rank per worker index (for round 3); -1: not a scheduler
}

type template struct {
	node, sched int // node index; scheduler slot (worker index, or P = the non-worker "scheduler")
	kind        uint8
	ec          *commitment.ExecutorCommitment
}

// shape is one committee shape with everything needed to drive the real pool.
type shape struct {
	comm
	idx          int
	keys         []signature.PublicKey // node index -> key (N+1 entries)
	nodeIdx      map[signature.PublicKey]int
	committee    *scheduler.Committee
	schedNode    [maxScheds]int // scheduler slot -> node index
	tmpl         []*template    // templates that passed VerifyExecutorCommitment
	tmplIdx      map[*commitment.ExecutorCommitment]int
	hashA, hashB hash.Hash
	verifyReject map[string]int // templates refused by VerifyExecutorCommitment, by reason
	registryOK   bool           // the (P,B,S) triple passes registry ExecutorParameters.ValidateBasic
}

func (s *shape) String() string {
	return fmt.Sprintf("P%d-B%d-S%d-O%v", s.P, s.B, s.S, s.Overlap)
}

func (s *shape) nodeName(n int) string {
	switch {
	case n == s.N:
		return "outsider"
	case n < s.P && s.isBackup[n]:
		return fmt.Sprintf("w%d+backup", n)
	case n < s.P:
		return fmt.Sprintf("w%d", n)
	}
	return fmt.Sprintf("b%d", n-s.P)
}

func (s *shape) schedName(slot int) string {
	if slot < s.P {
		return fmt.Sprintf("w%d(rank%d)", slot, s.rank[slot])
	}
	return s.nodeName(s.schedNode[slot]) + "(no-scheduler)"
}

var (
	signers   []signature.Signer
	runtimeID common.Namespace
	lastBlock *block.Block
	runtimeD  *registry.Runtime
)

func initGlobals() {
	// Chain domain separation context, required for signing commitments.
	var cc hash.Hash
	cc.FromBytes([]byte("verif: c11 chain context"))
	signature.SetChainContext(cc.String())
	for i := 0; i <= maxNodes; i++ {
		seed := sha512.Sum512_256([]byte(fmt.Sprintf("verif-c11-node-%d", i)))
		sg, err := memorySigner.NewFromSeed(seed[:])
		if err != nil {
			panic(err)
		}
		signers = append(signers, sg)
	}
	lastBlock = block.NewGenesisBlock(runtimeID, 0)
	lastBlock.Header.Round = lastRound
	runtimeD = &registry.Runtime{ID: runtimeID}
	runtimeD.Executor.MaxMessages = 32
}

// subsets returns all subsets of {0..n-1} with at most k elements, in a fixed order.
func subsets(n, k int) [][]int {
	var out [][]int
	for m := 0; m < 1<<n; m++ {
		var s []int
		for i := 0; i < n; i++ {
			if m&(1<<i) != 0 {
				s = append(s, i)
			}
		}
		if len(s) <= k {
			out = append(out, s)
		}
	}
	return out
}

// allShapes enumerates the committee shapes of the scope.
func allShapes(maxP, maxB, maxS, maxOverlap int) []*shape {
	var out []*shape
	for p := 1; p <= maxP; p++ {
		for b := 0; b <= maxB; b++ {
			k := maxOverlap
			if b < k {
				k = b
			}
			for _, ov := range subsets(p, k) {
				for s := 0; s <= maxS; s++ {
					sh := newShape(p, b, s, ov)
					sh.idx = len(out)
					out = append(out, sh)
				}
			}
		}
	}
	return out
}

func newShape(p, b, s int, overlap []int) *shape {
	sh := &shape{nodeIdx: map[signature.PublicKey]int{}, tmplIdx: map[*commitment.ExecutorCommitment]int{}, verifyReject: map[string]int{}}
	sh.P, sh.B, sh.S, sh.Overlap = p, b, s, overlap
	sh.N = p + b - len(overlap)
	for i := 0; i <= sh.N; i++ {
		sh.keys = append(sh.keys, signers[i].Public())
		sh.nodeIdx[signers[i].Public()] = i
	}
	c := &scheduler.Committee{Kind: scheduler.KindComputeExecutor, RuntimeID: runtimeID}
	for i := 0; i < p; i++ {
		c.Members = append(c.Members, &scheduler.CommitteeNode{Role: scheduler.RoleWorker, PublicKey: sh.keys[i]})
	}
	for _, w := range overlap {
		sh.isBackup[w] = true
		c.Members = append(c.Members, &scheduler.CommitteeNode{Role: scheduler.RoleBackupWorker, PublicKey: sh.keys[w]})
	}
	for i := p; i < sh.N; i++ {
		sh.isBackup[i] = true
		c.Members = append(c.Members, &scheduler.CommitteeNode{Role: scheduler.RoleBackupWorker, PublicKey: sh.keys[i]})
	}
	sh.committee = c
	ep := registry.ExecutorParameters{GroupSize: uint16(p), GroupBackupSize: uint16(b), AllowedStragglers: uint16(s), RoundTimeout: 5}
	sh.registryOK = ep.ValidateBasic() == nil

	// Scheduler slots and their ranks (trusted: Committee.SchedulerRank).
	for w := 0; w < p; w++ {
		rk, ok := c.SchedulerRank(lastRound+1, sh.keys[w])
		if !ok {
			panic("worker without scheduler rank")
		}
		sh.rank[w] = int(rk)
		sh.schedNode[w] = w
	}
	sh.rank[p] = -1
	sh.schedNode[p] = sh.N // outsider as "scheduler" ...
	if sh.N > p {
		sh.schedNode[p] = p // ... or a backup-only member when there is one
	}

	// Results A and B differ in the state root.
	blk := block.NewEmptyBlock(lastBlock, 1, block.Normal)
	msgsHash := message.MessagesHash(nil)
	inMsgsHash := message.InMessagesHash(nil)
	rootA := blk.Header.StateRoot
	rootB := hash.NewFromBytes([]byte("verif c11: state root of result B"))
	mk := func(node, slot int, kind uint8) *commitment.ExecutorCommitment {
		ec := &commitment.ExecutorCommitment{
			NodeID: sh.keys[node],
			Header: commitment.ExecutorCommitmentHeader{
				SchedulerID: sh.keys[sh.schedNode[slot]],
				Header: commitment.ComputeResultsHeader{
					Round:        blk.Header.Round,
					PreviousHash: blk.Header.PreviousHash,
				},
			},
		}
		switch kind {
		case kF:
			ec.Header.Failure = commitment.FailureUnknown
		default:
			root := rootA
			if kind == kB {
				root = rootB
			}
			ioRoot := blk.Header.IORoot
			mh, imh := msgsHash, inMsgsHash
			ec.Header.Header.IORoot = &ioRoot
			ec.Header.Header.StateRoot = &root
			ec.Header.Header.MessagesHash = &mh
			ec.Header.Header.InMessagesHash = &imh
		}
		if err := ec.Sign(signers[node], runtimeID); err != nil {
			panic(err)
		}
		return ec
	}
	sh.hashA = mk(0, 0, kA).ToVote()
	sh.hashB = mk(0, 0, kB).ToVote()

	for node := 0; node <= sh.N; node++ {
		for slot := 0; slot <= p; slot++ {
			for _, kind := range []uint8{kA, kB, kF} {
				ec := mk(node, slot, kind)
				// The consensus application verifies every commitment before it hands it to the
				// pool; the harness does the same (once per template: the verification does not
				// depend on the pool).
				if err := commitment.VerifyExecutorCommitment(context.Background(), lastBlock, runtimeD, 0, ec, nil, nil); err != nil {
					reason := "other:" + err.Error()
					if kind == kF && sh.schedNode[slot] == node {
						reason = "scheduler-failure"
					}
					sh.verifyReject[reason]++
					continue
				}
				sh.tmplIdx[ec] = len(sh.tmpl)
				sh.tmpl = append(sh.tmpl, &template{node: node, sched: slot, kind: kind, ec: ec})
			}
		}
	}
	return sh
}

func (s *shape) tmplName(ti int) string {
	t := s.tmpl[ti]
	return fmt.Sprintf("%s votes %c for proposal of %s", s.nodeName(t.node), " ABF"[t.kind], s.schedName(t.sched))
}
