package main

import "fmt"

// Counters kept per engine and merged into the evidence at the end.
const (
	stStates = iota
	stSubmit
	stProcess
	stAccepted
	stAcceptedNoScheduler
	stRejNotInCommittee
	stRejAlreadyCommitted
	stRejBadCommitment
	stRejOther
	stRejDuplicate
	stRejNonMember
	stRejChangedPool
	stDiscTransition
	stFinalized
	stFinUnanimity
	stFinBackup
	stFinBestOfSeveral
	stWaiting
	stDiscrepancy
	stFailNoSched
	stFailBadSched
	stFailInsufficient
	stNonWaitStates
	stModelCompared
	stErrWithSC
	nStat
)

var statName = [nStat]string{
	"states_distinct_pool_and_log", "submissions", "process_calls",
	"submit/accepted", "submit/accepted_vote_for_non_scheduler_proposal",
	"submit/rejected/not-in-committee", "submit/rejected/already-committed", "submit/rejected/bad-executor-commitment", "submit/rejected/other-error",
	"submit/rejected_duplicates", "submit/rejected_non_members", "submit/rejected_but_pool_changed",
	"discrepancy_transitions_followed",
	"outcome/finalized", "finalized/via_unanimity_clause", "finalized/via_backup_majority_clause", "finalized/with_several_committed_schedulers",
	"outcome/waiting", "outcome/discrepancy_detected",
	"outcome/failed/no-scheduler-commitment", "outcome/failed/bad-scheduler-commitment", "outcome/failed/insufficient-votes",
	"decisions_other_than_waiting", "model_comparisons", "error_returned_with_non_nil_commitment",
}

type stats struct{ c [nStat]int64 }

// judge applies both oracles to one answer of ProcessCommitments. It returns
// an empty signature when the answer is in line with the property.
//
// Oracle (1) evaluates the clauses of the statement as post-conditions over
// the event log l; oracle (2) compares the outcome class with refDecide.
func (s *shape) judge(l *logState, timeout bool, o *implOutcome, st *stats) (sig, what string) {
	st.c[stProcess]++
	// ---- oracle (1): post-conditions over the event log.
	switch o.class {
	case clsPanic:
		return "panic/ProcessCommitments", o.panicMsg
	case clsOther:
		return "c11/unexpected-error/" + o.errName, "ProcessCommitments answered an error that is neither waiting, discrepancy nor one of the failing errors"
	case clsWaiting:
		st.c[stWaiting]++
		if timeout {
			return "c11/waits-after-timeout", "ProcessCommitments(timeout=true) answered ErrStillWaiting"
		}
	case clsDiscrepancy:
		st.c[stDiscrepancy]++
	case clsFailed:
		switch o.errName {
		case "no-scheduler-commitment":
			st.c[stFailNoSched]++
		case "bad-scheduler-commitment":
			st.c[stFailBadSched]++
		default:
			st.c[stFailInsufficient]++
		}
	case clsFinalized:
		st.c[stFinalized]++
		if sig, what = s.judgeFinalized(l, o, st); sig != "" {
			return sig, what
		}
	}
	if o.class != clsFinalized && o.sc != nil {
		st.c[stErrWithSC]++
	}
	if o.class != clsWaiting {
		st.c[stNonWaitStates]++
	}

	// ---- oracle (2): the reference decision function.
	st.c[stModelCompared]++
	m := refDecide(&s.comm, l, timeout)
	if m.class != o.class {
		return "c11/model-mismatch/" + clsName[o.class] + "-vs-" + clsName[m.class],
			fmt.Sprintf("implementation: %s; rule: %s", o.String(), clsName[m.class])
	}
	if m.class == clsFinalized && (m.sched != o.schedNode || m.result != o.result) {
		return "c11/model-mismatch/finalized-vs-finalized-other-proposal",
			fmt.Sprintf("implementation: %s; rule: finalized(scheduler node %d, result %c)", o.String(), m.sched, " ABF"[m.result])
	}
	return "", ""
}

func (s *shape) judgeFinalized(l *logState, o *implOutcome, st *stats) (sig, what string) {
	sc := o.sc
	if sc == nil || sc.Commitment == nil {
		return "c11/finalized-without-proposal", "nil error but no scheduler commitment returned"
	}
	c := o.schedNode
	if c < 0 || c >= s.P {
		return "c11/finalized-for-non-scheduler", "the chosen scheduler is not a primary worker of the committee"
	}
	if !sc.Commitment.NodeID.Equal(sc.Commitment.Header.SchedulerID) {
		return "c11/finalized-without-proposal/not-schedulers-own-commitment", "returned commitment is not the scheduler's own"
	}
	x := o.result
	if x != kA && x != kB {
		return "c11/finalized-without-proposal/result-unknown", "the returned commitment carries no known result (failure-indicating or foreign hash)"
	}
	if l.votes[c][c] != x {
		return "c11/finalized-result-not-accepted", "the returned proposal was never accepted as a submission according to the event log"
	}
	// Non-members never count; every counted vote was accepted once, with that content.
	for pk, v := range sc.Votes {
		n, ok := s.nodeIdx[pk]
		if !ok || n >= s.N {
			return "c11/non-member-counted", "the vote tally of the finalized proposal contains a node that is not a committee member"
		}
		if l.votes[c][n] != s.classify(v) {
			return "c11/counted-vote-not-accepted", fmt.Sprintf("tally holds vote %c of %s, the log has %c", " ABF????"[s.classify(v)&7], s.nodeName(n), " ABF"[l.votes[c][n]])
		}
	}
	// A lower-priority proposal is never preferred over a committed higher-priority one.
	committed := 0
	for w := 0; w < s.P; w++ {
		if v := l.votes[w][w]; v == kA || v == kB {
			committed++
			if s.rank[w] < s.rank[c] {
				return "c11/lower-rank-preferred", fmt.Sprintf("finalized the proposal of %s although %s committed", s.schedName(c), s.schedName(w))
			}
		}
	}
	if committed > 1 {
		st.c[stFinBestOfSeveral]++
	}
	// Unanimity clause over the primary votes received for the chosen proposal.
	agree, dissent, fail := 0, 0, 0
	for w := 0; w < s.P; w++ {
		switch v := l.votes[c][w]; {
		case v == kNone:
		case v == kF:
			fail++
		case v == x:
			agree++
		default:
			dissent++
		}
	}
	unanimity := dissent == 0 && fail <= s.S && agree >= s.P-s.S
	// Backup-majority clause (only after a discrepancy).
	backing := 0
	for n := 0; n < s.N; n++ {
		if s.isBackup[n] && l.votes[c][n] == x {
			backing++
		}
	}
	majority := l.disc && 2*backing > s.B
	switch {
	case !l.disc && unanimity:
		st.c[stFinUnanimity]++
	case majority:
		st.c[stFinBackup]++
	case unanimity:
		// Literal reading of the statement: the unanimity clause is not restricted to the time
		// before a discrepancy (assumption A11).
		st.c[stFinUnanimity]++
	case l.disc:
		return "c11/finalized-without-quorum/backup-majority",
			fmt.Sprintf("after a discrepancy: %d of %d backup workers voted for the finalized result (primary: %d agree, %d dissent, %d failures)", backing, s.B, agree, dissent, fail)
	default:
		return "c11/finalized-without-quorum/unanimity",
			fmt.Sprintf("no discrepancy declared: primary votes %d agree, %d dissent, %d failures; size %d, allowed stragglers %d", agree, dissent, fail, s.P, s.S)
	}
	return "", ""
}
