// Check C11: a runtime round finalizes only with unanimity or backup majority.
//
// Drives the exported commitment.Pool (AddVerifiedExecutorCommitment,
// ProcessCommitments) with real, signed and verified executor commitments and
// decides with two oracles (oracle.go: post-conditions over the event log;
// model.go: a reference decision function written from the statement).
package main

import (
	"encoding/json"
	"fmt"
	"math/rand/v2"
	"os"
	"runtime/debug"
	"sort"
	"sync/atomic"

	"verif/engine/chainsim"
	"verif/engine/evid"
)

type scope struct {
	maxP, maxB, maxS, maxOverlap int
	lenAll, lenPair              int // E1 / E2 sequence lengths
	walks                        int // sampled long sequences per shape
}

type caseDef struct {
	sh      *shape
	name    string
	allowed []int
	maxLen  int
	cost    float64
	visited *visitedSet
	pending atomic.Int64
}

func buildCases(shapes []*shape, sc scope) []*caseDef {
	var out []*caseDef
	pow := func(b float64, n int) float64 {
		r := 1.0
		for i := 0; i < n; i++ {
			r *= b
		}
		return r
	}
	for _, sh := range shapes {
		// E1: every template of the shape (all scheduler ranks at once, the non-scheduler "proposal",
		// the outsider), sequences of at most lenAll submissions.
		all := make([]int, len(sh.tmpl))
		for i := range all {
			all[i] = i
		}
		out = append(out, &caseDef{sh: sh, name: "E1/all-ranks", allowed: all, maxLen: sc.lenAll, cost: pow(float64(len(all)), sc.lenAll)})
		// E2: proposals of at most two schedulers (every pair of ranks), every node incl. the outsider,
		// sequences of at most lenPair submissions.
		for i := 0; i < sh.P; i++ {
			for j := i; j < sh.P; j++ {
				if i == j && sh.P > 1 {
					continue // single proposals are contained in the pairs
				}
				var al []int
				for ti, t := range sh.tmpl {
					if t.sched == i || t.sched == j {
						al = append(al, ti)
					}
				}
				out = append(out, &caseDef{sh: sh, name: fmt.Sprintf("E2/proposals-of-w%d-w%d", i, j), allowed: al, maxLen: sc.lenPair, cost: pow(float64(len(al)), sc.lenPair)})
			}
		}
	}
	sort.SliceStable(out, func(a, b int) bool { return out[a].cost > out[b].cost })
	return out
}

// randomScript draws one long sequence (sampled part of the scope).
func randomScript(sh *shape, rng *rand.Rand) []int32 {
	n := 6 + rng.IntN(7)
	f, g := rng.IntN(sh.P), rng.IntN(sh.P)
	major := kA + uint8(rng.IntN(2))
	// Index templates by (node, sched, kind).
	find := func(node, slot int, kind uint8) int32 {
		for ti, t := range sh.tmpl {
			if t.node == node && t.sched == slot && t.kind == kind {
				return int32(ti)
			}
		}
		return -100 // refused by verification (scheduler failure)
	}
	var out []int32
	for len(out) < 3*n && n > 0 {
		slot := f
		switch x := rng.IntN(100); {
		case x < 25:
			slot = g
		case x < 37:
			slot = rng.IntN(sh.P + 1)
		}
		node := rng.IntN(sh.N)
		if rng.IntN(100) < 5 {
			node = sh.N
		}
		if rng.IntN(100) < 18 {
			node = sh.schedNode[slot] // schedulers have to commit for anything to happen
		}
		kind := major
		switch x := rng.IntN(100); {
		case x < 18:
			kind = kA + kB - major
		case x < 33:
			kind = kF
		}
		ti := find(node, slot, kind)
		if ti < 0 {
			continue
		}
		out = append(out, ti)
		n--
		if rng.IntN(100) < 45 {
			out = append(out, actProcess)
		}
		if rng.IntN(100) < 12 {
			out = append(out, actProcessTimeout)
		}
		if rng.IntN(100) < 20 {
			out = append(out, actRoundtrip)
		}
	}
	return out
}

func find(sh *shape, node, slot int, kind uint8) int32 {
	for ti, t := range sh.tmpl {
		if t.node == node && t.sched == slot && t.kind == kind {
			return int32(ti)
		}
	}
	panic("no such template")
}

// writeSamples runs a few fixed scripts of the scope and writes their traces to the evidence.
func writeSamples(r *evid.Run) {
	sh := newShape(3, 2, 1, []int{2}) // workers w0 w1 w2, backups w2 and b0; round 3: rank(w0)=0
	type sample struct {
		Name  string   `json:"name"`
		Shape string   `json:"shape"`
		Trace []string `json:"trace"`
	}
	run := func(name string, script []int32) {
		e := &engine{r: r, sh: sh, caseName: "sample/" + name}
		var tr []string
		e.runScript(script, &tr)
		e.flush()
		r.Sample(sample{name, sh.String(), tr})
	}
	run("unanimity with one straggler", []int32{find(sh, 1, 0, kA), find(sh, 0, 0, kA), actProcess})
	run("dissent, discrepancy, backup majority", []int32{
		find(sh, 0, 0, kA), find(sh, 1, 0, kB), actProcess, find(sh, 2, 0, kA), find(sh, 3, 0, kA), actProcess,
	})
	run("backup scheduler waits for the timeout, majority contradicts it", []int32{
		find(sh, 1, 1, kA), find(sh, 0, 1, kB), actProcess, actProcessTimeout, find(sh, 3, 1, kB), find(sh, 2, 1, kB), actProcess,
	})
	run("duplicate, non-member, worse rank", []int32{
		find(sh, 0, 0, kA), find(sh, 0, 0, kB), find(sh, sh.N, 0, kA), find(sh, 1, 1, kA), find(sh, 2, 0, kF), find(sh, 1, 0, kF), actProcess,
	})
}

func replay(r *evid.Run) {
	b, err := os.ReadFile(r.ReplayFile)
	if err != nil {
		fmt.Println("INCONCLUSIVE property=C11 cannot read replay file:", err)
		os.Exit(2)
	}
	var doc struct {
		Signature string  `json:"signature"`
		Witness   witness `json:"witness"`
	}
	if err := json.Unmarshal(b, &doc); err != nil {
		fmt.Println("INCONCLUSIVE property=C11 cannot parse replay file:", err)
		os.Exit(2)
	}
	w := doc.Witness
	sh := newShape(w.Shape.P, w.Shape.B, w.Shape.S, w.Shape.Overlap)
	var script []int32
	for _, a := range w.Actions {
		switch a.Op {
		case "process":
			if a.Timeout {
				script = append(script, actProcessTimeout)
			} else {
				script = append(script, actProcess)
			}
		case "roundtrip":
			script = append(script, actRoundtrip)
		default:
			k := map[string]uint8{"A": kA, "B": kB, "F": kF}[a.Kind]
			script = append(script, find(sh, a.Node, a.Sched, k))
		}
	}
	e := &engine{r: r, sh: sh, caseName: "replay of " + w.Case}
	var tr []string
	e.runScript(script, &tr)
	e.flush()
	fmt.Printf("replay of %s (%s), recorded signature %s\n", r.ReplayFile, sh, doc.Signature)
	for _, l := range tr {
		fmt.Println(" ", l)
	}
	r.Nontrivial("replay-a")
	r.Nontrivial("replay-b")
	r.Finish(0)
}

func main() {
	if chainsim.IsChild() {
		chainsim.ChildMain(appSpec)
	}
	r := evid.Start("C11", "exploration")
	initGlobals()
	if r.ReplayFile != "" {
		replay(r)
		return
	}

	sc := scope{maxP: 3, maxB: 2, maxS: 1, maxOverlap: 2, lenAll: 4, lenPair: 5, walks: 3000}
	if !r.Quick() {
		sc = scope{maxP: 4, maxB: 3, maxS: 2, maxOverlap: 2, lenAll: 4, lenPair: 5, walks: 20000}
	}
	r.Rule = fmt.Sprintf("Real commitment.Pool driven through VerifyExecutorCommitment (once per signed template) + AddVerifiedExecutorCommitment + ProcessCommitments. "+
		"Committee shapes: primary size 1..%d, backup size 0..%d, every subset of <=%d workers doubling as backup workers, allowed stragglers 0..%d, round 3 (ranks rotated by 3). "+
		"Submission templates per shape: every node (members and one outsider) x every proposal (each worker's, and one by a node that is no scheduler) x {result A, result B, failure}; scheduler failures are refused by verification and never reach the pool. "+
		"EXHAUSTIVE part (coverage.exhaustive refers to it): E1 = all sequences with repetition (hence duplicates) of <=%d submissions over ALL templates; E2 = for every pair of scheduler ranks all sequences of <=%d submissions over the templates for these two proposals (all nodes incl. the outsider); "+
		"in both, after EVERY prefix ProcessCommitments is probed with timeout=false and timeout=true on clones, and every processing call that changes the pool (discrepancy declared) is also followed as a real call at that placement, with the exploration continuing below it. "+
		"All arrival orders are covered: sequences are walked as a graph, merging prefixes that lead to the identical (exported pool state, accepted-vote log) pair; up to A<->B renaming the first result-bearing accepted vote is A. "+
		"SAMPLED part: %d random sequences per shape of 6..12 submissions over all ranks with random real processing calls and CBOR re-serialization of the pool. "+
		"Oracles at every processing call: post-conditions of the statement over the event log, and equality of the outcome class with a reference decision function. "+
		"Non-trivial = a processing call answering anything but 'still waiting'; distinct_nontrivial counts distinct (shape, outcome, error, timeout, phase, #accepted, chosen scheduler, result) classes plus the distinct (pool+log state, timeout) pairs of a fixed 1/64 hash-selected sample of the states (sampled for memory; the full number of non-waiting decisions is counters.decisions_other_than_waiting).",
		sc.maxP, sc.maxB, sc.maxOverlap, sc.maxS, sc.lenAll, sc.lenPair, sc.walks)

	r.Assume("A1 (doc comment pool.go, fairness): for a proposal of a backup scheduler (rank > 0) a discrepancy among the primary votes is declared only once the round timer expired; before that the answer is 'still waiting'.")
	r.Assume("A2 (doc comments pool.go): during discrepancy resolution the round fails as soon as no result can reach a strict backup majority any more, at timeout without majority, and when the majority voted for a result other than the scheduler's proposal; with an empty backup committee it fails immediately.")
	r.Assume("A3 (pool_test.go 'No scheduler commitments'): without an accepted commitment of any scheduler to its own proposal the pool waits, and fails (ErrNoSchedulerCommitment) at timeout.")
	r.Assume("A4 (doc comment pool.go): timeout with fewer than (primary size - allowed stragglers) agreeing votes starts discrepancy resolution; the round finalizes as soon as that many agree with no dissent and <= allowed failures, without waiting for the remaining workers.")
	r.Assume("A5: the failing errors are ErrNoSchedulerCommitment, ErrBadSchedulerCommitment, ErrInsufficientVotes (roothash app: failRound, empty block); which of them is returned is not compared, only the class.")
	r.Assume("A6: admission rules the statement does not spell out (votes for a worse-ranked proposal once a better scheduler committed, votes of non-backup nodes during resolution, votes for a 'proposal' of a node that is no scheduler) are not asserted; both oracles work on the submissions that returned nil. Asserted: non-members and duplicates are rejected and leave the tallies unchanged.")
	r.Assume("A7: scheduler ranks are taken from Committee.SchedulerRank (trusted); one round value (3) is used, the rotation is covered by enumerating every overlap subset and every rank pair.")
	r.Assume("A8: failure-indicating commitments of a scheduler for its own proposal are rejected by VerifyExecutorCommitment (as in the consensus app) and therefore never submitted to the pool.")
	r.Assume("A9: state merging assumes AddVerifiedExecutorCommitment/ProcessCommitments are deterministic functions of the exported Pool fields, the committee and their arguments (Pool is a plain serializable struct); results A/B are interchangeable.")
	r.Assume("A10: the unanimity clause is accepted as justification also after a discrepancy was declared (literal reading of 'either ... or').")
	r.Assume("A11: committee shapes whose (primary, backup, stragglers) triple registry.ExecutorParameters.ValidateBasic would refuse (stragglers > size) are explored as well; the clauses are evaluated literally there.")
	r.Assume("App level: chain histories with a compute runtime are executed on the real multiplexer; chainsim.RoundMonitor checks that a Normal runtime block appears only with a quorum among the ACCEPTED executor commitments of the round (unanimity clause or backup majority after a discrepancy event), that RoundFailed / epoch blocks keep the state root, that rounds advance by one and that an expired round timer produces an outcome; failure indications count as present votes (weaker reading).")

	debug.SetGCPercent(400)
	writeSamples(r)

	shapes := allShapes(sc.maxP, sc.maxB, sc.maxS, sc.maxOverlap)
	nOutside := 0
	for _, sh := range shapes {
		r.Distinct("committee_shapes", sh.String())
		if !sh.registryOK {
			nOutside++
		}
		for reason, n := range sh.verifyReject {
			r.Count("templates_refused_by_verification/"+reason, int64(n))
			if reason != "scheduler-failure" {
				r.Inconclusive("harness: template refused by VerifyExecutorCommitment for reason %q", reason)
			}
		}
		r.Count("templates_verified", int64(len(sh.tmpl)))
	}
	r.Set("shapes_outside_registry_parameter_validity", nOutside)
	cases := buildCases(shapes, sc)
	r.Set("exhaustive_cases", len(cases))

	// Exhaustive part.
	// Every case is split into jobs (one per first submission) that share the case's visited set.
	type ejob struct {
		c     *caseDef
		first int
	}
	var ejobs []ejob
	for i := range cases {
		c := cases[i]
		c.visited = newVisitedSet()
		ejobs = append(ejobs, ejob{c, -1})
		for _, ti := range c.allowed {
			if c.sh.tmpl[ti].kind != kB { // A/B symmetry at the empty pool
				ejobs = append(ejobs, ejob{c, ti})
			}
		}
	}
	for _, j := range ejobs {
		j.c.pending.Add(1)
	}
	var aborted, maxStates atomic.Int64
	evid.Parallel(len(ejobs), 0, func(i int) {
		c := ejobs[i].c
		e := &engine{r: r, sh: c.sh, caseName: c.name, visited: c.visited, allowed: c.allowed, maxLen: c.maxLen}
		e.exploreJob(ejobs[i].first)
		if e.nviol >= maxViolPerCase {
			aborted.Add(1)
		}
		e.flush()
		if c.pending.Add(-1) == 0 {
			n := int64(c.visited.size())
			for {
				m := maxStates.Load()
				if n <= m || maxStates.CompareAndSwap(m, n) {
					break
				}
			}
			c.visited = nil // release the memory of finished cases
		}
	})
	r.Set("largest_case_states", maxStates.Load())
	r.Count("exhaustive_part/process_calls", r.Counter("process_calls"))
	r.Count("exhaustive_part/submissions", r.Counter("submissions"))

	// Sampled part: long sequences.
	const chunk = 500
	type job struct{ sh, from int }
	var jobs []job
	for si := range shapes {
		for from := 0; from < sc.walks; from += chunk {
			jobs = append(jobs, job{si, from})
		}
	}
	evid.Parallel(len(jobs), 0, func(i int) {
		j := jobs[i]
		sh := shapes[j.sh]
		e := &engine{r: r, sh: sh, caseName: "walk"}
		for w := j.from; w < j.from+chunk && w < sc.walks && e.nviol < maxViolPerCase; w++ {
			e.caseName = fmt.Sprintf("walk %d (PRNG stream %d,%d)", w, j.sh, w)
			e.runScript(randomScript(sh, r.Rand(uint64(j.sh), uint64(w))), nil)
			e.r.Count("sampled_sequences", 1)
		}
		e.flush()
	})

	r.Exhaustive(aborted.Load() == 0 && r.Violations() == 0)

	// App level: roothash application on generated chain histories with a runtime.
	debug.SetGCPercent(100)
	runAppLevel(r)

	r.Finish(r.Pick(500, 2000))
}
