package main

import (
	"crypto/sha256"
	"errors"
	"fmt"

	"github.com/oasisprotocol/oasis-core/go/common/cbor"
	"github.com/oasisprotocol/oasis-core/go/common/crypto/hash"
	"github.com/oasisprotocol/oasis-core/go/common/crypto/signature"
	"github.com/oasisprotocol/oasis-core/go/roothash/api/commitment"
)

// logState is the canonical summary of the event log of one path: which
// submissions returned nil (first accepted kind per scheduler slot and node)
// and whether a processing call already answered "discrepancy detected".
type logState struct {
	votes     [maxScheds][maxNodes]uint8
	disc      bool
	accepted  uint8 // number of accepted submissions
	extra     uint8 // rejected submissions that nevertheless changed the pool (never seen on the unchanged tree)
	anyResult bool  // some accepted vote carries a result (A/B symmetry reduction)
}

// implOutcome is what the real ProcessCommitments answered.
type implOutcome struct {
	class    int
	errName  string
	sc       *commitment.SchedulerCommitment
	panicMsg string
	// Filled for finalized outcomes.
	schedNode int   // node index of the chosen scheduler (-1 unknown key)
	result    uint8 // kA / kB / kF (failure-indicating) / 7 (unknown hash)
}

func (o *implOutcome) String() string {
	switch o.class {
	case clsFinalized:
		return fmt.Sprintf("finalized(scheduler node %d, result %c)", o.schedNode, " ABF????"[o.result&7])
	case clsPanic:
		return "panic: " + o.panicMsg
	case clsWaiting, clsDiscrepancy:
		return clsName[o.class]
	}
	return clsName[o.class] + "(" + o.errName + ")"
}

func clonePool(p *commitment.Pool) *commitment.Pool {
	q := &commitment.Pool{HighestRank: p.HighestRank, Discrepancy: p.Discrepancy}
	if p.SchedulerCommitments != nil {
		q.SchedulerCommitments = make(map[uint64]*commitment.SchedulerCommitment, len(p.SchedulerCommitments)+1)
		for r, sc := range p.SchedulerCommitments {
			n := &commitment.SchedulerCommitment{Commitment: sc.Commitment}
			if sc.Votes != nil {
				n.Votes = make(map[signature.PublicKey]*hash.Hash, len(sc.Votes)+1)
				for k, v := range sc.Votes {
					n.Votes[k] = v // vote hashes are never mutated in place
				}
			}
			q.SchedulerCommitments[r] = n
		}
	}
	return q
}

// roundtripPool clones the pool the way the consensus application does between
// transactions: through its CBOR serialization.
func roundtripPool(p *commitment.Pool) (*commitment.Pool, error) {
	var q commitment.Pool
	if err := cbor.Unmarshal(cbor.Marshal(p), &q); err != nil {
		return nil, err
	}
	return &q, nil
}

func sameVote(a, b *hash.Hash) bool {
	if a == nil || b == nil {
		return a == nil && b == nil
	}
	return *a == *b
}

// poolEqual compares the exported state of two pools.
func poolEqual(a, b *commitment.Pool) bool {
	if a.HighestRank != b.HighestRank || a.Discrepancy != b.Discrepancy || len(a.SchedulerCommitments) != len(b.SchedulerCommitments) {
		return false
	}
	for r, sa := range a.SchedulerCommitments {
		sb, ok := b.SchedulerCommitments[r]
		if !ok || len(sa.Votes) != len(sb.Votes) {
			return false
		}
		if sa.Commitment != sb.Commitment {
			if sa.Commitment == nil || sb.Commitment == nil || sa.Commitment.Signature != sb.Commitment.Signature {
				return false
			}
		}
		for k, va := range sa.Votes {
			vb, ok := sb.Votes[k]
			if !ok || !sameVote(va, vb) {
				return false
			}
		}
	}
	return true
}

func (s *shape) classify(v *hash.Hash) uint8 {
	switch {
	case v == nil:
		return kF
	case *v == s.hashA:
		return kA
	case *v == s.hashB:
		return kB
	}
	return 7
}

// stateKey hashes (exported pool state, log state).
func (s *shape) stateKey(p *commitment.Pool, l *logState) [16]byte {
	var buf [256]byte
	n := 0
	for i := 0; i <= s.P; i++ {
		n += copy(buf[n:], l.votes[i][:s.N+1])
	}
	flags := byte(0)
	if l.disc {
		flags |= 1
	}
	if p.Discrepancy {
		flags |= 2
	}
	hr := byte(255)
	if p.HighestRank < 250 {
		hr = byte(p.HighestRank)
	}
	buf[n], buf[n+1], buf[n+2], buf[n+3] = flags, l.extra, hr, byte(len(p.SchedulerCommitments))
	n += 4
	found := 0
	for rk := uint64(0); rk < uint64(s.P) && found < len(p.SchedulerCommitments); rk++ {
		sc, ok := p.SchedulerCommitments[rk]
		if !ok {
			continue
		}
		found++
		ci := byte(255)
		if sc.Commitment != nil {
			ci = 254
			if ti, ok := s.tmplIdx[sc.Commitment]; ok {
				ci = byte(ti)
			}
		}
		buf[n], buf[n+1], buf[n+2] = byte(rk), ci, byte(len(sc.Votes))
		n += 3
		row := buf[n : n+s.N+2]
		for k, v := range sc.Votes {
			if idx, ok := s.nodeIdx[k]; ok {
				row[idx] = s.classify(v)
			} else {
				row[s.N+1]++
			}
		}
		n += s.N + 2
	}
	if found != len(p.SchedulerCommitments) {
		// Ranks outside 0..P-1 (never seen on the unchanged tree): fall back to the serialization.
		h := sha256.Sum256(append(buf[:n:n], cbor.Marshal(p)...))
		var out [16]byte
		copy(out[:], h[:16])
		return out
	}
	h := sha256.Sum256(buf[:n])
	var out [16]byte
	copy(out[:], h[:16])
	return out
}

var failErrs = []struct {
	err  error
	name string
}{
	{commitment.ErrNoSchedulerCommitment, "no-scheduler-commitment"},
	{commitment.ErrBadSchedulerCommitment, "bad-scheduler-commitment"},
	{commitment.ErrInsufficientVotes, "insufficient-votes"},
}

func errName(err error) string {
	for _, e := range []struct {
		err  error
		name string
	}{
		{commitment.ErrNotInCommittee, "not-in-committee"},
		{commitment.ErrAlreadyCommitted, "already-committed"},
		{commitment.ErrBadExecutorCommitment, "bad-executor-commitment"},
	} {
		if errors.Is(err, e.err) {
			return e.name
		}
	}
	return "other"
}

// process calls the real ProcessCommitments on p (which it may mutate).
func (s *shape) process(p *commitment.Pool, timeout bool) (o implOutcome) {
	defer func() {
		if x := recover(); x != nil {
			o = implOutcome{class: clsPanic, panicMsg: fmt.Sprint(x)}
		}
	}()
	sc, err := p.ProcessCommitments(s.committee, uint16(s.S), timeout)
	o.sc = sc
	o.schedNode = -1
	switch {
	case err == nil:
		o.class = clsFinalized
		if sc != nil && sc.Commitment != nil {
			if idx, ok := s.nodeIdx[sc.Commitment.Header.SchedulerID]; ok {
				o.schedNode = idx
			}
			if sc.Commitment.IsIndicatingFailure() {
				o.result = kF
			} else {
				v := sc.Commitment.ToVote()
				o.result = s.classify(&v)
			}
		}
	case errors.Is(err, commitment.ErrStillWaiting):
		o.class = clsWaiting
	case errors.Is(err, commitment.ErrDiscrepancyDetected):
		o.class = clsDiscrepancy
	default:
		o.class = clsOther
		o.errName = err.Error()
		for _, f := range failErrs {
			if errors.Is(err, f.err) {
				o.class, o.errName = clsFailed, f.name
			}
		}
	}
	return o
}

// submit calls the real AddVerifiedExecutorCommitment on p.
func (s *shape) submit(p *commitment.Pool, t *template) (err error, panicked string) {
	defer func() {
		if x := recover(); x != nil {
			panicked = fmt.Sprint(x)
		}
	}()
	return p.AddVerifiedExecutorCommitment(s.committee, t.ec), ""
}
