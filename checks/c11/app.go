package main

import (
	"fmt"
	"strings"
	"time"

	"verif/engine/chainsim"
	"verif/engine/evid"
)

// App level of C11: chain histories with a compute runtime; the RoundMonitor
// compares the runtime blocks emitted by the roothash application with the
// commitments accepted for the round (DESIGN.md C11, section 9).
var appSpec = chainsim.CheckSpec{
	ID:      "C11",
	Level:   "exploration",
	Timeout: 10 * time.Minute,
	RunCase: func(c chainsim.Case, rep chainsim.Reporter, scratch string) {
		rm := &chainsim.RoundMonitor{Rep: rep}
		chainsim.RuntimeMode = "on"
		h, err := chainsim.NewHistory(chainsim.HistoryConfig{Seed: c.Seed, Profile: c.Profile, Blocks: c.Blocks}, rm)
		if err != nil {
			rep.Inconclusive("app level: setup failed: " + err.Error())
			return
		}
		h.Run()
		rm.Report(rep)
		rep.Count("app.histories", 1)
		rep.Count("app.blocks", h.Height)
		// A fatal error of the roothash application is a verdict of this property: every case in which a
		// round cannot finalize has to end in waiting, discrepancy resolution or a failed round with an
		// empty block, never in an error that aborts the block. Other panics belong to C10.
		roundAbort := false
		for _, p := range h.Panics {
			if msg := p.Error(); strings.Contains(msg, "fatal error in application") && strings.Contains(msg, "_roothash'") {
				roundAbort = true
				rep.Violation("c11/app/round-processing-aborted-the-block", "the roothash application returned a fatal error instead of waiting, resolving the discrepancy or failing the round: "+msg,
					map[string]any{"seed": c.Seed, "profile": c.Profile, "height": h.Height, "panic": msg})
			}
		}
		for _, p := range h.Panics {
			if !roundAbort {
				rep.Inconclusive("app level: history ended by a panic (see C10): " + p.Error())
			}
		}
		if h.Height >= int64(c.Blocks)/2 && h.EpochTransitions >= 2 {
			rep.Nontrivial(fmt.Sprintf("app/%s/%d", c.Profile, c.Seed))
		}
		if c.Index < 1 {
			rep.Sample(map[string]any{"level": "app", "params": h.Sc.P, "blocks": h.Height, "tx_stats": h.Gen.Stats})
		}
		h.Close()
		h.CloseBuilder()
	},
}

func runAppLevel(r *evid.Run) {
	cases := chainsim.StdCases(r.Seed, r.Pick(96, 1200), r.Pick(80, 120), []string{"runtime", "runtime", "hostile"})
	for i := range cases {
		cases[i].Index += 1_000_000 // distinct scratch directories
	}
	chainsim.RunCases(r, appSpec, cases)
}
