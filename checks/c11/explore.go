package main

import (
	"encoding/hex"
	"fmt"
	"sync"

	"verif/engine/evid"

	"github.com/oasisprotocol/oasis-core/go/roothash/api/commitment"
)

// Script actions: >= 0 submit template; negative: real processing calls / re-serialization.
const (
	actProcess        = int32(-1) // ProcessCommitments(timeout=false) on the pool itself
	actProcessTimeout = int32(-2) // ProcessCommitments(timeout=true) on the pool itself
	actRoundtrip      = int32(-3) // pool := decode(encode(pool)), as the consensus state does
)

const maxViolPerCase = 12

// actionDesc is the replayable form of a script action.
type actionDesc struct {
	Op      string `json:"op"` // submit | process | roundtrip
	Node    int    `json:"node,omitempty"`
	Sched   int    `json:"sched,omitempty"`
	Kind    string `json:"kind,omitempty"` // A | B | F
	Timeout bool   `json:"timeout,omitempty"`
	Text    string `json:"text"`
}

type shapeDesc struct {
	P       int   `json:"primary"`
	B       int   `json:"backup"`
	S       int   `json:"allowed_stragglers"`
	Overlap []int `json:"workers_that_are_also_backup"`
	Round   int   `json:"round"`
}

type witness struct {
	Shape    shapeDesc    `json:"shape"`
	Case     string       `json:"case"`
	Seed     int64        `json:"seed"`
	Members  []string     `json:"members"`
	Actions  []actionDesc `json:"actions"`
	Observed string       `json:"observed"`
	Log      []string     `json:"accepted_votes_in_log"`
	Replay   string       `json:"how_to_replay"`
}

func (s *shape) desc() shapeDesc {
	ov := s.Overlap
	if ov == nil {
		ov = []int{}
	}
	return shapeDesc{P: s.P, B: s.B, S: s.S, Overlap: ov, Round: lastRound + 1}
}

func (s *shape) describe(a int32) actionDesc {
	switch a {
	case actProcess:
		return actionDesc{Op: "process", Text: "ProcessCommitments(timeout=false)"}
	case actProcessTimeout:
		return actionDesc{Op: "process", Timeout: true, Text: "ProcessCommitments(timeout=true)"}
	case actRoundtrip:
		return actionDesc{Op: "roundtrip", Text: "pool re-read from its CBOR serialization"}
	}
	t := s.tmpl[a]
	return actionDesc{Op: "submit", Node: t.node, Sched: t.sched, Kind: string(" ABF"[t.kind]), Text: s.tmplName(int(a))}
}

func (s *shape) logLines(l *logState) []string {
	out := []string{}
	for slot := 0; slot <= s.P; slot++ {
		for n := 0; n <= s.N; n++ {
			if v := l.votes[slot][n]; v != kNone {
				out = append(out, fmt.Sprintf("%s: %c for %s", s.nodeName(n), " ABF"[v], s.schedName(slot)))
			}
		}
	}
	if l.disc {
		out = append(out, "discrepancy declared by an earlier processing call")
	}
	return out
}

// engine runs cases of one shape and keeps local statistics.
type engine struct {
	r        *evid.Run
	sh       *shape
	st       stats
	caseName string
	path     []int32
	nviol    int

	// exhaustive exploration
	visited *visitedSet // shared by the jobs of one case
	allowed []int
	maxLen  int
	coarse  map[uint32]struct{}
}

// visitedSet is the set of (pool state, log state) keys of one case; the jobs
// of a case (one per first submission) claim states in it, so that every state
// is explored exactly once whatever the scheduling.
type visitedSet struct {
	shards [64]struct {
		mu sync.Mutex
		m  map[[16]byte]struct{}
	}
}

func newVisitedSet() *visitedSet {
	v := &visitedSet{}
	for i := range v.shards {
		v.shards[i].m = map[[16]byte]struct{}{}
	}
	return v
}

// claim returns true if the key was not in the set yet.
func (v *visitedSet) claim(k [16]byte) bool {
	sh := &v.shards[k[0]&63]
	sh.mu.Lock()
	_, ok := sh.m[k]
	if !ok {
		sh.m[k] = struct{}{}
	}
	sh.mu.Unlock()
	return !ok
}

func (v *visitedSet) size() int {
	n := 0
	for i := range v.shards {
		n += len(v.shards[i].m)
	}
	return n
}

func (e *engine) report(sig, what string, l *logState, last int32) {
	e.nviol++
	w := witness{
		Shape: e.sh.desc(), Case: e.caseName, Seed: e.r.Seed, Observed: what, Log: e.sh.logLines(l),
		Replay: "cd /verif && ./run.sh C11 replay <this file>",
	}
	for n := 0; n <= e.sh.N; n++ {
		w.Members = append(w.Members, fmt.Sprintf("node %d = %s", n, e.sh.nodeName(n)))
	}
	for _, a := range e.path {
		w.Actions = append(w.Actions, e.sh.describe(a))
	}
	w.Actions = append(w.Actions, e.sh.describe(last))
	e.r.Violation(sig, fmt.Sprintf("%s case %s after %d actions: %s", e.sh, e.caseName, len(e.path), what), w)
}

// flush merges the local statistics into the run.
func (e *engine) flush() {
	for i, v := range e.st.c {
		if v != 0 {
			e.r.Count(statName[i], v)
		}
	}
	e.r.Eval(int(e.st.c[stSubmit] + e.st.c[stProcess]))
	for k := range e.coarse {
		e.r.Nontrivial(fmt.Sprintf("%s|%08x", e.sh, k))
	}
	e.st = stats{}
	e.coarse = nil
}

// noteNonWait records a decision other than "still waiting" as a non-trivial case.
func (e *engine) noteNonWait(key *[16]byte, l *logState, timeout bool, o *implOutcome) {
	if o.class == clsWaiting {
		return
	}
	if e.coarse == nil {
		e.coarse = map[uint32]struct{}{}
	}
	// Coarse class: outcome, error, timeout, phase, number of accepted votes, chosen scheduler.
	c := uint32(o.class) | uint32(len(o.errName))<<4 | uint32(l.accepted)<<12 | uint32(o.schedNode+1)<<20 | uint32(o.result)<<24
	if timeout {
		c |= 1 << 28
	}
	if l.disc {
		c |= 1 << 29
	}
	e.coarse[c] = struct{}{}
	// Fine key (distinct pool+log state and timeout) for a fixed 1/64 sample of the states
	// (selected by their hash, to bound memory).
	if key != nil && key[15]&63 == 0 {
		t := "f"
		if timeout {
			t = "t"
		}
		e.r.Nontrivial(fmt.Sprintf("%d/%s/%s", e.sh.idx, hex.EncodeToString(key[:12]), t))
	}
}

// explore visits every (pool state, log state) reachable with at most maxLen
// submissions from the allowed templates, probing both processing calls at
// every state and following every processing call that changes the state.
func (e *engine) explore(p *commitment.Pool, l logState) {
	if e.nviol >= maxViolPerCase {
		return
	}
	sh := e.sh
	key := sh.stateKey(p, &l)
	if !e.visited.claim(key) {
		return
	}
	e.st.c[stStates]++

	pf := clonePool(p)
	of := sh.process(pf, false)
	pt := clonePool(p)
	ot := sh.process(pt, true)
	bad := false
	if sig, what := sh.judge(&l, false, &of, &e.st); sig != "" {
		e.report(sig, what, &l, actProcess)
		bad = true
	}
	if sig, what := sh.judge(&l, true, &ot, &e.st); sig != "" {
		e.report(sig, what, &l, actProcessTimeout)
		bad = true
	}
	if bad {
		return // do not explore below a violating state
	}
	e.noteNonWait(&key, &l, false, &of)
	e.noteNonWait(&key, &l, true, &ot)

	// Processing calls that really happen at this point (they change the state).
	for i, q := range []*commitment.Pool{pf, pt} {
		o, act := &of, actProcess
		if i == 1 {
			o, act = &ot, actProcessTimeout
		}
		if o.class != clsDiscrepancy && poolEqual(q, p) {
			continue
		}
		l2 := l
		if o.class == clsDiscrepancy {
			l2.disc = true
		}
		e.st.c[stDiscTransition]++
		e.path = append(e.path, act)
		e.explore(q, l2)
		e.path = e.path[:len(e.path)-1]
	}

	if int(l.accepted)+int(l.extra) >= e.maxLen {
		return
	}
	for _, ti := range e.allowed {
		t := sh.tmpl[ti]
		if !l.anyResult && t.kind == kB {
			continue // A/B symmetry: the first result-bearing accepted vote is called A
		}
		q := clonePool(p)
		l2 := l
		accepted, bad := e.submitChecked(q, p, &l2, int32(ti), &of, &ot)
		if bad || (!accepted && l2.extra == l.extra) {
			continue
		}
		e.path = append(e.path, int32(ti))
		e.explore(q, l2)
		e.path = e.path[:len(e.path)-1]
		if e.nviol >= maxViolPerCase {
			return
		}
	}
}

// exploreJob is one job of a case: first < 0 visits the empty pool only (probes, no
// submissions); first >= 0 explores everything below the first submission `first`.
func (e *engine) exploreJob(first int) {
	if first < 0 {
		full := e.maxLen
		e.maxLen = 0
		e.explore(commitment.NewPool(), logState{})
		e.maxLen = full
		return
	}
	p := commitment.NewPool()
	q := clonePool(p)
	var l logState
	accepted, bad := e.submitChecked(q, p, &l, int32(first), nil, nil)
	if bad || (!accepted && l.extra == 0) {
		return
	}
	e.path = append(e.path[:0], int32(first))
	e.explore(q, l)
}

// submitChecked submits template ti to q (a clone of before), checks the
// admission clauses of the statement and updates the log state. of/ot are the
// answers of the two processing probes on the state before (nil: not known).
func (e *engine) submitChecked(q, before *commitment.Pool, l *logState, ti int32, of, ot *implOutcome) (accepted, bad bool) {
	sh := e.sh
	t := sh.tmpl[ti]
	err, pan := sh.submit(q, t)
	e.st.c[stSubmit]++
	if pan != "" {
		e.report("panic/AddVerifiedExecutorCommitment", pan, l, ti)
		return false, true
	}
	dup := l.votes[t.sched][t.node] != kNone
	if err == nil {
		switch {
		case t.node == sh.N:
			e.report("c11/non-member-accepted", "a commitment of a node outside the committee was accepted", l, ti)
			return true, true
		case dup:
			e.report("c11/duplicate-accepted", "a second commitment of the same node for the same scheduler was accepted", l, ti)
			return true, true
		}
		e.st.c[stAccepted]++
		if t.sched == sh.P {
			e.st.c[stAcceptedNoScheduler]++
		}
		l.votes[t.sched][t.node] = t.kind
		l.accepted++
		if t.kind != kF {
			l.anyResult = true
		}
		return true, false
	}
	switch errName(err) {
	case "not-in-committee":
		e.st.c[stRejNotInCommittee]++
	case "already-committed":
		e.st.c[stRejAlreadyCommitted]++
	case "bad-executor-commitment":
		e.st.c[stRejBadCommitment]++
	default:
		e.st.c[stRejOther]++
	}
	why := "other"
	switch {
	case t.node == sh.N:
		e.st.c[stRejNonMember]++
		why = "non-member"
	case dup:
		e.st.c[stRejDuplicate]++
		why = "duplicate"
	}
	if poolEqual(q, before) {
		return false, false // nothing changed: the state below is the state above
	}
	// A rejected submission changed the pool: the tallies must still be the same.
	e.st.c[stRejChangedPool]++
	if of == nil {
		a, b := sh.process(clonePool(before), false), sh.process(clonePool(before), true)
		of, ot = &a, &b
	}
	for i, o := range []*implOutcome{of, ot} {
		o2 := sh.process(clonePool(q), i == 1)
		if o2.class != o.class || o2.schedNode != o.schedNode || o2.result != o.result || o2.errName != o.errName {
			e.report("c11/rejected-submission-changed-tally/"+why,
				fmt.Sprintf("submission rejected with %q, but ProcessCommitments(timeout=%v) answers %s instead of %s", err.Error(), i == 1, o2.String(), o.String()), l, ti)
			return false, true
		}
	}
	l.extra++
	return false, false
}

// runScript executes a fixed action list on a fresh pool with both oracles
// after every action (probes with and without timeout on clones). It is used
// for the sampled long sequences, for the written-out samples and for replay.
func (e *engine) runScript(script []int32, trace *[]string) {
	sh := e.sh
	p := commitment.NewPool()
	var l logState
	e.path = e.path[:0]
	probe := func() bool {
		for i := 0; i < 2; i++ {
			o := sh.process(clonePool(p), i == 1)
			if trace != nil {
				*trace = append(*trace, fmt.Sprintf("    probe ProcessCommitments(timeout=%v) -> %s", i == 1, o.String()))
			}
			if sig, what := sh.judge(&l, i == 1, &o, &e.st); sig != "" {
				e.report(sig, what, &l, []int32{actProcess, actProcessTimeout}[i])
				return false
			}
			e.noteNonWait(nil, &l, i == 1, &o)
		}
		return true
	}
	if !probe() {
		return
	}
	for _, a := range script {
		switch a {
		case actProcess, actProcessTimeout:
			o := sh.process(p, a == actProcessTimeout)
			if trace != nil {
				*trace = append(*trace, fmt.Sprintf("%s -> %s", sh.describe(a).Text, o.String()))
			}
			if sig, what := sh.judge(&l, a == actProcessTimeout, &o, &e.st); sig != "" {
				e.report(sig, what, &l, a)
				return
			}
			if o.class == clsDiscrepancy {
				l.disc = true
				e.st.c[stDiscTransition]++
			}
		case actRoundtrip:
			q, err := roundtripPool(p)
			if err != nil {
				e.r.Inconclusive("pool does not survive its CBOR serialization: %v", err)
				return
			}
			p = q
			if trace != nil {
				*trace = append(*trace, sh.describe(a).Text)
			}
		default:
			before := clonePool(p)
			accepted, bad := e.submitChecked(p, before, &l, a, nil, nil)
			if trace != nil {
				*trace = append(*trace, fmt.Sprintf("%s -> accepted=%v", sh.describe(a).Text, accepted))
			}
			if bad {
				return
			}
		}
		e.path = append(e.path, a)
		if !probe() {
			return
		}
	}
}
