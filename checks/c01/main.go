// C01 — replicas compute identical state and results for identical blocks.
//
// Differential monitor over the real ABCI multiplexer (DESIGN.md, C01): one
// reference replica (memory badger, plain replay, no concurrency) and several
// test replicas with PRNG-assigned execution paths, backends, restarts and
// mid-block crashes, while CheckTx, EstimateGas, historical queries and the
// real pruner run concurrently. Built with -race.
package main

import (
	"context"
	"crypto/sha256"
	"fmt"
	"math/rand/v2"
	"sync"
	"sync/atomic"
	"time"

	"github.com/oasisprotocol/oasis-core/go/consensus/api/transaction"
	"github.com/oasisprotocol/oasis-core/go/consensus/cometbft/abci"
	cmt "github.com/oasisprotocol/oasis-core/go/consensus/cometbft/api"

	"verif/engine/chainsim"
	"verif/engine/evid"
)

func cases(r *evid.Run) []chainsim.Case {
	var out []chainsim.Case
	n, blocks := r.Pick(8, 80), r.Pick(60, 100)
	profiles := []string{"default", "evidence", "hostile", "registry", "election"}
	for i := 0; i < n; i++ {
		out = append(out, chainsim.Case{Index: i, Seed: uint64(r.Seed)*1_000_003 + uint64(i), Profile: profiles[i%len(profiles)], Blocks: blocks})
	}
	// Key manager traffic (secrets and CHURP methods on a test key manager runtime).
	for j, k := 0, r.Pick(2, 10); j < k; j++ {
		i := len(out)
		out = append(out, chainsim.Case{Index: i, Seed: uint64(r.Seed)*1_000_003 + uint64(i), Profile: "keymanager", Blocks: blocks})
	}
	// VRF beacon backend (alpha derived from the proof map, validators and committees ordered by VRF outputs).
	for j, k := 0, r.Pick(4, 100); j < k; j++ {
		i := len(out)
		out = append(out, chainsim.Case{Index: i, Seed: uint64(r.Seed)*1_000_003 + uint64(i), Profile: "vrf", Blocks: blocks})
	}
	return out
}

type stateHashes struct {
	mu sync.Mutex
	m  map[int64][32]byte
}

func dumpHash(st *cmt.ImmutableState) [32]byte {
	h := sha256.New()
	for _, kv := range chainsim.Dump(context.Background(), st) {
		h.Write(kv.K)
		h.Write([]byte{0})
		h.Write(kv.V)
		h.Write([]byte{1})
	}
	var out [32]byte
	copy(out[:], h.Sum(nil))
	return out
}

// monitor records the reference state hash per height and pools transactions
// for the concurrent CheckTx / EstimateGas traffic.
type monitor struct {
	chainsim.BaseMonitor
	hashes *stateHashes
	pool   *txPool
	rep    chainsim.Reporter
}

type txPool struct {
	mu  sync.Mutex
	raw [][]byte
	txs []*chainsim.GenTx
	// cur holds the transactions of the block about to be executed (they sit in the mempool, i.e. were
	// offered to CheckTx, before a proposer picks them).
	cur [][]byte
}

func (p *txPool) setCurrent(g []*chainsim.GenTx) {
	p.mu.Lock()
	p.cur = p.cur[:0]
	for _, t := range g {
		p.cur = append(p.cur, t.Raw)
	}
	p.mu.Unlock()
}

func (p *txPool) add(g []*chainsim.GenTx) {
	p.mu.Lock()
	for _, t := range g {
		if len(p.raw) < 500 {
			p.raw = append(p.raw, t.Raw)
			if t.Tx != nil && t.Signer != nil {
				p.txs = append(p.txs, t)
			}
		}
	}
	p.mu.Unlock()
}

func (p *txPool) pickRaw(rng *rand.Rand) []byte {
	p.mu.Lock()
	defer p.mu.Unlock()
	if len(p.cur) > 0 && rng.IntN(2) == 0 {
		return p.cur[rng.IntN(len(p.cur))]
	}
	if len(p.raw) == 0 {
		return nil
	}
	return p.raw[rng.IntN(len(p.raw))]
}

func (p *txPool) pickTx(rng *rand.Rand) *chainsim.GenTx {
	p.mu.Lock()
	defer p.mu.Unlock()
	if len(p.txs) == 0 {
		return nil
	}
	return p.txs[rng.IntN(len(p.txs))]
}

func (m *monitor) OnBlock(h *chainsim.History, b *chainsim.Block, txs []*chainsim.GenTx, ref *chainsim.BlockResult) {
	st, err := chainsim.CommittedState(h.Ref, b.Height)
	if err != nil {
		panic(err)
	}
	hs := dumpHash(st)
	st.Close()
	m.hashes.mu.Lock()
	m.hashes.m[b.Height] = hs
	m.hashes.mu.Unlock()
	m.pool.add(txs)
	// Evidence shapes (what the divergence oracle had a chance to see).
	for _, ev := range b.Misbehavior {
		m.rep.Count("evidence.entries", 1)
		age := b.Height - ev.Height
		if n := h.Sc.NodeByConsensusAddr(ev.Validator.Address); n != nil {
			m.rep.Count("evidence.against_registered_validator", 1)
			for _, r := range h.Tests {
				if r.Cfg.KeepN > 0 && age > int64(r.Cfg.KeepN) {
					m.rep.Count("evidence.against_registered_validator_with_infraction_height_below_a_replicas_kept_versions", 1)
					break
				}
			}
		}
		if age >= 5 {
			m.rep.Count("evidence.infraction_5_or_more_blocks_back", 1)
		}
	}
}

func runCase(c chainsim.Case, rep chainsim.Reporter, scratch string) {
	rng := rand.New(rand.NewPCG(c.Seed, 0xc01))
	hashes := &stateHashes{m: map[int64][32]byte{}}
	pool := &txPool{}
	mon := &monitor{hashes: hashes, pool: pool, rep: rep}

	backends := []string{"badger", "pathbadger"}
	var reps []chainsim.ReplicaConfig
	nrep := 3 + rng.IntN(2)
	for i := 0; i < nrep; i++ {
		rc := chainsim.ReplicaConfig{Name: fmt.Sprintf("r%d", i), Backend: backends[(i+int(c.Seed))%2]}
		if i > 0 {
			rc.Dir = fmt.Sprintf("%s/r%d", scratch, i)
		}
		if i%2 == 1 {
			rc.KeepN = uint64(2 + rng.IntN(6))
			if c.Profile == "evidence" {
				rc.KeepN = 2 // old infraction heights must be gone on the pruning replicas
			}
			rc.PruneInterval = time.Millisecond
		}
		rc.MinGasPrice = uint64(rng.IntN(3)) // local configuration must not leak into delivery
		reps = append(reps, rc)
	}
	// One replica takes only the replay path with a disk backend of the other kind (restarts only).
	var checkTxCalls, estimateCalls, queryCalls, queryCompared, queryGone atomic.Int64
	var stop atomic.Bool
	var wg sync.WaitGroup

	cfg := chainsim.HistoryConfig{Seed: c.Seed, Profile: c.Profile, Blocks: c.Blocks, Replicas: reps, Paths: true}
	brng := rand.New(rand.NewPCG(c.Seed, 0xbe7))
	cfg.Between = func(r *chainsim.Replica) {
		// Mempool checks interleaved with delivery at ABCI-call granularity.
		for i := brng.IntN(3); i > 0; i-- {
			if raw := pool.pickRaw(brng); raw != nil {
				r.CheckTx(raw, brng.IntN(4) == 0)
				checkTxCalls.Add(1)
			}
		}
	}
	h, err := chainsim.NewHistory(cfg, mon)
	if err != nil {
		rep.Inconclusive("setup failed: " + err.Error())
		return
	}
	// The block's own transactions are in the mempools (offered to CheckTx on the test replicas, never on
	// the reference) while the block executes; a third of the blocks also carry copies of mempool
	// transactions - of this block and of earlier ones - with one signature bit flipped: what a
	// node did with the genuine bytes in CheckTx must not decide what it does with other bytes in a block.
	var sigFlips atomic.Int64
	h.Gen.Extra = func(g *chainsim.TxGen, height int64, base []*chainsim.GenTx) []*chainsim.GenTx {
		pool.setCurrent(base)
		rng := g.Rng()
		if rng.IntN(3) != 0 {
			return nil
		}
		var out []*chainsim.GenTx
		var cands []*chainsim.GenTx
		for _, b := range base {
			if b.Intent == "valid" && b.Tx != nil && b.Signer != nil {
				cands = append(cands, b)
			}
		}
		for i := 0; i < 2; i++ {
			if gt := pool.pickTx(rng); gt != nil {
				cands = append(cands, gt)
			}
		}
		for i := 0; i < 3 && len(cands) > 0; i++ {
			v := cands[rng.IntN(len(cands))]
			if raw := chainsim.FlipSignatureBit(v.Raw, rng.IntN(512)); raw != nil {
				out = append(out, &chainsim.GenTx{Raw: raw, Method: v.Method, Intent: "signature-bit-flipped-copy-of-mempool-tx", Signer: v.Signer})
				sigFlips.Add(1)
			}
		}
		return out
	}
	var divMu sync.Mutex
	var qdiv []string
	for i, r := range h.Tests {
		r := r
		// EstimateGas (no lock, as in production).
		wg.Add(1)
		go func(seed uint64) {
			defer wg.Done()
			lr := rand.New(rand.NewPCG(c.Seed, seed))
			for !stop.Load() {
				gt := pool.pickTx(lr)
				if gt == nil {
					time.Sleep(200 * time.Microsecond)
					continue
				}
				tx := *gt.Tx
				r.WithAlive(func(srv *abci.ApplicationServer) {
					func() {
						defer func() { _ = recover() }()
						_, _ = srv.EstimateGas(gt.Signer.PK, &tx)
					}()
				})
				estimateCalls.Add(1)
				time.Sleep(time.Duration(300+lr.IntN(1500)) * time.Microsecond)
			}
		}(uint64(0x100 + i))
		// Historical state queries, compared with the reference.
		wg.Add(1)
		go func(seed uint64) {
			defer wg.Done()
			lr := rand.New(rand.NewPCG(c.Seed, seed))
			for !stop.Load() {
				hashes.mu.Lock()
				top := int64(len(hashes.m))
				hashes.mu.Unlock()
				if top == 0 {
					time.Sleep(200 * time.Microsecond)
					continue
				}
				height := 1 + lr.Int64N(top)
				r.WithAlive(func(srv *abci.ApplicationServer) {
					st, err := cmt.NewImmutableStateAt(context.Background(), srv.State(), height)
					queryCalls.Add(1)
					if err != nil {
						queryGone.Add(1)
						return
					}
					var got [32]byte
					ok := func() (ok bool) {
						// A version may be pruned while it is being read: reads then fail
						// (error/panic inside Dump), which is acceptable; wrong data is not.
						defer func() {
							if e := recover(); e != nil {
								ok = false
							}
						}()
						got = dumpHash(st)
						return true
					}()
					st.Close()
					if !ok {
						queryGone.Add(1)
						return
					}
					hashes.mu.Lock()
					want, have := hashes.m[height]
					hashes.mu.Unlock()
					if have {
						queryCompared.Add(1)
						if got != want {
							divMu.Lock()
							qdiv = append(qdiv, fmt.Sprintf("replica %s height %d: historical state dump differs from the reference", r.Cfg.Name, height))
							divMu.Unlock()
						}
					}
				})
				time.Sleep(time.Duration(300+lr.IntN(1500)) * time.Microsecond)
			}
		}(uint64(0x200 + i))
	}

	h.Run()
	stop.Store(true)
	wg.Wait()

	wit := func(extra any) any {
		return map[string]any{"params": h.Sc.P, "height": h.Height, "detail": extra}
	}
	for _, d := range h.Divergences {
		rep.Violation("c01/divergence/"+d.What+"/path="+d.Path, fmt.Sprintf("%+v", *d), wit(d))
	}
	for _, s := range qdiv {
		rep.Violation("c01/historical-query-mismatch", s, wit(s))
	}
	for _, p := range h.Panics {
		if p.Replica != "ref" && p.Replica != "-" {
			continue // already reported as divergence (panic-where-reference-succeeded)
		}
		rep.Violation("c01/reference-panic/"+p.Where, p.Error(), wit(p))
	}
	rep.Count("blocks", h.Height)
	rep.Count("replica_blocks", h.Height*int64(len(h.Tests)))
	rep.Count("epoch_transitions", int64(h.EpochTransitions))
	rep.Count("checktx_calls", checkTxCalls.Load())
	rep.Count("signature_flipped_copies_of_mempool_txs_in_blocks", sigFlips.Load())
	rep.Count("estimategas_calls", estimateCalls.Load())
	rep.Count("historical_queries", queryCalls.Load())
	rep.Count("historical_queries_compared_with_reference", queryCompared.Load())
	rep.Count("historical_queries_version_gone", queryGone.Load())
	for p, n := range h.PathUsed {
		rep.Count("path."+p.String(), int64(n))
	}
	if h.PreconditionLost != "" {
		rep.Count("histories_precondition_lost", 1)
	}
	ok := 0
	for k, n := range h.Gen.Stats {
		rep.Count("tx."+k, int64(n))
		ok += n
	}
	chainsim.ReportKeyManager(h, rep)
	chainsim.ReportVRF(h, rep) // VRF beacon support: counters of the VRF histories
	// Non-trivial: a history with >= 3 epoch transitions in which every path was used.
	if h.EpochTransitions >= 3 && len(h.PathUsed) >= 5 && h.Height >= int64(c.Blocks)/2 {
		rep.Nontrivial(fmt.Sprintf("%s/%d", c.Profile, c.Seed))
	}
	if c.Index < 2 {
		rep.Sample(map[string]any{"params": h.Sc.P, "blocks": h.Height, "epochs": h.EpochTransitions, "paths": fmt.Sprint(h.PathUsed), "replicas": reps})
	}
	h.Close()
	h.CloseBuilder()
}

func main() {
	chainsim.Main(chainsim.CheckSpec{
		ID:    "C01",
		Level: "exploration",
		Rule: "each case is one generated block history (seeded genesis, transactions of all consensus apps, votes, evidence, epoch transitions) executed on a reference replica (plain replay) and 3-4 test replicas " +
			"with PRNG-assigned paths (proposer/validator/replay/round-change/restart/crash-mid-block), both backends, pruning, concurrent CheckTx/EstimateGas/historical queries under the race detector; " +
			"AppHash, per-tx code/codespace/data and validator updates must equal the reference at every height; non-trivial = history with >=3 epoch transitions and >=5 distinct paths used",
		Cases:            cases,
		RunCase:          runCase,
		CrashIsViolation: true,
		Floor:            3,
		Timeout:          15 * time.Minute,
	})
}

var _ = transaction.Transaction{}
