#!/bin/bash
# ./run.sh <Cxx> <quick|thorough|replay> [replay-file]
# Rebuilds the check binary from /repo's current working tree (hooks on, tag verif)
# and runs it. Exit 0 held / 1 VIOLATION / 2 INCONCLUSIVE or broken run.
set -u
cd "$(dirname "$0")"
ID="${1:?usage: run.sh Cxx quick|thorough}"
TIER="${2:-quick}"
export GOFLAGS=-mod=mod GOPROXY=off
unset GOTOOLCHAIN GOSUMDB 2>/dev/null
export VERIF_ROOT="$PWD"
export VERIF_SEED="${VERIF_SEED:-1}"
pkg="c$(echo "${ID#C}" | tr 'A-Z' 'a-z')"
[ -d "checks/$pkg" ] || { echo "INCONCLUSIVE property=$ID no such check"; exit 2; }
RACE=""
[ -f "checks/$pkg/RACE" ] && RACE="-race"
mkdir -p bin evidence replay
# go.sum must cover the repository's current dependency set.
cat /repo/go/go.sum go.sum.extra 2>/dev/null | sort -u > go.sum.$$ && mv go.sum.$$ go.sum
if ! go build -tags verif $RACE -o "bin/$pkg" "./checks/$pkg" 2> "bin/$pkg.build.log"; then
  cat "bin/$pkg.build.log"
  echo "INCONCLUSIVE property=$ID build failed"
  exit 2
fi
export VERIF_SCRATCH="$(mktemp -d /tmp/verif.XXXXXX)"
trap 'rm -rf "$VERIF_SCRATCH"' EXIT
LIMIT="${VERIF_TIMEOUT:-$([ "$TIER" = thorough ] && echo 7200 || echo 1500)}"
if [ "$TIER" = replay ]; then
  timeout -s QUIT "$LIMIT" "bin/$pkg" -replay "${3:?replay file}"
  exit $?
fi
# Additional sanitizer pass (thorough tier, checks with an ASAN marker file): the same check built with
# -asan runs its quick-size workload first; its evidence is not written, its verdict counts.
arc=0
if [ "$TIER" = thorough ] && [ -f "checks/$pkg/ASAN" ]; then
  if ! go build -asan -tags verif -o "bin/$pkg.asan" "./checks/$pkg" 2> "bin/$pkg.asan.build.log"; then
    cat "bin/$pkg.asan.build.log"; echo "INCONCLUSIVE property=$ID asan build failed"; exit 2
  fi
  ALOG="$VERIF_SCRATCH/asan.log"
  VERIF_NO_EVIDENCE=1 ASAN_OPTIONS="abort_on_error=1:halt_on_error=1:detect_leaks=0" timeout -s QUIT "$LIMIT" "bin/$pkg.asan" -tier quick -seed "$VERIF_SEED" > "$ALOG" 2>&1
  arc=$?
  grep -E '^(VIOLATION|KNOWN-FINDING:|INCONCLUSIVE|  signature=)' "$ALOG" | sed 's/^SUMMARY/ASAN-SUMMARY/' || true
  if grep -q 'ERROR: AddressSanitizer' "$ALOG"; then
    mkdir -p "replay/$ID"; cp "$ALOG" "replay/$ID/asan-report-s$VERIF_SEED.log"
    echo "VIOLATION property=$ID replay=$PWD/replay/$ID/asan-report-s$VERIF_SEED.log"
    exit 1
  fi
  [ $arc -eq 1 ] && exit 1
  if [ $arc -ne 0 ] && [ $arc -ne 2 ]; then tail -n 40 "$ALOG"; echo "INCONCLUSIVE property=$ID asan pass died with status $arc"; exit 2; fi
  export VERIF_SANITIZER_PASSES="asan build (go build -asan), quick-size workload, exit $arc: $(grep '^SUMMARY' "$ALOG" | tail -1)"
fi
LOG="$VERIF_SCRATCH/out.log"
GORACE="halt_on_error=0 log_path=$VERIF_SCRATCH/race" timeout -s QUIT "$LIMIT" "bin/$pkg" -tier "$TIER" -seed "$VERIF_SEED" > "$LOG" 2>&1
rc=$?
grep -E '^(VIOLATION|KNOWN-FINDING:|INCONCLUSIVE|SUMMARY|  signature=)' "$LOG" || true
if [ $rc -ne 0 ] && [ $rc -ne 1 ] && [ $rc -ne 2 ]; then
  tail -n 60 "$LOG"
  echo "INCONCLUSIVE property=$ID check binary died with status $rc"
  exit 2
fi
if [ $rc -eq 2 ] && ! grep -q '^INCONCLUSIVE' "$LOG"; then tail -n 40 "$LOG"; fi
if [ $rc -eq 0 ] && [ $arc -eq 2 ]; then echo "INCONCLUSIVE property=$ID asan pass was inconclusive"; exit 2; fi
exit $rc
