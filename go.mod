module verif

go 1.26.3

replace github.com/oasisprotocol/oasis-core/go => /repo/go

replace (
	github.com/cometbft/cometbft => github.com/oasisprotocol/cometbft v0.37.18-oasis3
	github.com/spf13/cast => github.com/oasisprotocol/cast v0.0.0-20220606122631-eba453e69641
	github.com/spf13/viper => github.com/spf13/viper v1.17.0
	golang.org/x/crypto/curve25519 => github.com/oasisprotocol/curve25519-voi/primitives/x25519 v0.0.0-20251114093237-2ab5a27a1729
	golang.org/x/crypto/ed25519 => github.com/oasisprotocol/curve25519-voi/primitives/ed25519 v0.0.0-20251114093237-2ab5a27a1729
)

require (
	github.com/anishathalye/porcupine v1.3.0
	github.com/oasisprotocol/oasis-core/go v0.0.0
)

require (
	github.com/beorn7/perks v1.0.1 // indirect
	github.com/cespare/xxhash/v2 v2.3.0 // indirect
	github.com/cometbft/cometbft v0.37.18 // indirect
	github.com/fxamacker/cbor/v2 v2.4.0 // indirect
	github.com/munnerz/goautoneg v0.0.0-20191010083416-a7dc8b61c822 // indirect
	github.com/prometheus/client_golang v1.22.0 // indirect
	github.com/prometheus/client_model v0.6.2 // indirect
	github.com/prometheus/common v0.64.0 // indirect
	github.com/prometheus/procfs v0.16.1 // indirect
	github.com/tidwall/btree v1.6.0 // indirect
	github.com/x448/float16 v0.8.4 // indirect
	golang.org/x/net v0.57.0 // indirect
	golang.org/x/sys v0.47.0 // indirect
	golang.org/x/text v0.40.0 // indirect
	google.golang.org/protobuf v1.36.10 // indirect
)
