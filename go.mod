module verif

go 1.26.3

replace github.com/oasisprotocol/oasis-core/go => /repo/go

replace (
	github.com/cometbft/cometbft => github.com/oasisprotocol/cometbft v0.37.18-oasis3
	github.com/spf13/cast => github.com/oasisprotocol/cast v0.0.0-20220606122631-eba453e69641
	github.com/spf13/viper => github.com/spf13/viper v1.17.0
	golang.org/x/crypto/curve25519 => github.com/oasisprotocol/curve25519-voi/primitives/x25519 v0.0.0-20251114093237-2ab5a27a1729
	golang.org/x/crypto/ed25519 => github.com/oasisprotocol/curve25519-voi/primitives/ed25519 v0.0.0-20251114093237-2ab5a27a1729
)

require (
	github.com/anishathalye/porcupine v1.3.0
	github.com/oasisprotocol/oasis-core/go v0.0.0
)

require (
	github.com/a8m/envsubst v1.4.2
	github.com/btcsuite/btcutil v1.0.3-0.20201208143702-a53e38424cce
	github.com/cenkalti/backoff/v4 v4.3.0
	github.com/cometbft/cometbft v0.37.18
	github.com/cometbft/cometbft-db v1.0.4
	github.com/cosmos/gogoproto v1.7.0
	github.com/dgraph-io/badger/v4 v4.5.1
	github.com/eapache/channels v1.1.0
	github.com/fxamacker/cbor/v2 v2.4.0
	github.com/gammazero/deque v0.2.1
	github.com/go-kit/log v0.2.1
	github.com/goki/go-difflib v1.2.1
	github.com/golang/protobuf v1.5.4
	github.com/golang/snappy v0.0.4
	github.com/google/btree v1.1.3
	github.com/hashicorp/go-hclog v1.5.0
	github.com/hashicorp/go-plugin v1.4.6
	github.com/hpcloud/tail v1.0.0
	github.com/ipfs/go-log/v2 v2.6.0
	github.com/libp2p/go-libp2p v0.48.0
	github.com/libp2p/go-libp2p-pubsub v0.15.0
	github.com/mdlayher/vsock v1.2.1
	github.com/multiformats/go-multiaddr v0.16.0
	github.com/nxadm/tail v1.4.11
	github.com/oasisprotocol/curve25519-voi v0.0.0-20251114093237-2ab5a27a1729
	github.com/oasisprotocol/deoxysii v0.0.0-20220228165953-2091330c22b7
	github.com/olekukonko/tablewriter v0.0.5
	github.com/powerman/rpc-codec v1.2.2
	github.com/prometheus/client_golang v1.22.0
	github.com/prometheus/common v0.64.0
	github.com/prometheus/procfs v0.16.1
	github.com/seccomp/libseccomp-golang v0.10.0
	github.com/spf13/cast v1.6.0
	github.com/spf13/cobra v1.8.1
	github.com/spf13/pflag v1.0.6
	github.com/spf13/viper v1.19.0
	github.com/stretchr/testify v1.11.1
	github.com/thepudds/fzgo v0.2.2
	github.com/tidwall/btree v1.6.0
	github.com/tyler-smith/go-bip39 v1.1.0
	go.uber.org/zap v1.27.0
	golang.org/x/exp v0.0.0-20250606033433-dcc06ee1d476
	golang.org/x/net v0.57.0
	golang.org/x/sync v0.22.0
	google.golang.org/genproto/googleapis/rpc v0.0.0-20251202230838-ff82c1b0f217
	google.golang.org/grpc v1.79.3
	google.golang.org/grpc/security/advancedtls v0.0.0-20221004221323-12db695f1648
	google.golang.org/protobuf v1.36.10
	gopkg.in/yaml.v3 v3.0.1
)

require (
	filippo.io/bigmod v0.1.1-0.20260103110540-f8a47775ebe5 // indirect
	filippo.io/keygen v0.0.0-20260114151900-8e2790ea4c5b // indirect
	github.com/DataDog/zstd v1.5.6 // indirect
	github.com/benbjohnson/clock v1.3.5 // indirect
	github.com/beorn7/perks v1.0.1 // indirect
	github.com/cespare/xxhash/v2 v2.3.0 // indirect
	github.com/cockroachdb/errors v1.11.3 // indirect
	github.com/cockroachdb/fifo v0.0.0-20240816210425-c5d0cb0b6fc0 // indirect
	github.com/cockroachdb/logtags v0.0.0-20241215232642-bb51bb14a506 // indirect
	github.com/cockroachdb/pebble v1.1.4 // indirect
	github.com/cockroachdb/redact v1.1.5 // indirect
	github.com/cockroachdb/tokenbucket v0.0.0-20230807174530-cc333fc44b06 // indirect
	github.com/creachadair/taskgroup v0.13.0 // indirect
	github.com/davecgh/go-spew v1.1.2-0.20180830191138-d8f796af33cc // indirect
	github.com/davidlazar/go-crypto v0.0.0-20200604182044-b73af7476f6c // indirect
	github.com/decred/dcrd/dcrec/secp256k1/v4 v4.4.0 // indirect
	github.com/dgraph-io/ristretto/v2 v2.1.0 // indirect
	github.com/dunglas/httpsfv v1.1.0 // indirect
	github.com/dustin/go-humanize v1.0.1 // indirect
	github.com/eapache/queue v1.1.0 // indirect
	github.com/fatih/color v1.14.1 // indirect
	github.com/flynn/noise v1.1.0 // indirect
	github.com/fsnotify/fsnotify v1.7.0 // indirect
	github.com/getsentry/sentry-go v0.31.1 // indirect
	github.com/go-jose/go-jose/v4 v4.1.4 // indirect
	github.com/go-kit/kit v0.13.0 // indirect
	github.com/go-logfmt/logfmt v0.6.0 // indirect
	github.com/gogo/protobuf v1.3.2 // indirect
	github.com/golang/groupcache v0.0.0-20241129210726-2c02b8208cf8 // indirect
	github.com/google/flatbuffers v25.1.24+incompatible // indirect
	github.com/google/go-cmp v0.7.0 // indirect
	github.com/google/gofuzz v1.2.0 // indirect
	github.com/google/orderedcode v0.0.1 // indirect
	github.com/google/uuid v1.6.0 // indirect
	github.com/gorilla/websocket v1.5.3 // indirect
	github.com/gtank/merlin v0.1.1 // indirect
	github.com/hashicorp/golang-lru/v2 v2.0.7 // indirect
	github.com/hashicorp/hcl v1.0.0 // indirect
	github.com/hashicorp/yamux v0.0.0-20180604194846-3520598351bb // indirect
	github.com/huin/goupnp v1.3.0 // indirect
	github.com/inconshreveable/mousetrap v1.1.0 // indirect
	github.com/ipfs/go-cid v0.5.0 // indirect
	github.com/ipfs/go-datastore v0.8.2 // indirect
	github.com/jackpal/go-nat-pmp v1.0.2 // indirect
	github.com/jbenet/go-temp-err-catcher v0.1.0 // indirect
	github.com/jmhodges/levigo v1.0.0 // indirect
	github.com/json-iterator/go v1.1.12 // indirect
	github.com/klauspost/compress v1.18.7 // indirect
	github.com/klauspost/cpuid/v2 v2.2.10 // indirect
	github.com/koron/go-ssdp v0.0.6 // indirect
	github.com/kr/pretty v0.3.1 // indirect
	github.com/kr/text v0.2.0 // indirect
	github.com/lib/pq v1.10.9 // indirect
	github.com/libp2p/go-buffer-pool v0.1.0 // indirect
	github.com/libp2p/go-flow-metrics v0.2.0 // indirect
	github.com/libp2p/go-libp2p-asn-util v0.4.1 // indirect
	github.com/libp2p/go-msgio v0.3.0 // indirect
	github.com/libp2p/go-netroute v0.4.0 // indirect
	github.com/libp2p/go-reuseport v0.4.0 // indirect
	github.com/libp2p/go-yamux/v5 v5.0.1 // indirect
	github.com/linxGnu/grocksdb v1.9.8 // indirect
	github.com/magiconair/properties v1.8.7 // indirect
	github.com/marten-seemann/tcp v0.0.0-20210406111302-dfbc87cc63fd // indirect
	github.com/mattn/go-colorable v0.1.13 // indirect
	github.com/mattn/go-isatty v0.0.20 // indirect
	github.com/mattn/go-runewidth v0.0.9 // indirect
	github.com/mdlayher/socket v0.4.1 // indirect
	github.com/miekg/dns v1.1.66 // indirect
	github.com/mikioh/tcpinfo v0.0.0-20190314235526-30a79bb1804b // indirect
	github.com/mikioh/tcpopt v0.0.0-20190314235656-172688c1accc // indirect
	github.com/mimoo/StrobeGo v0.0.0-20210601165009-122bf33a46e0 // indirect
	github.com/minio/highwayhash v1.0.3 // indirect
	github.com/minio/sha256-simd v1.0.1 // indirect
	github.com/mitchellh/go-testing-interface v0.0.0-20171004221916-a61a99592b77 // indirect
	github.com/mitchellh/mapstructure v1.5.0 // indirect
	github.com/modern-go/concurrent v0.0.0-20180306012644-bacd9c7ef1dd // indirect
	github.com/modern-go/reflect2 v1.0.2 // indirect
	github.com/mr-tron/base58 v1.2.0 // indirect
	github.com/multiformats/go-base32 v0.1.0 // indirect
	github.com/multiformats/go-base36 v0.2.0 // indirect
	github.com/multiformats/go-multiaddr-dns v0.4.1 // indirect
	github.com/multiformats/go-multiaddr-fmt v0.1.0 // indirect
	github.com/multiformats/go-multibase v0.2.0 // indirect
	github.com/multiformats/go-multicodec v0.9.1 // indirect
	github.com/multiformats/go-multihash v0.2.3 // indirect
	github.com/multiformats/go-multistream v0.6.1 // indirect
	github.com/multiformats/go-varint v0.0.7 // indirect
	github.com/munnerz/goautoneg v0.0.0-20191010083416-a7dc8b61c822 // indirect
	github.com/oasisprotocol/safeopen v0.0.0-20200528085122-e01cfdfc7661 // indirect
	github.com/oklog/run v1.0.0 // indirect
	github.com/onsi/gomega v1.36.3 // indirect
	github.com/pbnjay/memory v0.0.0-20210728143218-7b4eea64cf58 // indirect
	github.com/pelletier/go-toml/v2 v2.2.2 // indirect
	github.com/petermattis/goid v0.0.0-20240813172612-4fcff4a6cae7 // indirect
	github.com/pion/datachannel v1.5.10 // indirect
	github.com/pion/dtls/v3 v3.1.5 // indirect
	github.com/pion/ice/v4 v4.0.10 // indirect
	github.com/pion/interceptor v0.1.40 // indirect
	github.com/pion/logging v0.2.4 // indirect
	github.com/pion/mdns/v2 v2.0.7 // indirect
	github.com/pion/randutil v0.1.0 // indirect
	github.com/pion/rtcp v1.2.16 // indirect
	github.com/pion/rtp v1.8.19 // indirect
	github.com/pion/sctp v1.8.39 // indirect
	github.com/pion/sdp/v3 v3.0.18 // indirect
	github.com/pion/srtp/v3 v3.0.6 // indirect
	github.com/pion/stun/v3 v3.1.6 // indirect
	github.com/pion/transport/v3 v3.0.7 // indirect
	github.com/pion/transport/v4 v4.0.2 // indirect
	github.com/pion/turn/v4 v4.0.2 // indirect
	github.com/pion/webrtc/v4 v4.1.2 // indirect
	github.com/pkg/errors v0.9.1 // indirect
	github.com/pmezard/go-difflib v1.0.1-0.20181226105442-5d4384ee4fb2 // indirect
	github.com/prometheus/client_model v0.6.2 // indirect
	github.com/quic-go/qpack v0.6.0 // indirect
	github.com/quic-go/quic-go v0.60.0 // indirect
	github.com/quic-go/webtransport-go v0.11.1 // indirect
	github.com/rcrowley/go-metrics v0.0.0-20201227073835-cf1acfcdf475 // indirect
	github.com/rogpeppe/go-internal v1.13.1 // indirect
	github.com/rs/cors v1.11.1 // indirect
	github.com/sagikazarmark/locafero v0.4.0 // indirect
	github.com/sagikazarmark/slog-shim v0.1.0 // indirect
	github.com/sasha-s/go-deadlock v0.3.5 // indirect
	github.com/sourcegraph/conc v0.3.0 // indirect
	github.com/spaolacci/murmur3 v1.1.0 // indirect
	github.com/spf13/afero v1.11.0 // indirect
	github.com/spiffe/go-spiffe/v2 v2.6.0 // indirect
	github.com/subosito/gotenv v1.6.0 // indirect
	github.com/syndtr/goleveldb v1.0.1-0.20210819022825-2ae1ddf74ef7 // indirect
	github.com/wlynxg/anet v0.0.5 // indirect
	github.com/x448/float16 v0.8.4 // indirect
	go.etcd.io/bbolt v1.4.0 // indirect
	go.opencensus.io v0.24.0 // indirect
	go.uber.org/dig v1.19.0 // indirect
	go.uber.org/fx v1.24.0 // indirect
	go.uber.org/mock v0.5.2 // indirect
	go.uber.org/multierr v1.11.0 // indirect
	golang.org/x/crypto v0.54.0 // indirect
	golang.org/x/mod v0.37.0 // indirect
	golang.org/x/sys v0.47.0 // indirect
	golang.org/x/telemetry v0.0.0-20260625142307-59b4966ccb57 // indirect
	golang.org/x/text v0.40.0 // indirect
	golang.org/x/time v0.14.0 // indirect
	golang.org/x/tools v0.47.0 // indirect
	gopkg.in/fsnotify.v1 v1.4.7 // indirect
	gopkg.in/ini.v1 v1.67.0 // indirect
	gopkg.in/tomb.v1 v1.0.0-20141024135613-dd632973f1e7 // indirect
	lukechampine.com/blake3 v1.4.1 // indirect
)
