#!/bin/bash
# tools/run_against.sh <repo-worktree> <Cxx> [quick|thorough]
# Builds check Cxx against another checkout of oasis-core (e.g. a scratch worktree with a seeded
# change) and runs it with evidence/replay redirected to a temp dir, so /repo and /verif stay untouched.
set -u
WT="${1:?worktree}"; ID="${2:?id}"; TIER="${3:-quick}"
cd "$(dirname "$0")/.."
export GOFLAGS=-mod=mod GOPROXY=off
pkg="c$(echo "${ID#C}" | tr 'A-Z' 'a-z')"
TMP="$(mktemp -d /tmp/verif-against.XXXXXX)"
trap 'rm -rf "$TMP"' EXIT
sed "s#=> /repo/go#=> $WT/go#" go.mod > "$TMP/go.mod"
cat "$WT/go/go.sum" go.sum.extra | sort -u > "$TMP/go.sum"
RACE=""; [ -f "checks/$pkg/RACE" ] && RACE="-race"
if ! go build -modfile="$TMP/go.mod" -tags verif $RACE -o "$TMP/$pkg" "./checks/$pkg" 2> "$TMP/build.log"; then cat "$TMP/build.log"; echo "BUILD FAILED"; exit 2; fi
mkdir -p "$TMP/root/evidence" "$TMP/root/replay"
cp KNOWN_FINDINGS.jsonl "$TMP/root/" 2>/dev/null
export VERIF_ROOT="$TMP/root" VERIF_SCRATCH="$TMP/scratch"; mkdir -p "$VERIF_SCRATCH"
GORACE="halt_on_error=0 log_path=$VERIF_SCRATCH/race" timeout -s QUIT "${VERIF_TIMEOUT:-3600}" "$TMP/$pkg" -tier "$TIER" -seed "${VERIF_SEED:-1}" > "$TMP/out.log" 2>&1
rc=$?
grep -E '^(VIOLATION|KNOWN-FINDING:|INCONCLUSIVE|SUMMARY|  signature=)' "$TMP/out.log" | cut -c1-400 | head -40
[ $rc -ne 0 ] && [ $rc -ne 1 ] && tail -20 "$TMP/out.log"
echo "exit=$rc"
exit $rc
