#!/bin/bash
# tools/coverage.sh <Cxx> [quick|thorough] [outdir]
# Diagnostic (not a registered check): builds check Cxx with Go's coverage instrumentation over the whole
# oasis-core module, runs the tier once (child processes inherit GOCOVERDIR) and writes
#   <outdir>/<Cxx>.func.txt   per-function statement coverage (go tool cover -func)
#   <outdir>/<Cxx>.anchors.txt the same restricted to the files the property is anchored in (properties.jsonl)
# Used to find code behind a property that no workload reaches. Evidence/replay go to a temp root.
set -u
ID="${1:?id}"; TIER="${2:-quick}"; OUT="${3:-/tmp/verif-cov}"
cd "$(dirname "$0")/.."
export GOFLAGS=-mod=mod GOPROXY=off
unset GOTOOLCHAIN GOSUMDB 2>/dev/null
pkg="c$(echo "${ID#C}" | tr 'A-Z' 'a-z')"
mkdir -p "$OUT"
TMP="$(mktemp -d /tmp/verif-cov.XXXXXX)"
trap 'rm -rf "$TMP"' EXIT
RACE=""; [ -f "checks/$pkg/RACE" ] && RACE="-race"
go build -tags verif $RACE -cover -covermode=atomic -coverpkg="verif/checks/$pkg,github.com/oasisprotocol/oasis-core/go/..." -o "$TMP/$pkg" "./checks/$pkg" 2> "$TMP/build.log" || { cat "$TMP/build.log"; exit 2; }
mkdir -p "$TMP/root/evidence" "$TMP/root/replay" "$TMP/scratch" "$TMP/cov"
cp KNOWN_FINDINGS.jsonl "$TMP/root/"
VERIF_ROOT="$TMP/root" VERIF_SCRATCH="$TMP/scratch" GOCOVERDIR="$TMP/cov" GORACE="halt_on_error=0 log_path=$TMP/scratch/race" \
  timeout -s QUIT "${VERIF_TIMEOUT:-3600}" "$TMP/$pkg" -tier "$TIER" -seed "${VERIF_SEED:-1}" > "$TMP/out.log" 2>&1
echo "exit=$? $(grep -E '^SUMMARY' "$TMP/out.log" | tail -1)"
go tool covdata textfmt -i "$TMP/cov" -o "$TMP/prof.txt" || exit 2
grep -v '^verif/' "$TMP/prof.txt" > "$TMP/prof2.txt"
go tool cover -func="$TMP/prof2.txt" > "$OUT/$ID.func.txt" 2> "$TMP/cover.err" || { head "$TMP/cover.err"; exit 2; }
cp "$TMP/prof2.txt" "$OUT/$ID.prof.txt"
python3 - "$ID" "$OUT" <<'PY'
import json,sys,collections
pid,out=sys.argv[1],sys.argv[2]
files=[]
for l in open('properties.jsonl'):
    p=json.loads(l)
    if p['id']==pid: files=p['anchors']['files']
rows=[l for l in open(f'{out}/{pid}.func.txt') if any(('/'+f.split('go/',1)[1]+':') in l for f in files)]
open(f'{out}/{pid}.anchors.txt','w').writelines(rows)
zero=[l for l in rows if l.rstrip().endswith('\t0.0%')]
missing=[f for f in files if not any(('/'+f.split('go/',1)[1]+':') in l for l in rows)]
# uncovered statement blocks of the anchor files (merged over duplicate profile lines), largest first
cnt=collections.defaultdict(int); stm={}
for l in open(f'{out}/{pid}.prof.txt'):
    if l.startswith('mode:'): continue
    loc,n,c=l.rsplit(' ',2)
    cnt[loc]+=int(c); stm[loc]=int(n)
unc=[]
for loc,c in cnt.items():
    f=loc.split(':')[0]
    if c==0 and any(f.endswith('/'+a.split('go/',1)[1]) for a in files):
        rng=loc.split(':')[1]
        unc.append((f.split('oasis-core/go/')[1],int(rng.split('.')[0]),rng,stm[loc]))
unc.sort()
open(f'{out}/{pid}.uncovered.txt','w').writelines(f'{f}:{r} stmts={n}\n' for f,_,r,n in unc)
tot=sum(stm[l] for l in cnt if any(l.split(':')[0].endswith('/'+a.split('go/',1)[1]) for a in files))
print(f'{pid}: {sum(n for *_,n in unc)} of {tot} statements in anchor files never executed')
print(f'{pid}: {len(rows)} functions in anchor files, {len(zero)} never executed; anchor files not linked into the check: {missing}')
PY
