#!/usr/bin/env python3
"""tools/keep_seed.py <tmp-seed-dir> <confirm-json> <detected_by> <detail>
Copies a confirmed seeded change into /verif/seeded/<id>/ and records what was run."""
import json, os, shutil, sys
src, confirm, detected_by, detail = sys.argv[1], json.loads(sys.argv[2]), sys.argv[3], sys.argv[4]
sid = os.path.basename(src.rstrip('/'))
dst = os.path.join('/verif/seeded', sid)
shutil.rmtree(dst, ignore_errors=True)
os.makedirs(dst)
shutil.copy(os.path.join(src, 'patch.diff'), dst)
shutil.copytree(os.path.join(src, 'demo'), os.path.join(dst, 'demo'))
m = json.load(open(os.path.join(src, 'meta.json')))
out = {
    'id': sid,
    'property': m.get('property'),
    'summary': m.get('summary'),
    'needs_to_manifest': m.get('needs_to_manifest'),
    'files_touched': m.get('files_touched'),
    'author': 'independent sub-agent given only the property text and a scratch worktree',
    'confirmed_by_lead': confirm,
    'what_was_run': 'tools/confirm_seed.sh (patch applies on HEAD and builds; go test of touched packages + demo package passes with the patch; demo fails with / passes without the patch) and tools/try_seed.sh (check built against a scratch worktree with the patch)',
    'detected_by': detected_by,
    'detection_detail': detail,
}
json.dump(out, open(os.path.join(dst, 'meta.json'), 'w'), indent=1)
print('kept', sid)
