#!/bin/bash
# tools/baseline.sh [out.json]  -- runs the repository's own pinned test suite (hooks off, no verif tag) from /repo's
# working tree and compares the outcome with the stable-pass list in /root/.vp/BASELINE.json.
# Run on a quiet machine: TestCheckpointer and the p2p retention test are wall-clock sensitive.
set -u
OUT="${1:-/tmp/baseline_$(date +%s).json}"
export GOFLAGS=-mod=mod GOPROXY=off
(cd /repo/go && go test -json -vet=off -count=1 -timeout 25m ./... > "$OUT" 2> "$OUT.err")
python3 - "$OUT" <<'PY'
import json,sys
res={}
for l in open(sys.argv[1]):
    try: e=json.loads(l)
    except Exception: continue
    t=e.get('Test')
    if not t: continue
    if e.get('Action') in ('pass','fail','skip'):
        res[e['Package']+'::'+t]=e['Action']
stable=json.load(open('/root/.vp/BASELINE.json'))['stable_pass']
bad=[s for s in stable if res.get(s)!='pass']
print('stable tests:',len(stable),'passing now:',len(stable)-len(bad))
for b in bad: print('NOT PASSING:',b,res.get(b))
PY
