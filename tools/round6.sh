#!/bin/bash
# tools/round6.sh <Cxx> [check-id]  -- confirm + try both round-6 seeds of a property, keep the caught ones.
P="$1"; ID="${2:-$1}"; T="$(dirname "$0")"
for s in ${SUFFIXES:-m n}; do
  SD=${SEEDS:-/tmp/seeds7}/$P-$s
  [ -f "$SD/meta.json" ] || { echo "$P-$s: not delivered"; continue; }
  "$T/seed_pipeline.sh" "$SD" "$ID" quick 2>&1 | cut -c1-700
  "$T/keep_if_caught.sh" "$SD" "$ID" "$ID quick" 2>&1 | cut -c1-400
done
