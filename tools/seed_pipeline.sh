#!/bin/bash
# tools/seed_pipeline.sh <seed-dir> <Cxx> [tier]  -- confirm a seeded change, run the check against it, save both outcomes
# under /tmp/seedres/<seed>/ (confirm.json, try.log, try.exit). Nothing is written to /repo.
set -u
SD="$(realpath "${1:?seed dir}")"; ID="${2:?check id}"; TIER="${3:-quick}"
S="$(basename "$SD")"; OUT="/tmp/seedres/$S"; mkdir -p "$OUT"
T="$(dirname "$0")"
"$T/confirm_seed.sh" "$SD" > "$OUT/confirm.out" 2>&1
grep -m1 '^{' "$OUT/confirm.out" > "$OUT/confirm.json"
"$T/try_seed.sh" "$SD" "$ID" "$TIER" > "$OUT/try.log" 2>&1
echo $? > "$OUT/try.exit"
echo "== $S: $(cat "$OUT/confirm.json")"
echo "   check $ID exit $(cat "$OUT/try.exit"); $(grep -c '^VIOLATION' "$OUT/try.log") violation lines; $(grep -E '^(VIOLATION-DETAIL|  signature|SIG)' "$OUT/try.log" | head -3)"
grep -E "SUMMARY|INCONCL" "$OUT/try.log" | head -3
