#!/bin/bash
# tools/keep_if_caught.sh <seed-dir> <Cxx> [detected_by text]  -- after tools/seed_pipeline.sh: keep the seed in seeded/
# when it was confirmed and the check reported it; print why not otherwise.
SD="$(realpath "$1")"; ID="$2"; S="$(basename "$SD")"; R="/tmp/seedres/$S"
BY="${3:-$ID quick}"
C="$(cat "$R/confirm.json" 2>/dev/null)"
ok=$(python3 -c "
import json,sys
c=json.loads(sys.argv[1] or '{}')
print(int(all(c.get(k) for k in ['build_ok','existing_tests_pass_with_patch','demo_passes_without_patch','demo_fails_with_patch'])))" "$C")
if [ "$ok" != 1 ]; then echo "$S NOT CONFIRMED: $C"; exit 1; fi
if [ "$(cat "$R/try.exit")" != 1 ] || ! grep -q '^VIOLATION' "$R/try.log"; then echo "$S NOT CAUGHT (exit $(cat "$R/try.exit"))"; exit 2; fi
DETAIL="$(grep -m1 -E '^  signature=' "$R/try.log" | sed 's/^  signature=//' | cut -c1-300)"
python3 "$(dirname "$0")/keep_seed.py" "$SD" "$C" "$BY" "$DETAIL"
