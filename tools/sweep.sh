#!/bin/bash
# tools/sweep.sh <seed> [checks...] -- quick tier of every check (or the given ones) at one VERIF_SEED; one line per check.
S="${1:?seed}"; shift
cd "$(dirname "$0")/.."
[ $# -eq 0 ] && set -- C01 C02 C03 C04 C05 C06 C07 C08 C09 C10 C11 C12 C13 C14 C15 C16 C17 C18 C19 C20
for c in "$@"; do
  t0=$(date +%s)
  VERIF_SEED=$S ./run.sh $c quick > /tmp/sweep-$S-$c.log 2>&1; rc=$?
  echo "seed=$S $c exit=$rc $(( $(date +%s)-t0 ))s $(grep -c '^VIOLATION' /tmp/sweep-$S-$c.log) violations $(grep -c '^INCONCLUSIVE' /tmp/sweep-$S-$c.log) inconclusive"
  grep -E '^(VIOLATION|INCONCLUSIVE|  signature=)' /tmp/sweep-$S-$c.log | cut -c1-400 | head -6
done
