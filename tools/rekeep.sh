#!/bin/bash
# tools/rekeep.sh <seed-id> <check-id> <detected_by text>  -- re-run the pipeline for a round-6 seed after strengthening and keep it if caught
S="$1"; ID="$2"; BY="$3"; T="$(dirname "$0")"
"$T/seed_pipeline.sh" /tmp/seeds6/$S "$ID" quick 2>&1 | cut -c1-300 | head -4
"$T/keep_if_caught.sh" /tmp/seeds6/$S "$ID" "$BY" 2>&1 | cut -c1-300
