#!/bin/bash
# tools/try_seed.sh <seed-dir> <Cxx> [tier]   -- applies <seed-dir>/patch.diff in a scratch worktree and runs check Cxx against it.
set -u
SD="$(realpath "${1:?seed dir}")"; ID="${2:?check id}"; TIER="${3:-quick}"
WT="/tmp/seedwt-$$"
git -C /repo worktree add -q "$WT" HEAD || exit 2
trap 'git -C /repo worktree remove --force "$WT" >/dev/null 2>&1; rm -rf "$WT"' EXIT
if ! git -C "$WT" apply "$SD/patch.diff"; then echo "PATCH DOES NOT APPLY"; exit 2; fi
(cd "$WT/go" && GOFLAGS=-mod=mod GOPROXY=off go build ./... ) || { echo "PATCHED TREE DOES NOT BUILD"; exit 2; }
"$(dirname "$0")/run_against.sh" "$WT" "$ID" "$TIER"
