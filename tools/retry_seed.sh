#!/bin/bash
# tools/retry_seed.sh <seed-dir> <Cxx> [tier]  -- re-run only the check against an already confirmed seed (after strengthening)
SD="$(realpath "$1")"; ID="$2"; TIER="${3:-quick}"; S="$(basename "$SD")"; OUT="/tmp/seedres/$S"; mkdir -p "$OUT"
"$(dirname "$0")/try_seed.sh" "$SD" "$ID" "$TIER" > "$OUT/try.log" 2>&1
echo $? > "$OUT/try.exit"
echo "$S: check $ID exit $(cat "$OUT/try.exit"); $(grep -c '^VIOLATION' "$OUT/try.log") violation lines; $(grep -m1 -E '^  signature' "$OUT/try.log" | cut -c1-300)"
