#!/usr/bin/env python3
"""Regenerates /verif/MANIFEST.json from the table below (keeps it schema-valid).

A property is claimed as soon as checks/<id>/ exists and it is listed in BUILT.
"""
import json, os, subprocess, sys

ROOT = os.path.dirname(os.path.dirname(os.path.abspath(__file__)))

# id -> (category, technique, text, note, design_ref)
CHECKS = {
 "C01": ("exploration", "differential execution of replicas (real ABCI mux) + Go race detector",
   "Generated block histories are executed on a reference replica and 3-4 test replicas that take PRNG-assigned execution paths (proposer with cached results, validator, plain replay, round change, restart from disk, crash mid-block) on both node-database backends with pruning, while CheckTx, EstimateGas and historical queries run concurrently under the race detector; AppHash, per-transaction code/codespace/data and validator updates must be byte-identical to the reference at every height, honest proposals must be accepted, and any race report fails the check. Held on the histories and interleavings that were executed, nothing more. Scenario profiles include key manager traffic and an 'evidence' profile (consensus evidence in every third block with infraction heights up to 14 blocks back, pruning replicas keeping two versions against an archive reference). On-disk replicas run the real node-local upgrade manager; finalization gets a complete block header, the proposal phase the multiplexer's partial one.",
   "Trusted: the harness's block driver reproduces CometBFT's ABCI call discipline (one serialised ABCI connection, free-running queries/simulation/pruner); divergence needing another binary/OS/architecture is out of reach.",
   "DESIGN.md 4/C01"),
 "C02": ("exploration", "multi-route differential + independent reference hasher",
   "For every generated content set the MKVS root is computed along many independent routes (insertion orders, histories with overwrites/removals/re-inserts, commit batching, cache capacities, backends, reopen, write-log replay) and must equal an independent reference hasher's canonical-trie root; neighbouring content sets must give different roots. A fault-retry route makes operations fail once (GetNode failing once, contexts cancelled after i checks): a failed operation must leave the contents unchanged and the retried history must still reach the reference root. Finalizing database routes also replay the write logs the node database serves (GetWriteLog) for consecutive finalized roots.",
   "Trusted: the reference hasher is written from the hash definitions in node.go only; SHA-512/256 collision resistance.",
   "DESIGN.md 4/C02"),
 "C03": ("exploration", "online reference-model monitor (ordered map)",
   "Random operation histories (insert, remove, get, iterate/seek, nested overlays with commit/discard/copy, tree commit, close/reopen) are executed against the real tree under several cache capacities, backends and write-log settings; every returned value and every iteration is compared with a reference ordered map. About a quarter of the operations are first attempted under an injected fault (failing GetNode, cancelled context) and must then leave the map unchanged. The api.Context mechanism is driven in all six context modes, with transactions opened on NewChild / WithSimulation / WithCallerAddress children. A partial scan is followed by a second Seek and a Rewind of the same, still positioned iterator; keys of up to and beyond 8191 bytes are probed.",
   "Trusted: the reference map (Go map + sort).",
   "DESIGN.md 4/C03"),
 "C04": ("exploration", "evil-peer fault injection + model oracle over answers",
   "Completeness: proofs of random trees for present/absent/prefix/extension keys verify and determine the true answers (both proof versions). Soundness: a client holding only the trusted root reads through a peer that serves honest, mutated (38 mutation kinds), spliced and stale proofs; every non-error answer must equal the model; every mutant accepted by VerifyProof is re-interrogated. Fabricated minimal proofs and re-encodings of honest entries (database serialization with forged or spliced children) are served as well, and the subtree returned for every accepted corrupted proof must be part of the trusted tree. Fixed deep prefix chains probe the proof depth bound. Remote readers are also written to locally and must then answer like a full replica with the same writes, whichever proof version the peer answers with; a third of the iteration requests state an inner node as position.",
   "Trusted: the monitor's own partial-tree interpreter and the reference map; hash collision resistance.",
   "DESIGN.md 4/C04"),
 "C05": ("exploration", "conservation monitor over committed state and H1 taps",
   "After every block (and, in the thorough tier, at every transaction / app-step tap) of generated histories the staking ledger is summed independently: total supply = balances + escrows + common pool + governance deposits + carried fees (+ in-block fee accumulator), share totals = sum of delegations in both index directions, supply never increases and decreases exactly by the burn events.",
   "Trusted: typed state readers of the staking state package; the in-tree supplementary sanity checker is not used.",
   "DESIGN.md 4/C05"),
 "C06": ("exploration", "history monitor with full read-back, cross-backend differential, porcupine, race detector",
   "Generated NodeDB version histories (competing candidate roots sharing and re-creating nodes, IO and state roots, arbitrary finalisation, lagging pruning) on both backends; after every operation every retained finalized root is fully read back against a model, discarded roots must be absent or intact, both backends must answer identically; concurrent readers run against a committer/finalizer/pruner under the race detector and metadata operations are checked for linearizability. Long-lived trees kept across versions (same root committed twice, prefix keys embedded and un-embedded, leaves becoming and ceasing to be the root), on-disk histories with reopen and compaction, and a commit-versus-finalize family whose interleavings are chosen by parking goroutines at the hook points are part of every run. Committed candidates that are not finalized yet are read back after every operation as well; a third of the histories run with DiscardWriteLogs (the consensus configuration).",
   "Trusted: the per-root model; porcupine's checker. Known open findings on the hashed badger backend are listed in KNOWN_FINDINGS.jsonl.",
   "DESIGN.md 4/C06"),
 "C07": ("fault_enumeration", "SIGKILL at every crash point x hit index (H3) + reopen/retry oracle",
   "For generated histories every (operation, crash point, hit index) reached inside Commit/Finalize/Prune/multipart restore on both backends is enumerated with a counting run; a child process is killed with SIGKILL at that point, a fresh process reopens the database and checks that finalized versions are intact, the interrupted operation is atomic or repeatable, no partially restored checkpoint is visible as finalized, and the history can continue to the same final state.",
   "Fault model: process death (page cache survives, as the consensus layer's NoFsync relies on); enumeration is complete w.r.t. the hook points, instants inside a badger flush are only sampled.",
   "DESIGN.md 4/C07"),
 "C08": ("exploration", "per-transaction state-diff monitor (H1 taps) + twin-replica differential",
   "The full proposal state is dumped before and after every delivered transaction of generated histories; a failing transaction's diff must be empty or exactly nonce+1/balance-fee of the authenticated signer (decided by an independent authentication model cross-checked with the error code); twin replicas executing a block with and without a failing transaction must commit states differing only in that nonce; CheckTx/EstimateGas bursts must leave the committed state unchanged. Gas pre-sweeps: the first execution of a transaction (preferably a vault action) runs under every gas limit at which a charge can run out, taken from the genesis gas costs and their nested sums; key manager (secrets and CHURP) transactions reach their success and failure paths on a test key manager runtime.",
   "Trusted: the authentication model (signature, nonce, balance, reserved address); key-manager methods only to validation depth.",
   "DESIGN.md 4/C08"),
 "C09": ("exploration", "history monitor with independent signature verifier and forger",
   "Fresh, replayed, reordered, bit-flipped and cross-context transactions are delivered; a transaction that takes effect (non-empty state diff or code OK) must verify under an independent ed25519 check of this chain's transaction context, carry the signer's current nonce, advance exactly that nonce by one, and its bytes never take effect twice. Copies of the proposer's own proposal with one signature bit flipped are offered to ProcessProposal, and signatures made for another domain are first shown to that domain's handler inside a carrier transaction. All 256 bits of the stated public key are flipped, some accounts start at the end of the 64-bit nonce space, and a decodable envelope whose signature does not verify must be refused by signature verification itself. Read-fault twins (hook H6): restarted on-disk replicas execute blocks with single transient failing node reads aimed at the authentication of stale transactions; the block must be aborted (and replay equal after a restart) or the nonce discipline must hold on the faulted node.",
   "Trusted: independent sha512/256 + ed25519 verification in the harness.",
   "DESIGN.md 4/C09"),
 "C10": ("exploration", "panic/reject monitor over hostile block histories",
   "Every generated history (including a hostile profile: extreme amounts, all validators absent, evidence against unknown/frozen validators, slashing to zero, proposals closing with debonding and rewards on one epoch boundary) must complete BeginBlock/DeliverTx/EndBlock/Commit without panic, empty proposal or rejected honest proposal; the documented stake precondition (no stake-eligible validators / zero total voting stake) ends a history without verdict. Histories include runtime scenarios (round timers, suspensions, liveness evaluation), vault traffic and node role / entity changes. Governance storms (two proposals per block, every entity voting on every active proposal) and key manager traffic are part of the histories. Registrations of new runtimes that pass the registry but are refused by the roothash application are generated.",
   "Trusted: LastCommitInfo always lists exactly the current validator set as CometBFT guarantees.",
   "DESIGN.md 4/C10"),
 "C11": ("exploration", "exhaustive small-scope enumeration against an event-log checker and a reference decision function",
   "All committee shapes, vote multisets, arrival orders and processing placements inside the stated small scope are driven through the real commitment pool; the outcome is checked against the property's clauses evaluated over the accepted commitments and against an independent reference decision function. App level: generated chain histories with a compute runtime (honest, discrepancy, failure, timeout, lower-rank-scheduler rounds) on the real multiplexer; the runtime blocks emitted by the roothash application must be justified by the commitments accepted for the round.",
   "Exhaustive only inside the stated scope; the app level is sampled.",
   "DESIGN.md 4/C11"),
 "C12": ("exploration", "round-trip differential + chunk fault enumeration + race detector",
   "Checkpoints of generated trees are created twice (metadata must be identical) and restored into empty databases of both backends in PRNG orders with duplicates, concurrent callers and abort/restart; the restored root and contents must equal the source; every corrupted chunk must be rejected with nothing of it visible. Gated readers keep chunks in flight while others complete and the harness finalizes on the first done=true; checkpoints are re-created over the leftovers of interrupted creations; a stalled concurrent restore is decided from goroutine dumps (deadlock) instead of a timeout. Fallback cases: an aborted restore of a newer checkpoint, a restore of an older one, forward sync with write logs through the aborted version, every finalized version read back. Abort-while-in-flight cases: a RestoreChunk call blocked in Read across AbortRestore (and the start of another checkpoint's restore) must never be counted for a restore it does not belong to.",
   "Trusted: the reference map.",
   "DESIGN.md 4/C12"),
 "C13": ("exploration", "write-log round trip + corruption enumeration",
   "For consecutive finalized roots the write log served by the database, applied at the first root, must produce the second; LocalBackend.Apply must persist only logs that hash to the expected root (corrupted logs fail unless semantically neutral per the model) and must not leave the root visible after a failure. Commits refused by the node database (six reasons) followed by further updates and a successful commit of the same tree are part of a third of the batches; the log returned by Commit is judged like the served one. Evicting-leader cases: a leader tree with a small value cache (prefix-free keys) rewrites unchanged values and reads other leaves before committing; the stored and the returned log must still describe the transition. A log with more entries than the streaming iterator buffers is read with pauses while its version is pruned: it may be refused, but must not end without an error unless complete.",
   "Trusted: the reference map deciding semantic neutrality.",
   "DESIGN.md 4/C13"),
 "C14": ("exploration", "recomputed-eligibility monitor at election taps (H2)",
   "At every election of generated histories the oracle recomputes eligibility from registry/staking/scheduler state at the elect.pre tap and checks the elected validator set and the executor committees of the generated runtime (only eligible nodes, limits, per-entity caps, minimum pool size, exact sizes or no committee, stake order, power monotone), and that the validator updates turn the simulated CometBFT validator set into exactly the elected set; results are compared across replicas. A block in which the reference ran an election and rejects the proposing replica's state root is reported as replicas disagreeing on an election. Every other two-deployment scenario lists the upcoming deployment first.",
   "Trusted: the harness's re-implementation of the eligibility predicate from the property statement.",
   "DESIGN.md 4/C14"),
 "C15": ("exploration", "exact integer inequalities over API sequences + chain taps",
   "Level 1: random/boundary Deposit/Withdraw/reward/slash sequences on SharePool checked with exact big-integer cross-multiplication (mint/redeem at most pro rata, nobody else's redeemable value falls, no money pump). Level 2: around every escrow operation in generated chain histories other delegators' redeemable value does not fall, share price falls only with TakeEscrow events, reclaimed delegations are paid exactly once at the right epoch and price. Level 2 also checks the recorded debonding end epoch against the executing block's epoch plus the interval in force, and that pool share totals equal the shares of their owners at every block.",
   "Trusted: math/big.",
   "DESIGN.md 4/C15"),
 "C16": ("exploration", "structure-aware mutational fuzzing in child processes (race/checkptr build)",
   "Valid encodings produced by the harness are mutated (bit/byte/length/nesting/duplication/truncation) and fed to every untrusted decode/verify boundary and to CheckTx/DeliverTx of a live multiplexer; no panic, hang or allocation blow-up, and a following valid block must still execute. Besides random mutants every valid seed goes through deterministic series: every truncation length, every single byte deleted, every length field moved by +-1..4, every optional field absent / null (all combinations for paired structures); proofs nested through every child slot are bounded by counting verifier invocations and by a stack limit; the host protocol is driven by adversarial peer scripts whose outcome is decided from goroutine dumps. Write logs with keys of 8191..65536 bytes are part of the deterministic series; the thorough tier first runs an -asan build of the same workload.",
   "Absence of findings over the sampled inputs only.",
   "DESIGN.md 4/C16"),
 "C17": ("exploration", "index/claims recomputation + authority monitor over state diffs",
   "After every block of registry-heavy histories (registrations, key rotation/swap, expiry, deregistration) every node must resolve under each current key, keys are unique, indexes equal what primary records imply, stake claims equal the registered objects, and records change only in transactions signed with the right authority. The descriptor of an entity-governed runtime may only change in a transaction of that entity (also while suspended). Histories with a key manager: one CHURP stake claim per stored CHURP instance is expected on the owner's account. A node's identity key counts in key uniqueness; the thresholds recorded with every claim are compared with those the registered object implies; descriptors in which one key signs twice in place of another are generated.",
   "Trusted: typed registry/staking state readers.",
   "DESIGN.md 4/C17"),
 "C18": ("fault_enumeration", "mutation enumeration of attestation vectors with acceptance oracle",
   "Every single-bit (thorough) mutant of the repository's SGX/TDX quote vectors, mutants of collateral, time grids around validity boundaries and policy variants: acceptance implies identical identity/report data and an independent validity/policy predicate.",
   "Only the vectors in the repository; crypto of the Go standard library trusted.",
   "DESIGN.md 4/C18"),
 "C19": ("fault_enumeration", "field/byte-level alteration of provider responses with normal-form oracle",
   "Every field and byte of recorded provider responses (block, results, validators, parameters, transactions, proofs) is altered; an accepted response must have the same header-bound normal form as the original; inclusion proofs verify only for their own transaction and block. Multi-height histories run against one long-lived Core with responses of other heights relabelled, so stale caches show; times are compared exactly (sub-second alterations). Whole CBOR items of every provider blob are replaced by null / empty containers (nil pointers and nil slice entries on the Go side); Core.GetTransactionsWithResults is called with transactions of another height and, for the latest height, against an honest per-height provider whose tip moves between the calls of one request. Eight callers ask the long-lived Core for different heights at the same time on chains above height 25,000,000.",
   "Events in block results are excluded (code TODO #6210).",
   "DESIGN.md 4/C19"),
 "C20": ("exploration", "online reference-model monitor of the scheduler and of the mutex-guarded main queue (H4 exports) + race detector on concurrent callers",
   "Random and small-scope-exhaustive operation sequences on the main queue scheduler and, for every other sequence, on the production wrapper mainQueue (Add = forward+add, Schedule = reset+schedule); contents and every scheduling step are checked against a straightforward reference model that follows the implementation's legal free choices. Concurrent cases: several goroutines add/use transactions of disjoint senders on one shared mainQueue while another schedules passes, under the race detector in child processes; each worker compares its own slice of the pool with its sequential model after every operation, passes are checked for limit / duplicates / ascending sender order, and the quiescent content must equal the union of the models.",
   "Trusted: the reference model.",
   "DESIGN.md 4/C20"),
}

BUILT = sys.argv[1:] if len(sys.argv) > 1 else None

SESSION4 = {
 "C01": " The block's own transactions are offered to CheckTx on the test replicas while the block executes, and a third of the blocks carry signature-bit-flipped copies of mempool transactions.",
 "C04": " A long-shared-prefix probe (internal node labels of 130 to 8100 bytes) asks for lookup proofs of every key in both proof versions and for the full iteration.",
 "C06": " Every eighth history restores a checkpoint of a later version over the finalized earlier versions, finalizes it and prunes below.",
 "C10": " A history that ends with the election-precondition message is a violation when the recomputed precondition holds (enough eligible validator entities with a wide margin); VRF epochs in which only non-validator nodes prove, governance-deposit and roothash-limit parameter changes, node descriptors with redundant runtime versions and nodes serving two runtimes are part of the histories.",
 "C11": " App level: every commitment of an accepted transaction must verify under its stated node key; failure-indicating votes with corrupted signatures are submitted in the name of members that have not voted.",
 "C15": " Level 2 also refuses a rise of another delegator's redeemable debonding value by more than the worth of one share through a foreign transaction (shares minted below the pool's price).",
 "C17": " The runtime ownership index is compared with the owners of the registered and suspended runtimes at every block boundary; compute nodes sign up for a second runtime while active.",
}


def main():
    props = [json.loads(l) for l in open(os.path.join(ROOT, "properties.jsonl"))]
    built_file = os.path.join(ROOT, "tools", "built.txt")
    built = set(open(built_file).read().split()) if os.path.exists(built_file) else set()
    if BUILT:
        built |= set(BUILT)
        open(built_file, "w").write("\n".join(sorted(built)) + "\n")
    commits = subprocess.run(["git", "-C", "/repo", "log", "--format=%h %s"], capture_output=True, text=True).stdout.splitlines()
    hooks = [c.split()[0] for c in commits if c.split(" ", 1)[1].startswith("verif hook")]
    m = {
        "version": 1,
        "setup_cmd": "./setup.sh",
        "hooks": {
            "guard": "verif",
            "enable": "go build -tags verif (every check is built by ./run.sh with -tags verif against /repo/go's working tree through the go.mod replace directive)",
            "baseline_off_cmd": "cd /repo/go && GOFLAGS=-mod=mod GOPROXY=off go test -json -vet=off -count=1 -timeout 25m ./...",
            "source_commits": list(reversed(hooks)),
            "add_only": True,
        },
        "engines": [
            {"name": "evid", "path": "engine/evid", "serves_properties": sorted(CHECKS), "kind_free_text": "verdict / evidence / known-findings machinery, child-process and race-log helpers"},
            {"name": "chainsim", "path": "engine/chainsim", "serves_properties": ["C01", "C05", "C08", "C09", "C10", "C14", "C15", "C16", "C17"], "kind_free_text": "in-process multi-replica driver of the real ABCI multiplexer with all consensus apps, genesis/tx/vote/evidence generators, state taps"},
        ],
        "checks": [],
        "notes": "See DESIGN.md. Exit codes of every command: 0 held on what was observed, 1 VIOLATION, 2 INCONCLUSIVE/broken run. KNOWN_FINDINGS.jsonl lists open findings and repaired defects.",
        "not_applicable": [],
    }
    for p in props:
        pid = p["id"]
        cat, tech, text, note, ref = CHECKS[pid]
        text += SESSION4.get(pid, "")
        if pid in built and os.path.isdir(os.path.join(ROOT, "checks", pid.lower())):
            m["checks"].append({
                "property_id": pid,
                "quick_cmd": f"./run.sh {pid} quick",
                "thorough_cmd": f"./run.sh {pid} thorough",
                "evidence_file": f"/verif/evidence/{pid}.json",
                "replay_cmd_template": f"./run.sh {pid} replay {{path}}",
                "engine": "chainsim" if pid in ["C01", "C05", "C08", "C09", "C10", "C14", "C15", "C16", "C17"] else "evid",
                "level_claimed": {"category": cat, "text": text, "design_ref": ref},
                "level_note": note,
                "technique": tech,
            })
        else:
            m["not_applicable"].append({"property_id": pid, "reason": "check not built yet (work in progress; runtime monitoring is applicable, see DESIGN.md)"})
    json.dump(m, open(os.path.join(ROOT, "MANIFEST.json"), "w"), indent=1)
    print("claimed:", [c["property_id"] for c in m["checks"]])

main()
