#!/usr/bin/env python3
"""tools/seed_table.py -- regenerates the seeded-change table of DESIGN.md (between the table header line and the
'Seeded changes delivered but not' paragraph) from seeded/*/meta.json."""
import glob, json, re
rows = []
for f in sorted(glob.glob('/verif/seeded/*/meta.json')):
    m = json.load(open(f))
    s = (m.get('summary') or '').replace('\n', ' ').replace('|', '/')
    if len(s) > 260:
        s = s[:257] + '...'
    by = (m.get('detected_by') or '').replace('|', '/')
    d = (m.get('detection_detail') or '').replace('\n', ' ').replace('|', '/')
    if len(d) > 150:
        d = d[:147] + '...'
    rows.append(f"| {m['id']} | {s} | {by} | `{d}` |")
p = '/verif/DESIGN.md'
s = open(p).read()
head = '| Seed | Change | Caught by | First signature reported |\n|---|---|---|---|\n'
i = s.index(head) + len(head)
j = s.index('\nSeeded changes delivered but not')
s = s[:i] + '\n'.join(rows) + '\n' + s[j:]
open(p, 'w').write(s)
print(len(rows), 'rows')
