#!/bin/bash
# tools/confirm_seed.sh <seed-dir>
# Confirms a seeded change independently: patch applies and builds; the existing tests of the touched
# packages (and the demonstration's package) pass with it; the demonstration fails with the patch and
# passes without it. Prints a JSON line with the outcome.
set -u
SD="$(realpath "${1:?seed dir}")"
WT="/tmp/confirm-$$"
export GOFLAGS=-mod=mod GOPROXY=off
git -C /repo worktree add -q "$WT" HEAD || exit 2
trap 'git -C /repo worktree remove --force "$WT" >/dev/null 2>&1; rm -rf "$WT"' EXIT
read -r RUN PKG < <(python3 - "$SD" <<'PY'
import json,re,sys
m=json.load(open(sys.argv[1]+'/meta.json'))
c=m['demo_cmd']
run=re.search(r'-run\s+(\S+)',c).group(1).strip(chr(39)+chr(34))
pkg=re.findall(r'(\./\S+)',c)[-1]
print(run,pkg)
PY
)
TAGS=""; grep -q -- "-tags verif" "$SD/meta.json" && TAGS="-tags verif"
TOUCHED=$(grep '^+++ b/go/' "$SD/patch.diff" | sed 's#^+++ b/go/##; s#/[^/]*$##' | sort -u | sed 's#^#./#; s#$#/#' | tr '\n' ' ')
cd "$WT/go"
demo_run() { cp "$SD"/demo/*_test.go "$WT/go/$PKG" 2>/dev/null; go test $TAGS -count=1 -run "$RUN" "$PKG" > "$WT/demo.log" 2>&1; rc=$?; rm -f $(for f in "$SD"/demo/*_test.go; do echo "$WT/go/$PKG/$(basename $f)"; done); return $rc; }
demo_run; WITHOUT=$?
git -C "$WT" apply "$SD/patch.diff" || { echo '{"ok":false,"why":"patch does not apply"}'; exit 1; }
go build ./... > "$WT/build.log" 2>&1; BUILD=$?
go test -count=1 $TOUCHED $PKG > "$WT/tests.log" 2>&1; TESTS=$?
demo_run; WITH=$?
echo "{\"seed\":\"$(basename $SD)\",\"build_ok\":$([ $BUILD -eq 0 ] && echo true || echo false),\"existing_tests_pass_with_patch\":$([ $TESTS -eq 0 ] && echo true || echo false),\"demo_passes_without_patch\":$([ $WITHOUT -eq 0 ] && echo true || echo false),\"demo_fails_with_patch\":$([ $WITH -ne 0 ] && echo true || echo false),\"packages_tested\":\"$TOUCHED $PKG\",\"demo\":\"go test -run $RUN $PKG\"}"
[ $TESTS -ne 0 ] && tail -15 "$WT/tests.log"
exit 0
