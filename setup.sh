#!/bin/bash
# MANIFEST.setup_cmd: build every check binary once (warms GOCACHE). Offline.
set -u
cd "$(dirname "$0")"
export GOFLAGS=-mod=mod GOPROXY=off
unset GOTOOLCHAIN GOSUMDB 2>/dev/null
mkdir -p bin evidence replay
cat /repo/go/go.sum go.sum.extra 2>/dev/null | sort -u > go.sum.$$ && mv go.sum.$$ go.sum
rc=0
for d in checks/*/; do
  p=$(basename "$d")
  RACE=""; [ -f "$d/RACE" ] && RACE="-race"
  if ! go build -tags verif $RACE -o "bin/$p" "./checks/$p"; then echo "setup: build of $p failed"; rc=1; fi
done
exit $rc
